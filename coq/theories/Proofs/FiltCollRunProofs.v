(* C22 — lemmas about the value-level model (Model/FiltCollRun.v): attribute paths,
   async variants, the start argument of sum. *)
From Coq Require Import List NArith ZArith Bool Lia.
Import ListNotations.
From JV Require Import Model.FiltColl Model.FiltCollRun Proofs.FiltCollProofs.

(* dots separate parts: "s1.s2" is the path of s1 followed by the path of s2 *)
Lemma split_on_app c : forall s1 cur s2,
  split_on c cur (s1 ++ c :: s2) = split_on c cur s1 ++ split_on c [] s2.
Proof.
  induction s1 as [|x r IH]; intros cur s2; cbn [app split_on].
  - rewrite N.eqb_refl. reflexivity.
  - destruct (x =? c)%N; cbn [app]; now rewrite IH.
Qed.

Lemma prepare_parts_dot s1 s2 :
  prepare_parts (AStr (s1 ++ 46%N :: s2)) = prepare_parts (AStr s1) ++ prepare_parts (AStr s2).
Proof. unfold prepare_parts. now rewrite split_on_app, map_app. Qed.

Definition bind {X Y} (r : res X) (f : X -> res Y) : res Y := match r with Ok x => f x | Err e => Err e end.

Lemma getter_go_app : forall p q d v,
  getter_go (p ++ q) d v = bind (getter_go p d v) (getter_go q d).
Proof.
  induction p as [|a p IH]; intros q d v; cbn [app getter_go bind]; [reflexivity|].
  destruct (getitem v a) as [it|e]; [|reflexivity]. apply IH.
Qed.

(* with a default, the result of a non-empty path is never undefined *)
Lemma getter_go_default : forall parts dv v r,
  parts <> [] -> is_undef dv = false ->
  getter_go parts (Some dv) v = Ok r -> is_undef r = false.
Proof.
  induction parts as [|p ps IH]; intros dv v r Hne Hdv H; [congruence|].
  cbn [getter_go] in H. destruct (getitem v p) as [it|e]; [|discriminate].
  destruct ps as [|p' ps'].
  - cbn [getter_go] in H. injection H as <-. destruct (is_undef it) eqn:E; assumption.
  - eapply IH; [discriminate|exact Hdv|exact H].
Qed.

(* a key that is present is found: nested dictionaries are traversed part by part *)
Lemma getitem_present ks vs p x : dict_get p ks vs = Some x -> getitem (VDict ks vs) p = Ok x.
Proof. intros H. cbn [getitem]. now rewrite H. Qed.

(* an integer part indexes a list *)
Lemma getitem_index l n x : nth_error l (N.to_nat n) = Some x -> getitem (VList l) (KI n) = Ok x.
Proof. intros H. cbn [getitem]. f_equal. now apply nth_error_nth. Qed.

(* the part of a path that is all digits is looked up as an integer *)
Lemma part_of_digits x : isdigit x = true -> part_of x = KI (int_of_digits x).
Proof. intros H. unfold part_of. now rewrite H. Qed.
Lemma part_of_name x : isdigit x = false -> part_of x = KS x.
Proof. intros H. unfold part_of. now rewrite H. Qed.

(* ------------------------------------------------------------------ async = sync *)
Definition res_map {X Y} (f : X -> Y) (r : res X) : res Y := match r with Ok x => Ok (f x) | Err e => Err e end.

Lemma res_map_plain (r : res value) :
  res_map fst (match r with Ok x => Ok (x, @None value) | Err e => Err e end) = r.
Proof. now destruct r. Qed.

(* same successful results, and they fail together (the exception may differ when both a getter
   and an addition fail: the async variant runs every getter before the first addition) *)
Definition res_sim {X} (r1 r2 : res X) : Prop :=
  match r1, r2 with Ok a, Ok b => a = b | Err _, Err _ => True | _, _ => False end.
Lemma res_sim_refl {X} (r : res X) : res_sim r r.
Proof. destruct r; cbn; auto. Qed.

Lemma sum_sim get : forall xs rv,
  res_sim (match mapM get xs with Ok vs => fold_add rv vs | Err e => Err e end) (sum_go get rv xs).
Proof.
  induction xs as [|x r IH]; intros rv; cbn [mapM sum_go fold_add]; [reflexivity|].
  destruct (get x) as [v|e]; [|exact I].
  destruct (mapM get r) as [vs|e] eqn:E.
  - cbn [fold_add]. destruct (vadd rv v) as [rv'|e]; [|exact I]. specialize (IH rv'). exact IH.
  - destruct (vadd rv v) as [rv'|e']; [|exact I]. specialize (IH rv'). cbn in IH.
    destruct (sum_go get rv' r); [contradiction|exact I].
Qed.

Definition is_sum (c : call) : bool := match c with CSum _ _ => true | _ => false end.

Lemma run_async_agrees_exact aug c v : is_sum c = false -> res_map fst (run_async aug c v) = run_sync c v.
Proof.
  intros Hs.
  destruct c as [n fill|n fill|cs a|r cs a|cs b r|a dflt cs|cs a|cs a|a start|d a|m|neg t a| | | | | ];
    try discriminate Hs; cbn [run_async]; try apply res_map_plain.
  - rewrite res_map_plain. cbn [run_sync]. unfold with_elems. destruct (elems v); [|reflexivity].
    now rewrite auto_to_list_id.
  - rewrite res_map_plain. cbn [run_sync]. unfold with_elems. destruct (elems v); [|reflexivity].
    now rewrite auto_to_list_id.
  - rewrite res_map_plain. cbn [run_sync]. unfold with_elems. destruct (elems v); [|reflexivity].
    now rewrite auto_to_list_id.
  - rewrite res_map_plain. cbn [run_sync]. unfold with_elems. destruct (elems v); [|reflexivity].
    now rewrite auto_to_list_id.
Qed.

Lemma run_async_agrees aug c v : res_sim (res_map fst (run_async aug c v)) (run_sync c v).
Proof.
  destruct (is_sum c) eqn:Hs; [|rewrite (run_async_agrees_exact aug c v Hs); apply res_sim_refl].
  destruct c as [n fill|n fill|cs a|r cs a|cs b r|a dflt cs|cs a|cs a|a start|d a|m|neg t a| | | | | ];
    try discriminate Hs. cbn [run_async run_sync]. unfold with_elems.
  destruct (elems v) as [l|e]; [|exact I].
  unfold f_sum_async, f_sum. destruct start as [z|s0| | |sl|dk dv]; try exact I;
    match goal with |- context [sum_go ?g ?st l] => pose proof (sum_sim g l st) as H end;
    destruct (mapM (sum_getter a) l) as [vals|e]; cbn in H |- *;
    try (destruct (fold_add _ vals); destruct (sum_go _ _ l); cbn in H |- *; auto; contradiction);
    destruct (sum_go _ _ l); cbn in H |- *; auto; contradiction.
Qed.

(* the caller's start object after async sum *)
Lemma sum_async_start aug a start xs rv start' :
  (aug = false \/ is_list start = false) ->
  f_sum_async aug a start xs = Ok (rv, start') -> start' = start.
Proof.
  intros H E. unfold f_sum_async in E.
  assert (Hc : aug && is_list start = false).
  { destruct H as [-> | ->]; [reflexivity|apply andb_false_r]. }
  rewrite Hc in E.
  destruct start; try discriminate E; destruct (mapM _ xs); try discriminate E;
    destruct (fold_add _ _); try discriminate E; now injection E as _ <-.
Qed.
