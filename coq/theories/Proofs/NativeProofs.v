From Coq Require Import List NArith Bool.
Import ListNotations.
From JV Require Import Model.Native Spec.NativeSpec.

Section Proofs.
  Variable L : Type.
  Variable literal_eval : str -> option L.
  Variable str_of : N -> str.
  Notation nc := (native_concat L literal_eval str_of).
  Notation eot := (eval_or_text L literal_eval).
  Notation jn := (join str_of).

  Lemma concat_refines : forall ps, nc ps = spec_native L literal_eval str_of ps.
  Proof.
    intros ps. destruct ps as [|p [|q r]]; [reflexivity| |].
    - destruct p as [s|o]; cbn; [rewrite app_nil_r|]; reflexivity.
    - destruct p; reflexivity.
  Qed.

  Lemma render_refines : forall a e ps, valid_entry a e = true ->
    native_render L literal_eval str_of a e ps = RVal (spec_native L literal_eval str_of ps).
  Proof.
    intros a e ps H. destruct e, a; cbn in *; try discriminate; rewrite concat_refines; reflexivity.
  Qed.

  Lemma native_single : forall a e o, valid_entry a e = true ->
    native_render L literal_eval str_of a e [PObj o] = RVal (NObj o).
  Proof. intros a e o H. rewrite (render_refines a e _ H). reflexivity. Qed.

  Lemma native_joined : forall a e ps, valid_entry a e = true -> ps <> [] -> single_object ps = None ->
    native_render L literal_eval str_of a e ps = RVal (eot (jn ps)).
  Proof.
    intros a e ps H Hne Hs. rewrite (render_refines a e _ H). unfold spec_native. rewrite Hs.
    destruct ps; [congruence|reflexivity].
  Qed.

  Lemma native_empty : forall a e, valid_entry a e = true ->
    native_render L literal_eval str_of a e [] = RVal NNone.
  Proof. intros a e H. rewrite (render_refines a e _ H). reflexivity. Qed.

  Lemma render_async_needs_async : forall ps,
    native_render L literal_eval str_of false RenderAsync ps = RRuntimeError.
  Proof. reflexivity. Qed.

  (* grouping adjacent constant outputs at compile time is unobservable *)
  Lemma join_group : forall ps, jn (group_consts ps) = jn ps.
  Proof.
    induction ps as [|p r IH]; [reflexivity|]. destruct p as [a|o]; cbn [group_consts].
    - destruct (group_consts r) as [|[b|o'] r'] eqn:E; cbn [join piece_str] in *; rewrite <- IH;
      rewrite <- ?app_assoc; reflexivity.
    - cbn [join]. rewrite IH. reflexivity.
  Qed.

  Lemma group_nil : forall ps, group_consts ps = [] -> ps = [].
  Proof.
    intros [|[a|o] r]; cbn; [reflexivity| |discriminate].
    destruct (group_consts r) as [|[b|o'] r']; discriminate.
  Qed.

  Lemma group_single_obj : forall ps o, group_consts ps = [PObj o] -> ps = [PObj o].
  Proof.
    intros [|[a|o'] r] o; cbn; [discriminate| |].
    - destruct (group_consts r) as [|[b|o''] r']; discriminate.
    - intros H. injection H as -> H. apply group_nil in H. subst. reflexivity.
  Qed.

  Lemma grouping_unobservable : forall ps, nc (group_consts ps) = nc ps.
  Proof.
    intros ps. rewrite !concat_refines. unfold spec_native.
    destruct (group_consts ps) as [|g gr] eqn:G.
    - apply group_nil in G. subst. reflexivity.
    - destruct ps as [|p r]; [discriminate|]. rewrite <- G.
      destruct (single_object (group_consts (p :: r))) as [o|] eqn:S1.
      + assert (X : group_consts (p :: r) = [PObj o]).
        { destruct (group_consts (p :: r)) as [|[s|o1] [|q t]]; cbn in S1; try discriminate. congruence. }
        apply group_single_obj in X. rewrite X. reflexivity.
      + destruct (single_object (p :: r)) as [o|] eqn:S2.
        * assert (X : p :: r = [PObj o]).
          { destruct p as [s|o1]; destruct r; cbn in S2; try discriminate. }
          rewrite X in S1. cbn in S1. discriminate.
        * rewrite join_group. reflexivity.
  Qed.
End Proofs.
