(* Non-interference of renders (C29, C37). *)
From Coq Require Import List NArith Bool Lia.
Import ListNotations.
From JV Require Import Model.Frames Model.FramesSched Proofs.FramesProofs.

Section NI.
  Variable G : loc -> heap -> N.
  (* the value a cache is meant to hold is a function of the read-only regions *)
  Hypothesis G_ro : forall c h1 h2, (forall l, ro l = true -> h1 l = h2 l) -> G c h1 = G c h2.

  Definition agree_ro (h1 h2 : heap) : Prop := forall l, ro l = true -> h1 l = h2 l.
  (* every cache cell is empty or holds the value it is meant to hold *)
  Definition cache_inv (h : heap) : Prop := forall c, is_cache c = true -> h c = 0%N \/ h c = G c h.
  (* two heaps a render cannot tell apart as far as shared state goes *)
  Definition sim (h1 h2 : heap) : Prop := agree_ro h1 h2 /\ cache_inv h1 /\ cache_inv h2.

  (* a step's value function looks at shared state only through the read-only regions and
     through read-through caches (and at private state only through its own view) *)
  Definition oblivious (st : pstep) : Prop :=
    match st with
    | PPriv _ f | PData _ f | PCacheWrite _ f => forall v h1 h2, sim h1 h2 -> f v h1 = f v h2
    | PFill _ => True
    end.
  Definition sched_oblivious (s : list (N * pstep)) : Prop := Forall (fun ts => oblivious (snd ts)) s.

  Lemma upd_same h l v : upd h l v l = v.
  Proof. unfold upd. now rewrite (proj2 (loc_eqb_eq l l) eq_refl). Qed.
  Lemma upd_other h l v l' : l' <> l -> upd h l v l' = h l'.
  Proof. unfold upd. intros Hn. destruct (loc_eqb l' l) eqn:E; [|reflexivity]. apply loc_eqb_eq in E. contradiction. Qed.

  Lemma upd_ro h l v : ro l = false -> forall l', ro l' = true -> upd h l v l' = h l'.
  Proof. intros Hl l' Hl'. apply upd_other. intros ->. congruence. Qed.

  Lemma G_upd h l v c : ro l = false -> G c (upd h l v) = G c h.
  Proof. intros Hl. apply G_ro. intros l' Hl'. now apply upd_ro. Qed.

  Lemma ro_priv rid n : ro (PerRender rid, n) = false. Proof. reflexivity. Qed.
  Lemma cache_priv rid n : is_cache (PerRender rid, n) = false. Proof. reflexivity. Qed.
  Lemma cache_not_ro c : is_cache c = true -> ro c = false.
  Proof. unfold is_cache, ro. destruct (fst c); intros H; try discriminate; reflexivity. Qed.

  (* a write outside the read-only and cache regions keeps the cache invariant *)
  Lemma cache_inv_upd_priv h l v : ro l = false -> is_cache l = false -> cache_inv h -> cache_inv (upd h l v).
  Proof.
    intros R C I c Hc. rewrite (G_upd h l v c R). rewrite upd_other; [exact (I c Hc)|]. intros ->. congruence.
  Qed.

  Lemma cache_inv_fill h c : is_cache c = true -> cache_inv h -> cache_inv (fill G h c).
  Proof.
    intros Hc I c' Hc'. unfold fill. pose proof (cache_not_ro c Hc) as R. rewrite (G_upd h c _ c' R).
    destruct (loc_eqb c' c) eqn:E.
    - apply loc_eqb_eq in E. subst c'. rewrite upd_same. destruct (N.eqb (h c) 0) eqn:Z; [now right|exact (I c Hc)].
    - rewrite upd_other; [exact (I c' Hc')|]. intros ->. rewrite (proj2 (loc_eqb_eq c c) eq_refl) in E. discriminate.
  Qed.

  (* one step of any render (within the footprint) keeps: read-only regions, cache invariant *)
  Lemma exec_ro h ts : step_footprint_ok (snd ts) = true -> forall l, ro l = true -> exec G h ts l = h l.
  Proof.
    destruct ts as [rid st]. cbn [snd fst]. intros F l Hl. unfold exec. cbn [fst snd]. destruct st as [n f|c|n f|c f]; cbn in F.
    - now apply upd_ro.
    - unfold fill. apply upd_ro; [|exact Hl]. now apply cache_not_ro.
    - discriminate.
    - discriminate.
  Qed.

  Lemma exec_cache_inv h ts : step_footprint_ok (snd ts) = true -> cache_inv h -> cache_inv (exec G h ts).
  Proof.
    destruct ts as [rid st]. cbn [snd]. intros F I. unfold exec. cbn [fst snd]. destruct st as [n f|c|n f|c f]; cbn in F.
    - apply cache_inv_upd_priv; [reflexivity|reflexivity|exact I].
    - now apply cache_inv_fill.
    - discriminate.
    - discriminate.
  Qed.

  Lemma sim_exec_left h h' ts : step_footprint_ok (snd ts) = true -> sim h h' -> sim (exec G h ts) h'.
  Proof.
    intros F [A [I I']]. split; [|split].
    - intros l Hl. rewrite (exec_ro h ts F l Hl). exact (A l Hl).
    - now apply exec_cache_inv.
    - exact I'.
  Qed.
  Lemma sim_sym h h' : sim h h' -> sim h' h.
  Proof. intros [A [I I']]. split; [|split]; [intros l Hl; symmetry; exact (A l Hl)|exact I'|exact I]. Qed.
  Lemma sim_exec_both h h' ts ts' :
    step_footprint_ok (snd ts) = true -> step_footprint_ok (snd ts') = true -> sim h h' -> sim (exec G h ts) (exec G h' ts').
  Proof. intros F F' S. apply sim_exec_left; [exact F|]. apply sim_sym. apply sim_exec_left; [exact F'|]. now apply sim_sym. Qed.

  Definition own_eq (a b : N) (h h' : heap) : Prop := forall n, h (PerRender a, n) = h' (PerRender b, n).

  Lemma own_ext a b h h' : own_eq a b h h' -> forall (f : view -> heap -> N) x, f (own a h) x = f (own b h') x -> True.
  Proof. trivial. Qed.

  (* the private view as a function is only ever used pointwise; we keep steps extensional in it *)
  Definition view_ext (st : pstep) : Prop :=
    match st with
    | PPriv _ f | PData _ f | PCacheWrite _ f => forall v1 v2 h, (forall n, v1 n = v2 n) -> f v1 h = f v2 h
    | PFill _ => True
    end.

  (* the same step run by render a on h and by render b on h' *)
  Lemma step_both a b h h' st :
    step_footprint_ok st = true -> oblivious st -> view_ext st -> sim h h' -> own_eq a b h h' ->
    sim (exec G h (a, st)) (exec G h' (b, st)) /\ own_eq a b (exec G h (a, st)) (exec G h' (b, st)).
  Proof.
    intros F O V S E. split; [now apply sim_exec_both|].
    intros n. unfold exec. cbn [fst snd]. destruct st as [m f|c|m f|c f]; cbn in F; try discriminate.
    - assert (Hv : f (own a h) h = f (own b h') h').
      { rewrite (V (own a h) (own b h') h (fun k => E k)). exact (O (own b h') h h' S). }
      destruct (N.eqb n m) eqn:Enm.
      + apply N.eqb_eq in Enm. subst m. rewrite !upd_same. exact Hv.
      + apply N.eqb_neq in Enm. rewrite !upd_other by congruence. exact (E n).
    - unfold fill. rewrite !upd_other; [exact (E n)| |]; intros Hc; rewrite <- Hc in F; discriminate.
  Qed.

  (* a step of another render, run on one side only, is invisible to render a *)
  Lemma step_other a b h h' st :
    a <> b -> step_footprint_ok st = true -> sim h h' -> own_eq a a h h' ->
    sim (exec G h (b, st)) h' /\ own_eq a a (exec G h (b, st)) h'.
  Proof.
    intros Ne F S E. split; [now apply sim_exec_left|].
    intros n. unfold exec. cbn [fst snd]. destruct st as [m f|c|m f|c f]; cbn in F; try discriminate.
    - rewrite upd_other; [exact (E n)|]. intros H. injection H as H1 _. contradiction.
    - unfold fill. rewrite upd_other; [exact (E n)|]. intros Hc. rewrite <- Hc in F. discriminate.
  Qed.

  Definition sched_ok (s : list (N * pstep)) : Prop :=
    footprint_ok s = true /\ sched_oblivious s /\ Forall (fun ts => view_ext (snd ts)) s.

  Lemma sched_ok_cons ts s : sched_ok (ts :: s) ->
    step_footprint_ok (snd ts) = true /\ oblivious (snd ts) /\ view_ext (snd ts) /\ sched_ok s.
  Proof.
    intros [F [O V]]. cbn in F. apply andb_true_iff in F as [F1 F2]. inversion O; subst. inversion V; subst.
    repeat split; assumption.
  Qed.

  (* main simulation: whatever the interleaving, render a sees what it sees when run alone *)
  Lemma interleave_sim a s : forall h h',
    sched_ok s -> sim h h' -> own_eq a a h h' ->
    sim (run_sched G s h) (run_sched G (only a s) h') /\ own_eq a a (run_sched G s h) (run_sched G (only a s) h').
  Proof.
    induction s as [|[b st] s IH]; intros h h' K S E; [split; assumption|].
    apply sched_ok_cons in K as [F [O [V K]]]. cbn [snd] in *.
    unfold run_sched, only. cbn [fold_left filter fst]. destruct (N.eqb b a) eqn:Eb.
    - apply N.eqb_eq in Eb. subst b. cbn [fold_left].
      destruct (step_both a a h h' st F O V S E) as [S' E']. exact (IH _ _ K S' E').
    - apply N.eqb_neq in Eb.
      destruct (step_other a b h h' st (fun x => Eb (eq_sym x)) F S E) as [S' E']. exact (IH _ _ K S' E').
  Qed.

  Lemma sim_refl h : cache_inv h -> sim h h.
  Proof. intros I. split; [|split]; [intros l _; reflexivity|exact I|exact I]. Qed.

  Theorem noninterference a s h :
    sched_ok s -> cache_inv h ->
    (forall n, run_sched G s h (PerRender a, n) = run_sched G (only a s) h (PerRender a, n)).
  Proof.
    intros K I. exact (proj2 (interleave_sim a s h h K (sim_refl h I) (fun n => eq_refl))).
  Qed.

  Theorem inputs_unchanged s : forall h, footprint_ok s = true -> forall l, ro l = true -> run_sched G s h l = h l.
  Proof.
    induction s as [|ts s IH]; intros h F l Hl; [reflexivity|].
    cbn in F. apply andb_true_iff in F as [F1 F2]. unfold run_sched. cbn [fold_left].
    fold (run_sched G s (exec G h ts)). rewrite (IH _ F2 l Hl). exact (exec_ro h ts F1 l Hl).
  Qed.

  Theorem caches_fill_once s : forall h, footprint_ok s = true -> cache_inv h -> cache_inv (run_sched G s h).
  Proof.
    induction s as [|ts s IH]; intros h F I; [exact I|].
    cbn in F. apply andb_true_iff in F as [F1 F2]. unfold run_sched. cbn [fold_left].
    apply (IH _ F2). now apply exec_cache_inv.
  Qed.

  (* the value found in a cache cell after any schedule is the one computed from the initial
     read-only regions: racing fills store equal values *)
  Corollary cache_value s h c : footprint_ok s = true -> cache_inv h -> is_cache c = true ->
    run_sched G s h c = 0%N \/ run_sched G s h c = G c h.
  Proof.
    intros F I Hc. destruct (caches_fill_once s h F I c Hc) as [Z|V]; [now left|right].
    rewrite V. apply G_ro. intros l Hl. exact (inputs_unchanged s h F l Hl).
  Qed.

  (* the same program run under two ids from indistinguishable states gives the same private result *)
  Lemma same_program a b p : forall h h',
    sched_ok (tag a p) -> sim h h' -> own_eq a b h h' ->
    sim (run_sched G (tag a p) h) (run_sched G (tag b p) h') /\ own_eq a b (run_sched G (tag a p) h) (run_sched G (tag b p) h').
  Proof.
    induction p as [|st p IH]; intros h h' K S E; [split; assumption|].
    unfold tag in K. cbn [map] in K. apply sched_ok_cons in K as [F [O [V K]]]. cbn [snd] in *.
    unfold run_sched, tag. cbn [map fold_left].
    destruct (step_both a b h h' st F O V S E) as [S' E']. exact (IH _ _ K S' E').
  Qed.

  Lemma only_tag_same a p : only a (tag a p) = tag a p.
  Proof. unfold only, tag. induction p as [|st p IH]; [reflexivity|]. cbn. rewrite N.eqb_refl. now rewrite IH. Qed.
  Lemma only_tag_other a b p : a <> b -> only a (tag b p) = [].
  Proof.
    intros Ne. unfold only, tag. induction p as [|st p IH]; [reflexivity|]. cbn.
    destruct (N.eqb b a) eqn:E; [apply N.eqb_eq in E; congruence|exact IH].
  Qed.
  Lemma only_app a s1 s2 : only a (s1 ++ s2) = only a s1 ++ only a s2.
  Proof. unfold only. apply filter_app. Qed.

  Lemma sched_ok_app s1 s2 : sched_ok s1 -> sched_ok s2 -> sched_ok (s1 ++ s2).
  Proof.
    intros [F1 [O1 V1]] [F2 [O2 V2]]. split; [|split].
    - unfold footprint_ok in *. rewrite forallb_app. now rewrite F1, F2.
    - apply Forall_app. now split.
    - apply Forall_app. now split.
  Qed.

  Lemma sched_ok_retag a b p : sched_ok (tag a p) -> sched_ok (tag b p).
  Proof.
    unfold sched_ok, footprint_ok, sched_oblivious, tag. rewrite !Forall_map. cbn [snd].
    intros [F [O V]]. split; [|split; assumption].
    clear O V. induction p as [|st p IH]; [reflexivity|]. cbn in *. apply andb_true_iff in F as [F1 F2].
    now rewrite F1, (IH F2).
  Qed.

  (* rendering the same program again (new id b, fresh private region equal to a's initial one),
     after the first render and after any other renders, gives the same result *)
  Theorem repeatable a b p (others : list (N * pstep)) h :
    a <> b -> sched_ok (tag a p) -> sched_ok others -> only b others = [] -> cache_inv h ->
    own_eq a b h h ->
    forall n, run_sched G (tag a p ++ others ++ tag b p) h (PerRender b, n) = run_sched G (tag a p) h (PerRender a, n).
  Proof.
    intros Ne Ka Ko Hob I E n.
    assert (K : sched_ok (tag a p ++ others ++ tag b p)).
    { apply sched_ok_app; [exact Ka|]. apply sched_ok_app; [exact Ko|]. exact (sched_ok_retag a b p Ka). }
    rewrite (noninterference b _ h K I n).
    rewrite !only_app, (only_tag_other b a p (fun x => Ne (eq_sym x))), Hob, only_tag_same. cbn [app].
    symmetry. exact (proj2 (same_program a b p h h Ka (sim_refl h I) E) n).
  Qed.
End NI.
