(* The properties of the visit_For skeleton, for every configuration: the configuration space is
   finite (eight booleans), each property is decided on all 256 traces by vm_compute and lifted. *)
From Coq Require Import List Bool Arith.
Import ListNotations.
From JV Require Import Model.LoopGen Spec.LoopGenSpec.

Lemma both_spec : forall f, both f = true -> forall b, f b = true.
Proof. intros f H b. unfold both in H. apply andb_true_iff in H. destruct b; tauto. Qed.

Lemma lift : forall (chk : cfg -> list ev -> bool),
  all_cfg (fun c => chk c (for_trace c)) = true -> forall c, chk c (for_trace c) = true.
Proof.
  intros chk H [a b c d e f g h]. unfold all_cfg in H.
  exact (both_spec _ (both_spec _ (both_spec _ (both_spec _ (both_spec _ (both_spec _ (both_spec _ (both_spec _ H a) b) c) d) e) f) g) h).
Qed.

Lemma indicator_all : forall c, check_indicator c (for_trace c) = true.
Proof. refine (lift _ _). vm_compute. reflexivity. Qed.
Lemma body_all : forall c, check_body c (for_trace c) = true.
Proof. refine (lift _ _). vm_compute. reflexivity. Qed.
Lemma else_flag_all : forall c, check_else_flag c (for_trace c) = true.
Proof. refine (lift _ _). vm_compute. reflexivity. Qed.
Lemma frames_all : forall c, check_frames c (for_trace c) = true.
Proof. refine (lift _ _). vm_compute. reflexivity. Qed.
Lemma extended_all : forall c, check_extended c (for_trace c) = true.
Proof. refine (lift _ _). vm_compute. reflexivity. Qed.
Lemma async_filter_all : forall c, check_async_filter c (for_trace c) = true.
Proof. refine (lift _ _). vm_compute. reflexivity. Qed.
Lemma balanced_all : forall c, check_balanced c (for_trace c) = true.
Proof. refine (lift _ _). vm_compute. reflexivity. Qed.
