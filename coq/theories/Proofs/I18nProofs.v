From Coq Require Import List NArith ZArith Bool Lia.
From JV Require Import Model.EscMarkup Model.I18nModel Proofs.EscMarkupProofs.
Import ListNotations.
Open Scope N_scope.

Definition omap_app (s : str) (o : option str) : option str :=
  match o with Some x => Some (s ++ x) | None => None end.

Lemma fmt_escaped_text : forall vars s rest,
  fmt_go SNorm vars (escape_percent s ++ rest) = omap_app s (fmt_go SNorm vars rest).
Proof.
  intros vars s rest. induction s as [|c r IH].
  - cbn. destruct (fmt_go SNorm vars rest); reflexivity.
  - unfold escape_percent in *. cbn [replace1]. destruct (c =? PCT) eqn:E.
    + apply N.eqb_eq in E. subst c. cbn [app fmt_go]. change (PCT =? PCT) with true. cbv iota.
      rewrite IH. destruct (fmt_go SNorm vars rest); reflexivity.
    + cbn [app fmt_go]. rewrite E. rewrite IH. destruct (fmt_go SNorm vars rest); reflexivity.
Qed.

Theorem percent_roundtrip : forall text vars, pyformat (escape_percent text) vars = Some text.
Proof.
  intros text vars. unfold pyformat. rewrite <- (app_nil_r (escape_percent text)).
  rewrite fmt_escaped_text. cbn. now rewrite app_nil_r.
Qed.

Definition no_rpar (nm : str) : bool := forallb (fun c => negb (c =? RPAR)) nm.

Lemma fmt_name : forall vars nm acc rest, no_rpar nm = true ->
  fmt_go (SName acc) vars (nm ++ RPAR :: rest) = fmt_go (SConv (rev acc ++ nm)) vars rest.
Proof.
  intros vars nm. induction nm as [|c r IH]; intros acc rest H.
  - cbn [app fmt_go]. change (RPAR =? RPAR) with true. cbv iota. now rewrite app_nil_r.
  - cbn [no_rpar forallb] in H. apply andb_true_iff in H as [H1 H2]. apply negb_true_iff in H1.
    cbn [app fmt_go]. rewrite H1. rewrite (IH (c :: acc) rest H2). cbn [rev]. now rewrite <- app_assoc.
Qed.

Lemma fmt_var : forall vars nm rest, no_rpar nm = true ->
  fmt_go SNorm vars (piece_fmt (PVar nm) ++ rest) =
  match slookup nm vars with Some v => omap_app v (fmt_go SNorm vars rest) | None => None end.
Proof.
  intros vars nm rest H. cbn [piece_fmt app fmt_go].
  change (PCT =? PCT) with true. cbv iota. change (LPAR =? PCT) with false. cbv iota.
  change (LPAR =? LPAR) with true. cbv iota.
  rewrite <- app_assoc. cbn [app]. rewrite (fmt_name vars nm [] (CH_s :: rest) H). cbn [rev app fmt_go].
  change (CH_s =? CH_s) with true. cbv iota.
  destruct (slookup nm vars); [|reflexivity]. destruct (fmt_go SNorm vars rest); reflexivity.
Qed.

Definition name_ok (p : piece) : bool := match p with PText _ => true | PVar nm => no_rpar nm end.
Definition names_ok (b : list piece) : bool := forallb name_ok b.
Definition text_only (b : list piece) : bool :=
  forallb (fun p => match p with PText _ => true | PVar _ => false end) b.

Theorem fmt_block : forall vars b, names_ok b = true -> pyformat (parse_block b) vars = subst vars b.
Proof.
  intros vars b. unfold pyformat, parse_block. induction b as [|p r IH]; intros H; [reflexivity|].
  cbn [names_ok forallb] in H. apply andb_true_iff in H as [Hp Hr]. specialize (IH Hr).
  cbn [map concat subst]. destruct p as [s|nm].
  - cbn [piece_fmt piece_subst]. rewrite fmt_escaped_text, IH. destruct (subst vars r); reflexivity.
  - rewrite (fmt_var vars nm _ Hp). cbn [piece_subst]. rewrite IH.
    destruct (slookup nm vars); [|reflexivity]. destruct (subst vars r); reflexivity.
Qed.

Lemma undouble_go : forall t, replace_go [PCT; PCT] [PCT] O (escape_percent t) = t.
Proof.
  induction t as [|c r IH]; [reflexivity|]. unfold escape_percent in *. cbn [replace1].
  destruct (c =? PCT) eqn:E.
  - apply N.eqb_eq in E. subst c. cbn [app]. cbn [replace_go is_prefix length pred].
    change (PCT =? PCT) with true. cbn [andb]. cbv iota. cbn [app]. f_equal. exact IH.
  - cbn [app]. cbn [replace_go is_prefix]. rewrite N.eqb_sym, E. cbn [andb]. cbv iota. f_equal. exact IH.
Qed.

Theorem undouble_escape : forall t, undouble (escape_percent t) = t.
Proof. intros t. unfold undouble, str_replace. apply undouble_go. Qed.

Lemma escape_percent_app : forall a b, escape_percent (a ++ b) = escape_percent a ++ escape_percent b.
Proof. intros. apply replace1_app. Qed.

Fixpoint block_text (b : list piece) : str :=
  match b with [] => [] | PText s :: r => s ++ block_text r | PVar _ :: r => block_text r end.

Lemma parse_text_only : forall b, text_only b = true -> parse_block b = escape_percent (block_text b).
Proof.
  induction b as [|p r IH]; intros H; [reflexivity|].
  cbn [text_only forallb] in H. apply andb_true_iff in H as [Hp Hr]. destruct p as [s|nm]; [|discriminate].
  unfold parse_block in *. cbn [map concat piece_fmt block_text]. rewrite escape_percent_app. now rewrite (IH Hr).
Qed.

Lemma subst_text_only : forall vars b, text_only b = true -> subst vars b = Some (block_text b).
Proof.
  intros vars. induction b as [|p r IH]; intros H; [reflexivity|].
  cbn [text_only forallb] in H. apply andb_true_iff in H as [Hp Hr]. destruct p as [s|nm]; [|discriminate].
  cbn [subst piece_subst block_text]. now rewrite (IH Hr).
Qed.

(* a block without plural, not trimmed: identity translation renders the block text with the
   variables substituted, values escaped exactly when autoescaping is on *)
Theorem trans_renders : forall st ae ctx sing vars,
  names_ok sing = true -> (vars = [] -> text_only sing = true) ->
  render_trans st ae false ctx sing None None vars
  = subst (vals ae (final_vars st ctx None vars)) sing.
Proof.
  intros st ae ctx sing vars Hn Ht. unfold render_trans, trans_call, msg_of, fmt_of. cbn [c_plur c_sing].
  destruct st.
  - destruct vars as [|v vs].
    + specialize (Ht eq_refl). cbn [final_vars render_msg vals map].
      rewrite (parse_text_only sing Ht), undouble_escape. now rewrite subst_text_only.
    + cbn [final_vars render_msg]. now apply fmt_block.
  - unfold render_msg. now apply fmt_block.
Qed.

Theorem plural_choice : forall st ae ctx sing pl one numtxt vars,
  names_ok sing = true -> names_ok pl = true -> vars <> [] ->
  render_trans st ae false ctx sing (Some pl) (Some (one, numtxt)) vars
  = subst (vals ae (final_vars st ctx (Some numtxt) vars)) (if one then sing else pl).
Proof.
  intros st ae ctx sing pl one numtxt vars Hs Hp Hv. unfold render_trans, trans_call, msg_of, fmt_of.
  cbn [c_plur c_sing]. destruct st.
  - destruct vars as [|v vs]; [now elim Hv|]. cbn [final_vars render_msg]. unfold choose.
    destruct one; now apply fmt_block.
  - unfold render_msg, choose. destruct one; now apply fmt_block.
Qed.

Theorem extraction_covers : forall t c, In c (runtime_calls t) -> In c (extracted t).
Proof.
  intros t c H. unfold runtime_calls, extracted in *. apply in_map_iff in H as [[b c'] [E Hin]].
  cbn in E. subst c'. apply filter_In in Hin as [Hin _]. apply in_map_iff. exists (b, c). split; [reflexivity|exact Hin].
Qed.

(* under autoescape every substituted value is the escaped value *)
Lemma vals_autoescape : forall vars k v, In (k, v) vars -> In (k, esc_str v) (vals true vars).
Proof. intros vars k v H. unfold vals. apply in_map_iff. exists (k, v). split; [reflexivity|exact H]. Qed.
