(* C12 lemmas: the lexer's text stripping (OptionalLStrip branch) and end-of-tag alternation
   compute the documented rules of Spec/LexTrimSpec.v, for every text; only whitespace is
   ever removed. *)
From Coq Require Import List NArith Bool Arith Lia.
Import ListNotations.
From JV Require Import Model.LexBase Model.LexTokeniter Spec.LexTrimSpec Proofs.LexInv.
Open Scope N_scope.

(* ------------------------------------------------------------------ rstrip / line tail *)
Lemma rstrip_n_zero : forall t, rstrip_n t = 0%nat <-> forallb is_space t = true.
Proof.
  induction t as [|c r IH]; [cbn; tauto|]. cbn [rstrip_n forallb].
  destruct (rstrip_n r) as [|k] eqn:E.
  - destruct (is_space c); cbn [andb]; [tauto|]. split; [discriminate|]. discriminate.
  - split; [discriminate|]. intros H. apply andb_true_iff in H as [_ H]. apply IH in H. discriminate.
Qed.

Lemma rstrip_n_spec : forall t, firstn (rstrip_n t) t = rstrip_spec t.
Proof.
  induction t as [|c r IH]; [reflexivity|]. cbn [rstrip_n rstrip_spec forallb].
  destruct (rstrip_n r) as [|k] eqn:E.
  - assert (Hr : forallb is_space r = true) by (apply rstrip_n_zero; exact E).
    rewrite Hr. destruct (is_space c); cbn [andb firstn]; [reflexivity|].
    cbn [firstn] in IH. rewrite <- IH. reflexivity.
  - assert (Hr : forallb is_space r = false).
    { destruct (forallb is_space r) eqn:F; [|reflexivity]. apply rstrip_n_zero in F. rewrite F in E. discriminate. }
    rewrite Hr, andb_false_r. change (firstn (S (S k)) (c :: r)) with (c :: firstn (S k) r). rewrite IH. reflexivity.
Qed.

Lemma after_last_nl_zero : forall t, after_last_nl t = 0%nat <-> has_nl t = false.
Proof.
  induction t as [|c r IH]; [cbn; tauto|]. unfold has_nl in *. cbn [after_last_nl existsb]. unfold is_nl at 1.
  destruct (after_last_nl r) as [|k] eqn:E.
  - assert (Hr : existsb is_nl r = false) by (apply IH; reflexivity). rewrite Hr, orb_false_r.
    destruct (c =? 10); split; try discriminate; reflexivity.
  - split; [discriminate|]. intros H. apply orb_false_iff in H as [_ H]. apply IH in H. discriminate.
Qed.

Lemma after_last_nl_spec : forall t, skipn (after_last_nl t) t = line_tail t.
Proof.
  induction t as [|c r IH]; [reflexivity|]. cbn [after_last_nl line_tail].
  destruct (after_last_nl r) as [|k] eqn:E.
  - assert (Hr : has_nl r = false) by (apply after_last_nl_zero; exact E).
    cbn [skipn] in IH. unfold has_nl in *. cbn [existsb]. rewrite Hr, orb_false_r. unfold is_nl.
    destruct (c =? 10); cbn [skipn]; [exact IH|reflexivity].
  - assert (Hr : has_nl r = true).
    { destruct (has_nl r) eqn:F; [reflexivity|]. apply after_last_nl_zero in F. rewrite F in E. discriminate. }
    unfold has_nl in *. cbn [existsb]. rewrite Hr, orb_true_r. cbn [skipn]. exact IH.
Qed.

Lemma after_last_nl_le : forall t, (after_last_nl t <= length t)%nat.
Proof. induction t as [|c r IH]; cbn [after_last_nl length]; [lia|]. destruct (after_last_nl r); [destruct (c =? 10)|]; lia. Qed.

Definition md_of (sg : sign) : md := match sg with SgNone => MNone | SgMinus => MMinus | SgPlus => MPlus end.

(* the left side of a tag: what the lexer keeps of the text in front of it is the documented rule *)
Lemma strip_text_left_rule : forall c sg var ls text k why nls,
  strip_text c sg var ls text = (k, why, nls) ->
  firstn k text = left_rule (c_lstrip c) (RTag (negb var) (md_of sg)) ls text.
Proof.
  intros c sg var ls text k why nls H. unfold strip_text in H. destruct sg; cbn [md_of left_rule].
  - destruct var; cbn [negb] in *.
    + rewrite andb_false_r in H. injection H as <- _ _. apply firstn_all.
    + rewrite andb_true_r in H. destruct (c_lstrip c); [|injection H as <- _ _; apply firstn_all].
      rewrite after_last_nl_spec in H.
      assert (Hnl : (0 <? after_last_nl text)%nat = has_nl text).
      { destruct (after_last_nl text) eqn:E.
        - symmetry. apply after_last_nl_zero. exact E.
        - destruct (has_nl text) eqn:F; [reflexivity|]. apply after_last_nl_zero in F. rewrite F in E. discriminate. }
      rewrite Hnl in H. rewrite <- andb_assoc.
      destruct (has_nl text || ls).
      * rewrite andb_true_r.
        destruct (nonempty (line_tail text) && forallb is_space (line_tail text)).
        -- injection H as <- _ _. f_equal. rewrite <- after_last_nl_spec, skipn_length.
           pose proof (after_last_nl_le text). lia.
        -- injection H as <- _ _. apply firstn_all.
      * rewrite !andb_false_r. injection H as <- _ _. apply firstn_all.
  - injection H as <- _ _. destruct (negb var); apply rstrip_n_spec.
  - injection H as <- _ _. destruct (negb var); apply firstn_all.
Qed.

(* ------------------------------------------------------------------ the right side of a tag *)
Lemma prefixb_app : forall e r, prefixb e (e ++ r) = true.
Proof. induction e as [|x e IH]; intros r; [reflexivity|]. cbn [prefixb app]. rewrite N.eqb_refl. apply IH. Qed.

Lemma skipn_app_len : forall (e r : str), skipn (length e) (e ++ r) = r.
Proof. induction e as [|x e IH]; intros r; [reflexivity|]. cbn [length app skipn]. apply IH. Qed.

Lemma skipn_add : forall (a b : nat) (l : str), skipn (a + b) l = skipn b (skipn a l).
Proof. induction a as [|a IH]; intros b l; [reflexivity|]. destruct l as [|x l]; cbn [Nat.add skipn]; [destruct b; reflexivity|apply IH]. Qed.

Lemma skipn_span_ws : forall r, skipn (span is_space r) r = drop_ws r.
Proof. induction r as [|c r IH]; [reflexivity|]. cbn [span drop_ws]. destruct (is_space c); cbn [skipn]; [exact IH|reflexivity]. Qed.

Definition head_not_sign (e : str) : bool :=
  match e with c :: _ => negb (c =? 43) && negb (c =? 45) | [] => false end.

(* after  [modifier] end-string  the lexer consumes exactly what the documented rule removes
   from the following text: everything for '-', one line break under trim_blocks, nothing for '+' *)
Lemma end_alts_right_rule : forall trimnl e m rest,
  head_not_sign e = true ->
  exists n, end_alts true trimnl e (md_str m ++ e ++ rest) = Some n /\
            skipn n (md_str m ++ e ++ rest) = right_rule trimnl (LTag true m) rest.
Proof.
  intros trimnl e m rest He. destruct e as [|x e]; [discriminate|]. cbn [head_not_sign] in He.
  apply andb_true_iff in He as [H43 H45]. apply negb_true_iff in H43. apply negb_true_iff in H45.
  destruct m; cbn [md_str app right_rule].
  - (* no modifier *)
    unfold end_alts. rewrite H43, H45. cbn [andb].
    change (x :: e ++ rest) with ((x :: e) ++ rest). rewrite prefixb_app.
    eexists. split; [reflexivity|]. rewrite skipn_app_len.
    rewrite skipn_add, skipn_app_len.
    destruct trimnl; [|reflexivity]. unfold nl_head, drop_one_nl.
    destruct rest as [|c r]; [reflexivity|]. destruct (c =? 10); reflexivity.
  - (* '-' *)
    unfold end_alts. cbn [andb]. change (45 =? 43) with false. cbn [andb]. rewrite N.eqb_refl.
    change (x :: e ++ rest) with ((x :: e) ++ rest). rewrite prefixb_app. cbn [andb].
    eexists. split; [reflexivity|]. rewrite skipn_app_len.
    cbn [skipn]. rewrite skipn_add, skipn_app_len. apply skipn_span_ws.
  - (* '+' *)
    unfold end_alts. cbn [andb]. rewrite N.eqb_refl.
    change (x :: e ++ rest) with ((x :: e) ++ rest). rewrite prefixb_app. cbn [andb].
    eexists. split; [reflexivity|]. cbn [skipn]. apply skipn_app_len.
Qed.

(* ------------------------------------------------------------------ only whitespace is removed *)
Fixpoint tok_texts (l : list item) : str :=
  match l with
  | [] => []
  | ITok _ _ v _ :: r => v ++ tok_texts r
  | IGap _ _ :: r => tok_texts r
  end.

Definition visible (s : str) : str := filter (fun c => negb (is_space c)) s.

Lemma visible_ws : forall g, forallb is_space g = true -> visible g = [].
Proof.
  induction g as [|c r IH]; intros H; [reflexivity|]. cbn [forallb] in H. apply andb_true_iff in H as [H1 H2].
  unfold visible in *. cbn [filter]. rewrite H1. cbn [negb]. apply IH. exact H2.
Qed.

Lemma visible_app : forall a b, visible (a ++ b) = visible a ++ visible b.
Proof. intros a b. unfold visible. apply filter_app. Qed.

Lemma visible_texts : forall c its, gaps_ok c its -> visible (texts its) = visible (tok_texts its).
Proof.
  intros c its. induction its as [|i r IH]; intros H; [reflexivity|].
  destruct i as [ln ty v p|g w]; cbn [texts item_text tok_texts gaps_ok] in *.
  - rewrite !visible_app, IH by exact H. reflexivity.
  - destruct H as [[Hg _] Hr]. rewrite visible_app, visible_ws by exact Hg. apply IH. exact Hr.
Qed.

(* whole-template check used by the enumerations *)
Definition trim_check (c : cfg) (sk : list seg) : bool :=
  match render_data c (unparse c sk) with
  | Some d => eqstr d (spec_trim (c_trim c) (c_lstrip c) [] sk)
  | None => false
  end.

Lemma eqstr_eq : forall a b, eqstr a b = true -> a = b.
Proof.
  induction a as [|x a IH]; intros [|y b] H; try discriminate; [reflexivity|].
  cbn [eqstr] in H. apply andb_true_iff in H as [H1 H2]. apply N.eqb_eq in H1. subst y. f_equal. apply IH. exact H2.
Qed.

Lemma trim_check_sound : forall c sk, trim_check c sk = true ->
  render_data c (unparse c sk) = Some (spec_trim (c_trim c) (c_lstrip c) [] sk).
Proof.
  intros c sk H. unfold trim_check in H. destruct (render_data c (unparse c sk)); [|discriminate].
  apply eqstr_eq in H. subst. reflexivity.
Qed.
