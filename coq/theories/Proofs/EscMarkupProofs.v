(* Lemmas about MarkupSafe's escape, unescape5, alignment of entities and Clean (C15/C16/C33). *)
From Coq Require Import List NArith Bool Lia.
From JV Require Import Model.EscMarkup.
Import ListNotations.
Open Scope N_scope.

(* ------------------------------------------------------------------ escape *)
Lemma replace1_app : forall c r a b, replace1 c r (a ++ b) = replace1 c r a ++ replace1 c r b.
Proof.
  intros c r a b. induction a as [|x a IH]; [reflexivity|].
  cbn [replace1 app]. rewrite IH. now rewrite app_assoc.
Qed.

Lemma replace1_single : forall c r x, replace1 c r [x] = if x =? c then r else [x].
Proof. intros c r x. cbn [replace1]. now rewrite app_nil_r. Qed.

Lemma escape_cons : forall x t, escape (x :: t) = escape_char x ++ escape t.
Proof.
  intros x t. unfold escape at 1.
  change (x :: t) with ([x] ++ t).
  rewrite !replace1_app. unfold escape. f_equal.
  rewrite replace1_single. unfold escape_char.
  destruct (x =? AMP) eqn:Ea; [reflexivity|].
  rewrite replace1_single.
  destruct (x =? GT) eqn:Eg.
  - apply N.eqb_eq in Eg. subst x. reflexivity.
  - rewrite replace1_single. destruct (x =? LT) eqn:El; [reflexivity|].
    rewrite replace1_single. destruct (x =? SQ) eqn:Es.
    + apply N.eqb_eq in Es. subst x. reflexivity.
    + rewrite replace1_single. destruct (x =? DQ) eqn:Ed; reflexivity.
Qed.

Lemma escape_flat : forall s, escape s = escape_spec s.
Proof.
  induction s as [|x t IH]; [reflexivity|].
  rewrite escape_cons, IH. reflexivity.
Qed.

Lemma escape_app : forall a b, escape (a ++ b) = escape a ++ escape b.
Proof. intros a b. rewrite !escape_flat. unfold escape_spec. now rewrite flat_map_app. Qed.

Lemma escape_nil_iff : forall s, escape s = [] <-> s = [].
Proof.
  intros s. split; [|intros ->; reflexivity].
  destruct s as [|x t]; [reflexivity|]. rewrite escape_cons. unfold escape_char.
  destruct (x =? AMP); [discriminate|]. destruct (x =? LT); [discriminate|].
  destruct (x =? GT); [discriminate|]. destruct (x =? DQ); [discriminate|].
  destruct (x =? SQ); discriminate.
Qed.

(* ------------------------------------------------------------------ unescape5 *)
Definition tails : list (str * N) := [(t_amp, AMP); (t_lt, LT); (t_gt, GT); (t_dq, DQ); (t_sq, SQ)].

Lemma unescape5_other : forall c r, c <> AMP -> unescape5 (c :: r) = c :: unescape5 r.
Proof. intros c r H. cbn [unescape5]. apply N.eqb_neq in H. now rewrite H. Qed.

(* left-to-right reading: an entity at the front decodes to its character *)
Lemma unescape5_ent : forall t ch r, In (t, ch) tails -> unescape5 (AMP :: t ++ r) = ch :: unescape5 r.
Proof.
  intros t ch r H. unfold tails in H. cbn [In] in H.
  destruct H as [H|[H|[H|[H|[H|[]]]]]]; injection H as <- <-; reflexivity.
Qed.

Lemma unescape_escape_char : forall c r, unescape5 (escape_char c ++ r) = c :: unescape5 r.
Proof.
  intros c r. unfold escape_char.
  destruct (c =? AMP) eqn:Ea.
  { apply N.eqb_eq in Ea. subst c. apply (unescape5_ent t_amp AMP). cbn; auto. }
  destruct (c =? LT) eqn:El.
  { apply N.eqb_eq in El. subst c. apply (unescape5_ent t_lt LT). cbn; auto. }
  destruct (c =? GT) eqn:Eg.
  { apply N.eqb_eq in Eg. subst c. apply (unescape5_ent t_gt GT). cbn; auto. }
  destruct (c =? DQ) eqn:Ed.
  { apply N.eqb_eq in Ed. subst c. apply (unescape5_ent t_dq DQ). cbn; auto 6. }
  destruct (c =? SQ) eqn:Es.
  { apply N.eqb_eq in Es. subst c. apply (unescape5_ent t_sq SQ). cbn; auto 7. }
  cbn [app]. apply unescape5_other. now apply N.eqb_neq.
Qed.

Theorem unescape_escape : forall s, unescape5 (escape s) = s.
Proof.
  intros s. rewrite escape_flat. induction s as [|c r IH]; [reflexivity|].
  cbn [escape_spec flat_map]. rewrite unescape_escape_char. f_equal. exact IH.
Qed.

(* every '&' starts one of the five entities *)
Inductive Aligned : str -> Prop :=
| al_nil : Aligned []
| al_other : forall c r, c <> AMP -> Aligned r -> Aligned (c :: r)
| al_ent : forall t ch r, In (t, ch) tails -> Aligned r -> Aligned (AMP :: t ++ r).

Theorem unescape_app_aligned : forall a b, Aligned a -> unescape5 (a ++ b) = unescape5 a ++ unescape5 b.
Proof.
  intros a b H. induction H as [|c r Hc Hr IH|t ch r Ht Hr IH].
  - reflexivity.
  - cbn [app]. rewrite !unescape5_other by assumption. now rewrite IH.
  - cbn [app]. rewrite <- app_assoc. rewrite !(unescape5_ent t ch) by assumption. now rewrite IH.
Qed.

Lemma aligned_app : forall a b, Aligned a -> Aligned b -> Aligned (a ++ b).
Proof.
  intros a b Ha Hb. induction Ha as [|c r Hc Hr IH|t ch r Ht Hr IH].
  - exact Hb.
  - cbn [app]. now constructor.
  - cbn [app]. rewrite <- app_assoc. now apply (al_ent t ch).
Qed.

Lemma aligned_escape_char : forall c r, Aligned r -> Aligned (escape_char c ++ r).
Proof.
  intros c r Hr. unfold escape_char.
  destruct (c =? AMP) eqn:Ea. { apply (al_ent t_amp AMP); [cbn; auto|exact Hr]. }
  destruct (c =? LT). { apply (al_ent t_lt LT); [cbn; auto|exact Hr]. }
  destruct (c =? GT). { apply (al_ent t_gt GT); [cbn; auto|exact Hr]. }
  destruct (c =? DQ). { apply (al_ent t_dq DQ); [cbn; auto 6|exact Hr]. }
  destruct (c =? SQ). { apply (al_ent t_sq SQ); [cbn; auto 7|exact Hr]. }
  cbn [app]. constructor; [now apply N.eqb_neq|exact Hr].
Qed.

Lemma aligned_escape : forall s, Aligned (escape s).
Proof.
  intros s. rewrite escape_flat. induction s as [|c r IH]; [constructor|].
  cbn [escape_spec flat_map]. now apply aligned_escape_char.
Qed.

Lemma aligned_amp_free : forall s, amp_free s = true -> Aligned s.
Proof.
  induction s as [|c r IH]; intros H; [constructor|].
  cbn [amp_free forallb] in H. apply andb_true_iff in H as [H1 H2].
  constructor; [|now apply IH]. apply N.eqb_neq. now apply negb_true_iff in H1.
Qed.

Lemma unescape5_amp_free : forall s, amp_free s = true -> unescape5 s = s.
Proof.
  induction s as [|c r IH]; intros H; [reflexivity|].
  cbn [amp_free forallb] in H. apply andb_true_iff in H as [H1 H2].
  rewrite unescape5_other; [now rewrite IH|]. apply N.eqb_neq. now apply negb_true_iff in H1.
Qed.

Lemma unescape5_nil_aligned : forall s, Aligned s -> unescape5 s = [] -> s = [].
Proof.
  intros s H. destruct H as [|c r Hc Hr|t ch r Ht Hr]; intros E; [reflexivity| |].
  - rewrite unescape5_other in E by assumption. discriminate.
  - rewrite (unescape5_ent t ch) in E by assumption. discriminate.
Qed.

(* ------------------------------------------------------------------ Clean *)
Lemma clean_app : forall a b, clean (a ++ b) = clean a && clean b.
Proof. intros a b. unfold clean. apply forallb_app. Qed.

Lemma Clean_app : forall a b, Clean a -> Clean b -> Clean (a ++ b).
Proof. unfold Clean. intros a b Ha Hb. rewrite clean_app, Ha, Hb. reflexivity. Qed.

Lemma Clean_app_inv : forall a b, Clean (a ++ b) -> Clean a /\ Clean b.
Proof. unfold Clean. intros a b H. rewrite clean_app in H. now apply andb_true_iff in H. Qed.

Lemma clean_escape_char : forall c, clean (escape_char c) = true.
Proof.
  intros c. unfold escape_char.
  destruct (c =? AMP); [reflexivity|].
  destruct (c =? LT) eqn:El; [reflexivity|].
  destruct (c =? GT) eqn:Eg; [reflexivity|].
  destruct (c =? DQ) eqn:Ed; [reflexivity|].
  destruct (c =? SQ) eqn:Es; [reflexivity|].
  unfold clean, metachar. cbn [forallb]. now rewrite El, Eg, Ed, Es.
Qed.

Theorem Clean_escape : forall s, Clean (escape s).
Proof.
  intros s. unfold Clean. rewrite escape_flat. induction s as [|c r IH]; [reflexivity|].
  cbn [escape_spec flat_map]. rewrite clean_app, clean_escape_char. exact IH.
Qed.

Lemma Clean_concat : forall ps, Forall Clean ps -> Clean (concat ps).
Proof.
  intros ps H. induction H as [|p r Hp Hr IH]; [reflexivity|]. cbn [concat]. now apply Clean_app.
Qed.

Lemma Clean_cons : forall c r, Clean (c :: r) <-> metachar c = false /\ Clean r.
Proof.
  intros c r. unfold Clean. cbn [clean forallb]. rewrite andb_true_iff, negb_true_iff. reflexivity.
Qed.

Lemma metachar_lower : forall c, metachar c = false -> metachar (lower_c c) = false.
Proof.
  intros c H. unfold lower_c. destruct ((65 <=? c) && (c <=? 90)) eqn:E; [|exact H].
  apply andb_true_iff in E as [E1 E2]. apply N.leb_le in E1, E2.
  unfold metachar, LT, GT, DQ, SQ.
  repeat match goal with |- context [?a =? ?b] => destruct (N.eqb_spec a b); [lia|] end. reflexivity.
Qed.

Lemma metachar_upper : forall c, metachar c = false -> metachar (upper_c c) = false.
Proof.
  intros c H. unfold upper_c. destruct ((97 <=? c) && (c <=? 122)) eqn:E; [|exact H].
  apply andb_true_iff in E as [E1 E2]. apply N.leb_le in E1, E2.
  unfold metachar, LT, GT, DQ, SQ.
  repeat match goal with |- context [?a =? ?b] => destruct (N.eqb_spec a b); [lia|] end. reflexivity.
Qed.

Lemma Clean_map : forall f, (forall c, metachar c = false -> metachar (f c) = false) ->
  forall s, Clean s -> Clean (map f s).
Proof.
  intros f Hf s. induction s as [|c r IH]; intros H; [reflexivity|].
  cbn [map]. apply Clean_cons in H as [H1 H2]. apply Clean_cons. split; [now apply Hf|now apply IH].
Qed.

Lemma Clean_lower : forall s, Clean s -> Clean (lower s).
Proof. exact (Clean_map lower_c metachar_lower). Qed.
Lemma Clean_upper : forall s, Clean s -> Clean (upper s).
Proof. exact (Clean_map upper_c metachar_upper). Qed.

Lemma Clean_replace_go : forall old new s skip, Clean new -> Clean s -> Clean (replace_go old new skip s).
Proof.
  intros old new s. induction s as [|c r IH]; intros skip Hn Hs; [reflexivity|].
  apply Clean_cons in Hs as [Hc Hr]. cbn [replace_go]. destruct skip as [|k].
  - destruct (is_prefix old (c :: r)).
    + apply Clean_app; [exact Hn|now apply IH].
    + apply Clean_cons. split; [exact Hc|now apply IH].
  - now apply IH.
Qed.

Lemma Clean_intersperse : forall new s, Clean new -> Clean s -> Clean (intersperse_all new s).
Proof.
  intros new s Hn. induction s as [|c r IH]; intros Hs; [exact Hn|].
  apply Clean_cons in Hs as [Hc Hr]. cbn [intersperse_all].
  apply Clean_app; [exact Hn|]. apply Clean_cons. split; [exact Hc|now apply IH].
Qed.

Lemma Clean_str_replace : forall s old new, Clean s -> Clean new -> Clean (str_replace s old new).
Proof.
  intros s old new Hs Hn. unfold str_replace. destruct old.
  - now apply Clean_intersperse.
  - now apply Clean_replace_go.
Qed.

Lemma Clean_join_str : forall sep items, Clean sep -> Forall Clean items -> Clean (join_str sep items).
Proof.
  intros sep items Hs H. induction H as [|x r Hx Hr IH]; [reflexivity|].
  cbn [join_str]. destruct r as [|y r']; [exact Hx|].
  apply Clean_app; [exact Hx|]. apply Clean_app; [exact Hs|exact IH].
Qed.

(* ------------------------------------------------------------------ tagged strings *)
Definition MkClean (v : tstr) : Prop := match v with Mk s => Clean s | Plain _ => True end.

Lemma Clean_esc_str : forall v, MkClean v -> Clean (esc_str v).
Proof. intros [s|s] H; cbn; [apply Clean_escape|exact H]. Qed.

Lemma MkClean_esc : forall v, MkClean v -> MkClean (esc v).
Proof. intros [s|s] H; cbn; [apply Clean_escape|exact H]. Qed.

Lemma MkClean_markup_join : forall seq, Forall MkClean seq -> MkClean (markup_join seq).
Proof.
  intros seq H. unfold markup_join. destruct (existsb is_mk seq); [|exact I].
  cbn. apply Clean_concat. induction H as [|v r Hv Hr IH]; constructor; [now apply Clean_esc_str|exact IH].
Qed.

Lemma MkClean_mk_add : forall a b, MkClean a -> MkClean b -> MkClean (mk_add a b).
Proof.
  intros a b Ha Hb. destruct a as [x|x], b as [y|y]; cbn [mk_add MkClean]; try exact I;
    (apply Clean_app; [now apply (Clean_esc_str (Plain _)) || exact Ha | now apply (Clean_esc_str (Plain _)) || exact Hb]).
Qed.

Lemma MkClean_mk_join : forall sep items, MkClean sep -> Forall MkClean items -> MkClean (mk_join sep items).
Proof.
  intros [s|s] items Hs H; cbn [mk_join MkClean]; [exact I|].
  apply Clean_join_str; [exact Hs|]. induction H as [|v r Hv Hr IH]; constructor; [now apply Clean_esc_str|exact IH].
Qed.

Lemma MkClean_mk_replace : forall s old new, MkClean s -> MkClean new -> MkClean (mk_replace s old new).
Proof.
  intros [x|x] old new Hs Hn; cbn [mk_replace MkClean]; [exact I|].
  apply Clean_str_replace; [exact Hs|now apply Clean_esc_str].
Qed.

Lemma MkClean_mk_mod : forall pyfmt,
  (forall f args, Clean f -> Forall Clean args -> Clean (pyfmt f args)) ->
  forall fmt args, MkClean fmt -> Forall MkClean args -> MkClean (mk_mod pyfmt fmt args).
Proof.
  intros pyfmt Hp [f|f] args Hf H; cbn [mk_mod MkClean]; [exact I|].
  apply Hp; [exact Hf|]. induction H as [|v r Hv Hr IH]; constructor; [now apply Clean_esc_str|exact IH].
Qed.

Lemma MkClean_mk_map : forall f, (forall s, Clean s -> Clean (f s)) -> forall v, MkClean v -> MkClean (mk_map f v).
Proof. intros f Hf [s|s] H; cbn; [exact I|now apply Hf]. Qed.

(* ------------------------------------------------------------------ lower and unescape5 *)
Lemma lower_c_amp : forall c, lower_c c = AMP <-> c = AMP.
Proof.
  intros c. unfold lower_c, AMP. destruct ((65 <=? c) && (c <=? 90)) eqn:E; [|reflexivity].
  apply andb_true_iff in E as [E1 E2]. apply N.leb_le in E1, E2. split; lia.
Qed.

Lemma lower_app : forall a b, lower (a ++ b) = lower a ++ lower b.
Proof. intros. unfold lower. apply map_app. Qed.

Lemma lower_tail : forall t ch, In (t, ch) tails -> lower t = t /\ lower_c ch = ch.
Proof.
  intros t ch H. unfold tails in H. cbn [In] in H.
  destruct H as [H|[H|[H|[H|[H|[]]]]]]; injection H as <- <-; split; reflexivity.
Qed.

Lemma lower_unescape_aligned : forall s, Aligned s ->
  Aligned (lower s) /\ unescape5 (lower s) = lower (unescape5 s).
Proof.
  intros s H. induction H as [|c r Hc Hr [IH1 IH2]|t ch r Ht Hr [IH1 IH2]].
  - split; [constructor|reflexivity].
  - assert (Hl : lower_c c <> AMP) by (intro E; apply (proj1 (lower_c_amp c)) in E; contradiction).
    cbn [lower map]. split.
    + constructor; assumption.
    + fold (lower r). rewrite !unescape5_other by assumption. cbn [lower map]. fold (lower r) (lower (unescape5 r)).
      now rewrite IH2.
  - destruct (lower_tail t ch Ht) as [Et Ec].
    change (AMP :: t ++ r) with ([AMP] ++ t ++ r). rewrite !lower_app, Et. cbn [lower map app].
    change (lower_c AMP) with AMP. fold (lower r). split.
    + now apply (al_ent t ch).
    + rewrite !(unescape5_ent t ch) by assumption. cbn [lower map]. fold (lower (unescape5 r)).
      now rewrite Ec, IH2.
Qed.
