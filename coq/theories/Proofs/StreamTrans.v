(* The term of Lib/PyGen that gen/stream_translate.py produces from TemplateStream._buffered_generator
   as the model was written against it, and the proof that its semantics is Stream.buffered_go for
   every piece list and every size >= 1 (size 0 would spin forever: enable_buffering refuses it). *)
From Coq Require Import List NArith Bool Arith Lia.
Import ListNotations.
From JV Require Import Model.Stream Lib.PyGen.

(*  def _buffered_generator(self, size):          v0 = size
        buf = []                                   v1
        c_size = 0                                 v2
        push = buf.append                          v3
        while True:
            try:
                while c_size < size:
                    c = next(self._gen)            v4
                    push(c)
                    if c:
                        c_size += 1
            except StopIteration:
                if not c_size:
                    return
            yield concat(buf)
            del buf[:]
            c_size = 0                                                                   *)
Definition inner_body : list stmt :=
  [SAssign 4 ENext; SCall1 (EVar 3) (EVar 4); SIf (EVar 4) [SAugAdd 2 1]].
Definition inner_loop : stmt := SWhile (ELt (EVar 2) (EVar 0)) inner_body.
Definition outer_body : list stmt :=
  [STryStop [inner_loop] [SIf (ENot (EVar 2)) [SReturn]];
   SYield (EConcat (EVar 1)); SDelAll 1; SAssign 2 (ENat 0)].
Definition buffered_term : list stmt :=
  [SAssign 1 ENil; SAssign 2 (ENat 0); SAssign 3 (EAppendOf 1); SWhile ETrue outer_body].

(* the inner loop as a function: fill the buffer until [size] non-empty pieces are in it or the
   input is exhausted *)
Inductive scanres := Full (b : list str) (rest : list str) | Exh (b : list str) (c : nat).
Fixpoint scan (size : nat) (b : list str) (c : nat) (ps : list str) {struct ps} : scanres :=
  if Nat.ltb c size then
    match ps with
    | [] => Exh b c
    | p :: r => scan size (b ++ [p]) (if nonempty p then S c else c) r
    end
  else Full b ps.

Definition mk (size : nat) (b : list str) (c : nat) (cur : val) : store :=
  [VNat size; VList b; VNat c; VAppend 1; cur].

Lemma scan_full_shorter size : forall ps b c b' rest, c < size -> scan size b c ps = Full b' rest -> length rest < length ps.
Proof.
  induction ps as [|p r IH]; intros b c b' rest Hc H; cbn [scan] in H.
  - destruct (Nat.ltb_spec c size); [discriminate|lia].
  - destruct (Nat.ltb_spec c size) as [_|]; [|lia].
    destruct (Nat.ltb_spec (if nonempty p then S c else c) size) as [Hlt|Hge].
    + specialize (IH _ _ _ _ Hlt H). cbn [length]. lia.
    + destruct r as [|q r']; cbn [scan] in H.
      * destruct (Nat.ltb_spec (if nonempty p then S c else c) size); [lia|]. injection H as _ <-. cbn. lia.
      * destruct (Nat.ltb_spec (if nonempty p then S c else c) size); [lia|]. injection H as _ <-. cbn. lia.
Qed.

(* buffered_go in terms of scan (the model keeps its buffer reversed) *)
Lemma buffered_go_scan size : forall ps buf c, c < size ->
  buffered_go size buf c ps =
  match scan size (rev buf) c ps with
  | Full b' rest => concat b' :: buffered_go size [] 0 rest
  | Exh b' c' => if Nat.eqb c' 0 then [] else [concat b']
  end.
Proof.
  induction ps as [|p r IH]; intros buf c Hc; cbn [scan buffered_go].
  - destruct (Nat.ltb_spec c size); [reflexivity|lia].
  - destruct (Nat.ltb_spec c size) as [_|]; [|lia].
    destruct (Nat.ltb_spec (if nonempty p then S c else c) size) as [Hlt|Hge].
    + rewrite (IH (p :: buf) _ Hlt). reflexivity.
    + change (rev buf ++ [p]) with (rev (p :: buf)).
      destruct r as [|q r']; cbn [scan]; destruct (Nat.ltb_spec (if nonempty p then S c else c) size); try lia; reflexivity.
Qed.

(* ---- one pass of the inner loop body *)
Lemma inner_body_cons n size b c cur p r :
  execs inner_body n {| vars := mk size b c cur; input := p :: r |} =
  ONormal {| vars := mk size (b ++ [p]) (if nonempty p then S c else c) (VStr p); input := r |} [].
Proof.
  unfold inner_body, mk. cbn. destruct (nonempty p); cbn; [rewrite Nat.add_1_r|]; reflexivity.
Qed.
Lemma inner_body_nil n size b c cur :
  execs inner_body n {| vars := mk size b c cur; input := [] |} = OStop {| vars := mk size b c cur; input := [] |} [].
Proof. reflexivity. Qed.

Definition inner_cond : st -> eres := eval (ELt (EVar 2) (EVar 0)).
Lemma inner_cond_eq size b c cur ps :
  inner_cond {| vars := mk size b c cur; input := ps |} = EVal (of_bool (Nat.ltb c size)) {| vars := mk size b c cur; input := ps |}.
Proof. reflexivity. Qed.

Lemma exec_inner n s : exec inner_loop n s = while_loop inner_cond (execs inner_body n) n s.
Proof. reflexivity. Qed.

(* the inner while loop computes scan (for any budget above the number of pieces left) *)
Lemma inner_loop_scan n size : forall ps k b c cur, length ps < k -> c <= size ->
  exists cur',
  while_loop inner_cond (execs inner_body n) k {| vars := mk size b c cur; input := ps |} =
  match scan size b c ps with
  | Full b' rest => ONormal {| vars := mk size b' size cur'; input := rest |} []
  | Exh b' c' => OStop {| vars := mk size b' c' cur'; input := [] |} []
  end.
Proof.
  induction ps as [|p r IH]; intros k b c cur Hk Hc; (destruct k as [|k]; [cbn in Hk; lia|]);
    cbn [while_loop scan]; rewrite inner_cond_eq; destruct (Nat.ltb_spec c size) as [Hlt|Hge]; cbn [of_bool truthy negb Nat.eqb].
  - rewrite inner_body_nil. exists cur. reflexivity.
  - exists cur. replace c with size by lia. reflexivity.
  - rewrite inner_body_cons. cbn [prepend].
    destruct (IH k (b ++ [p]) (if nonempty p then S c else c) (VStr p)) as [cur' E];
      [cbn [length] in Hk; lia|destruct (nonempty p); lia|].
    exists cur'. rewrite E. destruct (scan size (b ++ [p]) (if nonempty p then S c else c) r); reflexivity.
  - exists cur. replace c with size by lia. reflexivity.
Qed.

(* ---- one pass of the outer loop body, given what the inner loop did *)
Definition outer_cond : st -> eres := eval ETrue.
Lemma exec_outer n s : exec (SWhile ETrue outer_body) n s = while_loop outer_cond (execs outer_body n) n s.
Proof. reflexivity. Qed.

Definition handler : list stmt := [SIf (ENot (EVar 2)) [SReturn]].
Definition after_try : list stmt := [SYield (EConcat (EVar 1)); SDelAll 1; SAssign 2 (ENat 0)].
Lemma outer_body_eq n s :
  execs outer_body n s =
  match (match (match while_loop inner_cond (execs inner_body n) n s with ONormal s1 ys => prepend ys (ONormal s1 []) | o => o end) with
         | OStop s1 ys => prepend ys (execs handler n s1) | o => o end) with
  | ONormal s1 ys => prepend ys (execs after_try n s1) | o => o
  end.
Proof. reflexivity. Qed.

Lemma handler_eq n size b c cur :
  execs handler n {| vars := mk size b c cur; input := [] |} =
  if Nat.eqb c 0 then OReturn {| vars := mk size b c cur; input := [] |} [] else ONormal {| vars := mk size b c cur; input := [] |} [].
Proof. unfold handler. cbn. destruct (Nat.eqb c 0); reflexivity. Qed.

Lemma after_try_eq n size b c cur ps :
  execs after_try n {| vars := mk size b c cur; input := ps |} = ONormal {| vars := mk size [] 0 cur; input := ps |} [concat b].
Proof. reflexivity. Qed.

Lemma outer_body_step n size cur ps : length ps < n -> 1 <= size ->
  exists cur',
  execs outer_body n {| vars := mk size [] 0 cur; input := ps |} =
  match scan size [] 0 ps with
  | Full b' rest => ONormal {| vars := mk size [] 0 cur'; input := rest |} [concat b']
  | Exh b' c' => if Nat.eqb c' 0 then OReturn {| vars := mk size b' c' cur'; input := [] |} []
                 else ONormal {| vars := mk size [] 0 cur'; input := [] |} [concat b']
  end.
Proof.
  intros Hn Hs. destruct (inner_loop_scan n size ps n [] 0 cur Hn ltac:(lia)) as [cur' E].
  exists cur'. rewrite outer_body_eq, E. destruct (scan size [] 0 ps) as [b' rest|b' c'].
  - cbn [prepend app]. rewrite after_try_eq. reflexivity.
  - cbn [prepend app]. rewrite handler_eq. destruct (Nat.eqb c' 0); cbn [prepend app]; [reflexivity|]. rewrite after_try_eq. reflexivity.
Qed.

(* ---- the outer loop: strong induction on the pieces left *)
Lemma outer_loop_go n size : 1 <= size -> forall m ps k cur, length ps <= m -> length ps < n -> length ps + 2 <= k ->
  exists s', while_loop outer_cond (execs outer_body n) k {| vars := mk size [] 0 cur; input := ps |} =
             OReturn s' (buffered_go size [] 0 ps).
Proof.
  intros Hs. induction m as [|m IH]; intros ps k cur Hm Hn Hk.
  - destruct ps; [|cbn in Hm; lia]. destruct k as [|k]; [cbn in Hk; lia|].
    cbn [while_loop]. change (outer_cond ?s) with (EVal VTrue s). cbn [truthy].
    destruct (outer_body_step n size cur [] Hn Hs) as [cur' E]. rewrite E.
    cbn [scan]. destruct (Nat.ltb_spec 0 size); [|lia]. cbn. eexists. reflexivity.
  - destruct k as [|k]; [lia|].
    cbn [while_loop]. change (outer_cond ?s) with (EVal VTrue s). cbn [truthy].
    destruct (outer_body_step n size cur ps Hn Hs) as [cur' E]. rewrite E.
    rewrite (buffered_go_scan size ps [] 0 ltac:(lia)). cbn [rev].
    destruct (scan size [] 0 ps) as [b' rest|b' c'] eqn:Es.
    + pose proof (scan_full_shorter size ps [] 0 b' rest ltac:(lia) Es) as Hlen.
      destruct (IH rest k cur' ltac:(lia) ltac:(lia) ltac:(lia)) as [s' E'].
      cbn [prepend]. rewrite E'. eexists. reflexivity.
    + destruct (Nat.eqb c' 0).
      * eexists. reflexivity.
      * cbn [prepend]. destruct k as [|k]; [lia|].
        cbn [while_loop]. change (outer_cond ?s) with (EVal VTrue s). cbn [truthy].
        destruct (outer_body_step n size cur' [] ltac:(cbn; lia) Hs) as [cur'' E'']. rewrite E''.
        cbn [scan]. destruct (Nat.ltb_spec 0 size); [|lia]. cbn. eexists. reflexivity.
Qed.

Lemma buffered_term_eq n size ps :
  execs buffered_term n {| vars := VNat size :: repeat VNone (5 - 1); input := ps |} =
  prepend [] (prepend [] (prepend [] (
    match while_loop outer_cond (execs outer_body n) n {| vars := mk size [] 0 VNone; input := ps |} with
    | ONormal s1 ys => prepend ys (ONormal s1 []) | o => o end))).
Proof. reflexivity. Qed.

(* the semantics of the generator body is the model function, for every size >= 1 and piece list *)
Theorem buffered_term_correct : forall size pieces, 1 <= size ->
  exists s', run_gen buffered_term 5 size pieces (length pieces + 2) = OReturn s' (buffered_go size [] 0 pieces).
Proof.
  intros size pieces Hs. unfold run_gen.
  destruct (outer_loop_go (length pieces + 2) size Hs (length pieces) pieces (length pieces + 2) VNone
              ltac:(lia) ltac:(lia) ltac:(lia)) as [s' E].
  exists s'. rewrite buffered_term_eq, E. reflexivity.
Qed.

(* with the guard of enable_buffering: what iterating the buffered stream yields *)
Corollary buffered_term_stream : forall size pieces chunks, stream_buffered size pieces = Ok chunks ->
  exists s', run_gen buffered_term 5 size pieces (length pieces + 2) = OReturn s' chunks.
Proof.
  intros size pieces chunks H. unfold stream_buffered in H. destruct (Nat.leb_spec size 1); [discriminate|].
  injection H as <-. apply buffered_term_correct. lia.
Qed.

(* size 0 is rightly refused by enable_buffering: the generator would yield '' forever (the budget runs out
   for every budget) *)
Lemma size_zero_spins : forall n, run_gen buffered_term 5 0 [] n = OFuel.
Proof.
  intros n. unfold run_gen. rewrite buffered_term_eq.
  destruct n as [|n']; [reflexivity|].
  assert (H : forall k cur, while_loop outer_cond (execs outer_body (S n')) k {| vars := mk 0 [] 0 cur; input := [] |} = OFuel).
  { induction k as [|k IH]; intros cur; [reflexivity|].
    cbn [while_loop]. change (outer_cond ?s) with (EVal VTrue s). cbn [truthy].
    rewrite outer_body_eq. cbn [while_loop]. rewrite inner_cond_eq. cbn [Nat.ltb Nat.leb of_bool truthy negb Nat.eqb prepend app].
    rewrite after_try_eq. cbn [prepend]. rewrite IH. reflexivity. }
  rewrite H. reflexivity.
Qed.
