(* Closed-form equations for comments and raw blocks (C11), default delimiters: consequences of the
   compositional lemmas of Proofs/LexSkelC.v. *)
From Coq Require Import List NArith Bool Arith Lia.
Import ListNotations.
From JV Require Import Model.LexBase Model.LexTokeniter Spec.LexPlainSpec Spec.LexTrimSpec
  Proofs.LexInv Proofs.LexPlain Proofs.LexTotal Proofs.LexTrim Proofs.LexSkelA Proofs.LexSkelB Proofs.LexSkelC Proofs.LexSkelD.
Open Scope N_scope.

(* from the big-step relation to render_data *)
Lemma Lex_to_render : forall c src d,
  c_keep c = false -> c_nlseq c = [10] -> cfg_ok c = true ->
  forallb (fun x => negb (x =? 13)) src = true ->
  Lex c SRoot None true (drop_last_nl src) d -> render_data c src = Some d.
Proof.
  intros c src d Hk Hn Hok H13 HL. unfold render_data, tokeniter. rewrite Hk. unfold normalize.
  rewrite (nl_replace_fix _ H13). destruct (HL 1 0) as (f & its & Hrun & Hd). unfold tokeniter_norm.
  destruct (run c (compile_rules c) (fuel_for (drop_last_nl src)) SRoot [] 1 0 None true (drop_last_nl src)) as [its' e'] eqn:Er.
  destruct (cfg_ok_rules c Hok) as (Hr & Hb).
  assert (He' : e' <> EFuel).
  { intros ->. eapply run_fuel; [exact Hr|exact Hb| |exact Er]. unfold mu, fuel_for. lia. }
  pose proof (run_mono _ _ _ (Nat.max f (fuel_for (drop_last_nl src))) _ _ _ _ _ _ _ _ _ (Nat.le_max_l _ _) Hrun ltac:(discriminate)) as R1.
  pose proof (run_mono _ _ _ (Nat.max f (fuel_for (drop_last_nl src))) _ _ _ _ _ _ _ _ _ (Nat.le_max_r _ _) Er He') as R2.
  rewrite R1 in R2. injection R2 as <- <-. rewrite Hn, Hd. reflexivity.
Qed.

Definition open_raw : str := [123; 37; 32; 114; 97; 119; 32; 37; 125].            (* "{% raw %}" *)
Definition close_raw : str := [123; 37; 32; 101; 110; 100; 114; 97; 119; 32; 37; 125].  (* "{% endraw %}" *)

(* a raw block between two texts, whitespace control off: the body is output verbatim *)
Lemma raw_closed_form : forall a body b,
  forallb (txt_of 123) a = true -> forallb (txt_of 123) body = true -> forallb (txt_of 123) b = true ->
  render_data (cfg_default false false false [10]) (a ++ open_raw ++ body ++ close_raw ++ b)
  = Some (a ++ body ++ drop_final_nl b).
Proof.
  intros a body b Ha Hbody Hb.
  pose proof (trim_refines_default false false [Text a; Raw MNone MNone body MNone MNone; Text b]) as H.
  unfold skel_wf in H. cbn [forallb seg_wf no_adjacent_text] in H. rewrite Ha, Hbody, Hb in H. specialize (H eq_refl).
  unfold unparse in H. cbn [flat_map unparse_seg c_bs c_be cfg_default md_str] in H.
  unfold spec_trim in H. cbn [spec_go rtag_of trim_text left_rule right_rule] in H.
  rewrite !app_nil_r in H. etransitivity; [|exact H]. f_equal. f_equal.
  unfold open_raw, close_raw, kw_raw_sp, kw_endraw_sp. cbn [app]. rewrite <- !app_assoc. reflexivity.
Qed.

(* ------------------------------------------------------------------ a comment with an arbitrary body *)
Definition cbody (x : N) : bool := negb (x =? 35) && negb (x =? 43) && negb (x =? 45) && negb (x =? 13).

Lemma cbody_facts : forall x, cbody x = true -> (x =? 35) = false /\ (x =? 43) = false /\ (x =? 45) = false /\ (x =? 13) = false.
Proof.
  intros x H. unfold cbody in H. apply andb_true_iff in H as [H H4]. apply andb_true_iff in H as [H H3].
  apply andb_true_iff in H as [H1 H2]. repeat split; apply negb_true_iff; assumption.
Qed.

Lemma find_end_body : forall t cb Z n, forallb cbody cb = true ->
  end_alts true t [35; 125] Z = Some n -> find_end true t [35; 125] (cb ++ Z) = Some (length cb, n).
Proof.
  intros t cb Z n Hcb Hn. induction cb as [|x r IH]; [exact (find_end_here _ _ _ _ _ Hn)|].
  cbn [forallb] in Hcb. apply andb_true_iff in Hcb as [Hx Hr]. destruct (cbody_facts x Hx) as (H35 & H43 & H45 & _).
  cbn [app length]. rewrite find_end_skip.
  - rewrite (IH Hr). reflexivity.
  - unfold end_alts. rewrite H43, H45. cbn [andb prefixb]. rewrite (N.eqb_sym 35 x), H35. reflexivity.
Qed.

Lemma comment_closed_form : forall t l a cb b,
  forallb (txt_of 123) a = true -> forallb cbody cb = true -> forallb (txt_of 123) b = true ->
  render_data (cfg_default t l false [10]) (a ++ [123; 35] ++ cb ++ [35; 125] ++ b)
  = Some (trim_text t l LStart (RTag true MNone) a ++ trim_text t l (LTag true MNone) REnd (drop_final_nl b)).
Proof.
  intros t l a cb b Ha Hcb Hb. set (c := cfg_default t l false [10]).
  pose proof (skel_cfg_default t l false [10]) as SC. fold c in SC.
  assert (H13 : forall s, forallb (txt_of 123) s = true -> forallb (fun x => negb (x =? 13)) s = true).
  { induction s as [|x r IH]; intros H; [reflexivity|]. cbn [forallb] in *. apply andb_true_iff in H as [H1 H2].
    rewrite (txt_of_13 _ _ H1). cbn. auto. }
  assert (H13c : forallb (fun x => negb (x =? 13)) cb = true).
  { clear -Hcb. induction cb as [|x r IH]; [reflexivity|]. cbn [forallb] in *. apply andb_true_iff in Hcb as [H1 H2].
    destruct (cbody_facts x H1) as (_ & _ & _ & E). rewrite E. cbn. auto. }
  apply Lex_to_render; try reflexivity.
  - rewrite !forallb_app, (H13 a Ha), (H13 b Hb), H13c. reflexivity.
  - (* the trailing line break is dropped from b only *)
    assert (Hdrop : drop_last_nl (a ++ [123; 35] ++ cb ++ [35; 125] ++ b) = a ++ [123; 35] ++ cb ++ [35; 125] ++ drop_final_nl b).
    { rewrite (drop_last_nl_app a) by discriminate. f_equal.
      rewrite (drop_last_nl_app [123; 35]) by (destruct cb; discriminate). f_equal.
      rewrite (drop_last_nl_app cb) by discriminate. f_equal.
      destruct b as [|y r].
      - reflexivity.
      - rewrite (drop_last_nl_app [35; 125]) by discriminate. rewrite <- drop_final_is_drop_last. reflexivity. }
    rewrite Hdrop. set (b' := drop_final_nl b).
    assert (Hb' : forallb (txt_of 123) b' = true).
    { unfold b'. rewrite drop_final_is_drop_last. clear -Hb. induction b as [|x r IH]; [reflexivity|]. destruct r as [|y r'].
      - cbn [drop_last_nl]. destruct (x =? 10); [reflexivity|exact Hb].
      - change (drop_last_nl (x :: y :: r')) with (x :: drop_last_nl (y :: r')). cbn [forallb] in *.
        apply andb_true_iff in Hb as [H1 H2]. rewrite H1. cbn [andb]. apply IH. exact H2. }
    (* the comment start is recognised after the delimiter-free text a *)
    assert (Fc : forall p, root_alts c (compile_rules c) p ([123; 35] ++ cb ++ [35; 125] ++ b') = Some (KComment, 2%nat, SgNone)).
    { intros p. destruct cb as [|x r]; [reflexivity|]. cbn [forallb] in Hcb. apply andb_true_iff in Hcb as [Hx _].
      destruct (cbody_facts x Hx) as (_ & H43 & H45 & _).
      unfold root_alts, alt_raw. cbn -[N.eqb alt_plain]. unfold alt_plain. cbn -[N.eqb]. rewrite H43, H45. reflexivity. }
    pose proof (root_tag c (txt_of 123) (sc_fresh _ _ SC) a _ KComment 2%nat SgNone None true
                  (trim_text t l (LTag true MNone) REnd b') Ha Fc) as G.
    cbn [is_var negb state_of md_of] in G.
    replace (trim_text t l LStart (RTag true MNone) a) with (left_rule (c_lstrip c) (RTag true MNone) true a) by reflexivity.
    apply G. clear G. cbn [skipn app].
    destruct (end_match t [35; 125] MNone b' eq_refl) as (n & Hn & Hs & Hl). cbn [md_str] in Hn, Hs, Hl.
    change ([] ++ [35; 125] ++ b') with ([35; 125] ++ b') in Hn, Hs, Hl.
    rewrite <- (app_nil_l (trim_text t l (LTag true MNone) REnd b')).
    apply (Lex_step c SComment _ _ (cb ++ [35; 125] ++ b') (length cb + n)%nat SRoot []).
    + intros line pos. cbn [step]. change (c_trim c) with t. change (c_ce c) with [35; 125].
      rewrite (find_end_body t cb _ n Hcb Hn). eexists. eexists. split; [reflexivity|].
      rewrite data_of_app. unfold tok_nonempty. destruct (nonempty _); reflexivity.
    + rewrite skipn_add_app, firstn_add_app, Hs, Hl.
      replace (trim_text t l (LTag true MNone) REnd b') with (right_rule t (LTag true MNone) b') by reflexivity.
      apply (root_text_end c (txt_of 123) (sc_fresh _ _ SC) (sc_fresh_nil _ _ SC)).
      apply forallb_right_rule. exact Hb'.
Qed.
