From Coq Require Import List NArith Bool Arith Lia.
Import ListNotations.
From JV Require Import Model.LRU Spec.LRUSpec.
Open Scope N_scope.

Definition vof (m : dict) (k : key) : val := match dget m k with Some v => v | None => 0 end.
Definition absl (m : dict) (q : list key) : slru := map (fun k => (k, vof m k)) q.
Definition abs (s : lru) : slru := absl (mapping s) (queue s).

Record Inv (s : lru) : Prop := {
  inv_nodup : NoDup (queue s);
  inv_dom : forall k, In k (queue s) <-> dget (mapping s) k <> None;
  inv_size : dsize (mapping s) = N.of_nat (length (queue s));
  inv_cap : dsize (mapping s) <= cap s;
  inv_pos : 1 <= cap s }.

Lemma absl_app m a b : absl m (a ++ b) = absl m a ++ absl m b.
Proof. unfold absl. apply map_app. Qed.
Lemma absl_length m q : length (absl m q) = length q.
Proof. unfold absl. apply map_length. Qed.

Lemma items_go_abs m q : (forall k, In k q -> dget m k <> None) -> items_go m q = Some (absl m q).
Proof.
  induction q as [|k r IH]; intros H; cbn [items_go absl map]; [reflexivity|].
  unfold lookup. assert (Hk := H k (or_introl eq_refl)).
  rewrite IH by (intros k' Hk'; apply H; now right).
  unfold vof. destruct (dget m k); [reflexivity|contradiction].
Qed.

Lemma sfind_absl_in m q k : In k q -> sfind k (absl m q) = Some (vof m k).
Proof.
  induction q as [|x r IH]; intros H; [destruct H|]. cbn [absl map sfind].
  destruct (N.eqb_spec k x) as [->|Hne]; [reflexivity|]. apply IH. destruct H; congruence.
Qed.
Lemma sfind_absl_notin m q k : ~ In k q -> sfind k (absl m q) = None.
Proof.
  induction q as [|x r IH]; intros H; [reflexivity|]. cbn [absl map sfind].
  destruct (N.eqb_spec k x) as [->|Hne]; [exfalso; apply H; now left|].
  apply IH. intros H'; apply H; now right.
Qed.

Lemma sfind_abs s k : Inv s -> sfind k (abs s) = dget (mapping s) k.
Proof.
  intros I. unfold abs. destruct (dget (mapping s) k) eqn:E.
  - rewrite sfind_absl_in; [unfold vof; now rewrite E|]. apply (inv_dom s I). congruence.
  - apply sfind_absl_notin. intros H. apply (inv_dom s I) in H. contradiction.
Qed.

Lemma qremove_split k q : In k q ->
  exists q1 q2, q = q1 ++ k :: q2 /\ ~ In k q1 /\ qremove k q = Some (q1 ++ q2).
Proof.
  induction q as [|x r IH]; intros H; [destruct H|]. cbn [qremove].
  destruct (N.eqb_spec k x) as [->|Hne].
  - exists [], r. repeat split; auto.
  - destruct H as [H|H]; [congruence|]. destruct (IH H) as [q1 [q2 [E [Hn Hr]]]].
    exists (x :: q1), q2. rewrite Hr, E. repeat split; auto.
    intros [H'|H']; [congruence|contradiction].
Qed.
Lemma qremove_none k q : ~ In k q -> qremove k q = None.
Proof.
  induction q as [|x r IH]; intros H; [reflexivity|]. cbn [qremove].
  destruct (N.eqb_spec k x) as [->|Hne]; [exfalso; apply H; now left|].
  rewrite IH; [reflexivity|]. intros H'; apply H; now right.
Qed.

Lemma sremove_absl_notin m q k : ~ In k q -> sremove k (absl m q) = absl m q.
Proof.
  induction q as [|x r IH]; intros H; [reflexivity|]. cbn [absl map sremove].
  destruct (N.eqb_spec k x) as [->|Hne]; [exfalso; apply H; now left|].
  f_equal. apply IH. intros H'; apply H; now right.
Qed.
Lemma sremove_absl_split m q1 q2 k : ~ In k q1 ->
  sremove k (absl m (q1 ++ k :: q2)) = absl m (q1 ++ q2).
Proof.
  induction q1 as [|x r IH]; intros H; cbn [app absl map sremove].
  - now rewrite N.eqb_refl.
  - destruct (N.eqb_spec k x) as [->|Hne]; [exfalso; apply H; now left|].
    f_equal. apply IH. intros H'; apply H; now right.
Qed.

Lemma absl_ext m m' q : (forall k, In k q -> dget m' k = dget m k) -> absl m' q = absl m q.
Proof.
  intros H. unfold absl. apply map_ext_in. intros k Hk. unfold vof. now rewrite (H k Hk).
Qed.

Lemma nodup_mid (k : key) q1 q2 : NoDup (q1 ++ k :: q2) -> NoDup (q1 ++ q2) /\ ~ In k (q1 ++ q2).
Proof. intros H. split; [eapply NoDup_remove_1|eapply NoDup_remove_2]; exact H. Qed.
Lemma nodup_snoc (k : key) q : NoDup q -> ~ In k q -> NoDup (q ++ [k]).
Proof.
  induction q as [|x r IH]; intros H Hn; cbn [app]; [repeat constructor; auto|].
  inversion H as [|? ? Hx Hr]; subst. constructor.
  - rewrite in_app_iff. intros [H'|[H'|[]]]; [contradiction|]. apply Hn. now left.
  - apply IH; [exact Hr|]. intros H'; apply Hn; now right.
Qed.

Lemma eta s : {| cap := cap s; mapping := mapping s; queue := queue s |} = s.
Proof. now destruct s. Qed.

(* ---- __getitem__ ---- *)
Lemma getitem_refines s k s' x : Inv s -> getitem s k = (s', x) ->
  sstep (cap s) (abs s) (GetItem k) = (abs s', x) /\ Inv s' /\ cap s' = cap s.
Proof.
  intros I H. unfold getitem, lookup in H. cbn [sstep]. unfold touch. rewrite (sfind_abs s k I).
  destruct (dget (mapping s) k) as [rv|] eqn:E.
  2:{ injection H as <- <-. auto. }
  assert (Hin : In k (queue s)) by (apply (inv_dom s I); congruence).
  destruct (qremove_split k (queue s) Hin) as [q1 [q2 [Eq [Hn1 Hr]]]].
  assert (Hnd := inv_nodup s I). rewrite Eq in Hnd. destruct (nodup_mid k q1 q2 Hnd) as [Hnd' Hnk].
  assert (Hv : vof (mapping s) k = rv) by (unfold vof; now rewrite E).
  assert (Habs : sremove k (abs s) ++ [(k, rv)] = absl (mapping s) ((q1 ++ q2) ++ [k])).
  { unfold abs. rewrite Eq, sremove_absl_split by exact Hn1. rewrite (absl_app _ (q1 ++ q2)).
    cbn [absl map]. now rewrite Hv. }
  assert (Inv' : Inv {| cap := cap s; mapping := mapping s; queue := (q1 ++ q2) ++ [k] |}).
  { constructor; cbn [queue mapping cap].
    - apply nodup_snoc; assumption.
    - intros k'. rewrite <- (inv_dom s I k'), Eq, !in_app_iff. cbn [In]. tauto.
    - rewrite (inv_size s I), Eq, !app_length. cbn [length]. f_equal. lia.
    - exact (inv_cap s I).
    - exact (inv_pos s I). }
  destruct (rev (queue s)) as [|lastk rq] eqn:Er.
  { exfalso. rewrite Eq, rev_app_distr in Er. cbn [rev] in Er.
    destruct (rev q2); cbn in Er; [destruct (rev q1)|]; discriminate. }
  destruct (N.eqb_spec lastk k) as [->|Hne].
  - injection H as <- <-. rewrite Habs.
    (* k is the last element: q2 = [] *)
    assert (q2 = []).
    { destruct q2 as [|z q2'] using rev_ind; [reflexivity|exfalso].
      rewrite Eq in Er. rewrite app_comm_cons, app_assoc, rev_app_distr in Er. cbn [rev app] in Er.
      injection Er as -> _. apply Hnk. rewrite !in_app_iff. right. right. now left. }
    subst q2. rewrite app_nil_r in *. unfold abs. rewrite Eq. split; [reflexivity|split; [exact I|reflexivity]].
  - rewrite Hr in H. injection H as <- <-. rewrite Habs. unfold abs; cbn [mapping queue cap]. auto.
Qed.

(* ---- __setitem__ ---- *)
Lemma skipn_0_when (A : Type) (l : list A) c : N.of_nat (length l) <= c ->
  skipn (length l - N.to_nat c) l = l.
Proof. intros H. replace (length l - N.to_nat c)%nat with 0%nat by lia. reflexivity. Qed.

Lemma setitem_refines s k v s' x : Inv s -> setitem s k v = (s', x) ->
  sstep (cap s) (abs s) (SetItem k v) = (abs s', x) /\ Inv s' /\ cap s' = cap s.
Proof.
  intros I H. unfold setitem, lookup in H. cbn [sstep]. unfold sset.
  assert (Hnd := inv_nodup s I).
  destruct (dget (mapping s) k) as [old|] eqn:E.
  - assert (Hin : In k (queue s)) by (apply (inv_dom s I); congruence).
    destruct (qremove_split k (queue s) Hin) as [q1 [q2 [Eq [Hn1 Hr]]]].
    rewrite Eq in Hnd. destruct (nodup_mid k q1 q2 Hnd) as [Hnd' Hnk].
    rewrite Hr in H. injection H as <- <-.
    assert (Hlen : length (queue s) = S (length (q1 ++ q2))).
    { rewrite Eq, !app_length. cbn [length]. lia. }
    unfold abs at 1 2. rewrite Eq, sremove_absl_split by exact Hn1.
    rewrite skipn_0_when.
    2:{ rewrite app_length, absl_length. cbn [length]. pose proof (inv_cap s I). pose proof (inv_size s I). lia. }
    unfold abs; cbn [mapping queue cap]. split; [|split; [|reflexivity]].
    + f_equal. rewrite (absl_app _ (q1 ++ q2)). f_equal.
      * symmetry. apply absl_ext. intros k' Hk'. cbn [mset dget].
        destruct (N.eqb_spec k' k) as [->|]; [contradiction|reflexivity].
      * cbn [absl map]. unfold vof. cbn [mset dget]. now rewrite N.eqb_refl.
    + constructor; cbn [queue mapping cap].
      * apply nodup_snoc; assumption.
      * intros k'. cbn [mset dget]. destruct (N.eqb_spec k' k) as [->|Hne].
        -- rewrite in_app_iff. cbn [In]. split; [discriminate|auto].
        -- rewrite <- (inv_dom s I k'), Eq, !in_app_iff. cbn [In]. split; [|tauto].
           intros [[?|?]|[?|[]]]; auto; congruence.
      * cbn [mset dsize]. rewrite E. rewrite (inv_size s I), Hlen, !app_length. cbn [length]. f_equal. lia.
      * cbn [mset dsize]. rewrite E. exact (inv_cap s I).
      * exact (inv_pos s I).
  - assert (Hnin : ~ In k (queue s)) by (intros Hin; apply (inv_dom s I) in Hin; contradiction).
    unfold abs at 1 2. rewrite sremove_absl_notin by exact Hnin.
    unfold mlen in H. destruct (N.eqb_spec (dsize (mapping s)) (cap s)) as [Hfull|Hnf].
    + destruct (queue s) as [|old q'] eqn:Eq.
      { exfalso. pose proof (inv_size s I) as Hs. rewrite Eq in Hs. cbn in Hs. pose proof (inv_pos s I). lia. }
      assert (Hold : dget (mapping s) old <> None) by (apply (inv_dom s I); rewrite Eq; now left).
      unfold lookup in H. destruct (dget (mapping s) old) as [ov|] eqn:Eo; [|contradiction].
      injection H as <- <-.
      inversion Hnd as [|? ? Hoq Hq']; subst.
      assert (Hk' : ~ In k q') by (intros H'; apply Hnin; now right).
      assert (Hko : k <> old) by (intros ->; apply Hnin; now left).
      pose proof (inv_size s I) as Hs. rewrite Eq in Hs. cbn [length] in Hs.
      replace (length (absl (mapping s) (old :: q') ++ [(k, v)]) - N.to_nat (cap s))%nat with 1%nat.
      2:{ rewrite app_length, absl_length. cbn [length]. lia. }
      cbn [absl map app skipn]. unfold abs; cbn [mapping queue cap]. split; [|split; [|reflexivity]].
      * f_equal. rewrite absl_app. f_equal.
        -- symmetry. apply absl_ext. intros k' Hk. cbn [mset mdel dget].
           destruct (N.eqb_spec k' k) as [->|]; [contradiction|].
           destruct (N.eqb_spec k' old) as [->|]; [contradiction|reflexivity].
        -- cbn [absl map]. unfold vof. cbn [mset dget]. now rewrite N.eqb_refl.
      * constructor; cbn [queue mapping cap].
        -- apply nodup_snoc; assumption.
        -- intros k'. cbn [mset mdel dget]. rewrite in_app_iff. cbn [In].
           destruct (N.eqb_spec k' k) as [->|Hne]; [split; [discriminate|auto]|].
           destruct (N.eqb_spec k' old) as [->|Hne2].
           ++ split; [|congruence]. intros [?|[?|[]]]; [contradiction|congruence].
           ++ pose proof (inv_dom s I k') as Hd. rewrite Eq in Hd. cbn [In] in Hd.
              split; [intros [?|[?|[]]]; [apply Hd; auto|congruence] | intros Hx; apply Hd in Hx; destruct Hx; [congruence|auto]].
        -- cbn [mset mdel dsize dget]. rewrite Eo.
           destruct (N.eqb_spec k old); [contradiction|]. rewrite E.
           rewrite app_length. cbn [length]. pose proof (inv_pos s I). lia.
        -- cbn [mset mdel dsize dget]. rewrite Eo.
           destruct (N.eqb_spec k old); [contradiction|]. rewrite E. pose proof (inv_pos s I). lia.
        -- exact (inv_pos s I).
    + injection H as <- <-.
      pose proof (inv_size s I) as Hs. pose proof (inv_cap s I) as Hc.
      rewrite skipn_0_when.
      2:{ rewrite app_length, absl_length. cbn [length]. lia. }
      unfold abs; cbn [mapping queue cap]. split; [|split; [|reflexivity]].
      * f_equal. rewrite absl_app. f_equal.
        -- symmetry. apply absl_ext. intros k' Hk. cbn [mset dget].
           destruct (N.eqb_spec k' k) as [->|]; [contradiction|reflexivity].
        -- cbn [absl map]. unfold vof. cbn [mset dget]. now rewrite N.eqb_refl.
      * constructor; cbn [queue mapping cap].
        -- apply nodup_snoc; assumption.
        -- intros k'. cbn [mset dget]. rewrite in_app_iff. cbn [In].
           destruct (N.eqb_spec k' k) as [->|Hne]; [split; [discriminate|auto]|].
           rewrite (inv_dom s I k'). split; [intros [?|[?|[]]]; [auto|congruence]|auto].
        -- cbn [mset dsize]. rewrite E, app_length. cbn [length]. lia.
        -- cbn [mset dsize]. rewrite E. lia.
        -- exact (inv_pos s I).
Qed.

(* ---- __delitem__ ---- *)
Lemma delitem_refines s k s' x : Inv s -> delitem s k = (s', x) ->
  sstep (cap s) (abs s) (DelItem k) = (abs s', x) /\ Inv s' /\ cap s' = cap s.
Proof.
  intros I H. unfold delitem, lookup in H. cbn [sstep]. rewrite (sfind_abs s k I).
  destruct (dget (mapping s) k) as [old|] eqn:E.
  2:{ injection H as <- <-. auto. }
  assert (Hin : In k (queue s)) by (apply (inv_dom s I); congruence).
  destruct (qremove_split k (queue s) Hin) as [q1 [q2 [Eq [Hn1 Hr]]]].
  assert (Hnd := inv_nodup s I). rewrite Eq in Hnd. destruct (nodup_mid k q1 q2 Hnd) as [Hnd' Hnk].
  rewrite Hr in H. injection H as <- <-.
  unfold abs; cbn [mapping queue cap]. rewrite Eq at 1. rewrite sremove_absl_split by exact Hn1.
  split; [|split; [|reflexivity]].
  - f_equal. symmetry. apply absl_ext. intros k' Hk'. cbn [mdel dget].
    destruct (N.eqb_spec k' k) as [->|]; [contradiction|reflexivity].
  - constructor; cbn [queue mapping cap].
    + exact Hnd'.
    + intros k'. cbn [mdel dget]. destruct (N.eqb_spec k' k) as [->|Hne]; [split; [contradiction|congruence]|].
      rewrite <- (inv_dom s I k'), Eq, !in_app_iff. cbn [In]. split; [tauto|].
      intros [?|[?|?]]; auto; congruence.
    + cbn [mdel dsize]. rewrite E, (inv_size s I), Eq, !app_length. cbn [length]. lia.
    + cbn [mdel dsize]. rewrite E. pose proof (inv_cap s I). lia.
    + exact (inv_pos s I).
Qed.

Lemma step_refines s o s' x : Inv s -> step s o = (s', x) ->
  sstep (cap s) (abs s) o = (abs s', x) /\ Inv s' /\ cap s' = cap s.
Proof.
  intros I H. destruct o; cbn [step] in H.
  - (* get *) unfold get in H. destruct (getitem s k) as [s1 x1] eqn:G.
    destruct (getitem_refines s k s1 x1 I G) as [R [I1 C1]]. cbn [sstep] in *.
    destruct (sfind k (abs s)).
    + injection R as R1 <-. injection H as <- <-. rewrite R1. auto.
    + injection R as R1 <-. injection H as <- <-. rewrite R1. auto.
  - exact (getitem_refines s k s' x I H).
  - exact (setitem_refines s k v s' x I H).
  - exact (delitem_refines s k s' x I H).
  - (* setdefault *) unfold setdefault in H. destruct (getitem s k) as [s1 x1] eqn:G.
    destruct (getitem_refines s k s1 x1 I G) as [R [I1 C1]]. cbn [sstep] in *.
    destruct (sfind k (abs s)) eqn:F.
    + injection R as R1 <-. injection H as <- <-. rewrite R1. auto.
    + injection R as R1 <-. unfold touch in R1. rewrite F in R1.
      destruct (setitem s1 k d) as [s2 x2] eqn:S.
      destruct (setitem_refines s1 k d s2 x2 I1 S) as [R2 [I2 C2]]. cbn [sstep] in R2.
      rewrite C1, <- R1 in R2. injection R2 as R2 <-. injection H as <- <-. rewrite R2.
      split; [reflexivity|split; [assumption|congruence]].
  - (* contains *) injection H as <- <-. cbn [sstep]. rewrite (sfind_abs s k I). unfold lookup. auto.
  - (* len *) injection H as <- <-. cbn [sstep]. unfold abs, mlen. rewrite absl_length, (inv_size s I). auto.
  - (* clear *) injection H as <- <-. cbn [sstep]. unfold abs; cbn [mapping queue cap absl map].
    split; [reflexivity|split; [|reflexivity]]. pose proof (inv_pos s I) as Hp.
    constructor; cbn; [constructor|intros k; cbn; tauto|reflexivity|lia|exact Hp].
  - (* keys *) injection H as <- <-. cbn [sstep]. unfold abs, absl. rewrite map_map. cbn [fst]. rewrite map_id. auto.
  - (* values *) injection H as <- <-. cbn [sstep]. rewrite items_go_abs.
    2:{ intros k' Hk'. now apply (inv_dom s I). }
    fold (abs s). rewrite map_rev. auto.
  - (* items *) injection H as <- <-. cbn [sstep]. rewrite items_go_abs.
    2:{ intros k' Hk'. now apply (inv_dom s I). }
    auto.
  - (* reversed *) injection H as <- <-. cbn [sstep]. unfold abs, absl. rewrite map_map. cbn [fst]. rewrite map_id. auto.
  - injection H as <- <-. unfold copy. rewrite eta. auto.
  - injection H as <- <-. unfold copy. rewrite eta. auto.
Qed.

Lemma init_inv c : 1 <= c -> Inv (init c).
Proof.
  intros H. constructor; cbn; [constructor|intros k; cbn; tauto|reflexivity|lia|exact H].
Qed.

Lemma run_refines ops : forall s s' xs, Inv s -> run s ops = (s', xs) ->
  srun (cap s) (abs s) ops = (abs s', xs) /\ Inv s' /\ cap s' = cap s.
Proof.
  induction ops as [|o r IH]; intros s s' xs I H; cbn [run srun] in *.
  - injection H as <- <-. auto.
  - destruct (step s o) as [s1 x] eqn:S. destruct (run s1 r) as [s2 xs'] eqn:R.
    injection H as <- <-.
    destruct (step_refines s o s1 x I S) as [R1 [I1 C1]].
    destruct (IH s1 s2 xs' I1 R) as [R2 [I2 C2]].
    rewrite R1. rewrite C1 in R2. rewrite R2. split; [reflexivity|split; [assumption|congruence]].
Qed.

Lemma abs_init c : abs (init c) = [].
Proof. reflexivity. Qed.

(* capacity is never exceeded and no Python-level exception other than KeyError can occur *)
Definition is_internal_exn (x : out) : bool :=
  match x with OExn IndexError | OExn ValueErr => true | _ => false end.

Lemma sstep_no_internal c l o : is_internal_exn (snd (sstep c l o)) = false.
Proof.
  destruct o; cbn [sstep]; try reflexivity;
  try (destruct (sfind k l); reflexivity).
Qed.

Lemma srun_no_internal c ops : forall l, forallb (fun x => negb (is_internal_exn x)) (snd (srun c l ops)) = true.
Proof.
  induction ops as [|o r IH]; intros l; cbn [srun]; [reflexivity|].
  destruct (sstep c l o) as [l' x] eqn:S. specialize (IH l'). destruct (srun c l' r) as [l'' xs].
  cbn [snd forallb] in *. rewrite IH, andb_true_r.
  pose proof (sstep_no_internal c l o) as H. rewrite S in H. cbn in H. now rewrite H.
Qed.
