(* C31 — proofs about Model/Pre.v *)
From Coq Require Import List NArith Bool Arith.
Import ListNotations.
From JV Require Import Model.Pre.

Section P.
  Variables E C R : Type.

  Lemma defer_def_equiv : forall (e : E) (ns0 : option E) (body : E -> C -> R) (c : C),
    exists fd fx,
      exec_def true ns0 body = Some fd /\ exec_def false (Some e) body = Some fx /\
      call fd (from_namespace e ns0) c = call fx (Some e) c /\ call fx (Some e) c = Done (body e c).
  Proof. intros e ns0 body c. eexists. eexists. repeat split. Qed.

  Lemma defer_module_equiv : forall (e : E) (ns0 : option E) (bodies : list (E -> C -> R)),
    exists md mx,
      exec_module true ns0 bodies = Some md /\ exec_module false (Some e) bodies = Some mx /\
      length md = length bodies /\ length mx = length bodies /\
      forall i fd fx c, nth_error md i = Some fd -> nth_error mx i = Some fx ->
        call fd (from_namespace e ns0) c = call fx (Some e) c /\
        exists b, nth_error bodies i = Some b /\ call fx (Some e) c = Done (b e c).
  Proof.
    intros e ns0 bodies. induction bodies as [|b r IH].
    - exists [], []. split; [reflexivity|]. split; [reflexivity|]. split; [reflexivity|]. split; [reflexivity|].
      intros i fd fx c H. destruct i; discriminate.
    - destruct IH as [md [mx [H1 [H2 [L1 [L2 H3]]]]]].
      exists ({| f_has_param := false; f_default := None; f_body := b |} :: md),
             ({| f_has_param := true; f_default := Some e; f_body := b |} :: mx).
      cbn [exec_module fold_right] in *. unfold exec_module in H1, H2. rewrite H1, H2. cbn [exec_def length].
      split; [reflexivity|]. split; [reflexivity|]. split; [now rewrite L1|]. split; [now rewrite L2|].
      intros i fd fx c Hd Hx. destruct i as [|i']; cbn [nth_error] in *.
      + injection Hd as <-. injection Hx as <-. split; [reflexivity|]. exists b. split; reflexivity.
      + exact (H3 i' fd fx c Hd Hx).
  Qed.

  (* without _from_namespace the deferred form has no environment at all *)
  Lemma defer_needs_install : forall (body : E -> C -> R) (c : C) fd,
    exec_def true None body = Some fd -> call fd None c = NameError.
  Proof. intros body c fd H. injection H as <-. reflexivity. Qed.
End P.

Section K.
  Variable sha1_hex : str -> str.
  Hypothesis sha1_injective : forall a b, sha1_hex a = sha1_hex b -> a = b.

  Lemma key_injective : forall a b, template_key sha1_hex a = template_key sha1_hex b -> a = b.
  Proof. intros a b H. unfold template_key in H. apply app_inv_head in H. now apply sha1_injective. Qed.

  Lemma filename_injective : forall a b, module_filename sha1_hex a = module_filename sha1_hex b -> a = b.
  Proof. intros a b H. unfold module_filename in H. apply app_inv_tail in H. now apply key_injective. Qed.
End K.

Lemma str_eqb_eq : forall a b, str_eqb a b = true <-> a = b.
Proof. intros a b. unfold str_eqb. destruct (list_eq_dec N.eq_dec a b); split; congruence. Qed.

Section L.
  Variable sha1_hex : str -> str.
  Hypothesis sha1_injective : forall a b, sha1_hex a = sha1_hex b -> a = b.
  Variable normal : str -> option str.

  Lemma has_module_iff : forall names n,
    has_module sha1_hex (compile_archive sha1_hex names) n = existsb (str_eqb n) names.
  Proof.
    intros names n. unfold has_module, compile_archive. induction names as [|m r IH]; [reflexivity|].
    cbn [map existsb]. rewrite IH. f_equal.
    destruct (str_eqb n m) eqn:E.
    - apply str_eqb_eq in E. subst. now apply str_eqb_eq.
    - destruct (str_eqb (template_key sha1_hex n) (template_key sha1_hex m)) eqn:E2; [|reflexivity].
      apply str_eqb_eq in E2. apply (key_injective sha1_hex sha1_injective) in E2. subst.
      assert (H : str_eqb m m = true) by now apply str_eqb_eq. congruence.
  Qed.

  Lemma load_agrees : forall names name,
    (forall n, existsb (str_eqb n) names = true -> normal n = Some n) ->
    module_load sha1_hex normal (compile_archive sha1_hex names) name = source_load normal names name.
  Proof.
    intros names name Hn. unfold module_load, source_load. rewrite !has_module_iff.
    destruct (existsb (str_eqb name) names) eqn:E.
    - rewrite (Hn name E), E. reflexivity.
    - destruct (normal name) as [n|]; [|reflexivity].
      rewrite has_module_iff. destruct (str_eqb n name) eqn:E2; [|reflexivity].
      apply str_eqb_eq in E2. subst n. now rewrite E.
  Qed.
End L.

(* ------------------------------------------------------------------ one loader, many environments *)
Section S.
  Variable E : Type.
  Variable sha1_hex : str -> str.
  Hypothesis hex_no_dot : forall n, ~ In 46%N (sha1_hex n).     (* a hex digest contains no "." *)
  Variable package_name : str.

  Definition attrs_undotted (l : list (str * nat)) : Prop := forall a i, In (a, i) l -> ~ In 46%N a.

  Lemma key_no_dot : forall n, ~ In 46%N (template_key sha1_hex n).
  Proof.
    intros n H. unfold template_key in H. apply in_app_or in H. destruct H as [H|H].
    - cbn in H. repeat (destruct H as [H|H]; [discriminate|]). exact H.
    - exact (hex_no_dot n H).
  Qed.

  Lemma find_dotted_none : forall l key, attrs_undotted l -> find_attr (dotted package_name key) l = None.
  Proof.
    induction l as [|[b i] r IH]; intros key H; [reflexivity|]. cbn [find_attr].
    destruct (str_eqb b (dotted package_name key)) eqn:E1.
    - apply str_eqb_eq in E1. exfalso. apply (H b i (or_introl eq_refl)). subst b.
      unfold dotted. apply in_or_app. right. now left.
    - apply IH. intros a j Hin. apply (H a j). now right.
  Qed.

  (* every load of every history execs a fresh namespace and earlier namespaces are never written again *)
  Lemma loads_fresh : forall (h : list (str * E)) (st : lstate E), attrs_undotted (l_attrs st) ->
    let (st', ids) := loads sha1_hex package_name st h in
    l_nss st' = l_nss st ++ map (fun ne => Some (snd ne)) h /\
    ids = seq (length (l_nss st)) (length h) /\ attrs_undotted (l_attrs st').
  Proof.
    induction h as [|[n e] r IH]; intros st Hu; cbn [loads].
    - cbn. rewrite app_nil_r. auto.
    - unfold load. rewrite (find_dotted_none (l_attrs st) _ Hu).
      set (st1 := {| l_attrs := (template_key sha1_hex n, length (l_nss st)) :: l_attrs st;
                     l_nss := l_nss st ++ [Some e] |}).
      assert (Hu1 : attrs_undotted (l_attrs st1)).
      { intros a i [Hin|Hin]; [injection Hin as <- _; apply key_no_dot|exact (Hu a i Hin)]. }
      specialize (IH st1 Hu1). destruct (loads sha1_hex package_name st1 r) as [st2 ids].
      destruct IH as [H1 [H2 H3]]. cbn [l_nss st1] in *. split; [|split; [|exact H3]].
      + rewrite H1, <- app_assoc. reflexivity.
      + rewrite H2, app_length. cbn [length map seq]. f_equal. f_equal. apply Nat.add_1_r.
  Qed.
End S.
