(* C02 parse_unparse, part 5: argument lists, literals, chains, simple nodes. *)
From Coq Require Import List NArith ZArith Bool Lia Arith.
Import ListNotations.
From JV Require Import Model.ExprAst Model.ExprPrim Spec.ExprSpec Model.ExprParser Model.ExprUnparse
  Proofs.ExprParseSteps Proofs.ExprParseBase Proofs.ExprParsePrint Proofs.ExprParseNodes Proofs.ExprParseNodes2.

Lemma parses_bind0 {A B} (F : kit -> list tok -> pres B) (G : kit -> list tok -> pres A)
      (Hh : kit -> A -> list tok -> pres B) ts ts1 a r b r' :
  (forall K, F K ts = bindp (G K ts1) (fun x y => Hh K x y)) ->
  parses G ts1 a r -> parses (fun K => Hh K a) r b r' -> parses F ts b r'.
Proof.
  intros E [m1 H1] [m2 H2]. exists (m1 + m2). intros m Hm. rewrite E. rewrite H1 by lia. cbn [bindp]. apply H2. lia.
Qed.
Lemma bindp_assoc {A B C} (m : pres A) (f : A -> list tok -> pres B) (g : B -> list tok -> pres C) :
  bindp (bindp m f) g = bindp m (fun a r => bindp (f a r) g).
Proof. destruct m; reflexivity. Qed.

(* comma separated items; rc: a comma is due before the first one *)
Definition sepc (rc : bool) (its : list (list tok)) : list tok :=
  match its with
  | [] => []
  | it :: rest => (if rc then [KOp OComma] else []) ++ it ++ flat_map (fun x => KOp OComma :: x) rest
  end.
Lemma commas_cons x its : commas (x :: its) = x ++ flat_map (fun y => KOp OComma :: y) its.
Proof.
  revert x. induction its as [|y its IH]; intros x; [cbn; rewrite app_nil_r; reflexivity|].
  change (commas (x :: y :: its)) with (x ++ KOp OComma :: commas (y :: its)). rewrite IH. reflexivity.
Qed.
Lemma commas_sepc its : commas its = sepc false its.
Proof. destruct its as [|x its]; [reflexivity|]. rewrite commas_cons. reflexivity. Qed.
Lemma sepc_true its : flat_map (fun y => KOp OComma :: y) its = sepc true its.
Proof. destruct its; reflexivity. Qed.
Lemma nc0_flat its c r : c = ORParen \/ c = ORBracket \/ c = ORBrace ->
  nc 0 (flat_map (fun y => KOp OComma :: y) its ++ KOp c :: r) = true.
Proof. intros [->|[->| ->]]; destruct its; reflexivity. Qed.
Lemma noassign_flat its c r : noassign_hd (flat_map (fun y => KOp OComma :: y) its ++ KOp c :: r) = true \/ c = OAssign.
Proof. destruct its; cbn; [destruct c; auto|auto]. Qed.

Definition kwp (p : str * expr) : list tok := KName (fst p) :: KOp OAssign :: pr 0 (snd p).

Lemma arg_match {T} (r1 : list tok) (A : str -> list tok -> T) (B : T) :
  no_assign2 r1 = true ->
  match r1 with KName key :: KOp OAssign :: r2 => A key r2 | _ => B end = B.
Proof. intros H. destruct r1 as [|[] [|[| | | |[]] ?]]; cbn in H; try discriminate; reflexivity. Qed.

(* ---- call arguments ---- *)
Lemma kw_loop r lp : forall kw2 rc kw0 args0,
  (forall p, In p kw2 -> GOOD (snd p)) ->
  parses (fun K => p_args_loop K lp args0 kw0 rc) (sepc rc (map kwp kw2) ++ KOp ORParen :: r) (args0, kw0 ++ kw2) r.
Proof.
  induction kw2 as [|[k v] kw2 IH]; intros rc kw0 args0 Hg.
  - rewrite app_nil_r. apply parses_ret. intros K. rewrite step_p_args_loop. reflexivity.
  - destruct (Hg (k, v) (or_introl eq_refl)) as [Pv _]. cbn [snd] in Pv.
    cbn [map sepc kwp fst snd]. rewrite sepc_true.
    set (rest := sepc true (map kwp kw2) ++ KOp ORParen :: r).
    assert (Hrest : nc 0 rest = true) by (unfold rest; rewrite <- sepc_true; apply nc0_flat; auto).
    destruct rc; cbn [app]; rewrite <- ?app_assoc; cbn [app]; fold rest.
    + eapply (parses_bind _ p_cond (fun K x y => p_args_loop K lp args0 (kw0 ++ [(k, x)]) true y) _ (pr 0 v ++ rest)).
      * intros K. rewrite step_p_args_loop. reflexivity.
      * apply Pv. exact Hrest.
      * replace (kw0 ++ (k, v) :: kw2) with ((kw0 ++ [(k, v)]) ++ kw2) by (rewrite <- app_assoc; reflexivity).
        unfold rest. apply IH. intros p Hp. apply Hg. right. exact Hp.
    + eapply (parses_bind _ p_cond (fun K x y => p_args_loop K lp args0 (kw0 ++ [(k, x)]) true y) _ (pr 0 v ++ rest)).
      * intros K. rewrite step_p_args_loop. reflexivity.
      * apply Pv. exact Hrest.
      * replace (kw0 ++ (k, v) :: kw2) with ((kw0 ++ [(k, v)]) ++ kw2) by (rewrite <- app_assoc; reflexivity).
        unfold rest. apply IH. intros p Hp. apply Hg. right. exact Hp.
Qed.

Lemma pos_loop r lp kw2 : (forall p, In p kw2 -> GOOD (snd p)) -> forall xs2 rc args0,
  (forall x, In x xs2 -> GOOD x) ->
  parses (fun K => p_args_loop K lp args0 [] rc) (sepc rc (map (pr 0) xs2 ++ map kwp kw2) ++ KOp ORParen :: r) (args0 ++ xs2, kw2) r.
Proof.
  intros Hkw. induction xs2 as [|x xs2 IH]; intros rc args0 Hg.
  - rewrite app_nil_r. cbn [map app]. apply (kw_loop r lp kw2 rc [] args0 Hkw).
  - destruct (Hg x (or_introl eq_refl)) as [Px [Hx Nx]].
    cbn [map app sepc]. rewrite sepc_true.
    set (rest := sepc true (map (pr 0) xs2 ++ map kwp kw2) ++ KOp ORParen :: r).
    assert (Hrest : nc 0 rest = true) by (unfold rest; rewrite <- sepc_true; apply nc0_flat; auto).
    assert (Hna : no_assign2 (pr 0 x ++ rest) = true).
    { apply Nx. unfold rest. rewrite <- sepc_true. destruct (noassign_flat (map (pr 0) xs2 ++ map kwp kw2) ORParen r) as [H|H]; [exact H|discriminate]. }
    specialize (Hx rest).
    eapply (parses_bind _ p_cond (fun K v y => p_args_loop K lp (args0 ++ [v]) [] true y) _ (pr 0 x ++ rest)).
    + intros K. rewrite step_p_args_loop.
      destruct rc; cbn [app]; rewrite <- ?app_assoc; fold rest.
      * cbn [is_op expect bindp tl]. rewrite (hd_rparen _ Hx), (hd_mul _ Hx), (hd_pow _ Hx). cbn [andb orb].
        rewrite (arg_match _ _ _ Hna). reflexivity.
      * rewrite (hd_rparen _ Hx). cbn [bindp andb]. rewrite (hd_mul _ Hx), (hd_pow _ Hx). cbn [orb].
        rewrite (arg_match _ _ _ Hna). reflexivity.
    + apply Px. exact Hrest.
    + replace (args0 ++ x :: xs2) with ((args0 ++ [x]) ++ xs2) by (rewrite <- app_assoc; reflexivity).
      unfold rest. apply IH. intros y Hy. apply Hg. right. exact Hy.
Qed.

Lemma call_args_ok xs kw r :
  (forall x, In x xs -> GOOD x) -> (forall p, In p kw -> GOOD (snd p)) ->
  parses p_call_args (KOp OLParen :: commas (map (pr 0) xs ++ map kwp kw) ++ KOp ORParen :: r) (xs, kw) r.
Proof.
  intros Hx Hk. rewrite commas_sepc.
  eapply (parses_step _ (fun K => p_args_loop K (KOp OLParen :: sepc false (map (pr 0) xs ++ map kwp kw) ++ KOp ORParen :: r) [] [] false) _ (sepc false (map (pr 0) xs ++ map kwp kw) ++ KOp ORParen :: r)); [intros K; rewrite step_p_call_args; reflexivity|].
  apply (pos_loop r _ kw Hk xs false [] Hx).
Qed.

(* ---- list and dict literals ---- *)
Definition nonempty {A} (l : list A) : bool := match l with [] => false | _ => true end.

Lemma items_loop r : forall xs2 acc, (forall x, In x xs2 -> GOOD x) ->
  parses (fun K => p_items K ORBracket acc) (sepc (nonempty acc) (map (pr 0) xs2) ++ KOp ORBracket :: r) (acc ++ xs2) r.
Proof.
  induction xs2 as [|x xs2 IH]; intros acc Hg.
  - rewrite app_nil_r. apply parses_ret. intros K. rewrite step_p_items. reflexivity.
  - destruct (Hg x (or_introl eq_refl)) as [Px [Hx _]].
    cbn [map sepc]. rewrite sepc_true.
    set (rest := sepc true (map (pr 0) xs2) ++ KOp ORBracket :: r).
    assert (Hrest : nc 0 rest = true) by (unfold rest; rewrite <- sepc_true; apply nc0_flat; auto).
    specialize (Hx rest).
    eapply (parses_bind _ p_cond (fun K e y => p_items K ORBracket (acc ++ [e]) y) _ (pr 0 x ++ rest)).
    + intros K. rewrite step_p_items. destruct acc as [|a0 acc]; cbn [nonempty app]; rewrite <- ?app_assoc; fold rest.
      * rewrite (hd_rbracket _ Hx). cbn [bindp]. rewrite (hd_rbracket _ Hx). reflexivity.
      * cbn [is_op expect bindp tl]. rewrite (hd_rbracket _ Hx). reflexivity.
    + apply Px. exact Hrest.
    + replace (acc ++ x :: xs2) with ((acc ++ [x]) ++ xs2) by (rewrite <- app_assoc; reflexivity). unfold rest.
      replace (sepc true (map (pr 0) xs2)) with (sepc (nonempty (acc ++ [x])) (map (pr 0) xs2)) by (destruct acc; reflexivity).
      apply IH. intros y Hy. apply Hg. right. exact Hy.
Qed.

Definition pairp (p : expr * expr) : list tok := pr 0 (fst p) ++ KOp OColon :: pr 0 (snd p).

Lemma pairs_loop r : forall kvs2 acc, (forall p, In p kvs2 -> GOOD (fst p) /\ GOOD (snd p)) ->
  parses (fun K => p_pairs K acc) (sepc (nonempty acc) (map pairp kvs2) ++ KOp ORBrace :: r) (acc ++ kvs2) r.
Proof.
  induction kvs2 as [|[k v] kvs2 IH]; intros acc Hg.
  - rewrite app_nil_r. apply parses_ret. intros K. rewrite step_p_pairs. reflexivity.
  - destruct (Hg (k, v) (or_introl eq_refl)) as [[Pk [Hk _]] [Pv _]]. cbn [fst snd] in *.
    cbn [map sepc pairp fst snd]. rewrite sepc_true.
    set (rest := sepc true (map pairp kvs2) ++ KOp ORBrace :: r).
    assert (Hrest : nc 0 rest = true) by (unfold rest; rewrite <- sepc_true; apply nc0_flat; auto).
    specialize (Hk (KOp OColon :: pr 0 v ++ rest)).
    eapply (parses_bind _ p_cond (fun K k0 r2 => bindp (expect OColon r2) (fun _ r3 => bindp (p_cond K r3) (fun v0 r4 => p_pairs K (acc ++ [(k0, v0)]) r4))) _ (pr 0 k ++ KOp OColon :: pr 0 v ++ rest)).
    + intros K. rewrite step_p_pairs. change (pairp (k, v)) with (pr 0 k ++ KOp OColon :: pr 0 v). destruct acc as [|a0 acc]; cbn [nonempty app]; rewrite <- ?app_assoc; cbn [app]; rewrite <- ?app_assoc; fold rest.
      * rewrite (hd_rbrace _ Hk). cbn [bindp]. rewrite (hd_rbrace _ Hk). reflexivity.
      * cbn [is_op expect bindp tl]. rewrite (hd_rbrace _ Hk). reflexivity.
    + apply Pk. reflexivity.
    + eapply (parses_bind0 _ p_cond _ _ (pr 0 v ++ rest)); [intros K; reflexivity| |].
      * apply Pv. exact Hrest.
      * replace (acc ++ (k, v) :: kvs2) with ((acc ++ [(k, v)]) ++ kvs2) by (rewrite <- app_assoc; reflexivity). unfold rest.
        replace (sepc true (map pairp kvs2)) with (sepc (nonempty (acc ++ [(k, v)])) (map pairp kvs2)) by (destruct acc; reflexivity).
        apply IH. intros p Hp. apply Hg. right. exact Hp.
Qed.

(* ---- tuples and parentheses ---- *)
Lemma tuple_loop r : forall xs2 acc, (forall x, In x xs2 -> GOOD x) ->
  parses (fun K => p_tuple_rest K acc true) (flat_map (fun y => KOp OComma :: y) (map (pr 0) xs2) ++ KOp ORParen :: r)
         (ETuple (acc ++ xs2)) (KOp ORParen :: r).
Proof.
  induction xs2 as [|x xs2 IH]; intros acc Hg.
  - rewrite app_nil_r. apply parses_ret. intros K. rewrite step_p_tuple_rest. reflexivity.
  - destruct (Hg x (or_introl eq_refl)) as [Px [Hx _]].
    cbn [map flat_map app]. rewrite <- app_assoc.
    set (rest := flat_map (fun y => KOp OComma :: y) (map (pr 0) xs2) ++ KOp ORParen :: r).
    specialize (Hx rest).
    eapply (parses_bind _ p_cond _ _ (pr 0 x ++ rest)).
    + intros K. rewrite step_p_tuple_rest. cbn [is_op tl]. rewrite (hd_tuple_end _ Hx). reflexivity.
    + apply Px. unfold rest. apply nc0_flat. auto.
    + replace (acc ++ x :: xs2) with ((acc ++ [x]) ++ xs2) by (rewrite <- app_assoc; reflexivity).
      unfold rest. apply IH. intros y Hy. apply Hg. right. exact Hy.
Qed.

Lemma prim_tuple es r : (forall x, In x es -> GOOD x) -> parses p_primary (raw (ETuple es) ++ r) (ETuple es) r.
Proof.
  intros Hg. destruct es as [|x es].
  - cbn [raw map commas app].
    eapply (parses_bind _ p_tuple _ _ (KOp ORParen :: r)); [intros K; rewrite step_p_primary; reflexivity| |].
    + apply parses_ret. intros K. rewrite step_p_tuple. reflexivity.
    + cbn. apply parses_const.
  - destruct (Hg x (or_introl eq_refl)) as [Px [Hx _]].
    assert (Hrest : forall ys, (forall y, In y ys -> GOOD y) ->
              parses p_primary (KOp OLParen :: pr 0 x ++ (match ys with [] => [KOp OComma] | _ => flat_map (fun y => KOp OComma :: y) (map (pr 0) ys) end) ++ KOp ORParen :: r)
                     (ETuple (x :: ys)) r).
    { intros ys Hys.
      set (more := (match ys with [] => [KOp OComma] | _ => flat_map (fun y => KOp OComma :: y) (map (pr 0) ys) end) ++ KOp ORParen :: r).
      assert (Hm : nc 0 more = true) by (unfold more; destruct ys; reflexivity).
      specialize (Hx more).
      eapply (parses_bind _ p_tuple _ _ (pr 0 x ++ more)); [intros K; rewrite step_p_primary; reflexivity| |].
      - eapply (parses_bind _ p_cond _ _ (pr 0 x ++ more)); [intros K; rewrite step_p_tuple, (hd_tuple_end _ Hx); reflexivity| |].
        + apply Px. exact Hm.
        + unfold more. destruct ys as [|y ys].
          * apply parses_ret. intros K. rewrite step_p_tuple_rest. reflexivity.
          * destruct (Hys y (or_introl eq_refl)) as [Py [Hy _]].
            cbn [map flat_map app]. rewrite <- app_assoc.
            set (rest := flat_map (fun y0 => KOp OComma :: y0) (map (pr 0) ys) ++ KOp ORParen :: r).
            specialize (Hy rest).
            eapply (parses_bind _ p_cond _ _ (pr 0 y ++ rest)).
            -- intros K. rewrite step_p_tuple_rest. cbn [is_op tl]. rewrite (hd_tuple_end _ Hy). reflexivity.
            -- apply Py. unfold rest. apply nc0_flat. auto.
            -- apply (tuple_loop r ys ([x] ++ [y])). intros z Hz. apply Hys. right. exact Hz.
      - cbn. apply parses_const. }
    destruct es as [|y es].
    + cbn [raw]. change (if Nat.leb 0 (lvl x) then raw x else paren (raw x)) with (pr 0 x).
      cbn [app]. rewrite <- app_assoc. apply (Hrest []). intros y [].
    + cbn [raw]. cbn [app]. rewrite <- app_assoc.
      change (map (fun x0 : expr => if Nat.leb 0 (lvl x0) then raw x0 else paren (raw x0)) (x :: y :: es)) with (map (pr 0) (x :: y :: es)).
      cbn [map]. rewrite commas_cons. rewrite <- app_assoc. apply (Hrest (y :: es)). intros z Hz. apply Hg. right. exact Hz.
Qed.

Lemma prim_paren e r :
  (forall rr, nc 0 rr = true -> parses p_cond (raw e ++ rr) e rr) -> hd_ok (raw e ++ KOp ORParen :: r) = true ->
  parses p_primary (paren (raw e) ++ r) e r.
Proof.
  intros Pe He. unfold paren. cbn [app]. rewrite <- app_assoc. cbn [app].
  eapply (parses_bind _ p_tuple _ _ (raw e ++ KOp ORParen :: r)); [intros K; rewrite step_p_primary; reflexivity| |].
  - eapply (parses_bind _ p_cond _ _ (raw e ++ KOp ORParen :: r)); [intros K; rewrite step_p_tuple, (hd_tuple_end _ He); reflexivity| |].
    + apply Pe. reflexivity.
    + apply parses_ret. intros K. rewrite step_p_tuple_rest. reflexivity.
  - cbn. apply parses_const.
Qed.
