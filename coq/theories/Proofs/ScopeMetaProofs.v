(* C32 — static introspection over-approximates runtime behaviour (proofs). *)
From Coq Require Import List NArith ZArith Bool Arith Lia.
Import ListNotations.
From JV Require Import Model.ScopeAst Model.ScopeIdTrack Model.ScopeFrameExec Model.ScopeMeta
  Proofs.ScopeDictProofs Proofs.ScopeSymProofs.

(* ------------------------------------------------------------ referenced templates *)
Lemma until_found_sub : forall have l n, In n (until_found have l) -> In n l.
Proof.
  intros have l n. induction l as [|x r IH]; cbn; [tauto|].
  destruct (have x); cbn; intros [H|H]; auto. contradiction.
Qed.
Lemma candidates_cover : forall dv truth k t n, In n (candidates dv truth t) ->
  In (Some n) (referenced k t) \/ In None (referenced k t).
Proof.
  intros dv truth k t n H. destruct t as [c|items|x|c a b]; cbn [candidates referenced] in *.
  - destruct c as [s| |l].
    + destruct H as [<-|[]]. left. left. reflexivity.
    + contradiction.
    + destruct k; try (right; left; reflexivity). left.
      apply in_flat_map in H. destruct H as [c [Hc Hn]]. apply in_flat_map. exists c. split; [exact Hc|].
      destruct c; try contradiction. destruct Hn as [<-|[]]. left. reflexivity.
  - apply in_flat_map in H. destruct H as [it [Hit Hn]]. destruct it as [c|x].
    + destruct c as [s| |l]; try contradiction. destruct Hn as [<-|[]]. left.
      apply in_flat_map. exists (IConst (CStr s)). split; [exact Hit|left; reflexivity].
    + right. apply in_flat_map. exists (IDyn x). split; [exact Hit|left; reflexivity].
  - right. left. reflexivity.
  - right. left. reflexivity.
Qed.
Theorem referenced_cover_thm : forall dv truth have k t n,
  In n (requested dv truth have k t) -> In (Some n) (referenced k t) \/ In None (referenced k t).
Proof.
  intros dv truth have k t n H. apply (candidates_cover dv truth k t n).
  unfold requested in H. destruct k; try (destruct (candidates dv truth t); [contradiction|destruct H as [<-|[]]; left; reflexivity]).
  apply (until_found_sub have). exact H.
Qed.

(* ------------------------------------------------------------ resolves *)
Section Log.
  Variable pynorm : name -> name.
  Variable priv : name -> bool.
  Variable d : list (name * value).
  Variable R : list name.

  Definition okch (ch : list symbols) : Prop := incl (chain_resolves ch) R.

  Lemma log_write : forall st id v, f_log (write_ref pynorm st id v) = f_log st. Proof. reflexivity. Qed.
  Lemma log_enter_loads : forall loads st st',
    enter_loads pynorm d st loads = Ok st' ->
    incl (flat_map (fun il => match snd il with LResolve x => [x] | _ => [] end) loads) R ->
    incl (f_log st) R -> incl (f_log st') R.
  Proof.
    induction loads as [|[tid l] r IH]; intros st st' E HR HL; cbn [enter_loads] in E.
    - injection E as <-. exact HL.
    - cbn [flat_map snd] in HR. destruct l as [|x|o|].
      + apply (IH _ _ E); auto.
      + apply (IH _ _ E); [intros y Hy; apply HR; apply in_or_app; right; exact Hy|].
        cbn. intros y [<-|Hy]; [apply HR; left; reflexivity|apply HL; exact Hy].
      + destruct (read_ref pynorm st o); [|discriminate]. apply (IH _ _ E); auto.
      + apply (IH _ _ E); auto.
  Qed.
  Lemma log_enter : forall st st' S P, enter_frame pynorm d st S = Ok st' -> okch (S :: P) -> incl (f_log st) R -> incl (f_log st') R.
  Proof. intros st st' S P E H HL. apply (log_enter_loads (s_loads S) st st' E); auto. Qed.
  Lemma log_leave : forall st S, f_log (leave_frame pynorm st S) = f_log st.
  Proof.
    intros st S. unfold leave_frame. generalize (s_loads S). intros l. revert st.
    induction l as [|a r IH]; intros st; cbn [fold_left]; [reflexivity|]. rewrite IH. reflexivity.
  Qed.
  Lemma log_assign : forall syms fr st x v st', assign pynorm priv syms fr st x v = Ok st' -> f_log st' = f_log st.
  Proof.
    intros syms fr st x v st' E. unfold assign in E. destruct (find_ref syms x); [|discriminate]. injection E as <-.
    destruct (toplevel fr); reflexivity.
  Qed.

  Lemma nocall_go : forall l, (fix go (l : list stmt) : bool := match l with [] => true | x :: r => nocall x && go r end) l = nocall_l l.
  Proof. induction l as [|x r IH]; cbn; [reflexivity|rewrite IH; reflexivity]. Qed.
  Lemma frames_go' : forall ch l, (fix go (chain : list symbols) (l : list stmt) : list (list symbols) :=
      match l with [] => [] | x :: r => frames_stmt oid chain x ++ go chain r end) ch l = frames_list oid ch l.
  Proof. intros ch l. induction l as [|x r IH]; cbn; [reflexivity|rewrite IH; reflexivity]. Qed.

  Ltac ib H x Ex :=
    match type of H with
    | bind ?X _ = Ok _ => destruct X as [x|] eqn:Ex; cbn [bind] in H; [|discriminate]
    end.

  Lemma logsub : forall fuel syms fr st l st' o,
    nocall_l l = true -> Forall okch (frames_list oid syms l) -> incl (f_log st) R ->
    fx pynorm priv d fuel syms fr st l = Ok (st', o) -> incl (f_log st') R.
  Proof.
    induction fuel as [|f IH]; intros syms fr st l st' o Hn HF HL E; [cbn in E; discriminate|].
    destruct l as [|s rest]; [cbn in E; injection E as <- _; exact HL|].
    cbn [nocall_l] in Hn. apply andb_true_iff in Hn. destruct Hn as [Hs Hr].
    cbn [frames_list] in HF. apply Forall_app in HF. destruct HF as [HFs HFr].
    cbn [fx] in E.
    ib E r1 E1. destruct r1 as [st1 o1]. ib E r2 Er. destruct r2 as [st2 o2]. injection E as <- _.
    apply (IH syms fr st1 rest st2 o2 Hr HFr); [|exact Er].
    clear Er Hr HFr st2 o2 rest.
    destruct s as [es|t b ei el|tg it te b el|x e|x a e|x kvs|x b|bs b|k b|m ps b|g args|ps g args b]; cbn [nocall] in Hs; try discriminate.
    - (* out *) ib E1 ov Eo. injection E1 as <- _. exact HL.
    - (* if *)
      rewrite !nocall_go in Hs. apply andb_true_iff in Hs. destruct Hs as [Hs H3]. apply andb_true_iff in Hs. destruct Hs as [H1 H2].
      cbn [frames_stmt] in HFs. rewrite !frames_go' in HFs. apply Forall_app in HFs. destruct HFs as [F1 HFs]. apply Forall_app in HFs. destruct HFs as [F2 F3].
      ib E1 v Ev. destruct (truthy v).
      + apply (IH _ _ _ _ _ _ H1 F1 HL E1).
      + revert H2 F2 E1. induction ei as [|s r IHr]; intros H2 F2 E1.
        * apply (IH _ _ _ _ _ _ H3 F3 HL E1).
        * cbn [nocall_l] in H2. apply andb_true_iff in H2. destruct H2 as [H2a H2b].
          cbn [frames_list] in F2. apply Forall_app in F2. destruct F2 as [F2a F2b].
          destruct s; try (apply (IHr H2b F2b E1)).
          ib E1 v2 Ev2. destruct (truthy v2); [|apply (IHr H2b F2b E1)].
          cbn [nocall] in H2a. rewrite !nocall_go in H2a. apply andb_true_iff in H2a. destruct H2a as [H2a _]. apply andb_true_iff in H2a. destruct H2a as [H2a _].
          cbn [frames_stmt] in F2a. rewrite !frames_go' in F2a. apply Forall_app in F2a. destruct F2a as [F2a _].
          apply (IH _ _ _ _ _ _ H2a F2a HL E1).
    - (* for *)
      rewrite !nocall_go in Hs. apply andb_true_iff in Hs. destruct Hs as [H1 H2].
      cbn [frames_stmt] in HFs. rewrite !frames_go' in HFs.
      apply Forall_app in HFs. destruct HFs as [Ft HFs]. apply Forall_app in HFs. destruct HFs as [Fb HFs].
      inversion Fb as [|? ? Fb1 _]; subst. apply Forall_app in HFs. destruct HFs as [Fbb Fe].
      ib E1 v Ev.
      (* the loop-filter function *)
      ib E1 tact Et. destruct tact as [stt tloc].
      assert (HLt : incl (f_log stt) R).
      { destruct te as [t|]; [|injection Et as <- _; exact HL].
        ib Et stx Ex. injection Et as <- _. cbn [pop_act f_log].
        inversion Ft as [|? ? Ft1 _]; subst.
        apply (log_enter _ _ _ _ Ex Ft1). exact HL. }
      ib E1 items Ei. ib E1 r3 E3. destruct r3 as [[st3 out] n].
      set (st0 := if extended_loop b then write_ref pynorm stt (S match syms with [] => 0 | p :: _ => s_level p end, n_loop) None else stt) in *.
      assert (HL0 : incl (f_log st0) R) by (unfold st0; destruct (extended_loop b); exact HLt).
      assert (HL3 : incl (f_log st3) R).
      { clearbody st0. clear E1 Et HLt Ei. revert E3. generalize 0%N as idx. generalize (@nil N) as out0. revert st0 tloc HL0.
        induction items as [|item more IHm]; intros st0 tloc HL0 out0 idx E3.
        - injection E3 as <- _ _. exact HL0.
        - ib E3 pass Ep. destruct pass as [[stp tloc'] ok].
          assert (HLp : incl (f_log stp) R).
          { destruct te as [t|]; [|injection Ep as <- _ _; exact HL0].
            ib Ep tv Etv. injection Ep as <- _ _. cbn [pop_act f_log]. exact HL0. }
          destruct ok; [|apply (IHm _ _ HLp _ _ E3)].
          ib E3 ste Ee. ib E3 rb Eb. destruct rb as [stb ob].
          apply (IHm stb tloc') with (out0 := out0 ++ ob) (idx := (idx + 1)%N); [|exact E3].
          apply (IH _ _ _ _ _ _ H1 Fbb) with (2 := Eb).
          apply (log_enter _ _ _ _ Ee Fb1).
          destruct (extended_loop b); exact HLp. }
      destruct el as [|e0 el']; [injection E1 as <- _; rewrite log_leave; exact HL3|].
      destruct (N.eqb n 0); [|injection E1 as <- _; rewrite log_leave; exact HL3].
      ib E1 st4 E4. ib E1 r5 E5. destruct r5 as [st5 o5]. injection E1 as <- _. rewrite log_leave.
      inversion Fe as [|? ? Fe1 Fe2]; subst.
      change (nocall_l (e0 :: el') = true) in H2.
      change (Forall okch (frames_list oid (frame_for_else oid syms (e0 :: el') :: syms) (e0 :: el'))) in Fe2.
      apply (IH _ _ _ _ _ _ H2 Fe2) with (2 := E5).
      apply (log_enter _ _ _ _ E4 Fe1). rewrite log_leave. exact HL3.
    - (* set *) ib E1 v Ev. ib E1 sta Ea. injection E1 as <- _. rewrite (log_assign _ _ _ _ _ _ Ea). exact HL.
    - (* set attr *)
      destruct (find_ref syms x) as [i|]; [|discriminate]. destruct (read_ref pynorm st i) as [[[]|]|]; try discriminate.
      ib E1 v Ev. injection E1 as <- _. exact HL.
    - (* namespace *)
      ib E1 c Ec. ib E1 vs Evs. destruct c; try discriminate. ib E1 sta Ea. injection E1 as <- _.
      rewrite (log_assign _ _ _ _ _ _ Ea). exact HL.
    - (* block set *)
      rewrite nocall_go in Hs. cbn [frames_stmt] in HFs. rewrite frames_go' in HFs. inversion HFs as [|? ? F1 F2]; subst.
      ib E1 ste Ee. ib E1 r3 E3. destruct r3 as [st3 o3]. ib E1 sta Ea. injection E1 as <- _. rewrite log_leave.
      rewrite (log_assign _ _ _ _ _ _ Ea). apply (IH _ _ _ _ _ _ Hs F2) with (2 := E3). apply (log_enter _ _ _ _ Ee F1 HL).
    - (* with *)
      rewrite nocall_go in Hs. cbn [frames_stmt] in HFs. rewrite frames_go' in HFs. inversion HFs as [|? ? F1 F2]; subst.
      ib E1 ste Ee. ib E1 stb Eb. ib E1 r4 E4. destruct r4 as [st4 o4]. injection E1 as <- _. rewrite log_leave.
      apply (IH _ _ _ _ _ _ Hs F2) with (2 := E4).
      assert (HLf : incl (f_log ste) R) by (apply (log_enter _ _ _ _ Ee F1 HL)).
      clear Ee E4 F1 F2 HFs. revert ste stb Eb HLf. generalize (frame_with ord_id syms (map fst bs) b) as ws. intros ws.
      induction bs as [|[y e] r IHb]; intros ste stb Eb HLf.
      + injection Eb as <-. exact HLf.
      + ib Eb v Ev. destruct (find_ref (ws :: syms) y); [|discriminate].
        apply (IHb _ _ Eb). exact HLf.
    - (* filter *)
      rewrite nocall_go in Hs. cbn [frames_stmt] in HFs. rewrite frames_go' in HFs. inversion HFs as [|? ? F1 F2]; subst.
      ib E1 ste Ee. ib E1 r3 E3. destruct r3 as [st3 o3]. injection E1 as <- _. rewrite log_leave.
      apply (IH _ _ _ _ _ _ Hs F2) with (2 := E3). apply (log_enter _ _ _ _ Ee F1 HL).
    - (* macro definition: no frame is entered until it is called *)
      destruct (find_ref syms m); [|discriminate]. injection E1 as <- _. destruct (toplevel fr); exact HL.
  Qed.
End Log.

Lemma static_in : forall p ch, In ch (frames_of oid p) -> incl (chain_resolves ch) (static_resolves p).
Proof.
  intros p ch H x Hx. unfold static_resolves. apply in_flat_map. exists ch. split; [exact H|exact Hx].
Qed.

Theorem resolves_subset_thm : forall pynorm priv d fuel p st o,
  nocall_l p = true -> frender_st pynorm priv d fuel p = Ok (st, o) ->
  forall x, In x (f_log st) -> In x (static_resolves p).
Proof.
  intros pynorm priv d fuel p st o Hn E. unfold frender_st in E.
  destruct (enter_frame pynorm d f_init (frame_root ord_id p)) as [st1|] eqn:E1; cbn [bind] in E; [|discriminate].
  assert (HF : Forall (okch (static_resolves p)) (frames_of oid p)).
  { apply Forall_forall. intros ch Hch. apply static_in. exact Hch. }
  unfold frames_of in HF. inversion HF as [|? ? F1 F2]; subst.
  apply (logsub pynorm priv d (static_resolves p) fuel [frame_root oid p] (mkFl true false) st1 p st o Hn F2); [|exact E].
  apply (log_enter pynorm d (static_resolves p) f_init st1 (frame_root oid p) [] E1 F1). intros x [].
Qed.

Theorem undeclared_cover_thm : forall globals p x, In x (static_resolves p) ->
  In x (meta_undeclared globals p) \/ In x globals.
Proof.
  intros globals p x H. unfold meta_undeclared. destruct (nmem x globals) eqn:E.
  - right. apply nmem_In. exact E.
  - left. apply filter_In. split; [exact H|]. rewrite E. reflexivity.
Qed.
