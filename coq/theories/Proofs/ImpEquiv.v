(* C05 — whole renders: the interpreter run with the implementation's context constructors and
   with the documented ones produce the same output, the same exception and the same exports, for
   every template set of the modelled language.  Contexts of the two runs are not equal as data
   (copied and updated dicts vs concatenations) but make the same variables visible. *)
From Coq Require Import List NArith Bool Arith Lia.
Import ListNotations.
From JV Require Import Model.Imp Spec.ImpSpec Proofs.ImpProofs.

Definition ctx_equiv (c1 c2 : ctx) : Prop :=
  (forall x, dget x (c_parent c1) = dget x (c_parent c2)) /\ c_vars c1 = c_vars c2 /\
  c_exported c1 = c_exported c2 /\ c_gkeys c1 = c_gkeys c2 /\ c_globals c1 = c_globals c2.
Definition crel (c1 c2 : ctx) : Prop := ctx_equiv c1 c2 /\ ctx_wf c1.
Definition srel (s1 s2 : st) : Prop := s_out s1 = s_out s2 /\ crel (s_ctx s1) (s_ctx s2) /\ s_loc s1 = s_loc s2.
Definition rrel (r1 r2 : res st) : Prop :=
  match r1, r2 with Ok a, Ok b => srel a b | Err e1, Err e2 => e1 = e2 | _, _ => False end.

Record prel (P1 P2 : policy) : Prop := {
  pr_include : forall c1 c2 L g, crel c1 c2 -> crel (p_include P1 c1 L g) (p_include P2 c2 L g);
  pr_default : forall g, crel (p_default P1 g) (p_default P2 g);
  pr_import : forall c1 c2 g, crel c1 c2 ->
      match p_import P1 c1 g, p_import P2 c2 g with
      | Ok a, Ok b => crel a b | Err e1, Err e2 => e1 = e2 | _, _ => False end;
  pr_select : forall ts l, p_select P1 ts l = p_select P2 ts l }.

Lemma resolve_rel : forall c1 c2 L x, crel c1 c2 -> resolve L c1 x = resolve L c2 x.
Proof.
  intros c1 c2 L x [[Hp [Hv _]] _]. unfold resolve. rewrite Hv, (Hp x). reflexivity.
Qed.

Lemma bind_rel : forall top x v e s1 s2, srel s1 s2 -> srel (bind top x v e s1) (bind top x v e s2).
Proof.
  intros top x v e s1 s2 [Ho [[[Hp [Hv [He [Hg Hgl]]]] Hw] Hl]]. unfold bind. destruct top.
  - split; [exact Ho|]. split; [|exact Hl]. cbn [s_ctx]. unfold bind_top. split.
    + cbn [c_parent c_vars c_exported c_gkeys c_globals]. rewrite Hv, He. repeat split; auto.
    + unfold ctx_wf in *. cbn [c_gkeys c_globals]. exact Hw.
  - split; [exact Ho|]. split; [split; [repeat split; auto|exact Hw]|]. cbn [s_loc]. now rewrite Hl.
Qed.

Lemma emit_rel : forall o s1 s2, srel s1 s2 -> srel (emit o s1) (emit o s2).
Proof. intros o s1 s2 [Ho [Hc Hl]]. unfold emit. cbn. rewrite Ho. repeat split; auto; apply Hc. Qed.

Lemma from_fold_rel : forall top (ex : env) (names : list (name * name)) s1 s2, srel s1 s2 ->
  srel (fold_left (fun s' na => bind top (snd na) (match dget (fst na) ex with Some v => v | None => VUndef end) false s') names s1)
       (fold_left (fun s' na => bind top (snd na) (match dget (fst na) ex with Some v => v | None => VUndef end) false s') names s2).
Proof.
  intros top ex names. induction names as [|na r IH]; intros s1 s2 H; [exact H|].
  cbn [fold_left]. apply IH. now apply bind_rel.
Qed.

Lemma get_exported_rel : forall c1 c2, crel c1 c2 -> get_exported c1 = get_exported c2.
Proof. intros c1 c2 [[_ [Hv [He _]]] _]. unfold get_exported. now rewrite Hv, He. Qed.

Section Rel.
  Variables P1 P2 : policy.
  Hypothesis HP : prel P1 P2.
  Variable ts : tset.

  Definition body_ok (fu : nat) : Prop :=
    forall top s1 s2 body, srel s1 s2 -> rrel (run_body P1 ts fu top s1 body) (run_body P2 ts fu top s2 body).

  Lemma fresh_rel : forall c1 c2, crel c1 c2 ->
    srel {| s_out := []; s_ctx := c1; s_loc := [] |} {| s_out := []; s_ctx := c2; s_loc := [] |}.
  Proof. intros c1 c2 H. repeat split; auto; apply H. Qed.

  Definition scope_step (P : policy) (fu : nat) (k : skind) (v : name) (body : list stmt) (L1 : env)
      (acc : res st) (val : str) : res st :=
    match acc with
    | Err e => Err e
    | Ok s1 =>
        match run_body P ts fu false
                {| s_out := s_out s1;
                   s_ctx := match k with
                            | KBlockS => p_include P (s_ctx s1) L1 (c_globals (s_ctx s1))
                            | _ => s_ctx s1 end;
                   s_loc := match k with KBlock | KBlockS => [] | _ => (v, VStr val) :: L1 end |} body with
        | Ok s2 => Ok {| s_out := s_out s2; s_ctx := s_ctx s1; s_loc := L1 |}
        | Err e => Err e
        end
    end.

  Lemma scope_rel : forall fu k v body L1 vals r1 r2, body_ok fu -> rrel r1 r2 ->
    (forall a, r1 = Ok a -> s_loc a = L1) ->
    rrel (fold_left (scope_step P1 fu k v body L1) vals r1) (fold_left (scope_step P2 fu k v body L1) vals r2).
  Proof.
    intros fu k v body L1 vals. induction vals as [|val r IH]; intros r1 r2 Hb H HL; [exact H|].
    cbn [fold_left].
    assert (Hstep : rrel (scope_step P1 fu k v body L1 r1 val) (scope_step P2 fu k v body L1 r2 val)).
    { unfold scope_step.
      destruct r1 as [a|e1], r2 as [b|e2]; cbn [rrel] in *; try contradiction; [|exact H].
      destruct H as [Ho [Hc Hl]].
      assert (Hg : c_globals (s_ctx a) = c_globals (s_ctx b)) by apply Hc.
      assert (Hs : srel {| s_out := s_out a;
                           s_ctx := match k with KBlockS => p_include P1 (s_ctx a) L1 (c_globals (s_ctx a)) | _ => s_ctx a end;
                           s_loc := match k with KBlock | KBlockS => [] | _ => (v, VStr val) :: L1 end |}
                        {| s_out := s_out b;
                           s_ctx := match k with KBlockS => p_include P2 (s_ctx b) L1 (c_globals (s_ctx b)) | _ => s_ctx b end;
                           s_loc := match k with KBlock | KBlockS => [] | _ => (v, VStr val) :: L1 end |}).
      { split; [exact Ho|]. split; [|reflexivity]. cbn [s_ctx].
        destruct k; try exact Hc. rewrite Hg. now apply (pr_include _ _ HP). }
      pose proof (Hb false _ _ body Hs) as Hr.
      destruct (run_body P1 ts fu false _ body) as [x|ex], (run_body P2 ts fu false _ body) as [y|ey];
        cbn [rrel] in *; try contradiction; [|exact Hr].
      destruct Hr as [Hxo _]. repeat split; auto; apply Hc. }
    apply IH; [exact Hb|exact Hstep|].
    intros a Ha. unfold scope_step in Ha. destruct r1 as [a0|]; [|discriminate].
    destruct (run_body P1 ts fu false _ body); [|discriminate]. now injection Ha as <-.
  Qed.

  Lemma stmt_rel : forall fu, body_ok fu ->
    forall top s1 s2 x, srel s1 s2 -> rrel (run_stmt P1 ts (S fu) top s1 x) (run_stmt P2 ts (S fu) top s2 x).
  Proof.
    intros fu Hb top s1 s2 x Hs. rewrite !run_stmt_S. cbv zeta.
    pose proof Hs as [Ho [Hc Hl]].
    assert (Hmod : forall (t : template) c1 c2, crel c1 c2 ->
      match (match run_body P1 ts fu true {| s_out := []; s_ctx := c1; s_loc := [] |} (t_body t) with
             | Ok s' => Ok (s_out s', VMod (get_exported (s_ctx s'))) | Err e => Err e end),
            (match run_body P2 ts fu true {| s_out := []; s_ctx := c2; s_loc := [] |} (t_body t) with
             | Ok s' => Ok (s_out s', VMod (get_exported (s_ctx s'))) | Err e => Err e end) with
      | Ok a, Ok b => a = b | Err e1, Err e2 => e1 = e2 | _, _ => False end).
    { intros t c1 c2 Hcc. pose proof (Hb true _ _ (t_body t) (fresh_rel c1 c2 Hcc)) as Hr.
      destruct (run_body P1 ts fu true _ (t_body t)) as [a|ea], (run_body P2 ts fu true _ (t_body t)) as [b|eb];
        cbn [rrel] in Hr; try contradiction; [|exact Hr].
      destruct Hr as [Hro [Hrc _]]. now rewrite Hro, (get_exported_rel _ _ Hrc). }
    assert (Hmf : forall (t : template) (wc : bool),
      match (if wc then (match run_body P1 ts fu true {| s_out := []; s_ctx := p_include P1 (s_ctx s1) (s_loc s1) (t_globals t); s_loc := [] |} (t_body t) with
                         | Ok s' => Ok (s_out s', VMod (get_exported (s_ctx s'))) | Err e => Err e end)
             else match p_import P1 (s_ctx s1) (t_globals t) with
                  | Ok c' => (match run_body P1 ts fu true {| s_out := []; s_ctx := c'; s_loc := [] |} (t_body t) with
                              | Ok s' => Ok (s_out s', VMod (get_exported (s_ctx s'))) | Err e => Err e end)
                  | Err e => Err e end),
            (if wc then (match run_body P2 ts fu true {| s_out := []; s_ctx := p_include P2 (s_ctx s2) (s_loc s2) (t_globals t); s_loc := [] |} (t_body t) with
                         | Ok s' => Ok (s_out s', VMod (get_exported (s_ctx s'))) | Err e => Err e end)
             else match p_import P2 (s_ctx s2) (t_globals t) with
                  | Ok c' => (match run_body P2 ts fu true {| s_out := []; s_ctx := c'; s_loc := [] |} (t_body t) with
                              | Ok s' => Ok (s_out s', VMod (get_exported (s_ctx s'))) | Err e => Err e end)
                  | Err e => Err e end) with
      | Ok a, Ok b => a = b | Err e1, Err e2 => e1 = e2 | _, _ => False end).
    { intros t wc. destruct wc.
      - apply Hmod. rewrite Hl. now apply (pr_include _ _ HP).
      - pose proof (pr_import _ _ HP (s_ctx s1) (s_ctx s2) (t_globals t) Hc) as Hi.
        destruct (p_import P1 (s_ctx s1) (t_globals t)) as [a|ea], (p_import P2 (s_ctx s2) (t_globals t)) as [b|eb];
          try contradiction; [|exact Hi]. now apply Hmod. }
    destruct x as [o|v|m v|v e|m b|tg il wc ig|t a wc|t names wc|k v vals body|t].
    - cbn [rrel]. now apply emit_rel.
    - cbn [rrel]. rewrite Hl, (resolve_rel _ _ (s_loc s2) v Hc). now apply emit_rel.
    - rewrite Hl, (resolve_rel _ _ (s_loc s2) m Hc).
      destruct (show_attr _ v); cbn [rrel]; [now apply emit_rel|reflexivity].
    - cbn [rrel]. assert (He : eval (s_loc s1) (s_ctx s1) e = eval (s_loc s2) (s_ctx s2) e).
      { destruct e; cbn [eval]; [reflexivity|]. now rewrite Hl, (resolve_rel _ _ (s_loc s2) x Hc). }
      rewrite He. now apply bind_rel.
    - cbn [rrel]. now apply bind_rel.
    - rewrite (pr_select _ _ HP).
      destruct (if il then p_select P2 ts tg else match tg with t :: _ => get_target ts t | [] => None end) as [t|].
      + assert (Hcc : crel (if wc then p_include P1 (s_ctx s1) (s_loc s1) (t_globals t) else p_default P1 (t_globals t))
                           (if wc then p_include P2 (s_ctx s2) (s_loc s2) (t_globals t) else p_default P2 (t_globals t))).
        { destruct wc; [rewrite Hl; now apply (pr_include _ _ HP)|apply (pr_default _ _ HP)]. }
        pose proof (Hb true _ _ (t_body t) (fresh_rel _ _ Hcc)) as Hr.
        destruct (run_body P1 ts fu true _ (t_body t)) as [x|ex], (run_body P2 ts fu true _ (t_body t)) as [y|ey];
          cbn [rrel] in *; try contradiction; [|exact Hr].
        destruct Hr as [Hxo _]. rewrite Hxo. now apply emit_rel.
      + destruct ig; cbn [rrel]; [exact Hs|reflexivity].
    - destruct (get_target ts t) as [tg|]; [|reflexivity].
      pose proof (Hmf tg wc) as Hm.
      destruct (if wc then _ else _) as [[o1 m1]|e1], (if wc then _ else _) as [[o2 m2]|e2]; try contradiction;
        cbn [rrel]; [|exact Hm].
      injection Hm as _ <-. now apply bind_rel.
    - destruct (get_target ts t) as [tg|]; [|reflexivity].
      pose proof (Hmf tg wc) as Hm.
      destruct (if wc then _ else _) as [[o1 m1]|e1], (if wc then _ else _) as [[o2 m2]|e2]; try contradiction;
        cbn [rrel]; [|exact Hm].
      injection Hm as _ <-. destruct m1; cbn [rrel]; try reflexivity. now apply from_fold_rel.
    - rewrite Hl. apply (scope_rel fu k v body (s_loc s2) vals (Ok s1) (Ok s2) Hb Hs).
      intros a Ha. injection Ha as <-. exact Hl.
    - destruct (get_target ts t) as [tg|]; [now apply Hb|reflexivity].
  Qed.

  Definition stmt_ok (fu : nat) : Prop :=
    forall top s1 s2 x, srel s1 s2 -> rrel (run_stmt P1 ts fu top s1 x) (run_stmt P2 ts fu top s2 x).

  Lemma both_rel : forall fuel, body_ok fuel /\ stmt_ok fuel.
  Proof.
    induction fuel as [|fu [IHb IHs]].
    - split; intros top s1 s2 y Hs; reflexivity.
    - split.
      + intros top s1 s2 body Hs. rewrite !run_body_S. destruct body as [|x rest]; [exact Hs|].
        pose proof (IHs top s1 s2 x Hs) as Hr.
        destruct (run_stmt P1 ts fu top s1 x) as [a|ea], (run_stmt P2 ts fu top s2 x) as [b|eb];
          cbn [rrel] in *; try contradiction; [|exact Hr].
        now apply IHb.
      + intros top s1 s2 x Hs. now apply stmt_rel.
  Qed.
End Rel.

(* the implementation's constructors and the documented ones are related *)
Lemma include_crel : forall c1 c2 L g, crel c1 c2 -> crel (include_ctx c1 L g) (vis_include c2 L g).
Proof.
  intros c1 c2 L g H. split; [|reflexivity]. repeat split.
  intros x. pose proof (include_lookup c1 L g x) as H1. pose proof (vis_include_lookup c2 L g x) as H2.
  unfold resolve in H1, H2. cbn [dget] in H1, H2.
  assert (V1 : c_vars (include_ctx c1 L g) = []) by reflexivity.
  assert (V2 : c_vars (vis_include c2 L g) = []) by reflexivity.
  rewrite V1 in H1. rewrite V2 in H2. cbn [dget] in H1, H2. rewrite H1, H2.
  pose proof (resolve_rel c1 c2 L x H) as Hr. unfold resolve in Hr. exact Hr.
Qed.

Lemma import_crel : forall c1 c2 g, crel c1 c2 ->
  match import_ctx c1 g, vis_import c2 g with
  | Ok a, Ok b => crel a b | Err e1, Err e2 => e1 = e2 | _, _ => False end.
Proof.
  intros c1 c2 g [[Hp [Hv [He [Hg Hgl]]]] Hw].
  destruct (import_lookup c1 g Hw) as [c' [Hi [Hw' Hx]]]. rewrite Hi. unfold vis_import.
  split; [|exact Hw'].
  assert (Hf : c_vars c' = [] /\ c_exported c' = [] /\ c_gkeys c' = dkeys g /\ c_globals c' = g).
  { unfold import_ctx in Hi. destruct (filter _ (c_gkeys c1)); [injection Hi as <-; repeat split|].
    destruct (pick_parent _ _); [injection Hi as <-; repeat split|discriminate]. }
  destruct Hf as [F1 [F2 [F3 F4]]]. split; [|cbn [c_vars c_exported c_gkeys c_globals]; auto].
  intros x. specialize (Hx x). unfold resolve in Hx. cbn [dget] in Hx. rewrite F1 in Hx. cbn [dget] in Hx.
  rewrite Hx. cbn [c_parent]. rewrite dget_app, <- Hgl. reflexivity.
Qed.

Lemma impl_spec_rel : prel impl spec.
Proof.
  constructor.
  - exact include_crel.
  - intros g. split; [repeat split|reflexivity].
  - exact import_crel.
  - intros ts l. apply select_first.
Qed.

Lemma crel_refl_new : forall vars shared g L, crel (new_context vars shared g L) (new_context vars shared g L).
Proof. intros. split; [repeat split|reflexivity]. Qed.

Lemma render_equiv_gen : forall fuel ts main data,
  render_with impl fuel ts main data = render_with spec fuel ts main data.
Proof.
  intros fuel ts main data. unfold render_with. destruct (tfind main ts) as [t|]; [|reflexivity].
  pose proof (proj1 (both_rel impl spec impl_spec_rel ts fuel) true _ _ (t_body t)
                (fresh_rel _ _ (crel_refl_new (Some data) false (t_globals t) []))) as Hr.
  destruct (run_body impl ts fuel true _ (t_body t)) as [a|ea], (run_body spec ts fuel true _ (t_body t)) as [b|eb];
    cbn [rrel] in Hr; try contradiction; [|now rewrite Hr].
  destruct Hr as [Ho _]. now rewrite Ho.
Qed.

Lemma module_equiv_gen : forall fuel ts main,
  module_with impl fuel ts main = module_with spec fuel ts main.
Proof.
  intros fuel ts main. unfold module_with. destruct (tfind main ts) as [t|]; [|reflexivity].
  assert (Hd : crel (p_default impl (t_globals t)) (p_default spec (t_globals t))) by apply (pr_default _ _ impl_spec_rel).
  pose proof (proj1 (both_rel impl spec impl_spec_rel ts fuel) true _ _ (t_body t) (fresh_rel _ _ Hd)) as Hr.
  destruct (run_body impl ts fuel true _ (t_body t)) as [a|ea], (run_body spec ts fuel true _ (t_body t)) as [b|eb];
    cbn [rrel] in Hr; try contradiction; [|now rewrite Hr].
  destruct Hr as [Ho [Hc _]]. now rewrite Ho, (get_exported_rel _ _ Hc).
Qed.
