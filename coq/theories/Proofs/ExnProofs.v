(* Lemmas for C38 (Model/Exn.v). *)
From Coq Require Import List NArith Bool Lia String.
Import ListNotations.
From JV Require Import Model.Exn.

Lemma bcls_eqb_refl b : bcls_eqb b b = true.
Proof. destruct b; reflexivity. Qed.

Lemma bcls_eqb_eq a b : bcls_eqb a b = true -> a = b.
Proof. destruct a, b; cbn; intros H; try reflexivity; discriminate. Qed.

Lemma cls_eqb_refl c : cls_eqb c c = true.
Proof. induction c as [b|n p IH]; cbn; [apply bcls_eqb_refl|]. now rewrite N.eqb_refl, IH. Qed.

Lemma cls_eqb_eq a : forall b, cls_eqb a b = true -> a = b.
Proof.
  induction a as [x|n p IH]; intros [y|m q] H; cbn in H; try discriminate.
  - f_equal. now apply bcls_eqb_eq.
  - apply andb_true_iff in H as [H1 H2]. apply N.eqb_eq in H1. apply IH in H2. now subst.
Qed.

Lemma cls_in_In c l : cls_in c l = true -> In c l.
Proof.
  unfold cls_in. intros H. apply existsb_exists in H as [x [Hx E]]. apply cls_eqb_eq in E. now subst.
Qed.

Lemma subclass_refl c : subclass c c = true.
Proof.
  unfold subclass. apply existsb_exists. exists c. split; [|apply cls_eqb_refl].
  destruct c as [b|n p]; cbn [ancestors]; [|now left].
  apply in_map. unfold bancestors. change (banc 7 b) with (b :: flat_map (banc 6) (bparents b)). now left.
Qed.

(* a foreign exception matches no clause that names signal classes only *)
Lemma foreign_no_match sig e h :
  foreign sig e = true -> forallb (fun c => cls_in c sig) (h_catch h) = true -> matches e h = false.
Proof.
  intros F A. unfold matches. apply not_true_is_false. intros M.
  apply existsb_exists in M as [c [Hc S]].
  rewrite forallb_forall in A. specialize (A c Hc). apply cls_in_In in A.
  unfold foreign in F. rewrite forallb_forall in F. specialize (F c A). now rewrite S in F.
Qed.

Lemma find_matches_reraise sig e t h :
  foreign sig e = true -> try_ok sig t = true -> find (matches e) t = Some h -> h_kind h = Reraise.
Proof.
  intros F T H. apply find_some in H as [Hin M].
  unfold try_ok in T. rewrite forallb_forall in T. specialize (T h Hin).
  unfold handler_ok in T. apply orb_true_iff in T as [R|A].
  - destruct (h_kind h); try discriminate; reflexivity.
  - now rewrite (foreign_no_match sig e h F A) in M.
Qed.

(* the core: through try statements that satisfy the obligation a foreign exception object
   travels unchanged, however deep the stack *)
Lemma propagate_foreign sig e stack :
  foreign sig e = true -> Forall (fun t => try_ok sig t = true) stack -> propagate e stack = Raised e.
Proof.
  intros F. induction stack as [|t r IH]; intros A; cbn [propagate]; [reflexivity|].
  inversion A as [|? ? Ht Hr]; subst.
  destruct (find (matches e) t) as [h|] eqn:E; [|exact (IH Hr)].
  rewrite (find_matches_reraise sig e t h F Ht E). exact (IH Hr).
Qed.

(* stacks drawn from a table whose non-exempt rows satisfy the obligation *)
Definition from_table (tab : list row) (stack : list trystmt) : Prop :=
  Forall (fun t => exists r, In r tab /\ is_exempt (r_fn r) = false /\ r_try r = t) stack.

Lemma from_table_ok sig tab stack :
  table_ok sig tab = true -> from_table tab stack -> Forall (fun t => try_ok sig t = true) stack.
Proof.
  intros T S. unfold from_table in S. rewrite Forall_forall in *. intros t Ht.
  destruct (S t Ht) as [r [Hr [Ex Et]]]. unfold table_ok in T. rewrite forallb_forall in T.
  specialize (T r Hr). rewrite Ex in T. cbn in T. now rewrite Et in T.
Qed.

Lemma render_fault_foreign sig tab stacks k e st :
  table_ok sig tab = true -> nth_error stacks k = Some st -> from_table tab st ->
  foreign sig e = true -> render_with_fault stacks k e = Failed e.
Proof.
  intros T N S F. unfold render_with_fault. rewrite N.
  now rewrite (propagate_foreign sig e st F (from_table_ok sig tab st T S)).
Qed.

(* the other direction, used to explain documented conversions: the innermost try whose
   first matching clause does not re-raise decides *)
Lemma propagate_swallow e t r h :
  find (matches e) t = Some h -> is_reraise (h_kind h) = false ->
  (forall c, h_kind h <> RaiseOther c) -> propagate e (t :: r) = Swallowed.
Proof.
  intros E R O. cbn [propagate]. rewrite E. destruct (h_kind h) eqn:K; try reflexivity; try discriminate.
  exfalso. exact (O c eq_refl).
Qed.

(* a class derived (at any depth) from a class is a subclass of it *)
Lemma subclass_user n p c : subclass p c = true -> subclass (User n p) c = true.
Proof.
  unfold subclass. intros H. cbn [ancestors existsb]. rewrite H. apply orb_true_r.
Qed.
