(* C20: what the operator hooks of the sandbox see. *)
From Coq Require Import List NArith ZArith Bool Lia.
Import ListNotations.
From JV Require Import Model.ExprAst Model.ExprPrim Spec.ExprSpec Model.ExprTarget Model.ExprFold
  Proofs.ExprProofs Proofs.ExprFoldProofs.

(* an event the configuration allows: a hook application of an intercepted operator of a
   sandboxed environment, or a call of an opaque callable *)
Definition ev_ok (c : cfg) (ev : event) : Prop :=
  match ev with
  | EvBin op _ _ => sandboxed c = true /\ ibin c op = true
  | EvUn op _ => sandboxed c = true /\ iun c op = true
  | EvCall _ _ _ => True
  end.

(* a computation only appends allowed events to the log *)
Definition appends (c : cfg) {A} (m : M A) : Prop :=
  forall l r l', m l = (r, l') -> exists d, l' = d ++ l /\ Forall (ev_ok c) d.

Lemma appends_ret c {A} (a : A) : appends c (ret a).
Proof. intros l r l' H. injection H as <- <-. exists []. split; [reflexivity|constructor]. Qed.
Lemma appends_fail c {A} e : appends c (@fail A e).
Proof. intros l r l' H. injection H as <- <-. exists []. split; [reflexivity|constructor]. Qed.
Lemma appends_lift c {A} (x : res A) : appends c (lift x).
Proof. intros l r l' H. injection H as <- <-. exists []. split; [reflexivity|constructor]. Qed.
Lemma appends_emit c ev : ev_ok c ev -> appends c (emit ev).
Proof. intros Hev l r l' H. injection H as <- <-. exists [ev]. split; [reflexivity|constructor; [exact Hev|constructor]]. Qed.

Lemma appends_bind c {A B} (m : M A) (f : A -> M B) :
  appends c m -> (forall a, appends c (f a)) -> appends c (bind m f).
Proof.
  intros Hm Hf l r l' H. unfold bind in H. destruct (m l) as [[a|e] l1] eqn:E.
  - destruct (Hm _ _ _ E) as [d1 [-> F1]]. destruct (Hf a _ _ _ H) as [d2 [-> F2]].
    exists (d2 ++ d1). split; [apply app_assoc|apply Forall_app; split; assumption].
  - injection H as <- <-. exact (Hm _ _ _ E).
Qed.

Lemma appends_mapM c {A B} (f : A -> M B) xs : (forall x, appends c (f x)) -> appends c (mapM f xs).
Proof.
  intros Hf. induction xs as [|x xs IH]; cbn; [apply appends_ret|].
  apply appends_bind; [apply Hf|]. intros y. apply appends_bind; [exact IH|]. intros ys. apply appends_ret.
Qed.

Lemma appends_optM c {A B} (f : A -> M B) o : (forall x, appends c (f x)) -> appends c (optM f o).
Proof. intros Hf. destruct o; cbn; [|apply appends_ret]. apply appends_bind; [apply Hf|]. intros; apply appends_ret. Qed.

Lemma appends_cmp_chain c {X} (f : X -> M value) : (forall x, appends c (f x)) -> forall ops v, appends c (cmp_chain f v ops).
Proof.
  intros Hf. induction ops as [|[op x] r IH]; intros v; cbn; [apply appends_ret|].
  apply appends_bind; [apply Hf|]. intros vb. apply appends_bind; [apply appends_lift|]. intros t.
  destruct r; [apply appends_ret|]. destruct (truth t); [apply IH|apply appends_ret].
Qed.

Lemma appends_if c {A} (b : bool) (m1 m2 : M A) : appends c m1 -> appends c m2 -> appends c (if b then m1 else m2).
Proof. destruct b; auto. Qed.

Theorem eval_appends O c : forall n e rho, appends c (eval O c n e rho).
Proof.
  induction n as [|n IH]; intros e rho; [destruct e; apply appends_fail|].
  assert (IHe : forall x, appends c (eval O c n x rho)) by (intros; apply IH).
  destruct e; cbn [eval].
  - apply appends_ret.
  - apply appends_ret.
  - apply appends_bind; [apply IHe|]. intros va. apply appends_bind; [apply IHe|]. intros vb.
    unfold apply_bin. destruct (sandboxed c && ibin c op) eqn:Hi; [|apply appends_lift].
    apply andb_true_iff in Hi. apply appends_bind; [apply appends_emit; exact Hi|]. intros; apply appends_lift.
  - apply appends_bind; [apply IHe|]. intros va.
    unfold apply_un. destruct (sandboxed c && iun c op) eqn:Hi; [|apply appends_lift].
    apply andb_true_iff in Hi. apply appends_bind; [apply appends_emit; exact Hi|]. intros; apply appends_lift.
  - apply appends_bind; [apply IHe|]. intros; apply appends_ret.
  - apply appends_bind; [apply IHe|]. intros va. apply appends_if; [apply IHe|apply appends_ret].
  - apply appends_bind; [apply IHe|]. intros va. apply appends_if; [apply appends_ret|apply IHe].
  - apply appends_bind; [apply appends_mapM; exact IHe|]. intros; apply appends_lift.
  - apply appends_bind; [apply IHe|]. intros va. apply appends_cmp_chain. exact IHe.
  - apply appends_bind; [apply IHe|]. intros vt. apply appends_if; [apply IHe|]. destruct b; [apply IHe|apply appends_ret].
  - apply appends_bind; [apply IHe|]. intros; apply appends_lift.
  - apply appends_bind; [apply IHe|]. intros va. apply appends_bind; [apply IHe|]. intros; apply appends_lift.
  - apply appends_bind; [apply IHe|]. intros va. apply appends_bind; [apply appends_optM; exact IHe|]. intros vlo.
    apply appends_bind; [apply appends_optM; exact IHe|]. intros vhi.
    apply appends_bind; [apply appends_optM; exact IHe|]. intros; apply appends_lift.
  - apply appends_bind; [apply appends_mapM; exact IHe|]. intros; apply appends_ret.
  - apply appends_bind; [apply appends_mapM; exact IHe|]. intros; apply appends_ret.
  - apply appends_bind.
    + apply appends_mapM. intros kv. apply appends_bind; [apply IHe|]. intros vk. apply appends_bind; [apply IHe|]. intros; apply appends_ret.
    + intros ps. apply appends_bind; [apply appends_lift|]. intros; apply appends_ret.
  - apply appends_bind; [apply IHe|]. intros vf. apply appends_bind; [apply appends_mapM; exact IHe|]. intros vargs.
    apply appends_bind.
    + apply appends_mapM. intros kv. apply appends_bind; [apply IHe|]. intros; apply appends_ret.
    + intros vkw. unfold do_call. destruct vf; try apply appends_fail.
      apply appends_bind; [apply appends_emit; exact I|]. intros; apply appends_lift.
  - apply appends_bind; [apply IHe|]. intros va. apply appends_bind; [apply appends_mapM; exact IHe|]. intros; apply appends_lift.
  - apply appends_bind; [apply IHe|]. intros va. apply appends_bind; [apply appends_mapM; exact IHe|]. intros; apply appends_lift.
Qed.

(* an intercepted application is never folded, also on constants *)
Lemma intercepted_not_folded O c op a b :
  sandboxed c = true -> ibin c op = true -> as_const O c (EBin op a b) = FImp.
Proof. intros Hs Hi. unfold as_const. cbn. rewrite Hs, Hi. reflexivity. Qed.

Lemma intercepted_un_not_folded O c op a :
  sandboxed c = true -> iun c op = true -> as_const O c (EUn op a) = FImp.
Proof. intros Hs Hi. unfold as_const. cbn. rewrite Hs, Hi. reflexivity. Qed.

Lemma intercepted_const_code O c op x y :
  sandboxed c = true -> ibin c op = true ->
  gen_opt O c (EBin op (EConst x) (EConst y)) = TCallBinop op (TConst x) (TConst y).
Proof.
  intros Hs Hi. unfold gen_opt, pre_opt. destruct (opt_on c).
  - cbn [pre_opt_on optimize]. unfold fold. rewrite (intercepted_not_folded O c op _ _ Hs Hi). cbn. rewrite Hs, Hi. reflexivity.
  - cbn. rewrite Hs, Hi. reflexivity.
Qed.
