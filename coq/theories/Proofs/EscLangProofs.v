(* C16: escape_once by a logical relation between the autoescape-on and the autoescape-off run
   of the evaluator of Model/EscLang.v;  C15: the MkClean invariant of the on run. *)
From Coq Require Import List NArith Bool Lia.
From JV Require Import Model.EscMarkup Model.EscLang Proofs.EscMarkupProofs.
Import ListNotations.
Open Scope N_scope.


(* one-step unfolding equations of the evaluator (the text of Model/EscLang.v at fuel S n) *)
Lemma eval_e_S : forall (b0 flag : bool) (dl : list (N * list str)) (n : nat) (ce : cexp) (rt : bool) (mu : menv) (k : option callerclo) (r : env) (e : expr),
  eval_e b0 flag dl (S n) ce rt mu k r e =
      match e with
      | EVar x => Some (lookup r x)
      | ELit s => Some (Plain s)
      | ECat a b =>
          match eval_e b0 flag dl n ce rt mu k r a with None => None | Some va =>
          match eval_e b0 flag dl n ce rt mu k r b with None => None | Some vb =>
            Some (if on_now b0 ce rt then markup_join [va; vb] else str_join [va; vb])
          end end
      | EFilt f a args =>
          match eval_e b0 flag dl n ce rt mu k r a with None => None | Some va =>
          match eval_es b0 flag dl n ce rt mu k r args with None => None | Some vs =>
            apply_filter rt f va vs
          end end
      | ECond c a b =>
          match eval_e b0 flag dl n ce rt mu k r c with None => None | Some vc =>
            if truthy vc then eval_e b0 flag dl n ce rt mu k r a else eval_e b0 flag dl n ce rt mu k r b
          end
      | ECall m args =>
          match eval_es b0 flag dl n ce rt mu k r args with None => None | Some vs =>
          match lookup_mac mu m with None => None | Some (ps, body, ce') =>
          match bind ps vs with None => None | Some pr =>
          match eval_ss b0 flag dl n ce' rt mu None (pr ++ r) body with None => None | Some (o, _, _) =>
            Some (wrap rt o)
          end end end end
      | ECaller =>
          match k with None => None | Some (CC body ce') =>
          match eval_ss b0 flag dl n ce' rt mu None r body with None => None | Some (o, _, _) =>
            Some (wrap rt o)
          end end
      end.
Proof. reflexivity. Qed.

Lemma eval_es_S : forall (b0 flag : bool) (dl : list (N * list str)) (n : nat) (ce : cexp) (rt : bool) (mu : menv) (k : option callerclo) (r : env) (es : list expr),
  eval_es b0 flag dl (S n) ce rt mu k r es =
      match es with
      | [] => Some []
      | e :: es' =>
          match eval_e b0 flag dl n ce rt mu k r e with None => None | Some v =>
          match eval_es b0 flag dl n ce rt mu k r es' with None => None | Some vs => Some (v :: vs)
          end end
      end.
Proof. reflexivity. Qed.

Lemma eval_ss_S : forall (b0 flag : bool) (dl : list (N * list str)) (n : nat) (ce : cexp) (rt : bool) (mu : menv) (k : option callerclo) (r : env) (ss : list stmt),
  eval_ss b0 flag dl (S n) ce rt mu k r ss =
      match ss with
      | [] => Some ([], r, mu)
      | s :: ss' =>
          match eval_s b0 flag dl n ce rt mu k r s with None => None | Some (o1, r1, mu1) =>
          match eval_ss b0 flag dl n ce rt mu1 k r1 ss' with None => None | Some (o2, r2, mu2) =>
            Some (o1 ++ o2, r2, mu2)
          end end
      end.
Proof. reflexivity. Qed.

Lemma eval_s_S : forall (b0 flag : bool) (dl : list (N * list str)) (n : nat) (ce : cexp) (rt : bool) (mu : menv) (k : option callerclo) (r : env) (s : stmt),
  eval_s b0 flag dl (S n) ce rt mu k r s =
      match s with
      | SText t => Some (t, r, mu)
      | SOut e =>
          match eval_e b0 flag dl n ce rt mu k r e with None => None | Some v =>
            Some (out_piece (on_now b0 ce rt) v, r, mu)
          end
      | SIf c t f =>
          match eval_e b0 flag dl n ce rt mu k r c with None => None | Some vc =>
            if truthy vc then eval_ss b0 flag dl n ce rt mu k r t else eval_ss b0 flag dl n ce rt mu k r f
          end
      | SFor x l body =>
          match eval_for b0 flag dl n ce rt mu k r x (lookup_list dl l) body with None => None | Some o =>
            Some (o, r, mu)
          end
      | SSet x e =>
          match eval_e b0 flag dl n ce rt mu k r e with None => None | Some v => Some ([], (x, v) :: r, mu) end
      | SSetBlock x body =>
          match eval_ss b0 flag dl n ce rt mu k r body with None => None | Some (o, _, _) =>
            Some ([], (x, wrap rt o) :: r, mu)
          end
      | SMacro m ps body => Some ([], r, (m, (ps, body, ce)) :: mu)
      | SCallBlock m args body =>
          match eval_es b0 flag dl n ce rt mu k r args with None => None | Some vs =>
          match lookup_mac mu m with None => None | Some (ps, mbody, ce') =>
          match bind ps vs with None => None | Some pr =>
          match eval_ss b0 flag dl n ce' rt mu (Some (CC body ce)) (pr ++ r) mbody with None => None
          | Some (o, _, _) => Some (out_piece (on_now b0 ce rt) (wrap rt o), r, mu)   (* escape / str of the macro's result *)
          end end end end
      | SFilterBlock f args body =>
          match eval_ss b0 flag dl n ce rt mu k r body with None => None | Some (o, _, _) =>
          match eval_es b0 flag dl n ce rt mu k r args with None => None | Some vs =>
          match apply_filter rt f (wrap (on_now b0 ce rt) o) vs with None => None | Some v =>
            Some (out_piece (on_now b0 ce rt) v, r, mu)
          end end end
      | SAutoescape a body =>
          match eval_ss b0 flag dl n (ce_enter ce a) (rt_enter flag a) mu k r body with None => None
          | Some (o, _, _) => Some (o, r, mu)
          end
      end.
Proof. reflexivity. Qed.

Lemma eval_for_S : forall (b0 flag : bool) (dl : list (N * list str)) (n : nat) (ce : cexp) (rt : bool) (mu : menv) (k : option callerclo) (r : env) (x : N) (items : list str) (body : list stmt),
  eval_for b0 flag dl (S n) ce rt mu k r x items body =
      match items with
      | [] => Some []
      | it :: items' =>
          match eval_ss b0 flag dl n ce rt mu k ((x, Plain it) :: r) body with None => None | Some (o1, _, _) =>
          match eval_for b0 flag dl n ce rt mu k r x items' body with None => None | Some o2 => Some (o1 ++ o2)
          end end
      end.
Proof. reflexivity. Qed.

Ltac unf := rewrite ?eval_e_S, ?eval_es_S, ?eval_ss_S, ?eval_s_S, ?eval_for_S; cbv beta iota.
Ltac unf_in E := rewrite ?eval_e_S, ?eval_es_S, ?eval_ss_S, ?eval_s_S, ?eval_for_S in E; cbv beta iota in E.

Definition orel {A B : Type} (R : A -> B -> Prop) (x : option A) (y : option B) : Prop :=
  match x, y with
  | Some a, Some b => R a b
  | None, None => True
  | _, _ => False
  end.

(* ================================================================== C16 *)
Definition srel (a b : str) : Prop := Aligned a /\ unescape5 a = b.

Definition vrel (v1 v2 : tstr) : Prop :=
  match v1, v2 with
  | Plain a, Plain b => a = b
  | Mk a, Plain b => srel a b
  | _, Mk _ => False
  end.

Definition prel (p q : N * tstr) : Prop := fst p = fst q /\ vrel (snd p) (snd q).
Definition erel (r1 r2 : env) : Prop := Forall2 prel r1 r2.

Definition pa16 (a : aexp) : bool := match a with AFlag => true | AConst _ => false end.
Definition oke16 := ok_e neutral_filter (fun _ : str => true).
Definition oks16 := ok_s neutral_filter amp_free (fun _ : str => true) pa16.

Definition ce_ok (ce : cexp) : Prop := ce = CTop \/ ce = CVol.
Definition mac_ok (c : N * (list N * list stmt * cexp)) : Prop :=
  let '(_, (_, body, ce)) := c in forallb oks16 body = true /\ ce_ok ce.
Definition mu_ok (mu : menv) : Prop := Forall mac_ok mu.
Definition k_ok (k : option callerclo) : Prop :=
  match k with None => True | Some (CC body ce) => forallb oks16 body = true /\ ce_ok ce end.

Definition sres_rel (x y : str * env * menv) : Prop :=
  let '(o1, r1, m1) := x in let '(o2, r2, m2) := y in
  srel o1 o2 /\ erel r1 r2 /\ m1 = m2 /\ mu_ok m1.

Lemma sres_intro : forall o1 o2 r1 r2 mu, srel o1 o2 -> erel r1 r2 -> mu_ok mu ->
  sres_rel (o1, r1, mu) (o2, r2, mu).
Proof. intros o1 o2 r1 r2 mu H1 H2 H3. cbn. exact (conj H1 (conj H2 (conj eq_refl H3))). Qed.

Lemma srel_nil : srel [] [].
Proof. split; [constructor|reflexivity]. Qed.

Lemma srel_app : forall a b c d, srel a b -> srel c d -> srel (a ++ c) (b ++ d).
Proof.
  intros a b c d [Ha Ea] [Hc Ec]. split; [now apply aligned_app|].
  rewrite unescape_app_aligned by assumption. now rewrite Ea, Ec.
Qed.

Lemma srel_text : forall t, amp_free t = true -> srel t t.
Proof. intros t H. split; [now apply aligned_amp_free|now apply unescape5_amp_free]. Qed.

Lemma esc_rel : forall v1 v2, vrel v1 v2 -> srel (esc_str v1) (raw v2).
Proof.
  intros [a|a] [b|b] H; cbn in H; try contradiction; cbn [esc_str esc raw].
  - subst b. split; [apply aligned_escape|apply unescape_escape].
  - exact H.
Qed.

Lemma vrel_truthy : forall v1 v2, vrel v1 v2 -> truthy v1 = truthy v2.
Proof.
  intros [a|a] [b|b] H; cbn in H; try contradiction; unfold truthy; cbn [raw].
  - now subst b.
  - destruct H as [Ha E]. destruct a as [|x a'].
    + cbn in E. now subst b.
    + destruct b as [|y b']; [|reflexivity].
      apply unescape5_nil_aligned in E; [discriminate|exact Ha].
Qed.

Lemma cat_rel : forall va va2 vb vb2, vrel va va2 -> vrel vb vb2 ->
  vrel (markup_join [va; vb]) (str_join [va2; vb2]).
Proof.
  intros va va2 vb vb2 Ha Hb.
  assert (Hs : srel (esc_str va ++ esc_str vb ++ []) (raw va2 ++ raw vb2 ++ [])).
  { apply srel_app; [now apply esc_rel|]. apply srel_app; [now apply esc_rel|apply srel_nil]. }
  destruct va as [a|a], va2 as [a2|a2]; cbn in Ha; try contradiction;
  destruct vb as [b|b], vb2 as [b2|b2]; cbn in Hb; try contradiction;
  unfold markup_join, str_join; cbn [existsb is_mk orb map concat vrel]; try exact Hs.
  subst a2 b2. reflexivity.
Qed.

Lemma lookup_rel : forall r1 r2 x, erel r1 r2 -> vrel (lookup r1 x) (lookup r2 x).
Proof.
  intros r1 r2 x H. induction H as [|[y1 v1] [y2 v2] r1 r2 [Hy Hv] Hr IH]; [reflexivity|].
  cbn in Hy, Hv. subst y2. cbn [lookup]. destruct (x =? y1); assumption.
Qed.

Lemma bind_rel : forall ps vs1 vs2, Forall2 vrel vs1 vs2 -> orel erel (bind ps vs1) (bind ps vs2).
Proof.
  induction ps as [|p ps IH]; intros vs1 vs2 H.
  - destruct H; cbn; [constructor|exact I].
  - destruct H as [|v1 v2 vs1 vs2 Hv Hvs].
    + cbn [bind]. specialize (IH [] [] (Forall2_nil _)).
      destruct (bind ps []) as [r|]; cbn in IH |- *; [|exact I].
      constructor; [split; reflexivity|exact IH].
    + cbn [bind]. specialize (IH vs1 vs2 Hvs).
      destruct (bind ps vs1) as [r1|], (bind ps vs2) as [r2|]; cbn in IH |- *; try contradiction; [|exact I].
      constructor; [split; [reflexivity|exact Hv]|exact IH].
Qed.

Lemma filt_rel : forall f v1 v2 a1 a2, neutral_filter f = true -> vrel v1 v2 -> Forall2 vrel a1 a2 ->
  orel vrel (apply_filter true f v1 a1) (apply_filter false f v2 a2).
Proof.
  intros f v1 v2 a1 a2 Hf Hv Ha. destruct f; try discriminate Hf.
  - (* string *) destruct Ha; cbn; [exact Hv|exact I].
  - (* lower *) destruct Ha; cbn; [|exact I].
    destruct v1 as [a|a], v2 as [b|b]; cbn in Hv; try contradiction; cbn.
    + now subst b.
    + destruct Hv as [Hal E]. destruct (lower_unescape_aligned a Hal) as [H1 H2].
      split; [exact H1|]. now rewrite H2, E.
  - (* default *) destruct Ha as [|d1 d2 a1 a2 Hd Ha]; cbn; [exact I|].
    destruct Ha; cbn; [|exact I].
    rewrite (vrel_truthy v1 v2 Hv). destruct (truthy v2); assumption.
Qed.

Lemma lookup_mac_ok : forall mu m ps body ce, mu_ok mu -> lookup_mac mu m = Some (ps, body, ce) ->
  forallb oks16 body = true /\ ce_ok ce.
Proof.
  intros mu m ps body ce H. induction H as [|[y [[ps' b'] ce']] mu Hc Hmu IH]; [discriminate|].
  cbn [lookup_mac]. destruct (m =? y); [|exact IH].
  intros E. injection E as -> -> ->. exact Hc.
Qed.

Lemma on_now_on : forall ce, ce_ok ce -> on_now true ce true = true.
Proof. intros ce [->| ->]; reflexivity. Qed.
Lemma on_now_off : forall ce, ce_ok ce -> on_now false ce false = false.
Proof. intros ce [->| ->]; reflexivity. Qed.

Section C16.
  Variable dl : list (N * list str).

  Notation ev1_e := (eval_e true true dl).
  Notation ev2_e := (eval_e false false dl).
  Notation ev1_es := (eval_es true true dl).
  Notation ev2_es := (eval_es false false dl).
  Notation ev1_ss := (eval_ss true true dl).
  Notation ev2_ss := (eval_ss false false dl).
  Notation ev1_s := (eval_s true true dl).
  Notation ev2_s := (eval_s false false dl).
  Notation ev1_for := (eval_for true true dl).
  Notation ev2_for := (eval_for false false dl).

  Definition P_e (n : nat) : Prop := forall ce mu k r1 r2 e,
    ce_ok ce -> mu_ok mu -> k_ok k -> erel r1 r2 -> oke16 e = true ->
    orel vrel (ev1_e n ce true mu k r1 e) (ev2_e n ce false mu k r2 e).
  Definition P_es (n : nat) : Prop := forall ce mu k r1 r2 es,
    ce_ok ce -> mu_ok mu -> k_ok k -> erel r1 r2 -> forallb oke16 es = true ->
    orel (Forall2 vrel) (ev1_es n ce true mu k r1 es) (ev2_es n ce false mu k r2 es).
  Definition P_ss (n : nat) : Prop := forall ce mu k r1 r2 ss,
    ce_ok ce -> mu_ok mu -> k_ok k -> erel r1 r2 -> forallb oks16 ss = true ->
    orel sres_rel (ev1_ss n ce true mu k r1 ss) (ev2_ss n ce false mu k r2 ss).
  Definition P_s (n : nat) : Prop := forall ce mu k r1 r2 s,
    ce_ok ce -> mu_ok mu -> k_ok k -> erel r1 r2 -> oks16 s = true ->
    orel sres_rel (ev1_s n ce true mu k r1 s) (ev2_s n ce false mu k r2 s).
  Definition P_for (n : nat) : Prop := forall ce mu k r1 r2 x items body,
    ce_ok ce -> mu_ok mu -> k_ok k -> erel r1 r2 -> forallb oks16 body = true ->
    orel srel (ev1_for n ce true mu k r1 x items body) (ev2_for n ce false mu k r2 x items body).

  Tactic Notation "both" hyp(H) "as" ident(a) ident(b) :=
    match type of H with
    | orel _ ?x ?y =>
        destruct x as [a|], y as [b|]; cbn [orel] in H; try contradiction; try exact I
    end.

  Lemma rel_all : forall n, P_e n /\ P_es n /\ P_ss n /\ P_s n /\ P_for n.
  Proof.
    induction n as [|n (IHe & IHes & IHss & IHs & IHfor)].
    { repeat split; repeat intro; exact I. }
    repeat split.
    - (* expressions *)
      intros ce mu k r1 r2 e Hce Hmu Hk Hr He. destruct e as [x|s|a b|f a args|c a b|m args|].
      + cbn. now apply lookup_rel.
      + cbn. reflexivity.
      + cbn [oke16 ok_e] in He. fold oke16 in He. apply andb_true_iff in He as [Ha Hb].
        unf.
        pose proof (IHe ce mu k r1 r2 a Hce Hmu Hk Hr Ha) as Ra. both Ra as va1 va2.
        pose proof (IHe ce mu k r1 r2 b Hce Hmu Hk Hr Hb) as Rb. both Rb as vb1 vb2.
        rewrite on_now_on, on_now_off by assumption. cbn [orel]. now apply cat_rel.
      + cbn [oke16 ok_e] in He. fold oke16 in He.
        apply andb_true_iff in He as [He Hargs]. apply andb_true_iff in He as [Hf Ha].
        unf.
        pose proof (IHe ce mu k r1 r2 a Hce Hmu Hk Hr Ha) as Ra. both Ra as va1 va2.
        pose proof (IHes ce mu k r1 r2 args Hce Hmu Hk Hr Hargs) as Rs. both Rs as vs1 vs2.
        now apply filt_rel.
      + cbn [oke16 ok_e] in He. fold oke16 in He.
        apply andb_true_iff in He as [He Hb]. apply andb_true_iff in He as [Hc Ha].
        unf.
        pose proof (IHe ce mu k r1 r2 c Hce Hmu Hk Hr Hc) as Rc. both Rc as vc1 vc2.
        rewrite (vrel_truthy _ _ Rc). destruct (truthy vc2).
        * now apply IHe.
        * now apply IHe.
      + cbn [oke16 ok_e] in He. fold oke16 in He.
        unf.
        pose proof (IHes ce mu k r1 r2 args Hce Hmu Hk Hr He) as Rs. both Rs as vs1 vs2.
        destruct (lookup_mac mu m) as [[[ps body] ce']|] eqn:El; [|exact I].
        destruct (lookup_mac_ok mu m ps body ce' Hmu El) as [Hb Hce'].
        pose proof (bind_rel ps vs1 vs2 Rs) as Rb. both Rb as pr1 pr2.
        assert (Hr' : erel (pr1 ++ r1) (pr2 ++ r2)) by (now apply Forall2_app).
        pose proof (IHss ce' mu None (pr1 ++ r1) (pr2 ++ r2) body Hce' Hmu I Hr' Hb) as Rss. both Rss as x1 x2.
        destruct x1 as [[o1 r1'] m1], x2 as [[o2 r2'] m2]. cbn in Rss. destruct Rss as (Ho & _).
        cbn. exact Ho.
      + unf. destruct k as [[body ce']|]; [|exact I].
        cbn in Hk. destruct Hk as [Hb Hce'].
        pose proof (IHss ce' mu None r1 r2 body Hce' Hmu I Hr Hb) as Rss. both Rss as x1 x2.
        destruct x1 as [[o1 r1'] m1], x2 as [[o2 r2'] m2]. cbn in Rss. destruct Rss as (Ho & _).
        cbn. exact Ho.
    - (* expression lists *)
      intros ce mu k r1 r2 es Hce Hmu Hk Hr He. destruct es as [|e es].
      + cbn. constructor.
      + cbn [forallb] in He. apply andb_true_iff in He as [He Hes]. unf.
        pose proof (IHe ce mu k r1 r2 e Hce Hmu Hk Hr He) as Ra. both Ra as v1 v2.
        pose proof (IHes ce mu k r1 r2 es Hce Hmu Hk Hr Hes) as Rs. both Rs as vs1 vs2.
        cbn. now constructor.
    - (* statement lists *)
      intros ce mu k r1 r2 ss Hce Hmu Hk Hr Hs. destruct ss as [|s ss].
      + unf. cbn [orel]. apply sres_intro; [apply srel_nil|assumption|assumption].
      + cbn [forallb] in Hs. apply andb_true_iff in Hs as [Hs Hss]. unf.
        pose proof (IHs ce mu k r1 r2 s Hce Hmu Hk Hr Hs) as Ra. both Ra as x1 x2.
        destruct x1 as [[o1 r1'] m1], x2 as [[o2 r2'] m2]. cbn in Ra. destruct Ra as (Ho & Hr' & -> & Hm).
        pose proof (IHss ce m2 k r1' r2' ss Hce Hm Hk Hr' Hss) as Rb. both Rb as y1 y2.
        destruct y1 as [[o1' r1''] m1'], y2 as [[o2' r2''] m2']. cbn in Rb. destruct Rb as (Ho' & Hr'' & -> & Hm').
        cbn [orel]. apply sres_intro; [now apply srel_app|assumption|assumption].
    - (* statements *)
      intros ce mu k r1 r2 s Hce Hmu Hk Hr Hs.
      destruct s as [t|e|c t f|x l body|x e|x body|m ps body|m args body|f args body|a body].
      + cbn [oks16 ok_s] in Hs. unf. cbn [orel].
        apply sres_intro; [now apply srel_text|assumption|assumption].
      + cbn [oks16 ok_s] in Hs. fold oke16 in Hs. unf.
        pose proof (IHe ce mu k r1 r2 e Hce Hmu Hk Hr Hs) as Ra. both Ra as v1 v2.
        rewrite on_now_on, on_now_off by assumption. cbn [orel out_piece].
        apply sres_intro; [now apply esc_rel|assumption|assumption].
      + cbn [oks16 ok_s] in Hs. fold oke16 oks16 in Hs.
        apply andb_true_iff in Hs as [Hs Hf]. apply andb_true_iff in Hs as [Hc Ht]. unf.
        pose proof (IHe ce mu k r1 r2 c Hce Hmu Hk Hr Hc) as Rc. both Rc as vc1 vc2.
        rewrite (vrel_truthy _ _ Rc). destruct (truthy vc2); now apply IHss.
      + cbn [oks16 ok_s] in Hs. fold oks16 in Hs. unf.
        pose proof (IHfor ce mu k r1 r2 x (lookup_list dl l) body Hce Hmu Hk Hr Hs) as Rf. both Rf as o1 o2.
        cbn [orel]. apply sres_intro; assumption.
      + cbn [oks16 ok_s] in Hs. fold oke16 in Hs. unf.
        pose proof (IHe ce mu k r1 r2 e Hce Hmu Hk Hr Hs) as Ra. both Ra as v1 v2.
        cbn [orel]. apply sres_intro; [apply srel_nil| |assumption].
        constructor; [split; [reflexivity|exact Ra]|exact Hr].
      + cbn [oks16 ok_s] in Hs. fold oks16 in Hs. unf.
        pose proof (IHss ce mu k r1 r2 body Hce Hmu Hk Hr Hs) as Rb. both Rb as x1 x2.
        destruct x1 as [[o1 r1'] m1], x2 as [[o2 r2'] m2]. cbn in Rb. destruct Rb as (Ho & _).
        cbn [orel wrap]. apply sres_intro; [apply srel_nil| |assumption].
        constructor; [split; [reflexivity|exact Ho]|exact Hr].
      + cbn [oks16 ok_s] in Hs. fold oks16 in Hs. unf. cbn [orel].
        apply sres_intro; [apply srel_nil|assumption|].
        constructor; [split; assumption|exact Hmu].
      + cbn [oks16 ok_s] in Hs. fold oke16 oks16 in Hs. apply andb_true_iff in Hs as [Hargs Hbody].
        unf.
        pose proof (IHes ce mu k r1 r2 args Hce Hmu Hk Hr Hargs) as Rs. both Rs as vs1 vs2.
        destruct (lookup_mac mu m) as [[[ps mbody] ce']|] eqn:El; [|exact I].
        destruct (lookup_mac_ok mu m ps mbody ce' Hmu El) as [Hb Hce'].
        pose proof (bind_rel ps vs1 vs2 Rs) as Rb. both Rb as pr1 pr2.
        assert (Hr' : erel (pr1 ++ r1) (pr2 ++ r2)) by (now apply Forall2_app).
        assert (Hk' : k_ok (Some (CC body ce))) by (split; assumption).
        pose proof (IHss ce' mu (Some (CC body ce)) (pr1 ++ r1) (pr2 ++ r2) mbody Hce' Hmu Hk' Hr' Hb) as Rss.
        both Rss as x1 x2.
        destruct x1 as [[o1 r1'] m1], x2 as [[o2 r2'] m2]. cbn in Rss. destruct Rss as (Ho & _).
        rewrite on_now_on, on_now_off by assumption. cbn [orel out_piece wrap esc_str esc raw]. apply sres_intro; assumption.
      + cbn [oks16 ok_s] in Hs. fold oke16 oks16 in Hs.
        apply andb_true_iff in Hs as [Hs Hbody]. apply andb_true_iff in Hs as [Hf Hargs].
        unf.
        pose proof (IHss ce mu k r1 r2 body Hce Hmu Hk Hr Hbody) as Rb. both Rb as x1 x2.
        destruct x1 as [[o1 r1'] m1], x2 as [[o2 r2'] m2]. cbn in Rb. destruct Rb as (Ho & _).
        pose proof (IHes ce mu k r1 r2 args Hce Hmu Hk Hr Hargs) as Rs. both Rs as vs1 vs2.
        rewrite on_now_on, on_now_off by assumption. cbn [wrap].
        pose proof (filt_rel f (Mk o1) (Plain o2) vs1 vs2 Hf Ho Rs) as Rf. both Rf as w1 w2.
        cbn [orel out_piece]. apply sres_intro; [now apply esc_rel|assumption|assumption].
      + cbn [oks16 ok_s] in Hs. fold oks16 in Hs. apply andb_true_iff in Hs as [Ha Hbody].
        destruct a as [b|]; [discriminate Ha|]. unf. cbn [ce_enter rt_enter].
        pose proof (IHss CVol mu k r1 r2 body (or_intror eq_refl) Hmu Hk Hr Hbody) as Rb. both Rb as x1 x2.
        destruct x1 as [[o1 r1'] m1], x2 as [[o2 r2'] m2]. cbn in Rb. destruct Rb as (Ho & _).
        cbn [orel]. apply sres_intro; assumption.
    - (* for *)
      intros ce mu k r1 r2 x items body Hce Hmu Hk Hr Hb. destruct items as [|it items].
      + cbn. apply srel_nil.
      + unf.
        assert (Hr' : erel ((x, Plain it) :: r1) ((x, Plain it) :: r2)).
        { constructor; [split; reflexivity|exact Hr]. }
        pose proof (IHss ce mu k _ _ body Hce Hmu Hk Hr' Hb) as Rb. both Rb as x1 x2.
        destruct x1 as [[o1 r1'] m1], x2 as [[o2 r2'] m2]. cbn in Rb. destruct Rb as (Ho & _).
        pose proof (IHfor ce mu k r1 r2 x items body Hce Hmu Hk Hr Hb) as Rf. both Rf as p1 p2.
        cbn. now apply srel_app.
  Qed.

  Lemma init_env_rel : forall d, erel (init_env d) (init_env d).
  Proof.
    induction d as [|[x s] d IH]; [constructor|].
    cbn. constructor; [split; reflexivity|exact IH].
  Qed.

  Theorem escape_once_gen : forall n t d, c16_ok t = true ->
    orel srel (render true true dl n t d) (render false false dl n t d).
  Proof.
    intros n t d H. unfold render.
    destruct (rel_all n) as (_ & _ & Hss & _).
    pose proof (Hss CTop [] None (init_env d) (init_env d) t (or_introl eq_refl) (Forall_nil _) I
                    (init_env_rel d) H) as R.
    destruct (eval_ss true true dl n CTop true [] None (init_env d) t) as [[[o1 r1] m1]|],
             (eval_ss false false dl n CTop false [] None (init_env d) t) as [[[o2 r2] m2]|];
      cbn in R |- *; try contradiction; try exact I.
    apply R.
  Qed.
End C16.

(* ================================================================== C15 *)
Definition pf15 (f : filt) : bool := match f with FSafe => false | _ => true end.
Definition pa15 (a : aexp) : bool := match a with AConst false => false | _ => true end.
Definition oke15 := ok_e pf15 (fun _ : str => true).
Definition oks15 := ok_s pf15 clean (fun _ : str => true) pa15.

Definition env_ok (r : env) : Prop := Forall (fun p : N * tstr => MkClean (snd p)) r.

Lemma lookup_ok : forall r x, env_ok r -> MkClean (lookup r x).
Proof.
  intros r x H. induction H as [|[y v] r Hv Hr IH]; [exact I|].
  cbn [lookup]. destruct (x =? y); assumption.
Qed.

Lemma bind_ok : forall ps vs r, Forall MkClean vs -> bind ps vs = Some r -> env_ok r.
Proof.
  induction ps as [|p ps IH]; intros vs r H E.
  - destruct vs; [|discriminate]. injection E as <-. constructor.
  - destruct H as [|v vs Hv Hvs]; cbn [bind] in E.
    + destruct (bind ps []) as [r'|] eqn:Eb; [|discriminate]. injection E as <-.
      constructor; [exact I|]. exact (IH [] r' (Forall_nil _) Eb).
    + destruct (bind ps vs) as [r'|] eqn:Eb; [|discriminate]. injection E as <-.
      constructor; [exact Hv|]. exact (IH vs r' Hvs Eb).
Qed.

(* one lemma per filter row of T *)
Lemma row_string : forall v, MkClean v -> MkClean (soft_str v).
Proof. intros v H. exact H. Qed.
Lemma row_lower : forall v, MkClean v -> MkClean (mk_map lower (soft_str v)).
Proof. intros v H. apply MkClean_mk_map; [exact Clean_lower|exact H]. Qed.
Lemma row_upper : forall v, MkClean v -> MkClean (mk_map upper (soft_str v)).
Proof. intros v H. apply MkClean_mk_map; [exact Clean_upper|exact H]. Qed.
Lemma row_escape : forall v, MkClean v -> MkClean (esc v).
Proof. exact MkClean_esc. Qed.
Lemma row_forceescape : forall v, MkClean (Mk (escape (raw v))).
Proof. intros v. apply Clean_escape. Qed.
Lemma row_default : forall v d, MkClean v -> MkClean d -> MkClean (if truthy v then v else d).
Proof. intros v d Hv Hd. destruct (truthy v); assumption. Qed.
Lemma row_replace_on : forall v old new, MkClean v -> MkClean new ->
  MkClean (mk_replace (if is_mk old || (is_mk new && negb (is_mk v)) then esc v else soft_str v)
                      (soft_str old) (soft_str new)).
Proof.
  intros v old new Hv Hn. apply MkClean_mk_replace; [|exact Hn].
  destruct (is_mk old || (is_mk new && negb (is_mk v))); [now apply MkClean_esc|exact Hv].
Qed.
(* the safe filter is the explicit opt-out: its row is false *)
Lemma row_safe_refuted : exists v, MkClean v /\ ~ MkClean (Mk (raw v)).
Proof. exists (Plain [LT]). split; [exact I|]. cbn. unfold Clean. cbn. discriminate. Qed.

Lemma filt_clean : forall f v args r, pf15 f = true -> MkClean v -> Forall MkClean args ->
  apply_filter true f v args = Some r -> MkClean r.
Proof.
  intros f v args r Hf Hv Ha E. destruct f; try discriminate Hf; cbn [apply_filter] in E.
  - destruct args; [|discriminate]. injection E as <-. now apply row_string.
  - destruct args; [|discriminate]. injection E as <-. now apply row_lower.
  - destruct args; [|discriminate]. injection E as <-. now apply row_upper.
  - destruct args; [|discriminate]. injection E as <-. now apply row_escape.
  - destruct args; [|discriminate]. injection E as <-. apply row_forceescape.
  - destruct args as [|d [|]]; try discriminate. injection E as <-.
    apply row_default; [exact Hv|]. now inversion Ha.
  - destruct args as [|old [|new [|]]]; try discriminate. injection E as <-.
    apply row_replace_on; [exact Hv|]. inversion Ha as [|? ? ? H2]. now inversion H2.
Qed.

Section C15.
  Variable b0 : bool.
  Variable dl : list (N * list str).

  Definition ce_on (ce : cexp) : Prop := on_now b0 ce true = true.
  Definition mac_on (c : N * (list N * list stmt * cexp)) : Prop :=
    let '(_, (_, body, ce)) := c in forallb oks15 body = true /\ ce_on ce.
  Definition mu_on (mu : menv) : Prop := Forall mac_on mu.
  Definition k_on (k : option callerclo) : Prop :=
    match k with None => True | Some (CC body ce) => forallb oks15 body = true /\ ce_on ce end.
  Definition sres_ok (x : str * env * menv) : Prop :=
    let '(o, r, m) := x in Clean o /\ env_ok r /\ mu_on m.

  Lemma sres_ok_intro : forall o r m, Clean o -> env_ok r -> mu_on m -> sres_ok (o, r, m).
  Proof. intros o r m H1 H2 H3. exact (conj H1 (conj H2 H3)). Qed.

  Lemma lookup_mac_on : forall mu m ps body ce, mu_on mu -> lookup_mac mu m = Some (ps, body, ce) ->
    forallb oks15 body = true /\ ce_on ce.
  Proof.
    intros mu m ps body ce H. induction H as [|[y [[ps' b'] ce']] mu Hc Hmu IH]; [discriminate|].
    cbn [lookup_mac]. destruct (m =? y); [|exact IH].
    intros E. injection E as -> -> ->. exact Hc.
  Qed.

  Lemma ce_enter_on : forall ce a, pa15 a = true -> ce_on (ce_enter ce a).
  Proof.
    intros ce a H. unfold ce_on. destruct a as [[|]|]; [|discriminate H|]; [|reflexivity].
    destruct ce; reflexivity.
  Qed.
  Lemma rt_enter_on : forall a, pa15 a = true -> rt_enter true a = true.
  Proof. intros [[|]|] H; [reflexivity|discriminate H|reflexivity]. Qed.

  Notation ev_e := (eval_e b0 true dl).
  Notation ev_es := (eval_es b0 true dl).
  Notation ev_ss := (eval_ss b0 true dl).
  Notation ev_s := (eval_s b0 true dl).
  Notation ev_for := (eval_for b0 true dl).

  Definition Q_e (n : nat) : Prop := forall ce mu k r e v,
    ce_on ce -> mu_on mu -> k_on k -> env_ok r -> oke15 e = true ->
    ev_e n ce true mu k r e = Some v -> MkClean v.
  Definition Q_es (n : nat) : Prop := forall ce mu k r es vs,
    ce_on ce -> mu_on mu -> k_on k -> env_ok r -> forallb oke15 es = true ->
    ev_es n ce true mu k r es = Some vs -> Forall MkClean vs.
  Definition Q_ss (n : nat) : Prop := forall ce mu k r ss x,
    ce_on ce -> mu_on mu -> k_on k -> env_ok r -> forallb oks15 ss = true ->
    ev_ss n ce true mu k r ss = Some x -> sres_ok x.
  Definition Q_s (n : nat) : Prop := forall ce mu k r s x,
    ce_on ce -> mu_on mu -> k_on k -> env_ok r -> oks15 s = true ->
    ev_s n ce true mu k r s = Some x -> sres_ok x.
  Definition Q_for (n : nat) : Prop := forall ce mu k r x items body o,
    ce_on ce -> mu_on mu -> k_on k -> env_ok r -> forallb oks15 body = true ->
    ev_for n ce true mu k r x items body = Some o -> Clean o.

  Lemma inv_all : forall n, Q_e n /\ Q_es n /\ Q_ss n /\ Q_s n /\ Q_for n.
  Proof.
    induction n as [|n (IHe & IHes & IHss & IHs & IHfor)].
    { repeat split; repeat intro; discriminate. }
    repeat split.
    - intros ce mu k r e v Hce Hmu Hk Hr He E. destruct e as [x|s|a b|f a args|c a b|m args|]; unf_in E.
      + injection E as <-. now apply lookup_ok.
      + injection E as <-. exact I.
      + cbn [oke15 ok_e] in He. fold oke15 in He. apply andb_true_iff in He as [Ha Hb].
        destruct (ev_e n ce true mu k r a) as [va|] eqn:Ea; [|discriminate].
        destruct (ev_e n ce true mu k r b) as [vb|] eqn:Eb; [|discriminate].
        unfold ce_on in Hce. rewrite Hce in E. injection E as <-.
        apply MkClean_markup_join. repeat constructor.
        * exact (IHe _ _ _ _ _ _ Hce Hmu Hk Hr Ha Ea).
        * exact (IHe _ _ _ _ _ _ Hce Hmu Hk Hr Hb Eb).
      + cbn [oke15 ok_e] in He. fold oke15 in He.
        apply andb_true_iff in He as [He Hargs]. apply andb_true_iff in He as [Hf Ha].
        destruct (ev_e n ce true mu k r a) as [va|] eqn:Ea; [|discriminate].
        destruct (ev_es n ce true mu k r args) as [vs|] eqn:Es; [|discriminate].
        apply (filt_clean f va vs v Hf); [|
          exact (IHes _ _ _ _ _ _ Hce Hmu Hk Hr Hargs Es)|exact E].
        exact (IHe _ _ _ _ _ _ Hce Hmu Hk Hr Ha Ea).
      + cbn [oke15 ok_e] in He. fold oke15 in He.
        apply andb_true_iff in He as [He Hb]. apply andb_true_iff in He as [Hc Ha].
        destruct (ev_e n ce true mu k r c) as [vc|] eqn:Ec; [|discriminate].
        destruct (truthy vc).
        * exact (IHe _ _ _ _ _ _ Hce Hmu Hk Hr Ha E).
        * exact (IHe _ _ _ _ _ _ Hce Hmu Hk Hr Hb E).
      + cbn [oke15 ok_e] in He. fold oke15 in He.
        destruct (ev_es n ce true mu k r args) as [vs|] eqn:Es; [|discriminate].
        destruct (lookup_mac mu m) as [[[ps body] ce']|] eqn:El; [|discriminate].
        destruct (lookup_mac_on mu m ps body ce' Hmu El) as [Hb Hce'].
        destruct (bind ps vs) as [pr|] eqn:Eb; [|discriminate].
        destruct (ev_ss n ce' true mu None (pr ++ r) body) as [[[o r'] m']|] eqn:Ess; [|discriminate].
        injection E as <-.
        assert (Hr' : env_ok (pr ++ r)).
        { apply Forall_app. split; [|exact Hr].
          apply (bind_ok ps vs pr); [|exact Eb]. exact (IHes _ _ _ _ _ _ Hce Hmu Hk Hr He Es). }
        destruct (IHss ce' mu None (pr ++ r) body _ Hce' Hmu I Hr' Hb Ess) as (Ho & _). exact Ho.
      + destruct k as [[body ce']|]; [|discriminate]. cbn in Hk. destruct Hk as [Hb Hce'].
        destruct (ev_ss n ce' true mu None r body) as [[[o r'] m']|] eqn:Ess; [|discriminate].
        injection E as <-.
        destruct (IHss ce' mu None r body _ Hce' Hmu I Hr Hb Ess) as (Ho & _). exact Ho.
    - intros ce mu k r es vs Hce Hmu Hk Hr He E. destruct es as [|e es]; unf_in E.
      + injection E as <-. constructor.
      + cbn [forallb] in He. apply andb_true_iff in He as [He Hes].
        destruct (ev_e n ce true mu k r e) as [v|] eqn:Ee; [|discriminate].
        destruct (ev_es n ce true mu k r es) as [vs'|] eqn:Es; [|discriminate].
        injection E as <-. constructor.
        * exact (IHe _ _ _ _ _ _ Hce Hmu Hk Hr He Ee).
        * exact (IHes _ _ _ _ _ _ Hce Hmu Hk Hr Hes Es).
    - intros ce mu k r ss x Hce Hmu Hk Hr Hs E. destruct ss as [|s ss]; unf_in E.
      + injection E as <-. repeat split; [assumption|assumption].
      + cbn [forallb] in Hs. apply andb_true_iff in Hs as [Hs Hss].
        destruct (ev_s n ce true mu k r s) as [[[o1 r1] m1]|] eqn:E1; [|discriminate].
        destruct (IHs _ _ _ _ _ _ Hce Hmu Hk Hr Hs E1) as (Ho1 & Hr1 & Hm1).
        destruct (ev_ss n ce true m1 k r1 ss) as [[[o2 r2] m2]|] eqn:E2; [|discriminate].
        destruct (IHss _ _ _ _ _ _ Hce Hm1 Hk Hr1 Hss E2) as (Ho2 & Hr2 & Hm2).
        injection E as <-. repeat split; [now apply Clean_app|assumption|assumption].
    - intros ce mu k r s x Hce Hmu Hk Hr Hs E.
      destruct s as [t|e|c t f|y l body|y e|y body|m ps body|m args body|f args body|a body];
        unf_in E.
      + injection E as <-. cbn [oks15 ok_s] in Hs. repeat split; assumption.
      + cbn [oks15 ok_s] in Hs. fold oke15 in Hs.
        destruct (ev_e n ce true mu k r e) as [v|] eqn:Ee; [|discriminate].
        injection E as <-. unfold ce_on in Hce. rewrite Hce. cbn [out_piece].
        repeat split; try assumption. apply Clean_esc_str.
        exact (IHe _ _ _ _ _ _ Hce Hmu Hk Hr Hs Ee).
      + cbn [oks15 ok_s] in Hs. fold oke15 oks15 in Hs.
        apply andb_true_iff in Hs as [Hs Hf]. apply andb_true_iff in Hs as [Hc Ht].
        destruct (ev_e n ce true mu k r c) as [vc|] eqn:Ec; [|discriminate].
        destruct (truthy vc).
        * exact (IHss _ _ _ _ _ _ Hce Hmu Hk Hr Ht E).
        * exact (IHss _ _ _ _ _ _ Hce Hmu Hk Hr Hf E).
      + cbn [oks15 ok_s] in Hs. fold oks15 in Hs.
        destruct (ev_for n ce true mu k r y (lookup_list dl l) body) as [o|] eqn:Ef; [|discriminate].
        injection E as <-. repeat split; try assumption.
        exact (IHfor _ _ _ _ _ _ _ _ Hce Hmu Hk Hr Hs Ef).
      + cbn [oks15 ok_s] in Hs. fold oke15 in Hs.
        destruct (ev_e n ce true mu k r e) as [v|] eqn:Ee; [|discriminate].
        injection E as <-. apply sres_ok_intro; [reflexivity| |assumption].
        constructor; [exact (IHe _ _ _ _ _ _ Hce Hmu Hk Hr Hs Ee)|exact Hr].
      + cbn [oks15 ok_s] in Hs. fold oks15 in Hs.
        destruct (ev_ss n ce true mu k r body) as [[[o r'] m']|] eqn:Ess; [|discriminate].
        injection E as <-. destruct (IHss _ _ _ _ _ _ Hce Hmu Hk Hr Hs Ess) as (Ho & _).
        apply sres_ok_intro; [reflexivity| |assumption]. constructor; [exact Ho|exact Hr].
      + cbn [oks15 ok_s] in Hs. fold oks15 in Hs. injection E as <-.
        apply sres_ok_intro; [reflexivity|assumption|]. constructor; [split; assumption|exact Hmu].
      + cbn [oks15 ok_s] in Hs. fold oke15 oks15 in Hs. apply andb_true_iff in Hs as [Hargs Hbody].
        destruct (ev_es n ce true mu k r args) as [vs|] eqn:Es; [|discriminate].
        destruct (lookup_mac mu m) as [[[ps mbody] ce']|] eqn:El; [|discriminate].
        destruct (lookup_mac_on mu m ps mbody ce' Hmu El) as [Hb Hce'].
        destruct (bind ps vs) as [pr|] eqn:Eb; [|discriminate].
        destruct (ev_ss n ce' true mu (Some (CC body ce)) (pr ++ r) mbody) as [[[o r'] m']|] eqn:Ess;
          [|discriminate].
        injection E as <-.
        assert (Hr' : env_ok (pr ++ r)).
        { apply Forall_app. split; [|exact Hr].
          apply (bind_ok ps vs pr); [|exact Eb]. exact (IHes _ _ _ _ _ _ Hce Hmu Hk Hr Hargs Es). }
        assert (Hk' : k_on (Some (CC body ce))) by (split; assumption).
        destruct (IHss _ _ _ _ _ _ Hce' Hmu Hk' Hr' Hb Ess) as (Ho & _).
        unfold ce_on in Hce. rewrite Hce. cbn [out_piece wrap esc_str esc raw]. repeat split; assumption.
      + cbn [oks15 ok_s] in Hs. fold oke15 oks15 in Hs.
        apply andb_true_iff in Hs as [Hs Hbody]. apply andb_true_iff in Hs as [Hf Hargs].
        destruct (ev_ss n ce true mu k r body) as [[[o r'] m']|] eqn:Ess; [|discriminate].
        destruct (IHss _ _ _ _ _ _ Hce Hmu Hk Hr Hbody Ess) as (Ho & _).
        destruct (ev_es n ce true mu k r args) as [vs|] eqn:Es; [|discriminate].
        unfold ce_on in Hce. rewrite Hce in E. cbn [wrap] in E.
        destruct (apply_filter true f (Mk o) vs) as [v|] eqn:Ef; [|discriminate].
        injection E as <-. cbn [out_piece]. repeat split; try assumption.
        apply Clean_esc_str. apply (filt_clean f (Mk o) vs v Hf Ho); [|exact Ef].
        exact (IHes _ _ _ _ _ _ Hce Hmu Hk Hr Hargs Es).
      + cbn [oks15 ok_s] in Hs. fold oks15 in Hs. apply andb_true_iff in Hs as [Ha Hbody].
        rewrite (rt_enter_on a Ha) in E.
        destruct (ev_ss n (ce_enter ce a) true mu k r body) as [[[o r'] m']|] eqn:Ess; [|discriminate].
        injection E as <-.
        destruct (IHss _ _ _ _ _ _ (ce_enter_on ce a Ha) Hmu Hk Hr Hbody Ess) as (Ho & _).
        repeat split; assumption.
    - intros ce mu k r x items body o Hce Hmu Hk Hr Hb E. destruct items as [|it items]; unf_in E.
      + injection E as <-. reflexivity.
      + destruct (ev_ss n ce true mu k ((x, Plain it) :: r) body) as [[[o1 r1] m1]|] eqn:E1; [|discriminate].
        destruct (ev_for n ce true mu k r x items body) as [o2|] eqn:E2; [|discriminate].
        injection E as <-.
        assert (Hr' : env_ok ((x, Plain it) :: r)) by (constructor; [exact I|exact Hr]).
        destruct (IHss _ _ _ _ _ _ Hce Hmu Hk Hr' Hb E1) as (Ho1 & _).
        apply Clean_app; [exact Ho1|]. exact (IHfor _ _ _ _ _ _ _ _ Hce Hmu Hk Hr Hb E2).
  Qed.

  Lemma init_env_ok : forall d, env_ok (init_env d).
  Proof. induction d as [|[x s] d IH]; constructor; [exact I|exact IH]. Qed.

  (* top level of a template whose environment default is off: only template text and
     enabled {% autoescape %} blocks *)
  Definition top_stmt (s : stmt) : bool :=
    match s with SText _ => true | SAutoescape _ _ => true | _ => false end.

  Lemma top_off : forall n mu k r ss x,
    mu_on mu -> k_on k -> env_ok r -> forallb oks15 ss = true -> forallb top_stmt ss = true ->
    ev_ss n CTop b0 mu k r ss = Some x -> sres_ok x.
  Proof.
    induction n as [|n IH]; intros mu k r ss x Hmu Hk Hr Hs Ht E; [discriminate|].
    destruct ss as [|s ss]; unf_in E.
    - injection E as <-. repeat split; assumption.
    - cbn [forallb] in Hs, Ht. apply andb_true_iff in Hs as [Hs Hss]. apply andb_true_iff in Ht as [Ht Htt].
      destruct (ev_s n CTop b0 mu k r s) as [[[o1 r1] m1]|] eqn:E1; [|discriminate].
      assert (H1 : sres_ok (o1, r1, m1)).
      { destruct n as [|n']; [discriminate|]. destruct s; try discriminate Ht; unf_in E1.
        - injection E1 as <- <- <-. cbn [oks15 ok_s] in Hs. repeat split; assumption.
        - cbn [oks15 ok_s] in Hs. fold oks15 in Hs. apply andb_true_iff in Hs as [Ha Hbody].
          rewrite (rt_enter_on a Ha) in E1.
          destruct (ev_ss n' (ce_enter CTop a) true mu k r body) as [[[o r'] m']|] eqn:Ess; [|discriminate].
          injection E1 as <- <- <-.
          destruct (inv_all n') as (_ & _ & Qss & _).
          destruct (Qss _ _ _ _ _ _ (ce_enter_on CTop a Ha) Hmu Hk Hr Hbody Ess) as (Ho & _).
          repeat split; assumption. }
      destruct H1 as (Ho1 & Hr1 & Hm1).
      destruct (ev_ss n CTop b0 m1 k r1 ss) as [[[o2 r2] m2]|] eqn:E2; [|discriminate].
      destruct (IH _ _ _ _ _ Hm1 Hk Hr1 Hss Htt E2) as (Ho2 & Hr2 & Hm2).
      injection E as <-. repeat split; [now apply Clean_app|assumption|assumption].
  Qed.

  Theorem autoescape_safe_gen : forall n t d o,
    c15_ok t = true -> top_ok b0 t = true ->
    render b0 true dl n t d = Some o -> Clean o.
  Proof.
    intros n t d o Hok Htop E. unfold render in E.
    destruct (ev_ss n CTop b0 [] None (init_env d) t) as [[[o' r'] m']|] eqn:Ess; [|discriminate].
    injection E as <-. unfold top_ok in Htop. apply orb_true_iff in Htop as [Hb|Ht].
    - destruct (inv_all n) as (_ & _ & Qss & _). rewrite Hb in Ess at 2.
      destruct (Qss CTop [] None (init_env d) t _ Hb (Forall_nil _) I (init_env_ok d) Hok Ess) as (Ho & _).
      exact Ho.
    - destruct (top_off n [] None (init_env d) t _ (Forall_nil _) I (init_env_ok d) Hok Ht Ess) as (Ho & _).
      exact Ho.
  Qed.
End C15.

(* select_autoescape: a template name with an enabled extension is autoescaped *)
Lemma select_autoescape_enabled : forall enabled disabled dfs dflt nm ext,
  In ext enabled -> ends_with (lower nm) ext = true ->
  select_autoescape enabled disabled dfs dflt (Some nm) = true.
Proof.
  intros enabled disabled dfs dflt nm ext Hin He. unfold select_autoescape.
  assert (H : existsb (ends_with (lower nm)) enabled = true).
  { apply existsb_exists. exists ext. split; assumption. }
  now rewrite H.
Qed.
