(* C02 parse_unparse, part 4: subscripts, argument lists, chains, primaries. *)
From Coq Require Import List NArith ZArith Bool Lia Arith.
Import ListNotations.
From JV Require Import Model.ExprAst Model.ExprPrim Spec.ExprSpec Model.ExprParser Model.ExprUnparse
  Proofs.ExprParseSteps Proofs.ExprParseBase Proofs.ExprParsePrint Proofs.ExprParseNodes.

(* ---- composing "parses" facts along the unfolding equations ---- *)
Lemma parses_bind {A B} (F : kit -> list tok -> pres B) (G : kit -> list tok -> pres A)
      (Hh : kit -> A -> list tok -> pres B) ts ts1 a r b r' :
  (forall K, F (kit_step K) ts = bindp (G K ts1) (fun x y => Hh K x y)) ->
  parses G ts1 a r -> parses (fun K => Hh K a) r b r' -> parses F ts b r'.
Proof.
  intros E [m1 H1] [m2 H2]. exists (S (m1 + m2)). fuel1. rewrite E. rewrite H1 by lia. cbn [bindp]. apply H2. lia.
Qed.
Lemma parses_ret {A} (F : kit -> list tok -> pres A) ts a r : (forall K, F (kit_step K) ts = ROk a r) -> parses F ts a r.
Proof. intros E. exists 1. fuel1. apply E. Qed.
Lemma parses_step {A} (F G : kit -> list tok -> pres A) ts ts1 a r :
  (forall K, F (kit_step K) ts = G K ts1) -> parses G ts1 a r -> parses F ts a r.
Proof. intros E [m1 H1]. exists (S m1). fuel1. rewrite E. apply H1. lia. Qed.
Lemma parses_const {A} (a : A) r : parses (fun _ ts => ROk a ts) r a r.
Proof. exists 0. reflexivity. Qed.
Lemma parses_now {A} (F : kit -> list tok -> pres A) ts a r : (forall K, F K ts = ROk a r) -> parses F ts a r.
Proof. intros E. exists 0. intros. apply E. Qed.

Lemma parses_same {A} (F G : kit -> list tok -> pres A) ts ts1 a r :
  (forall K, F K ts = G K ts1) -> parses G ts1 a r -> parses F ts a r.
Proof. intros E [m1 H1]. exists m1. intros m Hm. rewrite E. apply H1. exact Hm. Qed.

Definition hd_ok (ts : list tok) : bool := match ts with t :: _ => startok t | [] => false end.
Lemma hd_ok_HD e L r : HD e -> hd_ok (pr L e ++ r) = true.
Proof. intros H. destruct (H L r) as [t [rest [E [S1 _]]]]. rewrite E. exact S1. Qed.

Ltac hd_tac := intros H; match goal with |- _ ?ts = false => destruct ts as [|[| | | |[]] ?]; cbn in H; try discriminate; reflexivity end.
Lemma hd_rbracket ts : hd_ok ts = true -> is_op ORBracket ts = false. Proof. hd_tac. Qed.
Lemma hd_rparen ts : hd_ok ts = true -> is_op ORParen ts = false. Proof. hd_tac. Qed.
Lemma hd_rbrace ts : hd_ok ts = true -> is_op ORBrace ts = false. Proof. hd_tac. Qed.
Lemma hd_comma ts : hd_ok ts = true -> is_op OComma ts = false. Proof. hd_tac. Qed.
Lemma hd_colon ts : hd_ok ts = true -> is_op OColon ts = false. Proof. hd_tac. Qed.
Lemma hd_mul ts : hd_ok ts = true -> is_op OMul ts = false. Proof. hd_tac. Qed.
Lemma hd_pow ts : hd_ok ts = true -> is_op OPow ts = false. Proof. hd_tac. Qed.
Lemma hd_tuple_end ts : hd_ok ts = true -> tuple_end ts = false.
Proof. intros H. destruct ts as [|[| | | |[]] ?]; cbn in H; try discriminate; reflexivity. Qed.

Definition PC (x : expr) : Prop := forall rr, nc 0 rr = true -> parses p_cond (pr 0 x ++ rr) x rr.
Definition GOOD (x : expr) : Prop := PC x /\ (forall rr, hd_ok (pr 0 x ++ rr) = true) /\ NA x.

(* ---- a[k] ---- *)
Lemma p_step_item a k r res r' :
  GOOD k ->
  parses (fun K => p_postfix K (EGetitem a k)) r res r' ->
  parses (fun K => p_postfix K a) (KOp OLBracket :: pr 0 k ++ KOp ORBracket :: r) res r'.
Proof.
  intros [Hk [Hh _]] H2. specialize (Hh (KOp ORBracket :: r)).
  pose proof (hd_rbracket _ Hh) as E1. pose proof (hd_colon _ Hh) as E2.
  eapply (parses_bind _ (fun K => p_subscript K a) _ _ (KOp OLBracket :: pr 0 k ++ KOp ORBracket :: r));
    [intros K; rewrite step_p_postfix; reflexivity| |exact H2].
  eapply (parses_bind _ (fun K => p_subs K []) _ _ (pr 0 k ++ KOp ORBracket :: r)); [intros K; rewrite step_p_subscript; reflexivity| |].
  - eapply (parses_bind _ p_subscribed _ _ (pr 0 k ++ KOp ORBracket :: r)); [intros K; rewrite step_p_subs, E1; reflexivity| |].
    + eapply (parses_bind _ p_cond _ _ (pr 0 k ++ KOp ORBracket :: r)); [intros K; rewrite step_p_subscribed; cbv zeta; rewrite E2; reflexivity| |].
      * apply Hk. reflexivity.
      * cbn. apply parses_const.
    + cbn. apply parses_ret. intros K. rewrite step_p_subs. reflexivity.
  - cbn. apply parses_const.
Qed.

(* ---- a[lo:hi:st] ---- *)
Definition opt_pr (o : option expr) : list tok := match o with Some x => pr 0 x | None => [] end.
Definition opt_good (o : option expr) : Prop := forall x, o = Some x -> GOOD x.

Lemma p_step_slice a lo hi st r res r' :
  opt_good lo -> opt_good hi -> opt_good st ->
  parses (fun K => p_postfix K (ESlice a lo hi st)) r res r' ->
  parses (fun K => p_postfix K a)
    (KOp OLBracket :: opt_pr lo ++ KOp OColon :: opt_pr hi ++ match st with Some s => KOp OColon :: pr 0 s | None => [] end ++ KOp ORBracket :: r)
    res r'.
Proof.
  intros Hlo Hhi Hst H2.
  set (tail := match st with Some s => KOp OColon :: pr 0 s | None => [] end ++ KOp ORBracket :: r).
  assert (T : forall lo0, parses (fun K ts => (* after the first colon *)
                 bindp (if is_op OColon ts then ROk None ts
                        else if is_op ORBracket ts || is_op OComma ts then ROk None ts
                        else bindp (p_cond K ts) (fun e r' => ROk (Some e) r'))
                   (fun hi0 r2 =>
                      if is_op OColon r2 then
                        let r3 := tl r2 in
                        if is_op ORBracket r3 || is_op OComma r3 then ROk (SubSlice lo0 hi0 None) r3
                        else bindp (p_cond K r3) (fun e r4 => ROk (SubSlice lo0 hi0 (Some e)) r4)
                      else ROk (SubSlice lo0 hi0 None) r2))
              (opt_pr hi ++ tail) (SubSlice lo0 hi st) (KOp ORBracket :: r)).
  { intros lo0.
    assert (Tst : forall hi0, parses (fun K r2 =>
                      if is_op OColon r2 then
                        let r3 := tl r2 in
                        if is_op ORBracket r3 || is_op OComma r3 then ROk (SubSlice lo0 hi0 None) r3
                        else bindp (p_cond K r3) (fun e r4 => ROk (SubSlice lo0 hi0 (Some e)) r4)
                      else ROk (SubSlice lo0 hi0 None) r2) tail (SubSlice lo0 hi0 st) (KOp ORBracket :: r)).
    { intros hi0. unfold tail. destruct st as [s|].
      - destruct (Hst s eq_refl) as [Ps [Hs _]]. specialize (Hs (KOp ORBracket :: r)).
        pose proof (hd_rbracket _ Hs) as E1. pose proof (hd_comma _ Hs) as E2.
        destruct (Ps (KOp ORBracket :: r) eq_refl) as [m1 H1]. exists m1. intros m Hm.
        cbn [app is_op tl]. cbv zeta. rewrite E1, E2. cbn [orb]. rewrite H1 by lia. reflexivity.
      - apply parses_now. intros K. reflexivity. }
    destruct hi as [h|].
    - destruct (Hhi h eq_refl) as [Ph [Hh _]]. specialize (Hh tail).
      pose proof (hd_rbracket _ Hh) as E1. pose proof (hd_comma _ Hh) as E2. pose proof (hd_colon _ Hh) as E3.
      assert (Hnc : nc 0 tail = true) by (unfold tail; destruct st; reflexivity).
      destruct (Ph tail Hnc) as [m1 H1]. destruct (Tst (Some h)) as [m3 H3].
      exists (m1 + m3). intros m Hm. cbn [opt_pr]. rewrite E3, E1, E2. cbn [orb]. rewrite H1 by lia. cbn [bindp].
      apply H3. lia.
    - destruct (Tst None) as [m3 H3]. exists m3. intros m Hm. cbn [opt_pr app]. specialize (H3 m Hm).
      unfold tail in *. destruct st as [s|]; cbn [app is_op orb bindp] in *; exact H3. }
  set (X := opt_pr lo ++ KOp OColon :: opt_pr hi ++ tail).
  assert (EX : is_op ORBracket X = false).
  { unfold X. destruct lo as [l|]; [|reflexivity]. destruct (Hlo l eq_refl) as [_ [Hl _]]. apply hd_rbracket. apply Hl. }
  eapply (parses_bind _ (fun K => p_subscript K a) _ _ (KOp OLBracket :: X));
    [intros K; rewrite step_p_postfix; reflexivity| |exact H2].
  eapply (parses_bind _ (fun K => p_subs K []) _ _ X); [intros K; rewrite step_p_subscript; reflexivity| |].
  - eapply (parses_bind _ p_subscribed _ _ X); [intros K; rewrite step_p_subs, EX; reflexivity| |].
    + unfold X. destruct lo as [l|].
      * destruct (Hlo l eq_refl) as [Pl [Hl _]]. specialize (Hl (KOp OColon :: opt_pr hi ++ tail)).
        pose proof (hd_colon _ Hl) as E1.
        eapply (parses_bind _ p_cond _ _ (pr 0 l ++ KOp OColon :: opt_pr hi ++ tail));
          [intros K; rewrite step_p_subscribed; cbv zeta; cbn [opt_pr]; rewrite E1; reflexivity| |].
        -- apply Pl. reflexivity.
        -- eapply parses_same; [|apply (T (Some l))]. intros K. reflexivity.
      * eapply parses_step; [|apply (T None)]. intros K. rewrite step_p_subscribed. reflexivity.
    + cbn. apply parses_ret. intros K. rewrite step_p_subs. reflexivity.
  - cbn. apply parses_const.
Qed.
