(* Static facts about the symbol analysis model (Model/ScopeIdTrack.v): a well-formedness
   invariant of Symbols that the visitors preserve, monotonicity of refs, and coverage of
   every name a frame's own code loads or stores. *)
From Coq Require Import List NArith ZArith Bool Arith Lia.
Import ListNotations.
From JV Require Import Model.ScopeAst Model.ScopeIdTrack Model.ScopeGuards Proofs.ScopeDictProofs.

Definition oid : list name -> list name := fun l => l.

(* ------------------------------------------------------------ induction over statements *)
Section StmtInd.
  Variable P : stmt -> Prop.
  Variable Q : list stmt -> Prop.
  Hypothesis HOut : forall es, P (SOut es).
  Hypothesis HIf : forall t b ei el, Q b -> Q ei -> Q el -> P (SIf t b ei el).
  Hypothesis HFor : forall tg it te b el, Q b -> Q el -> P (SFor tg it te b el).
  Hypothesis HSet : forall x e, P (SSet x e).
  Hypothesis HSetAttr : forall x a e, P (SSetAttr x a e).
  Hypothesis HNsNew : forall x kvs, P (SNsNew x kvs).
  Hypothesis HSetBlock : forall x b, Q b -> P (SSetBlock x b).
  Hypothesis HWith : forall bs b, Q b -> P (SWith bs b).
  Hypothesis HFilter : forall f b, Q b -> P (SFilter f b).
  Hypothesis HMacro : forall m ps b, Q b -> P (SMacro m ps b).
  Hypothesis HCallOut : forall f args, P (SCallOut f args).
  Hypothesis HCallBlock : forall ps f args b, Q b -> P (SCallBlock ps f args b).
  Hypothesis Hnil : Q [].
  Hypothesis Hcons : forall s l, P s -> Q l -> Q (s :: l).

  Fixpoint stmt_ind2 (s : stmt) : P s :=
    let fix go (l : list stmt) : Q l :=
      match l with [] => Hnil | x :: r => Hcons x r (stmt_ind2 x) (go r) end in
    match s with
    | SOut es => HOut es
    | SIf t b ei el => HIf t b ei el (go b) (go ei) (go el)
    | SFor tg it te b el => HFor tg it te b el (go b) (go el)
    | SSet x e => HSet x e
    | SSetAttr x a e => HSetAttr x a e
    | SNsNew x kvs => HNsNew x kvs
    | SSetBlock x b => HSetBlock x b (go b)
    | SWith bs b => HWith bs b (go b)
    | SFilter f b => HFilter f b (go b)
    | SMacro m ps b => HMacro m ps b (go b)
    | SCallOut f args => HCallOut f args
    | SCallBlock ps f args b => HCallBlock ps f args b (go b)
    end.
  Fixpoint stmts_ind2 (l : list stmt) : Q l :=
    match l with [] => Hnil | x :: r => Hcons x r (stmt_ind2 x) (stmts_ind2 r) end.
End StmtInd.

(* ------------------------------------------------------------ equations for fsv *)
Lemma fsv_if : forall ord P s t b ei el,
  fsv ord P s (SIf t b ei el) =
  let s0 := sym_loads P s (expr_names t) in
  branch_update ord P s0 [fsv_list ord P s0 b; fsv_list ord P s0 ei; fsv_list ord P s0 el].
Proof.
  intros. cbn [fsv].
  assert (E : forall l s', (fix fsv_list (s : symbols) (l : list stmt) {struct l} : symbols :=
             match l with [] => s | x :: r => fsv_list (fsv ord P s x) r end) s' l = fsv_list ord P s' l).
  { induction l as [|x r IH]; intros s'; cbn; [reflexivity|apply IH]. }
  rewrite !E. reflexivity.
Qed.

(* ------------------------------------------------------------ the invariant *)
Definition hasref (s : symbols) (x : name) : Prop := dhas N.eqb x (s_refs s) = true.

Definition lok (ps : list name) (P : list symbols) (x : name) (l : loadk) : Prop :=
  if nmem x ps then l = LParam
  else match l with
       | LParam => False
       | LResolve y => y = x /\ find_ref P x = None
       | LAlias o => find_ref P x = Some o
       | LUndef => find_ref P x = None
       end.

Record WF (ps : list name) (P : list symbols) (s : symbols) : Prop := mkWF {
  wf_refs : forall x id, In (x, id) (s_refs s) -> id = (s_level s, x);
  wf_loads : forall x, hasref s x -> dhas ident_eqb (s_level s, x) (s_loads s) = true;
  wf_keys : forall id l, In (id, l) (s_loads s) -> exists x, id = (s_level s, x) /\ hasref s x /\ lok ps P x l;
  wf_nodup : NoDup (keys (s_loads s));
  wf_ps : forall x, In x ps -> hasref s x /\ In x (s_stores s);
  wf_stores : forall x, In x (s_stores s) -> hasref s x
}.

Lemma hasref_dget : forall s x, hasref s x <-> exists id, dget N.eqb x (s_refs s) = Some id.
Proof.
  intros s x. unfold hasref, dhas. destruct (dget N.eqb x (s_refs s)); split; try congruence; eauto.
  intros [id H]; discriminate.
Qed.
Lemma WF_ref : forall ps P s x, WF ps P s -> hasref s x -> dget N.eqb x (s_refs s) = Some (s_level s, x).
Proof.
  intros ps P s x W H. apply hasref_dget in H. destruct H as [id H]. rewrite H. f_equal.
  apply (wf_refs _ _ _ W x). apply (dget_In N.eqb N.eqb_eq). exact H.
Qed.
Lemma WF_load : forall ps P s x, WF ps P s -> hasref s x ->
  exists l, dget ident_eqb (s_level s, x) (s_loads s) = Some l /\ lok ps P x l.
Proof.
  intros ps P s x W H. pose proof (wf_loads _ _ _ W x H) as D. unfold dhas in D.
  destruct (dget ident_eqb (s_level s, x) (s_loads s)) as [l|] eqn:E; [|discriminate].
  exists l. split; [reflexivity|].
  destruct (wf_keys _ _ _ W _ _ (dget_In ident_eqb ident_eqb_eq _ _ _ E)) as [y [Hy [_ L]]].
  injection Hy as <-. exact L.
Qed.
Lemma find_ref_own : forall ps P s x, WF ps P s -> hasref s x -> find_ref (s :: P) x = Some (s_level s, x).
Proof. intros. cbn. rewrite (WF_ref ps P s x); auto. Qed.
Lemma find_ref_skip : forall P s x, ~ hasref s x -> find_ref (s :: P) x = find_ref P x.
Proof.
  intros P s x H. cbn. destruct (dget N.eqb x (s_refs s)) eqn:E; [|reflexivity].
  exfalso. apply H. apply hasref_dget. eauto.
Qed.
Lemma hasref_dec : forall s x, {hasref s x} + {~ hasref s x}.
Proof. intros s x. unfold hasref. destruct (dhas N.eqb x (s_refs s)); [left|right]; congruence. Qed.

Lemma not_ps_if_noref : forall ps P s x, WF ps P s -> ~ hasref s x -> nmem x ps = false.
Proof.
  intros ps P s x W H. apply nmem_false. intros Hin. apply H. apply (wf_ps _ _ _ W x Hin).
Qed.

(* setting the load of an existing ref *)
Lemma WF_set_load : forall ps P s x l, WF ps P s -> hasref s x -> lok ps P x l ->
  WF ps P (mkSym (s_level s) (s_refs s) (dset ident_eqb (s_level s, x) l (s_loads s)) (s_stores s)).
Proof.
  intros ps P s x l W Hx L. constructor; cbn [s_level s_refs s_loads s_stores].
  - apply (wf_refs _ _ _ W).
  - intros y Hy. rewrite (dhas_dset ident_eqb ident_eqb_eq). rewrite (wf_loads _ _ _ W y Hy). apply orb_true_r.
  - intros id l' Hin. apply (In_dset ident_eqb) in Hin. destruct Hin as [E|Hin].
    + injection E as -> ->. exists x. auto.
    + apply (wf_keys _ _ _ W _ _ Hin).
  - apply (nodup_dset ident_eqb ident_eqb_eq). apply (wf_nodup _ _ _ W).
  - apply (wf_ps _ _ _ W).
  - apply (wf_stores _ _ _ W).
Qed.

Lemma hasref_define : forall s x l y, hasref (define_ref s x l) y <-> y = x \/ hasref s y.
Proof.
  intros. unfold hasref, define_ref; cbn [s_refs]. rewrite (dhas_dset N.eqb N.eqb_eq), orb_true_iff, N.eqb_eq. tauto.
Qed.

Lemma WF_define : forall ps P s x l, WF ps P s -> lok ps P x l -> In x (s_stores s) \/ ~ In x ps ->
  WF ps P (define_ref s x l).
Proof.
  intros ps P s x l W L Hst. constructor; unfold define_ref; cbn [s_level s_refs s_loads s_stores].
  - intros y id Hin. apply (In_dset N.eqb) in Hin. destruct Hin as [E|Hin].
    + injection E as -> ->. reflexivity.
    + apply (wf_refs _ _ _ W _ _ Hin).
  - intros y Hy. change (hasref (define_ref s x l) y) in Hy. apply hasref_define in Hy.
    rewrite (dhas_dset ident_eqb ident_eqb_eq). destruct Hy as [->|Hy].
    + rewrite ident_eqb_refl. reflexivity.
    + rewrite (wf_loads _ _ _ W y Hy). apply orb_true_r.
  - intros id l' Hin. apply (In_dset ident_eqb) in Hin. destruct Hin as [E|Hin].
    + injection E as -> ->. exists x. split; [reflexivity|]. split; [|exact L].
      change (hasref (define_ref s x l) x). apply hasref_define. auto.
    + destruct (wf_keys _ _ _ W _ _ Hin) as [y [E [Hy Ly]]]. exists y. split; [exact E|]. split; [|exact Ly].
      change (hasref (define_ref s x l) y). apply hasref_define. auto.
  - apply (nodup_dset ident_eqb ident_eqb_eq). apply (wf_nodup _ _ _ W).
  - intros y Hy. destruct (wf_ps _ _ _ W y Hy) as [A B]. split; [|exact B].
    change (hasref (define_ref s x l) y). apply hasref_define. auto.
  - intros y Hy. change (hasref (define_ref s x l) y). apply hasref_define. right. apply (wf_stores _ _ _ W y Hy).
Qed.

Lemma WF_load_op : forall ps P s x, WF ps P s -> WF ps P (sym_load P s x).
Proof.
  intros ps P s x W. unfold sym_load. destruct (find_ref (s :: P) x) eqn:E; [exact W|].
  assert (Hn : ~ hasref s x).
  { intros H. rewrite (find_ref_own ps P s x W H) in E. discriminate. }
  rewrite (find_ref_skip P s x Hn) in E.
  apply WF_define; [exact W| |].
  - unfold lok. rewrite (not_ps_if_noref ps P s x W Hn). auto.
  - right. apply nmem_false. apply (not_ps_if_noref ps P s x W Hn).
Qed.

Lemma WF_store_op : forall ps P s x, WF ps P s -> WF ps P (sym_store P s x).
Proof.
  intros ps P s x W. unfold sym_store.
  assert (W1 : hasref s x -> WF ps P (add_store s x)).
  { intros Hx. constructor; unfold add_store; cbn [s_level s_refs s_loads s_stores];
      try apply W.
    - intros y Hy. destruct (wf_ps _ _ _ W y Hy) as [A B]. split; [exact A|]. apply In_nadd. auto.
    - intros y Hy. apply In_nadd in Hy. destruct Hy as [->|Hy]; [exact Hx|apply (wf_stores _ _ _ W y Hy)]. }
  cbn [add_store s_refs]. destruct (dhas N.eqb x (s_refs s)) eqn:E.
  - apply W1. exact E.
  - assert (Hn : ~ hasref s x) by (unfold hasref; congruence).
    pose proof (not_ps_if_noref ps P s x W Hn) as Hps.
    assert (W2 : forall l, lok ps P x l -> WF ps P (define_ref (add_store s x) x l)).
    { intros l L.
      (* prove directly: like WF_define on s, with the store added *)
      pose proof (WF_define ps P s x l W L (or_intror (proj1 (nmem_false _ _) Hps))) as Wd.
      constructor; unfold define_ref, add_store; cbn [s_level s_refs s_loads s_stores]; try apply Wd.
      - intros y Hy. destruct (wf_ps _ _ _ Wd y Hy) as [A B]. split; [exact A|].
        unfold define_ref in B; cbn [s_stores] in B. apply In_nadd. auto.
      - intros y Hy. apply In_nadd in Hy. destruct Hy as [->|Hy].
        + change (hasref (define_ref s x l) x). apply hasref_define. auto.
        + apply (wf_stores _ _ _ Wd y). exact Hy. }
    destruct (find_ref P x) eqn:F.
    + apply W2. unfold lok. rewrite Hps. exact F.
    + apply W2. unfold lok. rewrite Hps. exact F.
Qed.

Lemma WF_loads_op : forall ps P xs s, WF ps P s -> WF ps P (sym_loads P s xs).
Proof.
  unfold sym_loads. induction xs as [|x r IH]; intros s W; cbn [fold_left]; [exact W|].
  apply IH. apply WF_load_op. exact W.
Qed.

(* levels never change *)
Lemma level_load : forall P s x, s_level (sym_load P s x) = s_level s.
Proof. intros. unfold sym_load. destruct (find_ref (s :: P) x); reflexivity. Qed.
Lemma level_loads : forall P xs s, s_level (sym_loads P s xs) = s_level s.
Proof.
  unfold sym_loads. induction xs as [|x r IH]; intros s; cbn [fold_left]; [reflexivity|].
  rewrite IH. apply level_load.
Qed.
Lemma level_store : forall P s x, s_level (sym_store P s x) = s_level s.
Proof.
  intros. unfold sym_store. cbn [add_store s_refs]. destruct (dhas N.eqb x (s_refs s)); [reflexivity|].
  destruct (find_ref P x); reflexivity.
Qed.
Lemma level_param : forall s x, s_level (sym_param s x) = s_level s.
Proof. reflexivity. Qed.

(* refs only grow *)
Lemma mono_load : forall P s x y, hasref s y -> hasref (sym_load P s x) y.
Proof.
  intros. unfold sym_load. destruct (find_ref (s :: P) x); [assumption|]. apply hasref_define. auto.
Qed.
Lemma mono_loads : forall P xs s y, hasref s y -> hasref (sym_loads P s xs) y.
Proof.
  unfold sym_loads. induction xs as [|x r IH]; intros s y H; cbn [fold_left]; [exact H|].
  apply IH. apply mono_load. exact H.
Qed.
Lemma mono_store : forall P s x y, hasref s y -> hasref (sym_store P s x) y.
Proof.
  intros P s x y H. unfold sym_store. cbn [add_store s_refs]. destruct (dhas N.eqb x (s_refs s)); [exact H|].
  destruct (find_ref P x); apply hasref_define; right; exact H.
Qed.
Lemma store_hasref : forall P s x, hasref (sym_store P s x) x.
Proof.
  intros P s x. unfold sym_store. cbn [add_store s_refs]. destruct (dhas N.eqb x (s_refs s)) eqn:E; [exact E|].
  destruct (find_ref P x); apply hasref_define; auto.
Qed.
Lemma load_found : forall ps P s x, WF ps P s -> find_ref (sym_load P s x :: P) x <> None.
Proof.
  intros ps P s x W. unfold sym_load. destruct (find_ref (s :: P) x) eqn:E; [congruence|].
  cbn. unfold define_ref; cbn [s_refs]. rewrite (dget_dset_same N.eqb N.eqb_eq). discriminate.
Qed.

(* ------------------------------------------------------------ branch_update *)
Definition merge1 (acc b : symbols) : symbols :=
  mkSym (s_level acc) (dupdate N.eqb (s_refs acc) (s_refs b))
        (dupdate ident_eqb (s_loads acc) (s_loads b)) (nunion (s_stores acc) (s_stores b)).
Definition ovr (P : list symbols) (acc : symbols) (x : name) : symbols :=
  match find_ref (acc :: P) x with
  | None => acc
  | Some target =>
      let l := match find_ref P x with Some outer => LAlias outer | None => LResolve x end in
      mkSym (s_level acc) (s_refs acc) (dset ident_eqb target l (s_loads acc)) (s_stores acc)
  end.
Definition bu_stores (s : symbols) (bs : list symbols) : list name :=
  ndiff (fold_left (fun acc b => nunion acc (s_stores b)) bs []) (s_stores s).
Lemma branch_update_eq : forall P s bs,
  branch_update oid P s bs = fold_left (ovr P) (bu_stores s bs) (fold_left merge1 bs s).
Proof. reflexivity. Qed.

Lemma hasref_merge1 : forall acc b x, hasref (merge1 acc b) x <-> hasref acc x \/ hasref b x.
Proof.
  intros. unfold hasref, merge1; cbn [s_refs]. rewrite (dhas_dupdate N.eqb N.eqb_eq), orb_true_iff. tauto.
Qed.
Lemma WF_merge1 : forall ps P acc b, WF ps P acc -> WF ps P b -> s_level b = s_level acc -> WF ps P (merge1 acc b).
Proof.
  intros ps P acc b Wa Wb Lv. constructor; unfold merge1; cbn [s_level s_refs s_loads s_stores].
  - intros x id Hin. apply (In_dupdate N.eqb) in Hin. destruct Hin as [H|H].
    + apply (wf_refs _ _ _ Wa _ _ H).
    + rewrite <- Lv. apply (wf_refs _ _ _ Wb _ _ H).
  - intros x Hx. change (hasref (merge1 acc b) x) in Hx. apply hasref_merge1 in Hx.
    rewrite (dhas_dupdate ident_eqb ident_eqb_eq). destruct Hx as [Hx|Hx].
    + rewrite (wf_loads _ _ _ Wa x Hx). reflexivity.
    + rewrite <- Lv. rewrite (wf_loads _ _ _ Wb x Hx). apply orb_true_r.
  - intros id l Hin. apply (In_dupdate ident_eqb) in Hin. destruct Hin as [H|H].
    + destruct (wf_keys _ _ _ Wa _ _ H) as [x [E [Hx L]]]. exists x. split; [exact E|]. split; [|exact L].
      change (hasref (merge1 acc b) x). apply hasref_merge1. auto.
    + destruct (wf_keys _ _ _ Wb _ _ H) as [x [E [Hx L]]]. exists x. split; [rewrite <- Lv; exact E|]. split; [|exact L].
      change (hasref (merge1 acc b) x). apply hasref_merge1. auto.
  - apply (nodup_dupdate ident_eqb ident_eqb_eq). apply (wf_nodup _ _ _ Wa).
  - intros x Hx. destruct (wf_ps _ _ _ Wa x Hx) as [A B]. split.
    + change (hasref (merge1 acc b) x). apply hasref_merge1. auto.
    + apply In_nunion. auto.
  - intros x Hx. apply In_nunion in Hx. change (hasref (merge1 acc b) x). apply hasref_merge1.
    destruct Hx as [Hx|Hx]; [left; apply (wf_stores _ _ _ Wa x Hx)|right; apply (wf_stores _ _ _ Wb x Hx)].
Qed.

Lemma merge_all : forall ps P bs s, WF ps P s -> (forall b, In b bs -> WF ps P b /\ s_level b = s_level s) ->
  let s1 := fold_left merge1 bs s in
  WF ps P s1 /\ s_level s1 = s_level s /\
  (forall x, hasref s1 x <-> hasref s x \/ exists b, In b bs /\ hasref b x) /\
  (forall x, In x (s_stores s) -> In x (s_stores s1)).
Proof.
  induction bs as [|b r IH]; intros s W Hb; cbn [fold_left].
  - split; [exact W|]. split; [reflexivity|]. split; [|auto].
    intros x; split; [auto|]. intros [H|[b [[] _]]]; exact H.
  - destruct (Hb b (or_introl eq_refl)) as [Wb Lb].
    assert (Wm : WF ps P (merge1 s b)) by (apply WF_merge1; auto).
    destruct (IH (merge1 s b) Wm) as [W1 [L1 [R1 S1]]].
    { intros b' Hin. destruct (Hb b' (or_intror Hin)) as [A B]. split; [exact A|exact B]. }
    split; [exact W1|]. split; [exact L1|]. split.
    + intros x. rewrite R1, hasref_merge1. split.
      * intros [[H|H]|[b' [Hin H]]]; eauto. right. exists b. split; [left; reflexivity|exact H].
        right. exists b'. split; [right; exact Hin|exact H].
      * intros [H|[b' [[<-|Hin] H]]]; eauto.
    + intros x Hx. apply S1. unfold merge1; cbn [s_stores]. apply In_nunion. auto.
Qed.

Lemma ovr_refs : forall P acc x, s_refs (ovr P acc x) = s_refs acc /\ s_level (ovr P acc x) = s_level acc
  /\ s_stores (ovr P acc x) = s_stores acc.
Proof. intros. unfold ovr. destruct (find_ref (acc :: P) x); auto. Qed.
Lemma WF_ovr : forall ps P acc x, WF ps P acc -> hasref acc x -> ~ In x ps -> WF ps P (ovr P acc x).
Proof.
  intros ps P acc x W Hx Hps. unfold ovr. rewrite (find_ref_own ps P acc x W Hx).
  apply WF_set_load; auto. unfold lok. rewrite (proj2 (nmem_false x ps) Hps).
  destruct (find_ref P x); auto.
Qed.

Lemma In_bu_stores : forall s bs x, In x (bu_stores s bs) -> (exists b, In b bs /\ In x (s_stores b)) /\ ~ In x (s_stores s).
Proof.
  intros s bs x H. unfold bu_stores in H. apply In_ndiff in H. destruct H as [H Hn]. split; [|exact Hn].
  assert (G : forall bs acc, In x (fold_left (fun acc b => nunion acc (s_stores b)) bs acc) ->
              In x acc \/ exists b, In b bs /\ In x (s_stores b)).
  { induction bs0 as [|b r IH]; intros acc H0; cbn [fold_left] in H0; [auto|].
    apply IH in H0. destruct H0 as [H0|[b' [Hin H0]]].
    - apply In_nunion in H0. destruct H0; [auto|right; exists b; split; [left; reflexivity|assumption]].
    - right. exists b'. split; [right; exact Hin|exact H0]. }
  destruct (G bs [] H) as [[]|G']. exact G'.
Qed.

Lemma WF_branch_update : forall ps P s bs, WF ps P s ->
  (forall b, In b bs -> WF ps P b /\ s_level b = s_level s) ->
  let r := branch_update oid P s bs in
  WF ps P r /\ s_level r = s_level s /\
  (forall x, hasref r x <-> hasref s x \/ exists b, In b bs /\ hasref b x).
Proof.
  intros ps P s bs W Hb. rewrite branch_update_eq.
  destruct (merge_all ps P bs s W Hb) as [W1 [L1 [R1 S1]]].
  set (s1 := fold_left merge1 bs s) in *.
  assert (G : forall xs acc, WF ps P acc -> s_refs acc = s_refs s1 -> s_level acc = s_level s1 ->
            (forall x, In x xs -> hasref s1 x /\ ~ In x ps) ->
            let r := fold_left (ovr P) xs acc in WF ps P r /\ s_refs r = s_refs s1 /\ s_level r = s_level s1).
  { induction xs as [|x r IH]; intros acc Wa Ra La Hxs; cbn [fold_left]; [auto|].
    destruct (Hxs x (or_introl eq_refl)) as [Hx Hps].
    destruct (ovr_refs P acc x) as [E1 [E2 _]].
    apply IH.
    - apply WF_ovr; auto. unfold hasref. rewrite Ra. exact Hx.
    - congruence.
    - congruence.
    - intros y Hy. apply Hxs. right. exact Hy. }
  destruct (G (bu_stores s bs) s1 W1 eq_refl eq_refl) as [Wr [Rr Lr]].
  { intros x Hx. apply In_bu_stores in Hx. destruct Hx as [[b [Hin Hst]] Hn]. split.
    - apply R1. right. exists b. split; [exact Hin|]. apply (wf_stores _ _ _ (proj1 (Hb b Hin)) x Hst).
    - intros Hps. apply Hn. apply (wf_ps _ _ _ W x Hps). }
  split; [exact Wr|]. split; [congruence|].
  intros x. unfold hasref. rewrite Rr. apply R1.
Qed.

(* ------------------------------------------------------------ the visitor preserves WF *)
Lemma WF_fsv : forall st ps P s, WF ps P s ->
  WF ps P (fsv oid P s st) /\ s_level (fsv oid P s st) = s_level s /\
  (forall y, hasref s y -> hasref (fsv oid P s st) y).
Proof.
  intros st. pattern st.
  apply (stmt_ind2 _ (fun l => forall ps P s, WF ps P s ->
      WF ps P (fsv_list oid P s l) /\ s_level (fsv_list oid P s l) = s_level s /\
      (forall y, hasref s y -> hasref (fsv_list oid P s l) y))); clear st.
  - (* SOut *) intros es ps P s W. cbn [fsv]. split; [apply WF_loads_op; auto|]. split; [apply level_loads|]. intros; apply mono_loads; auto.
  - (* SIf *) intros t b ei el Hb Hei Hel ps P s W. rewrite fsv_if. cbv zeta.
    set (s0 := sym_loads P s (expr_names t)).
    assert (W0 : WF ps P s0) by (apply WF_loads_op; auto).
    destruct (Hb ps P s0 W0) as [Wb [Lb Mb]]. destruct (Hei ps P s0 W0) as [We [Le Me]]. destruct (Hel ps P s0 W0) as [Wl [Ll Ml]].
    destruct (WF_branch_update ps P s0 [fsv_list oid P s0 b; fsv_list oid P s0 ei; fsv_list oid P s0 el] W0) as [Wr [Lr Rr]].
    { intros b' [<-|[<-|[<-|[]]]]; auto. }
    split; [exact Wr|]. split; [rewrite Lr; apply level_loads|].
    intros y Hy. apply Rr. left. apply mono_loads. exact Hy.
  - (* SFor *) intros tg it te b el _ _ ps P s W. cbn [fsv]. split; [apply WF_loads_op; auto|]. split; [apply level_loads|]. intros; apply mono_loads; auto.
  - (* SSet *) intros x e ps P s W. cbn [fsv]. split; [apply WF_store_op; apply WF_loads_op; auto|].
    split; [rewrite level_store; apply level_loads|]. intros; apply mono_store; apply mono_loads; auto.
  - (* SSetAttr *) intros x a e ps P s W. cbn [fsv]. split; [apply WF_load_op; apply WF_loads_op; auto|].
    split; [rewrite level_load; apply level_loads|]. intros; apply mono_load; apply mono_loads; auto.
  - (* SNsNew *) intros x kvs ps P s W. cbn [fsv]. split; [apply WF_store_op; apply WF_loads_op; auto|].
    split; [rewrite level_store; apply level_loads|]. intros; apply mono_store; apply mono_loads; auto.
  - (* SSetBlock *) intros x b _ ps P s W. cbn [fsv]. split; [apply WF_store_op; auto|]. split; [apply level_store|]. intros; apply mono_store; auto.
  - (* SWith *) intros bs b _ ps P s W. cbn [fsv]. split; [apply WF_loads_op; auto|]. split; [apply level_loads|]. intros; apply mono_loads; auto.
  - (* SFilter *) intros f b _ ps P s W. cbn [fsv]. auto.
  - (* SMacro *) intros m ps0 b _ ps P s W. cbn [fsv]. split; [apply WF_store_op; auto|]. split; [apply level_store|]. intros; apply mono_store; auto.
  - (* SCallOut *) intros f args ps P s W. cbn [fsv]. split; [apply WF_loads_op; auto|]. split; [apply level_loads|]. intros; apply mono_loads; auto.
  - (* SCallBlock *) intros ps0 f args b _ ps P s W. cbn [fsv]. split; [apply WF_loads_op; auto|]. split; [apply level_loads|]. intros; apply mono_loads; auto.
  - (* nil *) intros ps P s W. cbn. auto.
  - (* cons *) intros st l Hs Hl ps P s W. cbn [fsv_list].
    destruct (Hs ps P s W) as [W1 [L1 M1]]. destruct (Hl ps P _ W1) as [W2 [L2 M2]].
    split; [exact W2|]. split; [congruence|]. auto.
Qed.
Lemma WF_fsv_list : forall l ps P s, WF ps P s ->
  WF ps P (fsv_list oid P s l) /\ s_level (fsv_list oid P s l) = s_level s /\
  (forall y, hasref s y -> hasref (fsv_list oid P s l) y).
Proof.
  induction l as [|st l IH]; intros ps P s W; cbn [fsv_list]; [auto|].
  destruct (WF_fsv st ps P s W) as [W1 [L1 M1]]. destruct (IH ps P _ W1) as [W2 [L2 M2]].
  split; [exact W2|]. split; [congruence|]. auto.
Qed.

(* ------------------------------------------------------------ coverage *)
Definition found (ch : list symbols) (x : name) : Prop := find_ref ch x <> None.

Fixpoint covers (P : list symbols) (S : symbols) (st : stmt) : Prop :=
  let fix go (l : list stmt) : Prop := match l with [] => True | x :: r => covers P S x /\ go r end in
  match st with
  | SOut es => Forall (found (S :: P)) (exprs_names es)
  | SIf t b ei el => Forall (found (S :: P)) (expr_names t) /\ go b /\ go ei /\ go el
  | SFor _ it _ _ _ => Forall (found (S :: P)) (expr_names it)
  | SSet x e => Forall (found (S :: P)) (expr_names e) /\ hasref S x
  | SSetAttr x _ e => Forall (found (S :: P)) (expr_names e) /\ found (S :: P) x
  | SNsNew x kvs => Forall (found (S :: P)) (n_namespace :: exprs_names (map snd kvs)) /\ hasref S x
  | SSetBlock x _ => hasref S x
  | SWith bs _ => Forall (found (S :: P)) (exprs_names (map snd bs))
  | SFilter _ _ => True
  | SMacro m _ _ => hasref S m
  | SCallOut f args => Forall (found (S :: P)) (f :: exprs_names args)
  | SCallBlock _ f args _ => Forall (found (S :: P)) (f :: exprs_names args)
  end.
Fixpoint covers_l (P : list symbols) (S : symbols) (l : list stmt) : Prop :=
  match l with [] => True | x :: r => covers P S x /\ covers_l P S r end.
Lemma covers_if : forall P S t b ei el,
  covers P S (SIf t b ei el) <-> Forall (found (S :: P)) (expr_names t) /\ covers_l P S b /\ covers_l P S ei /\ covers_l P S el.
Proof.
  intros. cbn [covers].
  assert (E : forall l, (fix go (l : list stmt) : Prop := match l with [] => True | x :: r => covers P S x /\ go r end) l
                        <-> covers_l P S l).
  { induction l as [|x r IH]; cbn; [tauto|rewrite IH; tauto]. }
  rewrite !E. tauto.
Qed.

Lemma found_mono : forall P S S' x, (forall y, hasref S y -> hasref S' y) -> found (S :: P) x -> found (S' :: P) x.
Proof.
  intros P S S' x M F. unfold found in *. destruct (hasref_dec S x) as [H|H].
  - apply M in H. apply hasref_dget in H. destruct H as [id H]. cbn. rewrite H. discriminate.
  - rewrite (find_ref_skip P S x H) in F. cbn. destruct (dget N.eqb x (s_refs S')); [discriminate|exact F].
Qed.
Lemma Forall_found_mono : forall P S S' xs, (forall y, hasref S y -> hasref S' y) ->
  Forall (found (S :: P)) xs -> Forall (found (S' :: P)) xs.
Proof. intros P S S' xs M F. eapply Forall_impl; [|exact F]. intros x. apply found_mono. exact M. Qed.

Lemma covers_mono : forall st P S S', (forall y, hasref S y -> hasref S' y) -> covers P S st -> covers P S' st.
Proof.
  intros st. pattern st.
  apply (stmt_ind2 _ (fun l => forall P S S', (forall y, hasref S y -> hasref S' y) -> covers_l P S l -> covers_l P S' l)); clear st.
  - intros es P S S' M C. cbn in *. eapply Forall_found_mono; eauto.
  - intros t b ei el Hb Hei Hel P S S' M C. apply covers_if in C. apply covers_if.
    destruct C as [C1 [C2 [C3 C4]]]. repeat split; eauto using Forall_found_mono.
  - intros tg it te b el _ _ P S S' M C. cbn in *. eapply Forall_found_mono; eauto.
  - intros x e P S S' M [C1 C2]. cbn. split; [eapply Forall_found_mono; eauto|auto].
  - intros x a e P S S' M [C1 C2]. cbn. split; [eapply Forall_found_mono; eauto|eapply found_mono; eauto].
  - intros x kvs P S S' M [C1 C2]. cbn [covers]. split; [eapply Forall_found_mono; eauto|auto].
  - intros x b _ P S S' M C. cbn in *. auto.
  - intros bs b _ P S S' M C. cbn in *. eapply Forall_found_mono; eauto.
  - intros; exact I.
  - intros m ps b _ P S S' M C. cbn in *. auto.
  - intros f args P S S' M C. cbn [covers] in *. eapply Forall_found_mono; eauto.
  - intros ps f args b _ P S S' M C. cbn [covers] in *. eapply Forall_found_mono; eauto.
  - intros; exact I.
  - intros st l Hs Hl P S S' M [C1 C2]. cbn. split; eauto.
Qed.
Lemma covers_l_mono : forall l P S S', (forall y, hasref S y -> hasref S' y) -> covers_l P S l -> covers_l P S' l.
Proof.
  induction l as [|st l IH]; intros P S S' M C; cbn in *; [exact I|].
  destruct C as [C1 C2]. split; [eapply covers_mono; eauto|eapply IH; eauto].
Qed.

Lemma loads_found : forall ps P xs s, WF ps P s -> Forall (found (sym_loads P s xs :: P)) xs.
Proof.
  unfold sym_loads. induction xs as [|x r IH]; intros s W; cbn [fold_left]; constructor.
  - apply (found_mono P (sym_load P s x)); [intros y; apply (mono_loads P r)|].
    unfold found. apply (load_found ps P s x W).
  - apply IH. apply WF_load_op. exact W.
Qed.

Lemma covers_fsv : forall st ps P s, WF ps P s -> covers P (fsv oid P s st) st.
Proof.
  intros st. pattern st.
  apply (stmt_ind2 _ (fun l => forall ps P s, WF ps P s -> covers_l P (fsv_list oid P s l) l)); clear st.
  - intros es ps P s W. cbn. apply (loads_found ps); auto.
  - intros t b ei el Hb Hei Hel ps P s W. rewrite fsv_if. cbv zeta. set (s0 := sym_loads P s (expr_names t)).
    assert (W0 : WF ps P s0) by (apply WF_loads_op; auto).
    destruct (WF_fsv_list b ps P s0 W0) as [Wb [Lb _]]. destruct (WF_fsv_list ei ps P s0 W0) as [We [Le _]].
    destruct (WF_fsv_list el ps P s0 W0) as [Wl [Ll _]].
    destruct (WF_branch_update ps P s0 [fsv_list oid P s0 b; fsv_list oid P s0 ei; fsv_list oid P s0 el] W0) as [Wr [Lr Rr]].
    { intros b' [<-|[<-|[<-|[]]]]; auto. }
    apply covers_if. split; [|split; [|split]].
    + apply (Forall_found_mono P s0); [intros y Hy; apply Rr; auto|]. apply (loads_found ps); auto.
    + apply (covers_l_mono b P (fsv_list oid P s0 b)); [|apply (Hb ps); auto].
      intros y Hy. apply Rr. right. eexists. split; [left; reflexivity|exact Hy].
    + apply (covers_l_mono ei P (fsv_list oid P s0 ei)); [|apply (Hei ps); auto].
      intros y Hy. apply Rr. right. eexists. split; [right; left; reflexivity|exact Hy].
    + apply (covers_l_mono el P (fsv_list oid P s0 el)); [|apply (Hel ps); auto].
      intros y Hy. apply Rr. right. eexists. split; [right; right; left; reflexivity|exact Hy].
  - intros tg it te b el _ _ ps P s W. cbn. apply (loads_found ps); auto.
  - intros x e ps P s W. cbn. split; [|apply store_hasref].
    apply (Forall_found_mono P (sym_loads P s (expr_names e))); [intros y; apply mono_store|apply (loads_found ps); auto].
  - intros x a e ps P s W. cbn. split.
    + apply (Forall_found_mono P (sym_loads P s (expr_names e))); [intros y; apply mono_load|apply (loads_found ps); auto].
    + unfold found. apply (load_found ps). apply WF_loads_op. auto.
  - intros x kvs ps P s W. cbn [covers fsv]. split; [|apply store_hasref].
    apply (Forall_found_mono P (sym_loads P s (n_namespace :: exprs_names (map snd kvs)))); [intros y; apply mono_store|apply (loads_found ps); auto].
  - intros x b _ ps P s W. cbn. apply store_hasref.
  - intros bs b _ ps P s W. cbn. apply (loads_found ps); auto.
  - intros; exact I.
  - intros m ps0 b _ ps P s W. cbn. apply store_hasref.
  - intros f args ps P s W. cbn [covers fsv]. apply (loads_found ps); auto.
  - intros ps0 f args b _ ps P s W. cbn [covers fsv]. apply (loads_found ps); auto.
  - intros; exact I.
  - intros st l Hs Hl ps P s W. cbn [fsv_list covers_l].
    destruct (WF_fsv st ps P s W) as [W1 [L1 M1]]. split; [|apply (Hl ps); auto].
    apply (covers_mono st P (fsv oid P s st)); [|apply (Hs ps); auto].
    intros y Hy. apply (WF_fsv_list l ps P _ W1). exact Hy.
Qed.
Lemma covers_fsv_list : forall l ps P s, WF ps P s -> covers_l P (fsv_list oid P s l) l.
Proof.
  induction l as [|st l IH]; intros ps P s W; cbn [fsv_list covers_l]; [exact I|].
  destruct (WF_fsv st ps P s W) as [W1 [L1 M1]]. split; [|apply (IH ps); auto].
  apply (covers_mono st P (fsv oid P s st)); [|apply (covers_fsv st ps); auto].
  intros y Hy. apply (WF_fsv_list l ps P _ W1). exact Hy.
Qed.

(* ------------------------------------------------------------ frames *)
Lemma sym_new_level : forall P, s_level (sym_new P) = length P \/ True. Proof. auto. Qed.

Definition I1 (ps : list name) (s : symbols) : Prop :=
  (forall x id, In (x, id) (s_refs s) -> id = (s_level s, x)) /\
  (forall x, hasref s x -> In x ps /\ In x (s_stores s) /\ dhas ident_eqb (s_level s, x) (s_loads s) = true) /\
  (forall id l, In (id, l) (s_loads s) -> exists x, id = (s_level s, x) /\ hasref s x /\ l = LParam) /\
  NoDup (keys (s_loads s)) /\
  (forall x, In x (s_stores s) -> hasref s x).

Lemma I1_new : forall ps P, I1 ps (sym_new P).
Proof.
  intros ps P. unfold I1, sym_new, hasref, dhas; cbn. repeat split; try tauto; try discriminate. constructor.
Qed.
Lemma I1_param : forall ps s x, I1 ps s -> In x ps -> I1 ps (sym_param s x) /\ hasref (sym_param s x) x
  /\ (forall y, hasref s y -> hasref (sym_param s x) y).
Proof.
  intros ps s x [A [B [C [D E]]]] Hx.
  assert (HR : forall y, hasref (sym_param s x) y <-> y = x \/ hasref s y).
  { intros y. unfold sym_param. rewrite hasref_define. unfold hasref, add_store; cbn [s_refs]. tauto. }
  split; [|split; [apply HR; auto|intros y Hy; apply HR; auto]].
  unfold I1. unfold sym_param, define_ref, add_store; cbn [s_level s_refs s_loads s_stores].
  split; [|split; [|split; [|split]]].
  - intros y id Hin. apply (In_dset N.eqb) in Hin. destruct Hin as [Eq|Hin]; [injection Eq as -> ->; reflexivity|eauto].
  - intros y Hy. change (hasref (sym_param s x) y) in Hy. apply HR in Hy.
    rewrite (dhas_dset ident_eqb ident_eqb_eq). destruct Hy as [->|Hy].
    + split; [exact Hx|]. split; [apply In_nadd; auto|]. rewrite ident_eqb_refl. reflexivity.
    + destruct (B y Hy) as [B1 [B2 B3]]. split; [exact B1|]. split; [apply In_nadd; auto|]. rewrite B3. apply orb_true_r.
  - intros id l Hin. apply (In_dset ident_eqb) in Hin. destruct Hin as [Eq|Hin].
    + injection Eq as -> ->. exists x. split; [reflexivity|]. split; [|reflexivity].
      change (hasref (sym_param s x) x). apply HR. auto.
    + destruct (C id l Hin) as [y [E1 [E2 E3]]]. exists y. split; [exact E1|]. split; [|exact E3].
      change (hasref (sym_param s x) y). apply HR. auto.
  - apply (nodup_dset ident_eqb ident_eqb_eq). exact D.
  - intros y Hy. apply In_nadd in Hy. change (hasref (sym_param s x) y). apply HR. destruct Hy as [->|Hy]; auto.
Qed.
Lemma I1_params : forall ps qs s, I1 ps s -> incl qs ps ->
  I1 ps (sym_params s qs) /\ (forall x, In x qs -> hasref (sym_params s qs) x) /\
  (forall y, hasref s y -> hasref (sym_params s qs) y) /\ s_level (sym_params s qs) = s_level s.
Proof.
  unfold sym_params. intros ps qs. induction qs as [|q r IH]; intros s I Hin; cbn [fold_left].
  - split; [exact I|]. split; [intros x []|]. split; [auto|reflexivity].
  - destruct (I1_param ps s q I (Hin q (or_introl eq_refl))) as [I' [Hq M]].
    destruct (IH (sym_param s q) I') as [I2 [H2 [M2 L2]]]. { intros y Hy. apply Hin. right. exact Hy. }
    split; [exact I2|]. split; [|split; [auto|exact L2]].
    intros x [<-|Hx]; [apply M2; exact Hq|apply H2; exact Hx].
Qed.
Lemma I1_WF : forall ps P s, I1 ps s -> (forall x, In x ps -> hasref s x) -> WF ps P s.
Proof.
  intros ps P s [A [B [C [D E]]]] H. constructor; auto.
  - intros x Hx. apply (B x Hx).
  - intros id l Hin. destruct (C id l Hin) as [x [E1 [E2 E3]]]. exists x. split; [exact E1|]. split; [exact E2|].
    unfold lok. destruct (B x E2) as [B1 _]. rewrite (proj2 (nmem_In x ps) B1). exact E3.
  - intros x Hx. split; [auto|]. apply (B x (H x Hx)).
Qed.

(* the shape of every frame the code generator creates: declared parameters, then the body *)
Definition mk_frame (P : list symbols) (ps : list name) (body : list stmt) : symbols :=
  fsv_list oid P (sym_params (sym_new P) ps) body.
Lemma mk_frame_ok : forall P ps body,
  let S := mk_frame P ps body in
  WF ps P S /\ s_level S = s_level (sym_new P) /\ (forall x, In x ps -> hasref S x) /\ covers_l P S body.
Proof.
  intros P ps body. unfold mk_frame.
  destruct (I1_params ps ps (sym_new P) (I1_new ps P) (incl_refl ps)) as [I [H [M L]]].
  assert (W : WF ps P (sym_params (sym_new P) ps)) by (apply I1_WF; auto).
  destruct (WF_fsv_list body ps P _ W) as [W2 [L2 M2]].
  split; [exact W2|]. split; [congruence|]. split; [intros x Hx; apply M2; apply H; exact Hx|].
  apply (covers_fsv_list body ps). exact W.
Qed.

Definition loop_ps (tg : name) (body : list stmt) : list name :=
  (if extended_loop body then [n_loop] else []) ++ [tg].
Lemma frame_for_body_eq : forall P tg body, frame_for_body oid P tg body = mk_frame P (loop_ps tg body) body.
Proof.
  intros. unfold frame_for_body, mk_frame, loop_ps, an_for_body, sym_params. destruct (extended_loop body); reflexivity.
Qed.
Lemma frame_for_else_eq : forall P els, frame_for_else oid P els = mk_frame P [] els.
Proof. reflexivity. Qed.
Lemma frame_with_eq : forall P tgs body, frame_with oid P tgs body = mk_frame P tgs body.
Proof. reflexivity. Qed.
Lemma frame_body_eq : forall P body, frame_body oid P body = mk_frame P [] body.
Proof. reflexivity. Qed.
Definition root_ps (body : list stmt) : list name :=
  if nmem n_self (find_undeclared body [n_self]) then [n_self] else [].
Lemma frame_root_eq : forall body, frame_root oid body = mk_frame [] (root_ps body) body.
Proof. intros. unfold frame_root, mk_frame, root_ps, an_template, sym_params. destruct (nmem n_self _); reflexivity. Qed.

(* ------------------------------------------------------------ refs come from the text *)
Lemma hasref_load_inv : forall P s x y, hasref (sym_load P s x) y -> y = x \/ hasref s y.
Proof. intros P s x y. unfold sym_load. destruct (find_ref (s :: P) x); [auto|]. apply hasref_define. Qed.
Lemma hasref_loads_inv : forall P xs s y, hasref (sym_loads P s xs) y -> In y xs \/ hasref s y.
Proof.
  unfold sym_loads. induction xs as [|x r IH]; intros s y H; cbn [fold_left] in H; [auto|].
  apply IH in H. destruct H as [H|H]; [left; right; exact H|].
  apply hasref_load_inv in H. destruct H as [->|H]; [left; left; reflexivity|auto].
Qed.
Lemma hasref_store_inv : forall P s x y, hasref (sym_store P s x) y -> y = x \/ hasref s y.
Proof.
  intros P s x y. unfold sym_store. cbn [add_store s_refs]. destruct (dhas N.eqb x (s_refs s)); [auto|].
  destruct (find_ref P x); intros H; apply hasref_define in H; destruct H; auto.
Qed.

Definition onames (st : stmt) : list name := map fst (occs st).
Definition onames_l (l : list stmt) : list name := map fst (occs_l l).
Lemma occs_l_cons : forall st l, occs_l (st :: l) = occs st ++ occs_l l. Proof. reflexivity. Qed.
Lemma occs_go : forall l, (fix go (l : list stmt) := match l with [] => [] | x :: r => occs x ++ go r end) l = occs_l l.
Proof. induction l as [|x r IH]; cbn; [reflexivity|rewrite IH; reflexivity]. Qed.
Lemma In_ld : forall x xs, In x xs -> In x (map fst (map (fun x : name => (x, CLoad)) xs)).
Proof. intros x xs H. rewrite map_map. cbn. rewrite map_id. exact H. Qed.

Lemma refs_sub : forall st ps P s y, WF ps P s -> hasref (fsv oid P s st) y -> hasref s y \/ In y (onames st).
Proof.
  intros st. pattern st.
  apply (stmt_ind2 _ (fun l => forall ps P s y, WF ps P s -> hasref (fsv_list oid P s l) y -> hasref s y \/ In y (onames_l l))); clear st;
    unfold onames, onames_l.
  - intros es ps P s y W H. cbn in *. apply hasref_loads_inv in H. destruct H; [right; apply In_ld; auto|auto].
  - intros t b ei el Hb Hei Hel ps P s y W H. rewrite fsv_if in H. cbv zeta in H. set (s0 := sym_loads P s (expr_names t)) in *.
    assert (W0 : WF ps P s0) by (apply WF_loads_op; auto).
    destruct (WF_fsv_list b ps P s0 W0) as [Wb [Lb _]]. destruct (WF_fsv_list ei ps P s0 W0) as [We [Le _]].
    destruct (WF_fsv_list el ps P s0 W0) as [Wl [Ll _]].
    destruct (WF_branch_update ps P s0 [fsv_list oid P s0 b; fsv_list oid P s0 ei; fsv_list oid P s0 el] W0) as [Wr [Lr Rr]].
    { intros b' [<-|[<-|[<-|[]]]]; auto. }
    cbn [occs]. rewrite !occs_go, !map_app, !in_app_iff.
    assert (H0 : hasref s0 y -> hasref s y \/ In y (map fst (map (fun x : name => (x, CLoad)) (expr_names t)))).
    { intros H0. apply hasref_loads_inv in H0. destruct H0; [right; apply In_ld; auto|auto]. }
    apply Rr in H. destruct H as [H|[b' [[<-|[<-|[<-|[]]]] H]]].
    + destruct (H0 H); auto.
    + destruct (Hb ps P s0 y W0 H) as [H1|H1]; [destruct (H0 H1); auto|auto].
    + destruct (Hei ps P s0 y W0 H) as [H1|H1]; [destruct (H0 H1); auto|auto].
    + destruct (Hel ps P s0 y W0 H) as [H1|H1]; [destruct (H0 H1); auto 6|auto 6].
  - intros tg it te b el _ _ ps P s y W H. cbn in *. apply hasref_loads_inv in H.
    destruct H; [right; right; rewrite map_app, in_app_iff; left; apply In_ld; auto|auto].
  - intros x e ps P s y W H. cbn in *. apply hasref_store_inv in H. destruct H as [->|H]; [auto|].
    apply hasref_loads_inv in H. destruct H; [right; right; apply In_ld; auto|auto].
  - intros x a e ps P s y W H. cbn in *. apply hasref_load_inv in H. destruct H as [->|H]; [auto|].
    apply hasref_loads_inv in H. destruct H; [right; right; apply In_ld; auto|auto].
  - intros x kvs ps P s y W H. cbn [fsv occs] in *. apply hasref_store_inv in H. destruct H as [->|H]; [right; left; reflexivity|].
    apply hasref_loads_inv in H. destruct H; [right; apply in_cons; apply In_ld; auto|auto].
  - intros x b _ ps P s y W H. cbn in *. apply hasref_store_inv in H. destruct H as [->|H]; auto.
  - intros bs b _ ps P s y W H. cbn [fsv occs] in *. apply hasref_loads_inv in H.
    destruct H; [right; rewrite !map_app, !in_app_iff; right; left; apply In_ld; auto|auto].
  - intros f b _ ps P s y W H. cbn in *. auto.
  - intros m ps0 b _ ps P s y W H. cbn in *. apply hasref_store_inv in H. destruct H as [->|H]; auto.
  - intros f args ps P s y W H. cbn [fsv occs] in *. apply hasref_loads_inv in H. destruct H; [right; apply In_ld; auto|auto].
  - intros ps0 f args b _ ps P s y W H. cbn [fsv occs] in *. apply hasref_loads_inv in H.
    destruct H; [right; rewrite !map_app, !in_app_iff; left; apply In_ld; auto|auto].
  - intros ps P s y W H. cbn in *. auto.
  - intros st l Hs Hl ps P s y W H. cbn [fsv_list] in H. rewrite occs_l_cons, map_app, in_app_iff.
    destruct (WF_fsv st ps P s W) as [W1 _].
    destruct (Hl ps P _ y W1 H) as [H1|H1]; [|auto]. destruct (Hs ps P s y W H1); auto.
Qed.
Lemma refs_sub_list : forall l ps P s y, WF ps P s -> hasref (fsv_list oid P s l) y -> hasref s y \/ In y (onames_l l).
Proof.
  induction l as [|st l IH]; intros ps P s y W H; cbn [fsv_list] in H; [auto|].
  unfold onames_l. rewrite occs_l_cons, map_app, in_app_iff. destruct (WF_fsv st ps P s W) as [W1 _].
  destruct (IH ps P _ y W1 H) as [H1|H1]; [|auto]. destruct (refs_sub st ps P s y W H1); auto.
Qed.
Lemma mk_frame_refs : forall P ps body y, hasref (mk_frame P ps body) y -> In y ps \/ In y (onames_l body).
Proof.
  intros P ps body y H. unfold mk_frame in H.
  destruct (I1_params ps ps (sym_new P) (I1_new ps P) (incl_refl ps)) as [I [Hh [M L]]].
  assert (W : WF ps P (sym_params (sym_new P) ps)) by (apply I1_WF; auto).
  destruct (refs_sub_list body ps P _ y W H) as [H1|H1]; [|auto].
  left. destruct I as [_ [B _]]. apply (B y H1).
Qed.
