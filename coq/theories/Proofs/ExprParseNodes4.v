(* C02 parse_unparse, part 6: comparison and ~ chains, conditional, not, unary, primaries. *)
From Coq Require Import List NArith ZArith Bool Lia Arith.
Import ListNotations.
From JV Require Import Model.ExprAst Model.ExprPrim Spec.ExprSpec Model.ExprParser Model.ExprUnparse
  Proofs.ExprParseSteps Proofs.ExprParseBase Proofs.ExprParsePrint Proofs.ExprParseNodes Proofs.ExprParseNodes2
  Proofs.ExprParseNodes3.

Definition PLn (L : nat) (y : expr) : Prop := forall rr, nc L rr = true -> parses (entry L) (pr L y ++ rr) y rr.

(* ---- comparison chain ---- *)
Definition cmpp (p : cmpop * expr) : list tok := cmp_toks (fst p) ++ pr 5 (snd p).
Lemma nc5_cmp ops r : nc 4 r = true -> nc 5 (flat_map cmpp ops ++ r) = true.
Proof. intros H. destruct ops as [|[[] y] ops]; try reflexivity. apply (nc_mono 4); [lia|exact H]. Qed.

Lemma cmp_loop r : nc 4 r = true -> forall ops2 acc, (forall p, In p ops2 -> PLn 5 (snd p)) ->
  parses (fun K => p_compare_loop K acc) (flat_map cmpp ops2 ++ r) (acc ++ ops2) r.
Proof.
  intros Hr. induction ops2 as [|[c y] ops2 IH]; intros acc Hg.
  - rewrite app_nil_r. exists 1. intros m Hm. destruct m as [|m]; [lia|]. apply compare_loop_stop. exact Hr.
  - pose proof (Hg (c, y) (or_introl eq_refl)) as Py. cbn [snd] in Py.
    cbn [flat_map]. unfold cmpp at 1. cbn [fst snd]. rewrite <- !app_assoc.
    set (rest := flat_map cmpp ops2 ++ r).
    assert (Hrest : nc 5 rest = true) by (apply nc5_cmp; exact Hr).
    assert (Hnext : parses (fun K => p_compare_loop K (acc ++ [(c, y)])) rest (acc ++ (c, y) :: ops2) r).
    { replace (acc ++ (c, y) :: ops2) with ((acc ++ [(c, y)]) ++ ops2) by (rewrite <- app_assoc; reflexivity).
      apply IH. intros p Hp. apply Hg. right. exact Hp. }
    destruct c; cbn [cmp_toks app];
      (eapply (parses_bind _ p_math1 (fun K x y0 => p_compare_loop K (acc ++ [(_, x)]) y0) _ (pr 5 y ++ rest));
       [intros K; rewrite step_p_compare_loop; reflexivity | apply (Py rest Hrest) | exact Hnext]).
Qed.

Lemma node_compare a ops r : PLn 5 a -> ops <> [] -> (forall p, In p ops -> PLn 5 (snd p)) -> nc 4 r = true ->
  parses p_compare (pr 5 a ++ flat_map cmpp ops ++ r) (ECompare a ops) r.
Proof.
  intros Pa Hne Hg Hr.
  eapply (parses_bind _ p_math1 _ _ (pr 5 a ++ flat_map cmpp ops ++ r)); [intros K; rewrite step_p_compare; reflexivity| |].
  - apply Pa. apply nc5_cmp. exact Hr.
  - eapply (parses_bind0 _ (fun K => p_compare_loop K []) _ _ (flat_map cmpp ops ++ r)); [intros K; reflexivity| |].
    + apply (cmp_loop r Hr ops [] Hg).
    + cbn. destruct ops; [contradiction|]. apply parses_const.
Qed.

(* ---- ~ chain ---- *)
Lemma tildes_cons x its : tildes (x :: its) = x ++ flat_map (fun y => KOp OTilde :: y) its.
Proof.
  revert x. induction its as [|y its IH]; intros x; [cbn; rewrite app_nil_r; reflexivity|].
  change (tildes (x :: y :: its)) with (x ++ KOp OTilde :: tildes (y :: its)). rewrite IH. reflexivity.
Qed.
Lemma nc7_tilde its r : nc 6 r = true -> nc 7 (flat_map (fun y => KOp OTilde :: y) its ++ r) = true.
Proof. intros H. destruct its; [apply (nc_mono 6); [lia|exact H]|reflexivity]. Qed.

Lemma concat_loop r : nc 6 r = true -> forall xs2 acc, (forall x, In x xs2 -> PLn 7 x) ->
  parses (fun K => p_concat_loop K acc) (flat_map (fun y => KOp OTilde :: y) (map (pr 7) xs2) ++ r) (acc ++ xs2) r.
Proof.
  intros Hr. induction xs2 as [|x xs2 IH]; intros acc Hg.
  - rewrite app_nil_r. exists 1. intros m Hm. destruct m as [|m]; [lia|]. apply concat_loop_stop. exact Hr.
  - cbn [map flat_map app]. rewrite <- app_assoc.
    set (rest := flat_map (fun y => KOp OTilde :: y) (map (pr 7) xs2) ++ r).
    eapply (parses_bind _ p_math2 (fun K e y0 => p_concat_loop K (acc ++ [e]) y0) _ (pr 7 x ++ rest));
      [intros K; rewrite step_p_concat_loop; reflexivity| |].
    + apply (Hg x (or_introl eq_refl)). apply nc7_tilde. exact Hr.
    + replace (acc ++ x :: xs2) with ((acc ++ [x]) ++ xs2) by (rewrite <- app_assoc; reflexivity).
      apply IH. intros y Hy. apply Hg. right. exact Hy.
Qed.

Lemma node_concat x y es r : (forall z, In z (x :: y :: es) -> PLn 7 z) -> nc 6 r = true ->
  parses p_concat (tildes (map (pr 7) (x :: y :: es)) ++ r) (EConcat (x :: y :: es)) r.
Proof.
  intros Hg Hr. cbn [map]. rewrite tildes_cons, <- app_assoc.
  change (pr 7 y :: map (pr 7) es) with (map (pr 7) (y :: es)).
  eapply (parses_bind _ p_math2 _ _ (pr 7 x ++ flat_map (fun y0 => KOp OTilde :: y0) (map (pr 7) (y :: es)) ++ r));
    [intros K; rewrite step_p_concat; reflexivity| |].
  - apply (Hg x (or_introl eq_refl)). apply nc7_tilde. exact Hr.
  - eapply (parses_bind0 _ (fun K => p_concat_loop K [x]) _ _ (flat_map (fun y0 => KOp OTilde :: y0) (map (pr 7) (y :: es)) ++ r));
      [intros K; reflexivity| |].
    + apply (concat_loop r Hr (y :: es) [x]). intros z Hz. apply Hg. right. exact Hz.
    + cbn. apply parses_const.
Qed.

(* ---- conditional expression ---- *)
Lemma cond_loop_stop l r : nc 0 r = true -> parses (fun K => p_cond_loop K l) r l r.
Proof.
  intros Hn. apply parses_ret. intros K. rewrite step_p_cond_loop.
  replace (is_kw k_if r) with false; [reflexivity|]. symmetry. nc_solve Hn.
Qed.

Lemma node_cond t a b r : PLn 1 a -> PLn 1 t -> (forall x, b = Some x -> PLn 0 x) -> nc 0 r = true ->
  parses p_cond (pr 1 a ++ KName k_if :: pr 1 t ++ match b with Some x => KName k_else :: pr 0 x | None => [] end ++ r)
         (ECond t a b) r.
Proof.
  intros Pa Pt Pb Hr.
  set (tl1 := match b with Some x => KName k_else :: pr 0 x | None => [] end ++ r).
  assert (Htl : nc 1 tl1 = true) by (unfold tl1; destruct b; [reflexivity|apply (nc_mono 0); [lia|exact Hr]]).
  eapply (parses_bind _ p_or _ _ (pr 1 a ++ KName k_if :: pr 1 t ++ tl1)); [intros K; rewrite step_p_cond; reflexivity| |].
  - apply Pa. reflexivity.
  - eapply (parses_bind _ p_or _ _ (pr 1 t ++ tl1)); [intros K; rewrite step_p_cond_loop; reflexivity| |].
    + apply Pt. exact Htl.
    + unfold tl1. destruct b as [x|].
      * eapply (parses_bind0 _ p_cond _ _ (pr 0 x ++ r)); [intros K; reflexivity| |].
        -- apply (Pb x eq_refl). exact Hr.
        -- apply cond_loop_stop. exact Hr.
      * cbn [app]. eapply parses_same; [|apply (cond_loop_stop (ECond t a None) r Hr)].
        intros K. replace (is_kw k_else r) with false; [reflexivity|]. symmetry. nc_solve Hr.
Qed.

(* ---- not, unary ---- *)
Lemma node_not a r : PLn 3 a -> nc 3 r = true -> parses p_not (KName k_not :: pr 3 a ++ r) (ENot a) r.
Proof.
  intros Pa Hr.
  eapply (parses_bind _ p_not _ _ (pr 3 a ++ r)); [intros K; rewrite step_p_not; reflexivity| |].
  - apply Pa. exact Hr.
  - cbn. apply parses_const.
Qed.

Lemma node_unary op a r : PLn 10 a -> nc 10 r = true ->
  parses (fun K => p_unary K false) (KOp (match op with Neg => OSub | Pos => OAdd end) :: pr 10 a ++ r) (EUn op a) r.
Proof.
  intros Pa Hr.
  assert (Hp : parses (fun K => p_postfix K (EUn op a)) r (EUn op a) r).
  { exists 1. intros m Hm. destruct m as [|m]; [lia|]. apply postfix_loop_stop. apply (nc_mono 10); [lia|exact Hr]. }
  destruct op.
  - eapply (parses_bind _ (fun K => p_unary K false) (fun K x r0 => bindp (p_postfix K (EUn Neg x) r0) (fun n2 r2 => ROk n2 r2)) _ (pr 10 a ++ r)).
    + intros K. rewrite step_p_unary. cbn [is_op tl]. rewrite bindp_assoc. reflexivity.
    + apply Pa. exact Hr.
    + eapply (parses_bind0 _ (fun K => p_postfix K (EUn Neg a)) _ _ r); [intros K; reflexivity|exact Hp|]. cbn. apply parses_const.
  - eapply (parses_bind _ (fun K => p_unary K false) (fun K x r0 => bindp (p_postfix K (EUn Pos x) r0) (fun n2 r2 => ROk n2 r2)) _ (pr 10 a ++ r)).
    + intros K. rewrite step_p_unary. cbn [is_op tl]. rewrite bindp_assoc. reflexivity.
    + apply Pa. exact Hr.
    + eapply (parses_bind0 _ (fun K => p_postfix K (EUn Pos a)) _ _ r); [intros K; reflexivity|exact Hp|]. cbn. apply parses_const.
Qed.

(* ---- primaries ---- *)
Lemma prim_const v r : wf (EConst v) = true -> nc 12 r = true -> parses p_primary (const_tok v :: r) (EConst v) r.
Proof.
  intros Hw Hr. destruct v; try discriminate.
  - apply parses_ret. intros K. rewrite step_p_primary. reflexivity.
  - destruct b; apply parses_ret; intros K; rewrite step_p_primary; reflexivity.
  - apply parses_ret. intros K. rewrite step_p_primary. reflexivity.
  - eapply (parses_step _ (fun K => p_strings K s) _ r); [intros K; rewrite step_p_primary; reflexivity|].
    apply parses_ret. intros K. rewrite step_p_strings.
    destruct r as [|[] r]; try reflexivity. cbn in Hr. discriminate.
Qed.

Lemma prim_name x r : reserved x = false -> parses p_primary (KName x :: r) (EName x) r.
Proof.
  intros H. apply parses_ret. intros K. rewrite step_p_primary. unfold reserved in H.
  repeat (apply orb_false_iff in H; destruct H as [H ?]).
  repeat match goal with E : str_eqb x _ = false |- _ => rewrite E; clear E end. reflexivity.
Qed.

Lemma prim_list es r : (forall x, In x es -> GOOD x) -> parses p_primary (raw (EList es) ++ r) (EList es) r.
Proof.
  intros Hg. cbn [raw app]. rewrite <- app_assoc. cbn [app].
  change (map (fun x : expr => if Nat.leb 0 (lvl x) then raw x else paren (raw x)) es) with (map (pr 0) es).
  rewrite commas_sepc.
  eapply (parses_bind _ (fun K => p_items K ORBracket []) _ _ (sepc false (map (pr 0) es) ++ KOp ORBracket :: r));
    [intros K; rewrite step_p_primary; reflexivity| |].
  - apply (items_loop r es [] Hg).
  - cbn. apply parses_const.
Qed.

Lemma prim_dict kvs r : (forall p, In p kvs -> GOOD (fst p) /\ GOOD (snd p)) -> parses p_primary (raw (EDict kvs) ++ r) (EDict kvs) r.
Proof.
  intros Hg. cbn [raw app]. rewrite <- app_assoc. cbn [app].
  change (map (fun p : expr * expr => (if Nat.leb 0 (lvl (fst p)) then raw (fst p) else paren (raw (fst p))) ++ KOp OColon :: (if Nat.leb 0 (lvl (snd p)) then raw (snd p) else paren (raw (snd p)))) kvs)
    with (map pairp kvs).
  rewrite commas_sepc.
  eapply (parses_bind _ (fun K => p_pairs K []) _ _ (sepc false (map pairp kvs) ++ KOp ORBrace :: r));
    [intros K; rewrite step_p_primary; reflexivity| |].
  - apply (pairs_loop r kvs [] Hg).
  - cbn. apply parses_const.
Qed.
