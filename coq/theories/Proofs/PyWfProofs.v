From Coq Require Import List NArith Bool Lia.
Import ListNotations.
From JV Require Import Model.PyWf.
Open Scope N_scope.

Section StmtInd.
  Variable P : stmt -> Prop.
  Hypothesis Hasg : forall sc t, P (SAssignT sc t).
  Hypothesis Htext : P SText.
  Hypothesis Hbreak : P SBreak.
  Hypothesis Hcont : P SContinue.
  Hypothesis Hkw : forall k, P (SCallKw k).
  Hypothesis Huse : forall n, P (SUse n).
  Hypothesis Hif : forall b e, Forall P b -> Forall P e -> P (SIf b e).
  Hypothesis Hfor : forall r b e, Forall P b -> Forall P e -> P (SFor r b e).
  Hypothesis Hinl : forall w b, Forall P b -> P (SInline w b).
  Hypothesis Hsame : forall b, Forall P b -> P (SSame b).
  Hypothesis Hmac : forall ps b, Forall P b -> P (SMacro ps b).
  Hypothesis Hcb : forall ps us k b, Forall P b -> P (SCallBlock ps us k b).
  Hypothesis Hblk : forall b, Forall P b -> P (SBlock b).
  Fixpoint stmt_ind' (s : stmt) : P s :=
    let go := fix go (l : list stmt) : Forall P l :=
      match l with [] => Forall_nil P | x :: r => Forall_cons x (stmt_ind' x) (go r) end in
    match s with
    | SAssignT sc t => Hasg sc t | SText => Htext | SBreak => Hbreak | SContinue => Hcont | SCallKw k => Hkw k | SUse n => Huse n
    | SIf b e => Hif b e (go b) (go e)
    | SFor r b e => Hfor r b e (go b) (go e)
    | SInline w b => Hinl w b (go b)
    | SSame b => Hsame b (go b)
    | SMacro ps b => Hmac ps b (go b)
    | SCallBlock ps us k b => Hcb ps us k b (go b)
    | SBlock b => Hblk b (go b)
    end.
End StmtInd.

Lemma gen_eq ascii il lf bf s :
  gen ascii il lf bf s =
  match s with
  | SAssignT _ t => if can_assign t then Ok [PAssign t] else SyntaxErr
  | SText => Ok [PSimple]
  | SBreak => if il then Ok [PBreak] else SyntaxErr
  | SContinue => if il then Ok [PContinue] else SyntaxErr
  | SCallKw kws => gen_call ascii false lf bf kws
  | SUse _ => Ok [PSimple]
  | SIf b e => match gens ascii il lf bf b, gens ascii il lf bf e with Ok pb, Ok pe => Ok [PIf pb; PIf pe] | _, _ => SyntaxErr end
  | SFor false b e => match gens ascii true true false b, gens ascii il false false e with Ok pb, Ok pe => Ok [PFor pb; PIf pe] | _, _ => SyntaxErr end
  | SFor true b e => match gens ascii true true false b, gens ascii false false false e with
                     | Ok pb, Ok pe => Ok [PDef [] [PFor pb; PIf pe]; PSimple] | _, _ => SyntaxErr end
  | SInline _ b => gens ascii il false false b
  | SSame b => gens ascii il lf bf b
  | SMacro ps b => if nodupb ps && explicit_caller_ok ps b then match gens ascii false false false b with Ok pb => Ok [PDef (ps ++ specials ps b) pb; PSimple] | SyntaxErr => SyntaxErr end else SyntaxErr
  | SCallBlock ps _ kws b => if nodupb ps && explicit_caller_ok ps b then match gens ascii false false false b, gen_call ascii true lf bf kws with Ok pb, Ok pc => Ok (PDef (ps ++ specials ps b) pb :: pc) | _, _ => SyntaxErr end else SyntaxErr
  | SBlock b => match gens ascii false false true b with Ok pb => Ok [PDef [] pb; PSimple] | SyntaxErr => SyntaxErr end
  end.
Proof. destruct s; try reflexivity. Qed.

(* what jinja's can_assign accepts, the Python compiler can assign to *)
Lemma can_assign_py_ok : forall t, can_assign t = true -> py_target_ok t = true.
Proof.
  fix IH 1. intros [n| |l]; cbn [can_assign py_target_ok]; [reflexivity|discriminate|].
  induction l as [|x r IHl]; cbn [forallb]; [reflexivity|].
  intros H. apply andb_true_iff in H. destruct H as [Hx Hr]. now rewrite (IH x Hx), (IHl Hr).
Qed.

Lemma memb_in x l : memb x l = true <-> In x l.
Proof.
  induction l as [|y r IH]; cbn [memb In]; [split; [discriminate|tauto]|].
  rewrite orb_true_iff, IH, N.eqb_eq. split; intros [H|H]; auto.
Qed.
Lemma nodupb_NoDup l : nodupb l = true <-> NoDup l.
Proof.
  induction l as [|x r IH]; cbn [nodupb]; [split; [constructor|reflexivity]|].
  rewrite andb_true_iff, negb_true_iff, IH. split.
  - intros [H1 H2]. constructor; [|exact H2]. intros Hin. apply memb_in in Hin. congruence.
  - intros H. inversion H as [|? ? Hn Hr]; subst. split; [|exact Hr].
    destruct (memb x r) eqn:E; [|reflexivity]. apply memb_in in E. contradiction.
Qed.

Section Wf.
  Variable ascii : name -> bool.
  Variable pynorm : name -> name.
  (* NoAlias: Python's identifier normalisation does not identify two distinct template names *)
  Hypothesis pynorm_inj : forall a b, pynorm a = pynorm b -> a = b.

  Lemma nodupb_map l : nodupb l = true -> nodupb (map pynorm l) = true.
  Proof.
    rewrite !nodupb_NoDup. intros H. induction H as [|x r Hn Hr IH]; cbn [map]; constructor; [|exact IH].
    intros Hin. apply in_map_iff in Hin. destruct Hin as [y [Hy Hin]]. apply pynorm_inj in Hy. now subst.
  Qed.

  Lemma nodup_app (a b : list name) : NoDup a -> NoDup b -> (forall x, In x a -> ~ In x b) -> NoDup (a ++ b).
  Proof.
    intros Ha Hb Hd. induction Ha as [|x r Hn Hr IH]; cbn [app]; [exact Hb|]. constructor.
    - rewrite in_app_iff. intros [H|H]; [contradiction|]. exact (Hd x (or_introl eq_refl) H).
    - apply IH. intros y Hy. apply Hd. now right.
  Qed.

  Lemma specials_nodup ps b : nodupb ps = true -> nodupb (ps ++ specials ps b) = true.
  Proof.
    rewrite !nodupb_NoDup. intros H. apply nodup_app; [exact H| |].
    - unfold specials. apply NoDup_filter. repeat constructor; cbn; intuition discriminate.
    - intros x Hx Hin. unfold specials in Hin. apply filter_In in Hin. destruct Hin as [_ Hc].
      apply andb_true_iff in Hc. destruct Hc as [_ Hc]. apply negb_true_iff in Hc.
      apply memb_in in Hx. congruence.
  Qed.

  Lemma forallb_app (f : py -> bool) a b : forallb f (a ++ b) = forallb f a && forallb f b.
  Proof. induction a as [|x r IH]; cbn [app forallb]; [reflexivity|]. now rewrite IH, andb_assoc. Qed.

  Lemma extras_nodup fc lf bf : NoDup (extras fc lf bf).
  Proof. destruct fc, lf, bf; cbn; repeat constructor; cbn; intuition discriminate. Qed.

  Lemma disjb_spec a b : disjb a b = true -> forall x, In x a -> ~ In x b.
  Proof.
    unfold disjb. rewrite forallb_forall. intros H x Hx Hb. specialize (H x Hx).
    apply negb_true_iff in H. apply memb_in in Hb. congruence.
  Qed.

  (* the keyword list of an emitted call — explicit keywords followed by the engine's own — is
     accepted by the Python compiler *)
  Lemma gen_call_ok fc lf bf kws il t : gen_call ascii fc lf bf kws = Ok t -> forallb (py_ok pynorm il) t = true.
  Proof.
    unfold gen_call. destruct (nodupb kws) eqn:E; [|discriminate]. destruct (disjb kws (extras fc lf bf)) eqn:D; [|discriminate].
    cbn [andb]. destruct (reserved_free kws); [|discriminate]. intros H. injection H as <-. cbn [forallb py_ok andb]. rewrite andb_true_r.
    destruct (forallb ascii kws); [|reflexivity].
    apply nodupb_map. apply nodupb_NoDup. apply nodup_app; [now apply nodupb_NoDup|apply extras_nodup|exact (disjb_spec _ _ D)].
  Qed.

  Definition GenOk (s : stmt) : Prop :=
    forall il lf bf t, gen ascii il lf bf s = Ok t -> forallb (py_ok pynorm il) t = true.

  Lemma gens_ok l : Forall GenOk l ->
    forall il lf bf t, gens ascii il lf bf l = Ok t -> forallb (py_ok pynorm il) t = true.
  Proof.
    intros H. induction H as [|x r Hx Hr IH]; intros il lf bf t Hg; cbn [gens] in Hg.
    - injection Hg as <-. reflexivity.
    - destruct (gen ascii il lf bf x) as [a|] eqn:Ea; [|discriminate]. destruct (gens ascii il lf bf r) as [b|] eqn:Eb; [|discriminate].
      injection Hg as <-. rewrite forallb_app, (Hx il lf bf a Ea), (IH il lf bf b Eb). reflexivity.
  Qed.

  Theorem gen_wf : forall s il lf bf t, gen ascii il lf bf s = Ok t -> forallb (py_ok pynorm il) t = true.
  Proof.
    induction s as [sc tg| | | |k|n|b e Hb He|r b e Hb He|w b Hb|b Hb|ps b Hb|ps us k b Hb|b Hb] using stmt_ind';
      intros il lf bf t H; rewrite gen_eq in H.
    - destruct (can_assign tg) eqn:E; [|discriminate]. injection H as <-. cbn [forallb py_ok andb].
      now rewrite (can_assign_py_ok tg E).
    - injection H as <-. reflexivity.
    - destruct il; [injection H as <-; reflexivity|discriminate].
    - destruct il; [injection H as <-; reflexivity|discriminate].
    - exact (gen_call_ok _ _ _ _ il t H).
    - injection H as <-. reflexivity.
    - destruct (gens ascii il lf bf b) as [pb|] eqn:Eb; [|discriminate]. destruct (gens ascii il lf bf e) as [pe|] eqn:Ee; [|discriminate].
      injection H as <-. cbn [forallb py_ok andb]. now rewrite (gens_ok b Hb _ _ _ pb Eb), (gens_ok e He _ _ _ pe Ee).
    - destruct r.
      + destruct (gens ascii true true false b) as [pb|] eqn:Eb; [|discriminate]. destruct (gens ascii false false false e) as [pe|] eqn:Ee; [|discriminate].
        injection H as <-. cbn [forallb py_ok andb]. now rewrite (gens_ok b Hb _ _ _ pb Eb), (gens_ok e He _ _ _ pe Ee).
      + destruct (gens ascii true true false b) as [pb|] eqn:Eb; [|discriminate]. destruct (gens ascii il false false e) as [pe|] eqn:Ee; [|discriminate].
        injection H as <-. cbn [forallb py_ok andb]. now rewrite (gens_ok b Hb _ _ _ pb Eb), (gens_ok e He _ _ _ pe Ee).
    - exact (gens_ok b Hb _ _ _ t H).
    - exact (gens_ok b Hb _ _ _ t H).
    - destruct (nodupb ps) eqn:E; [|discriminate]. destruct (explicit_caller_ok ps b); [|discriminate]. cbn [andb] in H.
      destruct (gens ascii false false false b) as [pb|] eqn:Eb; [|discriminate].
      injection H as <-. cbn [forallb py_ok andb]. rewrite (nodupb_map _ (specials_nodup ps b E)), (gens_ok b Hb _ _ _ pb Eb). reflexivity.
    - destruct (nodupb ps) eqn:E; [|discriminate]. destruct (explicit_caller_ok ps b); [|discriminate]. cbn [andb] in H.
      destruct (gens ascii false false false b) as [pb|] eqn:Eb; [|discriminate].
      destruct (gen_call ascii true lf bf k) as [pc|] eqn:Ec; [|discriminate].
      injection H as <-. cbn [forallb py_ok andb]. rewrite (nodupb_map _ (specials_nodup ps b E)), (gens_ok b Hb _ _ _ pb Eb), (gen_call_ok _ _ _ _ il pc Ec). reflexivity.
    - destruct (gens ascii false false true b) as [pb|] eqn:Eb; [|discriminate].
      injection H as <-. cbn [forallb py_ok andb]. now rewrite (gens_ok b Hb _ _ _ pb Eb).
  Qed.
End Wf.

(* since non-ASCII keyword names never become Python identifiers, the keyword list of an emitted call is
   accepted under a normalisation that merely fixes ASCII names and the engine's own three keywords —
   no NoAlias hypothesis *)
Lemma gen_call_ok_ascii (ascii : name -> bool) (pynorm : name -> name) :
  (forall a, ascii a = true -> pynorm a = a) ->
  pynorm CALLER = CALLER -> pynorm LOOPVARS = LOOPVARS -> pynorm BLOCKVARS = BLOCKVARS ->
  forall fc lf bf kws il t, gen_call ascii fc lf bf kws = Ok t -> forallb (py_ok pynorm il) t = true.
Proof.
  intros Ha Hc Hl Hb fc lf bf kws il t. unfold gen_call.
  destruct (nodupb kws) eqn:E; [|discriminate]. destruct (disjb kws (extras fc lf bf)) eqn:D; [|discriminate].
  cbn [andb]. destruct (reserved_free kws); [|discriminate]. intros H. injection H as <-. cbn [forallb py_ok andb]. rewrite andb_true_r.
  destruct (forallb ascii kws) eqn:A; [|reflexivity].
  assert (Hm : map pynorm (kws ++ extras fc lf bf) = kws ++ extras fc lf bf).
  { rewrite map_app. f_equal.
    - rewrite forallb_forall in A. clear E D. induction kws as [|x r IH]; [reflexivity|]. cbn [map].
      rewrite (Ha x (A x (or_introl eq_refl))), IH; [reflexivity|]. intros y Hy. apply A. now right.
    - destruct fc, lf, bf; cbn; rewrite ?Hc, ?Hl, ?Hb; reflexivity. }
  rewrite Hm. apply nodupb_NoDup. apply nodup_app; [now apply nodupb_NoDup|apply extras_nodup|exact (disjb_spec _ _ D)].
Qed.
