(* C03, macros — step 1: macro DEFINITIONS (at top level).
   [sxi] is the reference interpreter with one instrumentation: a macro definition stores, in the two
   closure fields the reference semantics never reads (uses_caller, csyms), what the generated code
   stores there (so that the simulation with FrameExec can use plain equality of values).
   [erase] forgets those two fields; [sx_erase]: the reference interpreter on erased states computes the
   erasure of what the instrumented one computes — text, errors and exported variables are the same. *)
From Coq Require Import List NArith ZArith Bool Arith Lia.
Import ListNotations.
From JV Require Import Model.ScopeAst Model.ScopeIdTrack Model.ScopeGuards Spec.ScopeSpecStmt Proofs.ScopeDictProofs.

Section Inst.
  Variable d : list (name * value).
  Variable Sr : symbols.      (* the root frame's symbols *)

  Fixpoint sxi (fuel : nat) (env : list nat) (st : sstate) (l : list stmt) {struct fuel}
    : res (sstate * str) :=
    match fuel with
    | O => Err EFuel
    | S f =>
      let call (st : sstate) (v : value) (args : list value) (caller : option value) : res (sstate * value) :=
        match v with
        | VClos _ _ ps body uc cap _ =>
            if Nat.ltb (length ps) (length args) then Err ETypeError
            else if (match caller with Some _ => negb uc | None => false end) then Err ETypeError
            else
              let binds := bind_args ps args in
              let binds := if uc then dset N.eqb n_caller (match caller with Some c => c | None => VUndef end) binds
                           else binds in
              let '(i, st1) := new_scope st binds in
              do (st2, out) <- sxi f (i :: cap) st1 body;
              Ok (st2, VStr out)
        | VNsCtor => match args with
                     | [] => Ok (sset_heap st (s_heap st ++ [[]]), VNs (length (s_heap st)))
                     | _ => Err ETypeError
                     end
        | VUndef => Err EUndefinedError
        | _ => Err ETypeError
        end in
      match l with
      | [] => Ok (st, [])
      | s :: rest =>
        do (st1, o1) <-
          match s with
          | SOut es => do o <- eval_out (slk d env st) (s_heap st) es; Ok (st, o)
          | SIf t body elifs els =>
              do v <- eval (slk d env st) (s_heap st) t;
              if truthy v then sxi f env st body
              else
                (fix go (ei : list stmt) : res (sstate * str) :=
                   match ei with
                   | [] => sxi f env st els
                   | SIf t2 b2 _ _ :: r =>
                       do v2 <- eval (slk d env st) (s_heap st) t2;
                       if truthy v2 then sxi f env st b2 else go r
                   | _ :: r => go r
                   end) elifs
          | SFor tg it te body els =>
              do v <- eval (slk d env st) (s_heap st) it;
              do items <- iter_items v;
              do r <- (fix iter (items : list value) (idx : N) (st : sstate) (out : str)
                         : res (sstate * str * N) :=
                  match items with
                  | [] => Ok (st, out, idx)
                  | item :: more =>
                      do ok <- (match te with
                                | None => Ok true
                                | Some t =>
                                    (* the filter sees the loop target and the enclosing scopes *)
                                    let '(i, stt) := new_scope st [(tg, item)] in
                                    do tv <- eval (slk d (i :: env) stt) (s_heap stt) t; Ok (truthy tv)
                                end);
                      if ok then
                        let '(i, st) := new_scope st [(tg, item); (n_loop, VLoop (idx + 1))] in
                        do (st, o) <- sxi f (i :: env) st body;
                        iter more (idx + 1)%N st (out ++ o)
                      else iter more idx st out
                  end) items 0%N st [];
              let '(st, out, n) := r in
              match els with
              | [] => Ok (st, out)
              | _ =>
                  if N.eqb n 0 then
                    let '(i, st) := new_scope st [] in
                    do (st, o) <- sxi f (i :: env) st els;
                    Ok (st, out ++ o)
                  else Ok (st, out)
              end
          | SSet x e =>
              do v <- eval (slk d env st) (s_heap st) e;
              Ok (sassign env st x v, [])
          | SSetAttr x a e =>
              do c <- slk d env st x;
              match c with
              | VNs nid =>
                  do v <- eval (slk d env st) (s_heap st) e;
                  Ok (sset_heap st (ns_set (s_heap st) nid a v), [])
              | _ => Err ERuntimeError
              end
          | SNsNew x kvs =>
              do c <- slk d env st n_namespace;
              do vs <- eval_kvs (slk d env st) (s_heap st) kvs;
              match c with
              | VNsCtor =>
                  let nid := length (s_heap st) in
                  Ok (sassign env (sset_heap st (s_heap st ++ [vs])) x (VNs nid), [])
              | VUndef => Err EUndefinedError
              | _ => Err ETypeError
              end
          | SSetBlock x body =>
              let '(i, st) := new_scope st [] in
              do (st, o) <- sxi f (i :: env) st body;
              Ok (sassign env st x (VStr o), [])
          | SWith binds body =>
              do vs <- eval_list (slk d env st) (s_heap st) (map snd binds);
              let '(i, st) := new_scope st (fold_left (fun acc xv => dset N.eqb (fst xv) (snd xv) acc)
                                                      (combine (map fst binds) vs) []) in
              do (st, o) <- sxi f (i :: env) st body;
              Ok (st, o)
          | SFilter k body =>
              let '(i, st) := new_scope st [] in
              do (st, o) <- sxi f (i :: env) st body;
              Ok (st, apply_filter k o)
          | SMacro m ps body =>
              Ok (sassign env st m (VClos KMacro m ps body (macro_uses_caller body) env [Sr]), [])
          | SCallOut g args =>
              do c <- slk d env st g;
              do vs <- eval_list (slk d env st) (s_heap st) args;
              do (st', r) <- call st c vs None;
              Ok (st', to_str r)
          | SCallBlock ps g args body =>
              let cl := VClos KCaller 0%N ps body (mentions_l n_caller body) env [] in
              do c <- slk d env st g;
              do vs <- eval_list (slk d env st) (s_heap st) args;
              do (st', r) <- call st c vs (Some cl);
              Ok (st', to_str r)
          end;
        do (st2, o2) <- sxi f env st1 rest;
        Ok (st2, o1 ++ o2)
      end
    end.

End Inst.

Lemma core3_go : forall tl l, (fix go (tl : bool) (l : list stmt) : bool := match l with [] => true | x :: r => core3_stmt tl x && go tl r end) tl l = core3_prog tl l.
Proof. intros tl l. induction l as [|x r IH]; cbn; [reflexivity|rewrite IH; reflexivity]. Qed.


Fixpoint erase (v : value) : value :=
  match v with
  | VClos k nm ps body _ cap _ => VClos k nm ps body (mentions_l n_caller body) cap []
  | VList l => VList (map erase l)
  | _ => v
  end.
Fixpoint cfree' (v : value) : Prop :=
  match v with
  | VClos _ _ _ _ _ _ _ => False
  | VList l => (fix all (l : list value) : Prop := match l with [] => True | x :: r => cfree' x /\ all r end) l
  | _ => True
  end.
Lemma erase_cfree : forall v, cfree' v -> erase v = v.
Proof.
  fix IH 1. intros v H. destruct v; cbn [erase cfree'] in *; try reflexivity; try contradiction.
  f_equal. induction l as [|x r IHr]; [reflexivity|]. destruct H as [H1 H2]. cbn [map]. rewrite (IH x H1), (IHr H2). reflexivity.
Qed.
Section VInd.
  Variable P : value -> Prop.
  Hypothesis Hi : forall z, P (VInt z).
  Hypothesis Hs : forall s, P (VStr s).
  Hypothesis Hl : forall l, Forall P l -> P (VList l).
  Hypothesis Hu : P VUndef.
  Hypothesis Hn : forall i, P (VNs i).
  Hypothesis Hc : P VNsCtor.
  Hypothesis Hlo : forall i, P (VLoop i).
  Hypothesis Hcl : forall k nm ps body uc cap cs, P (VClos k nm ps body uc cap cs).
  Fixpoint value_ind2 (v : value) : P v :=
    match v with
    | VInt z => Hi z | VStr s => Hs s
    | VList l => Hl l ((fix G (l : list value) : Forall P l :=
                          match l with [] => Forall_nil P | x :: r => Forall_cons x (value_ind2 x) (G r) end) l)
    | VUndef => Hu | VNs i => Hn i | VNsCtor => Hc | VLoop i => Hlo i
    | VClos k nm ps body uc cap cs => Hcl k nm ps body uc cap cs
    end.
End VInd.
Lemma to_text_erase : forall v b, to_text b (erase v) = to_text b v.
Proof.
  intros v. induction v using value_ind2; intros b; cbn [erase to_text]; try reflexivity.
  f_equal. f_equal. f_equal. induction H as [|x r Hx Hr IHr]; [reflexivity|]. cbn [map]. rewrite (Hx true), IHr. reflexivity.
Qed.
Lemma truthy_erase : forall v, truthy (erase v) = truthy v.
Proof. intros v. destruct v; cbn; try reflexivity. destruct l; reflexivity. Qed.

Definition rmap {A B} (f : A -> B) (r : res A) : res B := match r with Ok a => Ok (f a) | Err e => Err e end.
Lemma iter_items_erase : forall v, iter_items (erase v) = rmap (map erase) (iter_items v).
Proof.
  intros v. destruct v; cbn; try reflexivity. f_equal. rewrite map_map. cbn. reflexivity.
Qed.
Lemma add_values_erase : forall a b, add_values (erase a) (erase b) = rmap erase (add_values a b).
Proof.
  intros a b. destruct a, b; cbn; try reflexivity. rewrite map_app. reflexivity.
Qed.

Definition escope (sc : scope) : scope := map (fun xv => (fst xv, erase (snd xv))) sc.
Definition estate (ss : sstate) : sstate := mkS (map escope (s_scopes ss)) (map escope (s_heap ss)).
Definition eres (r : res (sstate * str)) : res (sstate * str) :=
  match r with Ok (ss, o) => Ok (estate ss, o) | Err e => Err e end.

Lemma dget_e : forall (x : name) (sc : scope), dget N.eqb x (escope sc) = option_map erase (dget N.eqb x sc).
Proof. intros x sc. unfold escope. induction sc as [|[k v] r IH]; cbn; [reflexivity|]. destruct (N.eqb x k); [reflexivity|exact IH]. Qed.
Lemma dset_e : forall (x : name) v (sc : scope), escope (dset N.eqb x v sc) = dset N.eqb x (erase v) (escope sc).
Proof.
  intros x v sc. unfold escope. induction sc as [|[k w] r IH]; cbn; [reflexivity|].
  destruct (N.eqb x k); cbn; [reflexivity|rewrite IH; reflexivity].
Qed.
Lemma nth_e : forall i (l : list scope), nth i (map escope l) [] = escope (nth i l []).
Proof. intros i l. exact (map_nth escope l [] i). Qed.
Lemma lookup_e : forall env (scopes : list scope) x, lookup_env (map escope scopes) env x = option_map erase (lookup_env scopes env x).
Proof.
  induction env as [|i E IH]; intros scopes x; cbn [lookup_env]; [reflexivity|].
  rewrite nth_e, dget_e, IH. destruct (dget N.eqb x (nth i scopes [])); reflexivity.
Qed.
Lemma ns_get_e : forall h id a, ns_get (map escope h) id a = erase (ns_get h id a).
Proof.
  intros h. unfold ns_get. induction h as [|o r IH]; intros id a.
  - destruct id; reflexivity.
  - destruct id as [|id]; cbn [map nth]; [|apply IH]. rewrite (dget_e a o). destruct (dget N.eqb a o); reflexivity.
Qed.
Lemma ns_set_e : forall h id a v, map escope (ns_set h id a v) = ns_set (map escope h) id a (erase v).
Proof.
  induction h as [|o r IH]; intros [|id] a v; cbn [ns_set map]; try reflexivity.
  - rewrite dset_e. reflexivity.
  - rewrite IH. reflexivity.
Qed.
Lemma upd_e : forall (scopes : list scope) i x v, map escope (upd_scope scopes i x v) = upd_scope (map escope scopes) i x (erase v).
Proof.
  induction scopes as [|s r IH]; intros [|i] x v; cbn [upd_scope map]; try reflexivity.
  - rewrite dset_e. reflexivity.
  - rewrite IH. reflexivity.
Qed.

Section EraseSim.
  Variable d : list (name * value).
  Variable Sr : symbols.
  Hypothesis Hd : forall x v, dget N.eqb x d = Some v -> cfree' v.

  Lemma slk_e : forall env ss x, slk d env (estate ss) x = rmap erase (slk d env ss x).
  Proof.
    intros env ss x. unfold slk, estate; cbn [s_scopes]. rewrite lookup_e.
    destruct (lookup_env (s_scopes ss) env x); [reflexivity|]. cbn [option_map].
    destruct (dget N.eqb x d) eqn:E; [cbn; rewrite (erase_cfree v (Hd x v E)); reflexivity|].
    unfold spec_globals. cbn [dget]. destruct (N.eqb x n_namespace); reflexivity.
  Qed.
  Lemma getattr_e : forall h v a, getattr (map escope h) (erase v) a = rmap erase (getattr h v a).
  Proof.
    intros h v a. destruct v; cbn [erase getattr rmap]; try reflexivity.
    - rewrite ns_get_e. reflexivity.
    - destruct (N.eqb a a_index); reflexivity.
  Qed.
  Lemma eval_e : forall env ss e,
    eval (slk d env (estate ss)) (s_heap (estate ss)) e = rmap erase (eval (slk d env ss) (s_heap ss) e).
  Proof.
    intros env ss e. induction e; cbn [eval]; try reflexivity.
    - apply slk_e.
    - rewrite IHe1. destruct (eval (slk d env ss) (s_heap ss) e1) as [a|]; cbn [rmap bind]; [|reflexivity].
      rewrite IHe2. destruct (eval (slk d env ss) (s_heap ss) e2) as [b|]; cbn [rmap bind]; [|reflexivity].
      unfold to_str. rewrite !to_text_erase. reflexivity.
    - rewrite IHe1. destruct (eval (slk d env ss) (s_heap ss) e1) as [a|]; cbn [rmap bind]; [|reflexivity].
      rewrite IHe2. destruct (eval (slk d env ss) (s_heap ss) e2) as [b|]; cbn [rmap bind]; [|reflexivity].
      apply add_values_erase.
    - rewrite slk_e. destruct (slk d env ss x) as [v|]; cbn [rmap bind]; [|reflexivity]. apply getattr_e.
  Qed.
  Lemma eval_out_e : forall env ss es,
    eval_out (slk d env (estate ss)) (s_heap (estate ss)) es = eval_out (slk d env ss) (s_heap ss) es.
  Proof.
    intros env ss es. induction es as [|e r IH]; cbn [eval_out]; [reflexivity|]. rewrite eval_e, IH.
    destruct (eval (slk d env ss) (s_heap ss) e) as [v|]; cbn [rmap bind]; [|reflexivity].
    unfold to_str. rewrite to_text_erase. reflexivity.
  Qed.
  Lemma eval_list_e : forall env ss es,
    eval_list (slk d env (estate ss)) (s_heap (estate ss)) es = rmap (map erase) (eval_list (slk d env ss) (s_heap ss) es).
  Proof.
    intros env ss es. induction es as [|e r IH]; cbn [eval_list]; [reflexivity|]. rewrite eval_e, IH.
    destruct (eval (slk d env ss) (s_heap ss) e) as [v|]; cbn [rmap bind]; [|reflexivity].
    destruct (eval_list (slk d env ss) (s_heap ss) r); reflexivity.
  Qed.
  Lemma eval_kvs_e : forall env ss kvs,
    eval_kvs (slk d env (estate ss)) (s_heap (estate ss)) kvs = rmap escope (eval_kvs (slk d env ss) (s_heap ss) kvs).
  Proof.
    intros env ss kvs. induction kvs as [|[a e] r IH]; cbn [eval_kvs]; [reflexivity|]. rewrite eval_e, IH.
    destruct (eval (slk d env ss) (s_heap ss) e) as [v|]; cbn [rmap bind]; [|reflexivity].
    destruct (eval_kvs (slk d env ss) (s_heap ss) r); reflexivity.
  Qed.
  Lemma sassign_e : forall env ss x v, estate (sassign env ss x v) = sassign env (estate ss) x (erase v).
  Proof. intros [|i E] ss x v; unfold sassign, estate; cbn [s_scopes s_heap]; [reflexivity|]. rewrite upd_e. reflexivity. Qed.
  Lemma new_scope_e : forall ss sc, new_scope (estate ss) (escope sc) = (fst (new_scope ss sc), estate (snd (new_scope ss sc))).
  Proof. intros ss sc. unfold new_scope, estate; cbn [fst snd s_scopes s_heap]. rewrite map_length, map_app. reflexivity. Qed.
  Lemma fold_bind_e : forall xs vs (acc : scope),
    fold_left (fun a xv => dset N.eqb (fst xv) (snd xv) a) (combine xs (map erase vs)) (escope acc) =
    escope (fold_left (fun a xv => dset N.eqb (fst xv) (snd xv) a) (combine xs vs) acc).
  Proof.
    induction xs as [|x r IH]; intros vs acc; [reflexivity|]. destruct vs as [|v vs]; [reflexivity|].
    cbn [map combine fold_left fst snd]. rewrite <- dset_e. apply IH.
  Qed.
End EraseSim.

Section EraseMain.
  Variable d : list (name * value).
  Variable Sr : symbols.
  Hypothesis Hd : forall x v, dget N.eqb x d = Some v -> cfree' v.

  Lemma sx_erase : forall fuel tl env ss l, core3_prog tl l = true ->
    sx d fuel env (estate ss) l = eres (sxi d Sr fuel env ss l).
  Proof.
    induction fuel as [|f IH]; intros tl env ss l Hc; [reflexivity|].
    destruct l as [|s rest]; [reflexivity|].
    cbn [core3_prog] in Hc. apply andb_true_iff in Hc. destruct Hc as [Hcs Hcr].
    cbn [sx sxi].
    assert (Step : forall X X', X' = eres X ->
              (do (st1, o1) <- X'; do (st2, o2) <- sx d f env st1 rest; Ok (st2, o1 ++ o2)) =
              eres (do (st1, o1) <- X; do (st2, o2) <- sxi d Sr f env st1 rest; Ok (st2, o1 ++ o2))).
    { intros X X' ->. destruct X as [[st1 o1]|e]; cbn [eres bind]; [|reflexivity].
      rewrite (IH tl env st1 rest Hcr). destruct (sxi d Sr f env st1 rest) as [[st2 o2]|e]; reflexivity. }
    apply Step. clear Step.
    destruct s as [es|t b ei el|tg it te b el|x e|x a e|x kvs|x b|bs b|k b|m ps b|g args|ps g args b]; cbn [core3_stmt] in Hcs; try discriminate.
    - rewrite (eval_out_e d Hd). destruct (eval_out (slk d env ss) (s_heap ss) es); reflexivity.
    - rewrite (core3_go tl b), (core3_go tl ei), (core3_go tl el) in Hcs.
      apply andb_true_iff in Hcs. destruct Hcs as [Hcs H3]. apply andb_true_iff in Hcs. destruct Hcs as [H1 H2].
      rewrite (eval_e d Hd). destruct (eval (slk d env ss) (s_heap ss) t) as [v|e]; cbn [rmap bind]; [|reflexivity].
      rewrite truthy_erase. destruct (truthy v); [apply (IH tl); exact H1|].
      clear H1. induction ei as [|s r IHr]; [apply (IH tl); exact H3|].
      cbn [core3_prog] in H2. apply andb_true_iff in H2. destruct H2 as [H2a H2b].
      destruct s; try (apply IHr; exact H2b).
      rewrite (eval_e d Hd). destruct (eval (slk d env ss) (s_heap ss) test) as [v2|e]; cbn [rmap bind]; [|reflexivity].
      rewrite truthy_erase. destruct (truthy v2); [|apply IHr; exact H2b].
      apply (IH tl). cbn [core3_stmt] in H2a. rewrite (core3_go tl body) in H2a.
      apply andb_true_iff in H2a. destruct H2a as [H2a _]. apply andb_true_iff in H2a. destruct H2a as [H2a _]. exact H2a.
    - rewrite (core3_go false b), (core3_go false el) in Hcs. apply andb_true_iff in Hcs. destruct Hcs as [H1 H2].
      rewrite (eval_e d Hd). destruct (eval (slk d env ss) (s_heap ss) it) as [v|e]; cbn [rmap bind]; [|reflexivity].
      rewrite iter_items_erase. destruct (iter_items v) as [items|e]; cbn [rmap bind]; [|reflexivity].
      assert (It : forall items idx st out,
                (fix iter (items : list value) (idx : N) (st : sstate) (out : str) {struct items} : res (sstate * str * N) :=
                   match items with
                   | [] => Ok (st, out, idx)
                   | item :: more =>
                       do ok <- match te with
                                | Some t => let '(i, stt) := new_scope st [(tg, item)] in
                                            do tv <- eval (slk d (i :: env) stt) (s_heap stt) t; Ok (truthy tv)
                                | None => Ok true
                                end;
                       if ok then
                         let '(i, st0) := new_scope st [(tg, item); (n_loop, VLoop (idx + 1))] in
                         do (st1, o) <- sx d f (i :: env) st0 b; iter more (idx + 1)%N st1 (out ++ o)
                       else iter more idx st out
                   end) (map erase items) idx (estate st) out =
                match (fix iter (items : list value) (idx : N) (st : sstate) (out : str) {struct items} : res (sstate * str * N) :=
                   match items with
                   | [] => Ok (st, out, idx)
                   | item :: more =>
                       do ok <- match te with
                                | Some t => let '(i, stt) := new_scope st [(tg, item)] in
                                            do tv <- eval (slk d (i :: env) stt) (s_heap stt) t; Ok (truthy tv)
                                | None => Ok true
                                end;
                       if ok then
                         let '(i, st0) := new_scope st [(tg, item); (n_loop, VLoop (idx + 1))] in
                         do (st1, o) <- sxi d Sr f (i :: env) st0 b; iter more (idx + 1)%N st1 (out ++ o)
                       else iter more idx st out
                   end) items idx st out with
                | Ok (st', out', n) => Ok (estate st', out', n)
                | Err e => Err e
                end).
      { induction items0 as [|item more IHm]; intros idx st out; [reflexivity|]. cbn [map].
        assert (Ok_eq : match te with
                        | Some t => let '(i, stt) := new_scope (estate st) [(tg, erase item)] in
                                    do tv <- eval (slk d (i :: env) stt) (s_heap stt) t; Ok (truthy tv)
                        | None => Ok true
                        end =
                        match te with
                        | Some t => let '(i, stt) := new_scope st [(tg, item)] in
                                    do tv <- eval (slk d (i :: env) stt) (s_heap stt) t; Ok (truthy tv)
                        | None => Ok true
                        end).
        { destruct te as [t|]; [|reflexivity].
          change [(tg, erase item)] with (escope [(tg, item)]). rewrite new_scope_e.
          unfold new_scope; cbn [fst snd]. rewrite (eval_e d Hd).
          match goal with |- context [eval (slk d ?e0 ?s0) ?h0 t] => destruct (eval (slk d e0 s0) h0 t) as [tv|e] end; cbn [rmap bind]; [|reflexivity].
          rewrite truthy_erase. reflexivity. }
        rewrite Ok_eq. clear Ok_eq.
        destruct (match te with
                  | Some t => let '(i, stt) := new_scope st [(tg, item)] in
                              do tv <- eval (slk d (i :: env) stt) (s_heap stt) t; Ok (truthy tv)
                  | None => Ok true
                  end) as [ok|e]; cbn [bind]; [|reflexivity].
        destruct ok; [|apply IHm].
        change [(tg, erase item); (n_loop, VLoop (idx + 1))] with (escope [(tg, item); (n_loop, VLoop (idx + 1))]).
        rewrite new_scope_e. unfold new_scope; cbn [fst snd].
        rewrite (IH false _ _ b H1). destruct (sxi d Sr f (length (s_scopes st) :: env) _ b) as [[st1 o]|e]; cbn [eres bind]; [|reflexivity].
        apply IHm. }
      rewrite It. clear It.
      match goal with |- context [match ?X with Ok _ => _ | Err _ => _ end] => destruct X as [[[st1 out] n]|e] end; cbn [bind eres]; [|reflexivity].
      destruct el as [|e0 el']; [reflexivity|]. destruct (N.eqb n 0); [|reflexivity].
      change (@nil (name * value)) with (escope []) at 1. rewrite new_scope_e. unfold new_scope; cbn [fst snd].
      rewrite (IH false _ _ (e0 :: el') H2).
      destruct (sxi d Sr f _ _ (e0 :: el')) as [[st3 o]|e]; reflexivity.
    - rewrite (eval_e d Hd). destruct (eval (slk d env ss) (s_heap ss) e) as [v|er]; cbn [rmap bind eres]; [|reflexivity].
      rewrite sassign_e. reflexivity.
    - rewrite (slk_e d Hd). destruct (slk d env ss x) as [c|er]; cbn [rmap bind]; [|reflexivity].
      destruct c; cbn [erase]; try reflexivity. rewrite (eval_e d Hd).
      destruct (eval (slk d env ss) (s_heap ss) e) as [v|er]; cbn [rmap bind eres]; [|reflexivity].
      unfold sset_heap, estate; cbn [s_scopes s_heap]. rewrite ns_set_e. reflexivity.
    - rewrite (slk_e d Hd). destruct (slk d env ss n_namespace) as [c|er]; cbn [rmap bind]; [|reflexivity].
      rewrite (eval_kvs_e d Hd). destruct (eval_kvs (slk d env ss) (s_heap ss) kvs) as [vs|er]; cbn [rmap bind]; [|destruct c; reflexivity].
      destruct c; cbn [erase]; try reflexivity. cbn [eres]. rewrite sassign_e. cbn [erase].
      unfold sset_heap, estate; cbn [s_scopes s_heap]. rewrite map_app, map_length. reflexivity.
    - rewrite (core3_go false b) in Hcs.
      change (@nil (name * value)) with (escope []) at 1. rewrite new_scope_e. unfold new_scope; cbn [fst snd].
      rewrite (IH false _ _ b Hcs). destruct (sxi d Sr f _ _ b) as [[st2 o]|e]; cbn [eres bind]; [|reflexivity].
      rewrite sassign_e. reflexivity.
    - rewrite (core3_go false b) in Hcs.
      rewrite (eval_list_e d Hd). destruct (eval_list (slk d env ss) (s_heap ss) (map snd bs)) as [vs|e]; cbn [rmap bind]; [|reflexivity].
      match goal with |- context [new_scope (estate ss) ?sc] =>
        replace sc with (escope (fold_left (fun a xv => dset N.eqb (fst xv) (snd xv) a) (combine (map fst bs) vs) []))
          by (symmetry; exact (fold_bind_e (map fst bs) vs [])) end.
      rewrite new_scope_e. unfold new_scope; cbn [fst snd].
      rewrite (IH false _ _ b Hcs). destruct (sxi d Sr f _ _ b) as [[st2 o]|e]; reflexivity.
    - rewrite (core3_go false b) in Hcs.
      change (@nil (name * value)) with (escope []) at 1. rewrite new_scope_e. unfold new_scope; cbn [fst snd].
      rewrite (IH false _ _ b Hcs). destruct (sxi d Sr f _ _ b) as [[st2 o]|e]; reflexivity.
    - cbn [eres]. rewrite sassign_e. reflexivity.
  Qed.
End EraseMain.
