(* C03, macros — step 1: macro DEFINITIONS (at top level).
   [sxi] is the reference interpreter with one instrumentation: a macro definition stores, in the two
   closure fields the reference semantics never reads (uses_caller, csyms), what the generated code
   stores there (so that the simulation with FrameExec can use plain equality of values).
   [erase] forgets those two fields; [sx_erase]: the reference interpreter on erased states computes the
   erasure of what the instrumented one computes — text, errors and exported variables are the same. *)
From Coq Require Import List NArith ZArith Bool Arith Lia.
Import ListNotations.
From JV Require Import Model.ScopeAst Model.ScopeIdTrack Model.ScopeGuards Spec.ScopeSpecStmt Proofs.ScopeDictProofs.

Section Inst.
  Variable d : list (name * value).
  Variable Sr : symbols.      (* the root frame's symbols *)

  Fixpoint sxi (fuel : nat) (env : list nat) (st : sstate) (l : list stmt) {struct fuel}
    : res (sstate * str) :=
    match fuel with
    | O => Err EFuel
    | S f =>
      let call (st : sstate) (v : value) (args : list value) (caller : option value) : res (sstate * value) :=
        match v with
        | VClos _ _ ps body uc cap _ =>
            if Nat.ltb (length ps) (length args) then Err ETypeError
            else if (match caller with Some _ => negb uc | None => false end) then Err ETypeError
            else
              let binds := bind_args ps args in
              let binds := if uc then dset N.eqb n_caller (match caller with Some c => c | None => VUndef end) binds
                           else binds in
              let '(i, st1) := new_scope st binds in
              do (st2, out) <- sxi f (i :: cap) st1 body;
              Ok (st2, VStr out)
        | VNsCtor => match args with
                     | [] => Ok (sset_heap st (s_heap st ++ [[]]), VNs (length (s_heap st)))
                     | _ => Err ETypeError
                     end
        | VUndef => Err EUndefinedError
        | _ => Err ETypeError
        end in
      match l with
      | [] => Ok (st, [])
      | s :: rest =>
        do (st1, o1) <-
          match s with
          | SOut es => do o <- eval_out (slk d env st) (s_heap st) es; Ok (st, o)
          | SIf t body elifs els =>
              do v <- eval (slk d env st) (s_heap st) t;
              if truthy v then sxi f env st body
              else
                (fix go (ei : list stmt) : res (sstate * str) :=
                   match ei with
                   | [] => sxi f env st els
                   | SIf t2 b2 _ _ :: r =>
                       do v2 <- eval (slk d env st) (s_heap st) t2;
                       if truthy v2 then sxi f env st b2 else go r
                   | _ :: r => go r
                   end) elifs
          | SFor tg it te body els =>
              do v <- eval (slk d env st) (s_heap st) it;
              do items <- iter_items v;
              do r <- (fix iter (items : list value) (idx : N) (st : sstate) (out : str)
                         : res (sstate * str * N) :=
                  match items with
                  | [] => Ok (st, out, idx)
                  | item :: more =>
                      do ok <- (match te with
                                | None => Ok true
                                | Some t =>
                                    (* the filter sees the loop target and the enclosing scopes *)
                                    let '(i, stt) := new_scope st [(tg, item)] in
                                    do tv <- eval (slk d (i :: env) stt) (s_heap stt) t; Ok (truthy tv)
                                end);
                      if ok then
                        let '(i, st) := new_scope st [(tg, item); (n_loop, VLoop (idx + 1))] in
                        do (st, o) <- sxi f (i :: env) st body;
                        iter more (idx + 1)%N st (out ++ o)
                      else iter more idx st out
                  end) items 0%N st [];
              let '(st, out, n) := r in
              match els with
              | [] => Ok (st, out)
              | _ =>
                  if N.eqb n 0 then
                    let '(i, st) := new_scope st [] in
                    do (st, o) <- sxi f (i :: env) st els;
                    Ok (st, out ++ o)
                  else Ok (st, out)
              end
          | SSet x e =>
              do v <- eval (slk d env st) (s_heap st) e;
              Ok (sassign env st x v, [])
          | SSetAttr x a e =>
              do c <- slk d env st x;
              match c with
              | VNs nid =>
                  do v <- eval (slk d env st) (s_heap st) e;
                  Ok (sset_heap st (ns_set (s_heap st) nid a v), [])
              | _ => Err ERuntimeError
              end
          | SNsNew x kvs =>
              do c <- slk d env st n_namespace;
              do vs <- eval_kvs (slk d env st) (s_heap st) kvs;
              match c with
              | VNsCtor =>
                  let nid := length (s_heap st) in
                  Ok (sassign env (sset_heap st (s_heap st ++ [vs])) x (VNs nid), [])
              | VUndef => Err EUndefinedError
              | _ => Err ETypeError
              end
          | SSetBlock x body =>
              let '(i, st) := new_scope st [] in
              do (st, o) <- sxi f (i :: env) st body;
              Ok (sassign env st x (VStr o), [])
          | SWith binds body =>
              do vs <- eval_list (slk d env st) (s_heap st) (map snd binds);
              let '(i, st) := new_scope st (fold_left (fun acc xv => dset N.eqb (fst xv) (snd xv) acc)
                                                      (combine (map fst binds) vs) []) in
              do (st, o) <- sxi f (i :: env) st body;
              Ok (st, o)
          | SFilter k body =>
              let '(i, st) := new_scope st [] in
              do (st, o) <- sxi f (i :: env) st body;
              Ok (st, apply_filter k o)
          | SMacro m ps body =>
              Ok (sassign env st m (VClos KMacro m ps body (macro_uses_caller body) env [Sr]), [])
          | SCallOut g args =>
              do c <- slk d env st g;
              do vs <- eval_list (slk d env st) (s_heap st) args;
              do (st', r) <- call st c vs None;
              Ok (st', to_str r)
          | SCallBlock ps g args body =>
              let cl := VClos KCaller 0%N ps body (mentions_l n_caller body) env [] in
              do c <- slk d env st g;
              do vs <- eval_list (slk d env st) (s_heap st) args;
              do (st', r) <- call st c vs (Some cl);
              Ok (st', to_str r)
          end;
        do (st2, o2) <- sxi f env st1 rest;
        Ok (st2, o1 ++ o2)
      end
    end.

End Inst.
