(* C11 lemmas: normalisation + data-token newline substitution = the one-pass spec;
   a source without start sequences is one data token; normalisation is idempotent;
   structure of the token stream after comment_begin / raw_begin. *)
From Coq Require Import List NArith Bool Arith Lia.
Import ListNotations.
From JV Require Import Model.LexBase Model.LexTokeniter Spec.LexPlainSpec Proofs.LexInv.
Open Scope N_scope.

(* ------------------------------------------------------------------ newline algebra *)
(* the spec on a source whose only line break is \n *)
Fixpoint spec_n (seq : str) (keep : bool) (t : str) : str :=
  match t with
  | [] => []
  | c :: r => if c =? 10 then brk seq keep (negb (nonempty r)) (spec_n seq keep r)
              else c :: spec_n seq keep r
  end.

Lemma nl_replace_nonempty : forall s, nonempty (nl_replace s) = nonempty s.
Proof.
  destruct s as [|c r]; [reflexivity|]. cbn [nl_replace].
  destruct (c =? 13); [destruct r as [|d r']; [reflexivity|destruct (d =? 10); reflexivity]|reflexivity].
Qed.

Lemma strong_str_ind : forall (P : str -> Prop),
  (forall s, (forall r, (length r < length s)%nat -> P r) -> P s) -> forall s, P s.
Proof.
  intros P H s. assert (G : forall n r, (length r < n)%nat -> P r).
  { induction n as [|n IH]; intros r Hr; [lia|]. apply H. intros r' Hr'. apply IH. lia. }
  apply (G (S (length s))). lia.
Qed.

Lemma spec_plain_nl_replace : forall seq keep s, spec_plain seq keep s = spec_n seq keep (nl_replace s).
Proof.
  intros seq keep s. induction s as [s IH] using strong_str_ind.
  destruct s as [|c r]; [reflexivity|]. cbn [spec_plain nl_replace].
  destruct (c =? 13) eqn:E13.
  - destruct r as [|d r'].
    + reflexivity.
    + destruct (d =? 10) eqn:E10; cbn [spec_n]; rewrite N.eqb_refl.
      * rewrite nl_replace_nonempty, (IH r') by (cbn; lia). reflexivity.
      * rewrite nl_replace_nonempty, (IH (d :: r')) by (cbn; lia). reflexivity.
  - cbn [spec_n]. destruct (c =? 10) eqn:E10.
    + rewrite nl_replace_nonempty, (IH r) by (cbn; lia). reflexivity.
    + rewrite (IH r) by (cbn; lia). reflexivity.
Qed.

Lemma nl_subst_spec_n : forall seq (keep : bool) t,
  nl_subst seq (if keep then t else drop_last_nl t) = spec_n seq keep t.
Proof.
  intros seq keep t. induction t as [|c r IH]; [destruct keep; reflexivity|].
  destruct keep.
  - cbn [nl_subst spec_n]. unfold brk. rewrite andb_false_r. rewrite IH. reflexivity.
  - cbn [spec_n]. destruct r as [|c2 r2].
    + cbn [drop_last_nl nonempty negb]. unfold brk. cbn [andb negb].
      destruct (c =? 10) eqn:E; cbn [nl_subst]; [reflexivity|]. rewrite E. reflexivity.
    + change (drop_last_nl (c :: c2 :: r2)) with (c :: drop_last_nl (c2 :: r2)).
      cbn [nl_subst nonempty negb]. unfold brk. cbn [andb]. rewrite IH. reflexivity.
Qed.

Lemma normalize_spec : forall seq keep s,
  nl_subst seq (normalize keep s) = spec_plain seq keep s.
Proof. intros. unfold normalize. rewrite nl_subst_spec_n, spec_plain_nl_replace. reflexivity. Qed.

(* nl_replace leaves a source without \r unchanged; its result has no \r *)
Lemma nl_replace_no_cr : forall s, forallb (fun x => negb (x =? 13)) (nl_replace s) = true.
Proof.
  intros s. induction s as [s IH] using strong_str_ind.
  destruct s as [|c r]; [reflexivity|]. cbn [nl_replace].
  destruct (c =? 13) eqn:E.
  - destruct r as [|d r']; [reflexivity|].
    destruct (d =? 10); cbn [forallb]; [apply IH|apply (IH (d :: r'))]; cbn; lia.
  - cbn [forallb]. rewrite E. cbn. apply IH. cbn; lia.
Qed.

Lemma nl_replace_fix : forall t, forallb (fun x => negb (x =? 13)) t = true -> nl_replace t = t.
Proof.
  induction t as [|c r IH]; intros H; [reflexivity|]. cbn [forallb] in H.
  apply andb_true_iff in H as [H1 H2]. cbn [nl_replace].
  destruct (c =? 13); [discriminate|]. rewrite IH by exact H2. reflexivity.
Qed.

Lemma drop_last_nl_no_cr : forall t, forallb (fun x => negb (x =? 13)) t = true ->
  forallb (fun x => negb (x =? 13)) (drop_last_nl t) = true.
Proof.
  induction t as [|c r IH]; intros H; [reflexivity|]. cbn [forallb] in H.
  apply andb_true_iff in H as [H1 H2]. destruct r as [|c2 r2].
  - cbn [drop_last_nl]. destruct (c =? 10); [reflexivity|]. cbn [forallb]. rewrite H1. reflexivity.
  - change (drop_last_nl (c :: c2 :: r2)) with (c :: drop_last_nl (c2 :: r2)).
    cbn [forallb]. rewrite H1. apply IH. exact H2.
Qed.

(* re-lexing an already normalised source with keep_trailing_newline changes nothing *)
Lemma normalize_idempotent_keep : forall keep s, normalize true (normalize keep s) = normalize keep s.
Proof.
  intros keep s. unfold normalize at 1. apply nl_replace_fix. unfold normalize.
  destruct keep; [apply nl_replace_no_cr|apply drop_last_nl_no_cr, nl_replace_no_cr].
Qed.

(* _normalize_newlines with "\n" is the identity *)
Lemma nl_subst_id : forall t, nl_subst [10] t = t.
Proof.
  induction t as [|c r IH]; [reflexivity|]. cbn [nl_subst].
  destruct (c =? 10) eqn:E; rewrite IH; [apply N.eqb_eq in E; subst; reflexivity|reflexivity].
Qed.

(* ------------------------------------------------------------------ no start sequence: one data token *)
Lemma occurs_skipn : forall d w s, occurs d s = false -> prefixb d (skipn w s) = false.
Proof.
  intros d w. induction w as [|w IH]; intros s H.
  - destruct s; cbn [skipn occurs] in *; [exact H|]. apply orb_false_iff in H as [H _]. exact H.
  - destruct s as [|x r]; cbn [skipn occurs] in *; [exact H|]. apply orb_false_iff in H as [_ H]. apply IH. exact H.
Qed.

Lemma occurs_prefix : forall d s, occurs d s = false -> prefixb d s = false.
Proof. intros d s H. exact (occurs_skipn d 0 s H). Qed.

Lemma occurs_tail : forall d x r, occurs d (x :: r) = false -> occurs d r = false.
Proof. intros d x r H. cbn [occurs] in H. apply orb_false_iff in H as [_ H]. exact H. Qed.

Lemma alt_plain_none : forall d s, prefixb d s = false -> alt_plain d s = None.
Proof. intros d s H. unfold alt_plain. rewrite H. reflexivity. Qed.

Lemma rule_insert_in : forall a l x, In x (rule_insert a l) -> x = a \/ In x l.
Proof.
  intros a l. induction l as [|b r IH]; intros x H; cbn [rule_insert] in H.
  - destruct H as [<-|[]]. left; reflexivity.
  - destruct (rule_before a b).
    + destruct H as [<-|H]; [left; reflexivity|right; exact H].
    + destruct H as [<-|H]; [right; left; reflexivity|]. apply IH in H as [->|H]; [left; reflexivity|right; right; exact H].
Qed.

Lemma fold_insert_in : forall l x, In x (fold_right rule_insert [] l) -> In x l.
Proof.
  induction l as [|a l IH]; intros x H; cbn [fold_right] in H; [exact H|].
  apply rule_insert_in in H as [->|H]; [left; reflexivity|right; apply IH; exact H].
Qed.

Lemma compile_rules_starts : forall c k d, In (k, d) (compile_rules c) -> In d (start_strings c).
Proof.
  intros c k d H. unfold compile_rules in H. apply fold_insert_in in H. unfold start_strings.
  destruct (c_lsp c) as [p|], (c_lcp c) as [q|]; cbn [app] in *;
    repeat (apply in_app_or in H as [H|H]); cbn [In] in *;
    repeat match goal with H : _ \/ _ |- _ => destruct H as [H|H] end;
    try contradiction; injection H as _ <-; tauto.
Qed.

Definition clean (c : cfg) (s : str) : Prop := forall d, In d (start_strings c) -> occurs d s = false.

Lemma no_start_delim_clean : forall c s, no_start_delim c s = true -> clean c s.
Proof.
  intros c s H d Hd. unfold no_start_delim in H. rewrite forallb_forall in H.
  specialize (H d Hd). destruct (occurs d s); [discriminate|reflexivity].
Qed.

Lemma clean_tail : forall c x r, clean c (x :: r) -> clean c r.
Proof. intros c x r H d Hd. eapply occurs_tail. apply H. exact Hd. Qed.

Lemma try_alts_none : forall c rules prev s,
  (forall k d, In (k, d) rules -> occurs d s = false) -> occurs (c_bs c) s = false ->
  try_alts c rules prev s = None.
Proof.
  intros c rules prev s. induction rules as [|[k d] rs IH]; intros H Hb; [reflexivity|].
  cbn [try_alts]. assert (Hd : occurs d s = false) by (eapply H; left; reflexivity).
  assert (E : try_alt c prev s (k, d) = None).
  { unfold try_alt; cbn [fst snd]. destruct k.
    - unfold alt_raw. rewrite (occurs_prefix _ _ Hb). reflexivity.
    - apply alt_plain_none. apply (occurs_prefix _ _ Hd).
    - apply alt_plain_none. apply (occurs_prefix _ _ Hd).
    - apply alt_plain_none. apply (occurs_prefix _ _ Hd).
    - unfold alt_ls. destruct (at_bol prev); [|reflexivity].
      rewrite alt_plain_none; [reflexivity|]. apply occurs_skipn. exact Hd.
    - unfold alt_lc. destruct (at_bol prev || _); [|reflexivity].
      rewrite alt_plain_none; [reflexivity|]. apply occurs_skipn. exact Hd. }
  rewrite E. apply IH; [|exact Hb]. intros k' d' Hin. eapply H. right. exact Hin.
Qed.

Lemma find_tag_clean : forall c prev s, clean c s -> find_tag c (compile_rules c) prev s = None.
Proof.
  intros c prev s. revert prev. induction s as [|x r IH]; intros prev H.
  - cbn [find_tag]. unfold root_alts.
    assert (Hb : occurs (c_bs c) [] = false) by (apply H; unfold start_strings; left; reflexivity).
    unfold alt_raw. cbn [occurs] in Hb. rewrite Hb.
    rewrite try_alts_none; [reflexivity| |exact Hb].
    intros k d Hin. apply H. eapply compile_rules_starts. exact Hin.
  - cbn [find_tag]. unfold root_alts.
    assert (Hb : occurs (c_bs c) (x :: r) = false) by (apply H; unfold start_strings; left; reflexivity).
    unfold alt_raw. rewrite (occurs_prefix _ _ Hb).
    rewrite try_alts_none; [| |exact Hb].
    + rewrite IH; [reflexivity|]. eapply clean_tail. exact H.
    + intros k d Hin. apply H. eapply compile_rules_starts. exact Hin.
Qed.

Lemma clean_nil : forall c s, clean c s -> clean c [].
Proof.
  intros c s H d Hd. specialize (H d Hd). cbn [occurs].
  pose proof (occurs_skipn d (length s) s H) as G. rewrite skipn_all in G. exact G.
Qed.

Lemma tokeniter_norm_clean : forall c t, clean c t ->
  tokeniter_norm c t = LexOk (tok_nonempty 1 TData t 0).
Proof.
  intros c t H. unfold tokeniter_norm.
  replace (fuel_for t) with (S (S (2 * length t + 1))) by (unfold fuel_for; lia).
  destruct t as [|x r].
  - cbn [run step]. rewrite find_tag_clean by exact H. reflexivity.
  - remember (x :: r) as t eqn:Et. cbn [run step]. rewrite find_tag_clean by exact H.
    rewrite Et at 1. rewrite firstn_all, skipn_all. cbn [step].
    rewrite find_tag_clean by (eapply clean_nil; exact H).
    subst t. reflexivity.
Qed.

(* normalisation cannot create a start sequence *)
Lemma prefixb_nl_replace : forall d s, nl_free d = true -> prefixb d (nl_replace s) = true -> prefixb d s = true.
Proof.
  induction d as [|x d IH]; intros s Hd H; [reflexivity|].
  cbn [nl_free forallb] in Hd. apply andb_true_iff in Hd as [Hx Hd].
  apply andb_true_iff in Hx as [Hx10 Hx13].
  destruct s as [|c r]; [cbn in H; discriminate|]. cbn [nl_replace] in H.
  destruct (c =? 13) eqn:E13.
  - exfalso. assert (Hh : exists tl, (if match r with [] => true | d0 :: _ => d0 =? 10 end then true else true) = true /\
                          prefixb (x :: d) (10 :: tl) = true).
    { destruct r as [|d0 r']; [exists []; split; [reflexivity|exact H]|].
      destruct (d0 =? 10); eexists; (split; [reflexivity|exact H]). }
    destruct Hh as [tl [_ Hp]]. cbn [prefixb] in Hp. apply andb_true_iff in Hp as [Hp _].
    apply N.eqb_eq in Hp. subst x. discriminate.
  - cbn [prefixb] in *. apply andb_true_iff in H as [H1 H2]. rewrite H1. cbn [andb]. apply IH; assumption.
Qed.

Lemma occurs_nl_replace : forall d s, nl_free d = true -> d <> [] -> occurs d (nl_replace s) = true -> occurs d s = true.
Proof.
  intros d s Hd Hne. induction s as [s IH] using strong_str_ind. intros H.
  destruct s as [|c r]; [exact H|].
  cbn [occurs]. apply orb_true_iff.
  assert (Hcases : prefixb d (nl_replace (c :: r)) = true \/
                   (exists r0, (length r0 < length (c :: r))%nat /\ occurs d (nl_replace r0) = true /\
                               (occurs d r0 = true -> occurs d r = true))).
  { cbn [nl_replace] in *. destruct (c =? 13) eqn:E13.
    - destruct r as [|d0 r'].
      + cbn [occurs] in H. apply orb_true_iff in H as [H|H]; [left; exact H|].
        destruct d; [contradiction|discriminate].
      + destruct (d0 =? 10) eqn:E10; cbn [occurs] in H; apply orb_true_iff in H as [H|H]; try (left; exact H).
        * right. exists r'. split; [cbn; lia|]. split; [exact H|]. intros G. cbn [occurs]. rewrite G. apply orb_true_r.
        * right. exists (d0 :: r'). split; [cbn; lia|]. split; [exact H|]. auto.
    - cbn [occurs] in H. apply orb_true_iff in H as [H|H]; [left; exact H|].
      right. exists r. split; [cbn; lia|]. split; [exact H|]. auto. }
  destruct Hcases as [Hp|[r0 [Hl [Ho Hi]]]].
  - left. apply prefixb_nl_replace; assumption.
  - right. apply Hi. apply IH; assumption.
Qed.

Lemma prefixb_drop_last : forall d t, prefixb d (drop_last_nl t) = true -> prefixb d t = true.
Proof.
  induction d as [|x d IH]; intros t H; [reflexivity|].
  destruct t as [|c r]; [exact H|]. destruct r as [|c2 r2].
  - cbn [drop_last_nl] in H. destruct (c =? 10); [discriminate|exact H].
  - change (drop_last_nl (c :: c2 :: r2)) with (c :: drop_last_nl (c2 :: r2)) in H.
    cbn [prefixb] in *. apply andb_true_iff in H as [H1 H2]. rewrite H1. cbn [andb]. apply IH. exact H2.
Qed.

Lemma occurs_drop_last : forall d t, d <> [] -> occurs d (drop_last_nl t) = true -> occurs d t = true.
Proof.
  intros d t Hne. induction t as [|c r IH]; intros H; [exact H|].
  destruct r as [|c2 r2].
  - cbn [drop_last_nl] in H. destruct (c =? 10); [|exact H]. destruct d; [contradiction|discriminate].
  - change (drop_last_nl (c :: c2 :: r2)) with (c :: drop_last_nl (c2 :: r2)) in H.
    cbn [occurs] in H. apply orb_true_iff in H as [H|H].
    + change (occurs d (c :: c2 :: r2)) with (prefixb d (c :: c2 :: r2) || occurs d (c2 :: r2)).
      apply orb_true_iff. left. apply prefixb_drop_last. exact H.
    + change (occurs d (c :: c2 :: r2)) with (prefixb d (c :: c2 :: r2) || occurs d (c2 :: r2)).
      apply orb_true_iff. right. apply IH. exact H.
Qed.

Lemma clean_normalize : forall c keep s, starts_nl_free c = true -> clean c s -> clean c (normalize keep s).
Proof.
  intros c keep s Hnl H d Hd.
  assert (Hdnl : nl_free d = true) by (unfold starts_nl_free in Hnl; rewrite forallb_forall in Hnl; apply Hnl; exact Hd).
  assert (Hne : d <> []).
  { intros ->. specialize (H [] Hd). destruct s; discriminate. }
  destruct (occurs d (normalize keep s)) eqn:E; [|reflexivity].
  exfalso. unfold normalize in E.
  assert (E2 : occurs d (nl_replace s) = true) by (destruct keep; [exact E|apply occurs_drop_last; assumption]).
  apply occurs_nl_replace in E2; try assumption. rewrite (H d Hd) in E2. discriminate.
Qed.

Lemma plain_render : forall c src, starts_nl_free c = true -> no_start_delim c src = true ->
  render_data c src = Some (spec_plain (c_nlseq c) (c_keep c) src).
Proof.
  intros c src Hnl H. unfold render_data, tokeniter.
  rewrite tokeniter_norm_clean by (apply clean_normalize; [exact Hnl|apply no_start_delim_clean; exact H]).
  rewrite <- normalize_spec. unfold tok_nonempty.
  destruct (normalize (c_keep c) src); cbn [nonempty data_of nl_subst]; [reflexivity|].
  rewrite app_nil_r. reflexivity.
Qed.

(* ------------------------------------------------------------------ what follows comment_begin / raw_begin *)
Lemma walk_app_inv : forall a b st st', walk st (a ++ b) = Some st' ->
  exists s1, walk st a = Some s1 /\ walk s1 b = Some st'.
Proof.
  induction a as [|i a IH]; intros b st st' H; cbn [app walk] in *.
  - exists st. split; [reflexivity|exact H].
  - destruct i as [ln ty v s0|g w].
    + destruct (delta st ty) as [s2|]; [|discriminate]. apply IH. exact H.
    + apply IH. exact H.
Qed.

Definition is_ty (t : tty) (i : item) : Prop :=
  match i with ITok _ ty _ _ => ty = t | IGap _ _ => True end.

(* in state st with "inner" token type tin and closing type tout: the items up to the
   first closing token are inner tokens (or gaps) *)
Lemma walk_until_close : forall st tin tout l st',
  (forall t s2, delta st t = Some s2 -> (t = tin /\ s2 = st) \/ (t = tout /\ s2 = SRoot)) ->
  tin <> tout ->
  walk st l = Some st' ->
  exists body rest, l = body ++ rest /\ Forall (is_ty tin) body /\
    (rest = [] \/ exists ln v p r, rest = ITok ln tout v p :: r).
Proof.
  intros st tin tout l st' Hd Hneq. revert st'. induction l as [|i l IH]; intros st' H.
  - exists [], []. repeat split; auto.
  - destruct i as [ln ty v p|g w]; cbn [walk] in H.
    + destruct (delta st ty) as [s2|] eqn:E; [|discriminate].
      apply Hd in E as [[-> ->]|[-> ->]].
      * apply IH in H as (body & rest & -> & Hb & Hr). exists (ITok ln tin v p :: body), rest.
        repeat split; auto. constructor; [reflexivity|exact Hb].
      * exists [], (ITok ln tout v p :: l). repeat split; auto. right. eauto.
    + apply IH in H as (body & rest & -> & Hb & Hr). exists (IGap g w :: body), rest.
      repeat split; auto. constructor; [exact I|exact Hb].
Qed.

Lemma data_of_non_data : forall seq t body, t <> TData -> Forall (is_ty t) body -> data_of seq body = [].
Proof.
  intros seq t body Ht H. induction H as [|i l Hi Hl IH]; [reflexivity|].
  destruct i as [ln ty v p|g w]; cbn [data_of]; [|exact IH].
  cbn in Hi. subst ty. destruct t; try exact IH. contradiction.
Qed.

Lemma tokeniter_run : forall c src its,
  tokeniter c src = LexOk its ->
  run c (compile_rules c) (fuel_for (normalize (c_keep c) src)) SRoot [] 1 0 None true (normalize (c_keep c) src) = (its, EOk).
Proof.
  intros c src its H. unfold tokeniter, tokeniter_norm in H.
  destruct (run _ _ _ _ _ _ _ _ _ _) as [l e]. destruct e; try discriminate. injection H as ->. reflexivity.
Qed.
