(* C02 parse_unparse, part 1: "parses with enough fuel", the level chain of the parser. *)
From Coq Require Import List NArith ZArith Bool Lia Arith.
Import ListNotations.
From JV Require Import Model.ExprAst Model.ExprParser Model.ExprUnparse Proofs.ExprParseSteps.

(* f, given enough fuel, consumes ts up to r and returns a *)
Definition parses {A} (f : kit -> list tok -> pres A) (ts : list tok) (a : A) (r : list tok) : Prop :=
  exists m0, forall m, m0 <= m -> f (kit_of m) ts = ROk a r.

Ltac unroll m := change (kit_of (S m)) with (kit_step (kit_of m)).

(* deciding a loop test from nc *)
Lemma str_eqb_eq a : forall b, str_eqb a b = true -> a = b.
Proof.
  induction a as [|x a IH]; destruct b as [|y b]; cbn; intros H; try discriminate; [reflexivity|].
  apply andb_true_iff in H. destruct H as [H1 H2]. apply N.eqb_eq in H1. subst y. f_equal. apply IH. exact H2.
Qed.

Ltac nc_solve H :=
  match type of H with
  | nc _ ?r = true =>
      destruct r as [|[?s| | | |?o] ?r']; cbn in H |- *; try reflexivity;
      try (destruct o; cbn in H |- *; try discriminate; reflexivity);
      repeat match type of H with context [str_eqb ?x ?k] => destruct (str_eqb x k) eqn:?; cbn in H end;
      repeat match goal with E : str_eqb _ _ = true |- _ => apply str_eqb_eq in E; subst end;
      repeat match goal with E : str_eqb _ _ = false |- _ => rewrite ?E; clear E end; cbn; try discriminate; try reflexivity
  end.

Lemma nc_mono L L' r : L <= L' -> nc L r = true -> nc L' r = true.
Proof.
  intros HL H. destruct r as [|t r]; [reflexivity|]. cbn in *. destruct (cont_level t); [|reflexivity].
  apply Nat.ltb_lt in H. apply Nat.ltb_lt. lia.
Qed.

Definition E11 (K : kit) (ts : list tok) : pres expr := bindp (p_primary K ts) (fun n r => p_postfix K n r).

Definition entry (L : nat) : kit -> list tok -> pres expr :=
  match L with
  | 0 => p_cond | 1 => p_or | 2 => p_and | 3 => p_not | 4 => p_compare | 5 => p_math1 | 6 => p_concat
  | 7 => p_math2 | 8 => p_pow | 9 => fun K => p_unary K true | 10 => fun K => p_unary K false | 11 => E11
  | _ => p_primary
  end.

(* ---- one level up when the next token continues nothing at that level ---- *)
Lemma lift0 ts e r : parses p_or ts e r -> nc 0 r = true -> parses p_cond ts e r.
Proof.
  intros [m0 H] Hn. exists (S (S m0)). intros m Hm. destruct m as [|[|m]]; try lia.
  unroll (S m). rewrite step_p_cond. rewrite (H (S m)) by lia. cbn [bindp]. unroll m. rewrite step_p_cond_loop.
  replace (is_kw k_if r) with false; [reflexivity|]. symmetry. nc_solve Hn.
Qed.

Lemma lift1 ts e r : parses p_and ts e r -> nc 1 r = true -> parses p_or ts e r.
Proof.
  intros [m0 H] Hn. exists (S (S m0)). intros m Hm. destruct m as [|[|m]]; try lia.
  unroll (S m). rewrite step_p_or. rewrite (H (S m)) by lia. cbn [bindp]. unroll m. rewrite step_p_or_loop.
  replace (is_kw k_or r) with false; [reflexivity|]. symmetry. nc_solve Hn.
Qed.

Lemma lift2 ts e r : parses p_not ts e r -> nc 2 r = true -> parses p_and ts e r.
Proof.
  intros [m0 H] Hn. exists (S (S m0)). intros m Hm. destruct m as [|[|m]]; try lia.
  unroll (S m). rewrite step_p_and. rewrite (H (S m)) by lia. cbn [bindp]. unroll m. rewrite step_p_and_loop.
  replace (is_kw k_and r) with false; [reflexivity|]. symmetry. nc_solve Hn.
Qed.

Lemma lift3 ts e r : parses p_compare ts e r -> is_kw k_not ts = false -> parses p_not ts e r.
Proof.
  intros [m0 H] Hn. exists (S m0). intros m Hm. destruct m as [|m]; try lia.
  unroll m. rewrite step_p_not, Hn. apply H. lia.
Qed.

Lemma compare_loop_stop m acc r : nc 4 r = true -> p_compare_loop (kit_of (S m)) acc r = ROk acc r.
Proof.
  intros Hn. unroll m. rewrite step_p_compare_loop.
  destruct r as [|[s| | | |o] r']; cbn in Hn |- *; try reflexivity.
  - destruct (str_eqb s k_in) eqn:E1; [apply str_eqb_eq in E1; subst s; cbn in Hn; discriminate|].
    destruct (str_eqb s k_not) eqn:E2; [apply str_eqb_eq in E2; subst s; cbn in Hn; discriminate|].
    reflexivity.
  - destruct o; cbn in Hn |- *; try discriminate; reflexivity.
Qed.

Lemma lift4 ts e r : parses p_math1 ts e r -> nc 4 r = true -> parses p_compare ts e r.
Proof.
  intros [m0 H] Hn. exists (S (S m0)). intros m Hm. destruct m as [|[|m]]; try lia.
  unroll (S m). rewrite step_p_compare. rewrite (H (S m)) by lia. cbn [bindp].
  rewrite compare_loop_stop by exact Hn. reflexivity.
Qed.

Lemma math1_loop_stop m l r : nc 5 r = true -> p_math1_loop (kit_of (S m)) l r = ROk l r.
Proof.
  intros Hn. unroll m. rewrite step_p_math1_loop.
  destruct r as [|[s| | | |o] r']; try reflexivity. destruct o; cbn in Hn |- *; try discriminate; reflexivity.
Qed.
Lemma lift5 ts e r : parses p_concat ts e r -> nc 5 r = true -> parses p_math1 ts e r.
Proof.
  intros [m0 H] Hn. exists (S (S m0)). intros m Hm. destruct m as [|[|m]]; try lia.
  unroll (S m). rewrite step_p_math1. rewrite (H (S m)) by lia. cbn [bindp]. apply math1_loop_stop. exact Hn.
Qed.

Lemma concat_loop_stop m acc r : nc 6 r = true -> p_concat_loop (kit_of (S m)) acc r = ROk acc r.
Proof.
  intros Hn. unroll m. rewrite step_p_concat_loop. replace (is_op OTilde r) with false; [reflexivity|]. symmetry. nc_solve Hn.
Qed.
Lemma lift6 ts e r : parses p_math2 ts e r -> nc 6 r = true -> parses p_concat ts e r.
Proof.
  intros [m0 H] Hn. exists (S (S m0)). intros m Hm. destruct m as [|[|m]]; try lia.
  unroll (S m). rewrite step_p_concat. rewrite (H (S m)) by lia. cbn [bindp]. rewrite concat_loop_stop by exact Hn. reflexivity.
Qed.

Lemma math2_loop_stop m l r : nc 7 r = true -> p_math2_loop (kit_of (S m)) l r = ROk l r.
Proof.
  intros Hn. unroll m. rewrite step_p_math2_loop.
  destruct r as [|[s| | | |o] r']; try reflexivity. destruct o; cbn in Hn |- *; try discriminate; reflexivity.
Qed.
Lemma lift7 ts e r : parses p_pow ts e r -> nc 7 r = true -> parses p_math2 ts e r.
Proof.
  intros [m0 H] Hn. exists (S (S m0)). intros m Hm. destruct m as [|[|m]]; try lia.
  unroll (S m). rewrite step_p_math2. rewrite (H (S m)) by lia. cbn [bindp]. apply math2_loop_stop. exact Hn.
Qed.

Lemma pow_loop_stop m l r : nc 8 r = true -> p_pow_loop (kit_of (S m)) l r = ROk l r.
Proof.
  intros Hn. unroll m. rewrite step_p_pow_loop. replace (is_op OPow r) with false; [reflexivity|]. symmetry. nc_solve Hn.
Qed.
Lemma lift8 ts e r : parses (fun K => p_unary K true) ts e r -> nc 8 r = true -> parses p_pow ts e r.
Proof.
  intros [m0 H] Hn. exists (S (S m0)). intros m Hm. destruct m as [|[|m]]; try lia.
  unroll (S m). rewrite step_p_pow. rewrite (H (S m)) by lia. cbn [bindp]. apply pow_loop_stop. exact Hn.
Qed.

(* p_unary with filters = p_unary without, then the filter / test loop *)
Lemma unary_true_false K ts :
  p_unary (kit_step K) true ts = bindp (p_unary (kit_step K) false ts) (fun n r => p_filter_expr K n r).
Proof.
  rewrite !step_p_unary.
  destruct (if is_op OSub ts then _ else _) as [n r|?| |]; cbn [bindp]; try reflexivity.
  destruct (p_postfix K n r); reflexivity.
Qed.

Lemma filter_loop_stop m n r : nc 9 r = true -> p_filter_expr (kit_of (S m)) n r = ROk n r.
Proof.
  intros Hn. unroll m. rewrite step_p_filter_expr.
  replace (is_op OPipe r) with false by (symmetry; nc_solve Hn).
  replace (is_kw k_is r) with false by (symmetry; nc_solve Hn).
  replace (is_op OLParen r) with false by (symmetry; nc_solve Hn). reflexivity.
Qed.
Lemma lift9 ts e r : parses (fun K => p_unary K false) ts e r -> nc 9 r = true -> parses (fun K => p_unary K true) ts e r.
Proof.
  intros [m0 H] Hn. exists (S (S m0)). intros m Hm. destruct m as [|[|m]]; try lia.
  unroll (S m). rewrite unary_true_false.
  change (kit_step (kit_of (S m))) with (kit_of (S (S m))). rewrite (H (S (S m))) by lia. cbn [bindp].
  apply filter_loop_stop. exact Hn.
Qed.

Lemma lift10 ts e r : parses E11 ts e r -> is_op OSub ts = false -> is_op OAdd ts = false -> parses (fun K => p_unary K false) ts e r.
Proof.
  intros [m0 H] H1 H2. exists (S m0). intros m Hm. destruct m as [|m]; try lia.
  unroll m. rewrite step_p_unary, H1, H2. specialize (H m ltac:(lia)). unfold E11 in H.
  destruct (p_primary (kit_of m) ts) as [n r0|?| |]; cbn [bindp] in *; try discriminate.
  rewrite H. reflexivity.
Qed.

Lemma postfix_loop_stop m n r : nc 11 r = true -> p_postfix (kit_of (S m)) n r = ROk n r.
Proof.
  intros Hn. unroll m. rewrite step_p_postfix.
  replace (is_op ODot r) with false by (symmetry; nc_solve Hn).
  replace (is_op OLBracket r) with false by (symmetry; nc_solve Hn).
  replace (is_op OLParen r) with false by (symmetry; nc_solve Hn). reflexivity.
Qed.
Lemma lift11 ts e r : parses p_primary ts e r -> nc 11 r = true -> parses E11 ts e r.
Proof.
  intros [m0 H] Hn. exists (S m0). intros m Hm. destruct m as [|m]; try lia.
  unfold E11. rewrite (H (S m)) by lia. cbn [bindp]. apply postfix_loop_stop. exact Hn.
Qed.

(* all the way down *)
Lemma descend ts e :
  forall L0, L0 <= 12 ->
  (4 <= L0 -> forall r, is_kw k_not (ts ++ r) = false) ->
  (11 <= L0 -> forall r, is_op OSub (ts ++ r) = false /\ is_op OAdd (ts ++ r) = false) ->
  (forall r, nc L0 r = true -> parses (entry L0) (ts ++ r) e r) ->
  forall d L, L + d = L0 -> forall r, nc L r = true -> parses (entry L) (ts ++ r) e r.
Proof.
  intros L0 HL0 Hnot Hsign H0. induction d as [|d IH]; intros L HL r Hn.
  - replace L with L0 by lia. apply H0. replace L0 with L by lia. exact Hn.
  - assert (Hn' : nc (S L) r = true) by (apply (nc_mono L); [lia|exact Hn]).
    specialize (IH (S L) ltac:(lia) r Hn').
    assert (L <= 11) by lia.
    do 12 (destruct L as [|L]; [cbn [entry] in *;
      first [ apply lift0; assumption | apply lift1; assumption | apply lift2; assumption
            | apply lift3; [assumption|apply Hnot; lia] | apply lift4; assumption | apply lift5; assumption
            | apply lift6; assumption | apply lift7; assumption | apply lift8; assumption | apply lift9; assumption
            | apply lift10; [assumption|apply Hsign; lia|apply Hsign; lia] | apply lift11; assumption ] |]).
    lia.
Qed.
