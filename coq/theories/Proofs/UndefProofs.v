(* C21 -- lemmas: lifting the boolean table checks to quantified statements; message shape. *)
From Coq Require Import List NArith Bool.
Import ListNotations.
From JV Require Import Model.Undef Spec.UndefSpec.

Lemma domain_in_all : forall x, In x domain -> In x all_cells /\ specified x = true.
Proof. intros x H. unfold domain in H. apply filter_In in H. exact H. Qed.

Lemma table_ok_sound : forall T F, table_ok T F = true ->
  forall c o, In (c, o) domain ->
  known_deviation (c, o) = false ->
  exists s, spec c o = Some s /\ agrees (fst (dispatch T F c o)) s = true.
Proof.
  intros T F Hok c o Hin Hk. destruct (domain_in_all _ Hin) as [Hall Hsp].
  unfold table_ok in Hok. rewrite forallb_forall in Hok. specialize (Hok _ Hall).
  unfold cell_ok in Hok. unfold specified in Hsp. rewrite Hk in Hok. cbn [fst snd orb] in *.
  destruct (spec c o) as [s|] eqn:E; [|discriminate]. exists s. split; [reflexivity|exact Hok].
Qed.

Lemma forallb_cells : forall (P : cname * op -> bool), forallb P all_cells = true ->
  forall c o, In (c, o) all_cells -> P (c, o) = true.
Proof. intros P H c o Hin. rewrite forallb_forall in H. exact (H _ Hin). Qed.

(* ---- messages *)
Definition infix (a b : str) : Prop := exists pre post, b = pre ++ a ++ post.

Lemma message_hint : forall o h, eff_hint o = Some h -> message o = h.
Proof. intros o h H. unfold message. rewrite H. reflexivity. Qed.

Lemma message_subject : forall o, eff_hint o = None -> infix (repr_name (name o)) (message o).
Proof.
  intros o H. unfold message. rewrite H. destruct (obj o) as [t|].
  - destruct (name o) as [s|r]; cbn [repr_name].
    + exists (repr_simple t ++ s_has_no_attribute), []. rewrite app_nil_r, app_assoc. reflexivity.
    + exists (t ++ s_has_no_element), []. rewrite app_nil_r, app_assoc. reflexivity.
  - exists [], s_is_undefined. reflexivity.
Qed.

Lemma message_owner : forall o t, eff_hint o = None -> obj o = Some t -> infix t (message o).
Proof.
  intros o t H Ho. unfold message. rewrite H, Ho. destruct (name o) as [s|r].
  - exists [39%N], ([39%N] ++ s_has_no_attribute ++ repr_simple s). unfold repr_simple.
    repeat rewrite <- app_assoc. reflexivity.
  - exists [], (s_has_no_element ++ r). reflexivity.
Qed.

Lemma repr_simple_contains : forall s, infix s (repr_simple s).
Proof. intro s. exists [39%N], [39%N]. reflexivity. Qed.

Lemma debug_str_name : forall s, debug_str (mkO None None (NStr s)) = s_open ++ s ++ s_close.
Proof. reflexivity. Qed.

Lemma debug_str_shape : forall o, exists mid, debug_str o = s_open ++ mid ++ s_close /\
  match eff_hint o with Some h => infix h mid | None => infix (str_name (name o)) mid \/ infix (repr_name (name o)) mid end.
Proof.
  intro o. unfold debug_str. destruct (eff_hint o) as [h|].
  - eexists. split; [reflexivity|]. exists s_printed, []. now rewrite app_nil_r.
  - destruct (obj o) as [t|].
    + eexists. split; [reflexivity|]. right. exists (s_nosuch ++ t ++ [91%N]), [93%N].
      repeat rewrite <- app_assoc. reflexivity.
    + eexists. split; [reflexivity|]. left. exists [], []. now rewrite app_nil_r.
Qed.

Lemma debug_str_owner : forall o t, eff_hint o = None -> obj o = Some t -> infix t (debug_str o).
Proof.
  intros o t H Ho. unfold debug_str. rewrite H, Ho.
  exists (s_open ++ s_nosuch), ([91%N] ++ repr_name (name o) ++ [93%N] ++ s_close).
  repeat rewrite <- app_assoc. reflexivity.
Qed.
