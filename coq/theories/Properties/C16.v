(* C16 — autoescaping escapes each value exactly once.
   Only statements, each closed by [exact <lemma>] (a few glue lines), followed by Print Assumptions. *)
From Coq Require Import List NArith Bool.
Import ListNotations.
From JV Require Import Model.EscMarkup Model.EscLang Proofs.EscMarkupProofs Proofs.EscLangProofs.
Open Scope N_scope.

(* MarkupSafe's replace chain is the per-character escape *)
Theorem C16_escape_per_char : forall s, escape s = flat_map escape_char s.
Proof. exact escape_flat. Qed.
Print Assumptions C16_escape_per_char.

(* unescaping an escaped string gives the string back *)
Theorem C16_unescape_escape : forall s, unescape5 (escape s) = s.
Proof. exact unescape_escape. Qed.
Print Assumptions C16_unescape_escape.

(* entity boundaries never straddle pieces: when every '&' of the left piece starts one of the
   five entities, unescaping the pieces separately equals unescaping the concatenation *)
Theorem C16_unescape_app_aligned : forall a b,
  Aligned a -> unescape5 (a ++ b) = unescape5 a ++ unescape5 b.
Proof. exact unescape_app_aligned. Qed.
Print Assumptions C16_unescape_app_aligned.

Theorem C16_escape_aligned : forall s, Aligned (escape s).
Proof. exact aligned_escape. Qed.
Print Assumptions C16_escape_aligned.

(* escape_once: for EVERY template of T that uses only escaping-neutral filters, whose text
   has no '&' and whose {% autoescape %} blocks are runtime-decided, every data set and every
   fuel: the autoescape-on render and the autoescape-off render fail together (same fuel, so an
   out-of-fuel / error result is never compared with a value), and otherwise the on output
   has all its '&' at entity starts and unescapes to the off output.
   [render b0 flag]: b0 = environment.autoescape, flag = value given to {% autoescape flag %}. *)
Theorem C16_escape_once : forall dl n t d,
  c16_ok t = true ->
  match render true true dl n t d, render false false dl n t d with
  | Some on, Some off => Aligned on /\ unescape5 on = off
  | None, None => True
  | _, _ => False
  end.
Proof. intros dl n t d H. exact (escape_once_gen dl n t d H). Qed.
Print Assumptions C16_escape_once.

(* the hypotheses are needed: template text that looks like an entity ... *)
Theorem C16_amp_text_needed_refuted : exists t d on off,
  render true true [] 5 t d = Some on /\ render false false [] 5 t d = Some off /\ unescape5 on <> off.
Proof.
  exists [SText [38; 108; 116; 59]], [], [38; 108; 116; 59], [38; 108; 116; 59].
  vm_compute. repeat split; discriminate.
Qed.
Print Assumptions C16_amp_text_needed_refuted.

(* ... and an escaping-sensitive filter ({{ x|escape }} with x = "<") *)
Theorem C16_neutral_needed_refuted : exists t d on off,
  render true true [] 5 t d = Some on /\ render false false [] 5 t d = Some off /\ unescape5 on <> off.
Proof.
  exists [SOut (EFilt FEscape (EVar 1) [])], [(1, [60])], [38; 108; 116; 59], [38; 108; 116; 59].
  vm_compute. repeat split; discriminate.
Qed.
Print Assumptions C16_neutral_needed_refuted.

(* non-vacuity: macro + call block + caller + set block + filter block + for + runtime-decided
   autoescape + `~` on a Markup value, data with metacharacters and entity text:
   {% autoescape ae_flag %}{% macro m(p) %}<{{ p }}>{{ caller() }}{% endmacro %}
   {% set v %}{{ a }}{% endset %}{% call m(v ~ "&") %}{% for i in l %}{{ i|lower }}{% endfor %}{% endcall %}
   {% filter lower %}{{ v }}{% endfilter %}{% endautoescape %}   with a = "<&amp;", l = ["A>", "'"] *)
Definition c16_example_t : list stmt :=
  [SAutoescape AFlag
     [SMacro 20 [21] [SText [91]; SOut (EVar 21); SText [93]; SOut ECaller];
      SSetBlock 22 [SOut (EVar 1)];
      SCallBlock 20 [ECat (EVar 22) (ELit [38])] [SFor 23 11 [SOut (EFilt FLower (EVar 23) [])]];
      SFilterBlock FLower [] [SOut (EVar 22)]]].
Definition c16_example_d : list (N * str) := [(1, [60; 38; 97; 109; 112; 59])].
Definition c16_example_dl : list (N * list str) := [(11, [[65; 62]; [39]])].

Example C16_example :
  c16_ok c16_example_t = true /\
  render true true c16_example_dl 40 c16_example_t c16_example_d
    = Some [91; 38;108;116;59; 38;97;109;112;59; 97;109;112;59; 38;97;109;112;59; 93;
            97; 38;103;116;59; 38;35;51;57;59;
            38;108;116;59; 38;97;109;112;59; 97;109;112;59] /\
  render false false c16_example_dl 40 c16_example_t c16_example_d
    = Some [91; 60; 38; 97;109;112;59; 38; 93; 97; 62; 39; 60; 38; 97;109;112;59].
Proof. vm_compute. repeat split; reflexivity. Qed.
