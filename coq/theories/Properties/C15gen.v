(* C15 / C16 — the output path of the code generator as a regenerated table (translator tie).
   Statements only; the table itself (Gen_esc_codegen.v) is produced from the current compiler.py /
   runtime.py by gen/esc_translate.py on every check and must satisfy facts_ok by vm_compute. *)
From Coq Require Import List Bool NArith.
Import ListNotations.
From JV Require Import Model.EscMarkup Model.EscLang2 Model.EscCodegen Proofs.EscCodegenProofs.

(* a table that passes the check yields the equations the evaluator of Model/EscLang2.v is built on:
   output children, filter-block and call-block results are out_piece (mode_on vol ae rt), the buffer of a block
   filter is wrap (mode_on ..), ~ is markup_join iff mode_on, set blocks are Markup / escape by the
   runtime flag, macro bodies return plain text and Macro._invoke / BlockReference wrap by the flag,
   constants are folded only outside volatile frames and escaped iff autoescape is on *)
Theorem C15_codegen_sound : forall f, facts_ok f = true -> sound f.
Proof. exact codegen_sound. Qed.
Print Assumptions C15_codegen_sound.

(* the obligation: whenever autoescaping may be on for a piece of generated code (statically on, or
   volatile with the runtime flag on) every output child and every filter-block result is written
   through escape *)
Theorem C15_output_escapes_when_on : forall f, facts_ok f = true ->
  forall vol ae rt v, mode_on vol ae rt = true ->
  (exists w, find2 (f_out f) vol ae = Some w /\ ow_sem w rt v = esc_str v) /\
  (exists w, find2 (f_fblock f) vol ae = Some w /\ ow_sem w rt v = esc_str v).
Proof. exact output_escapes_when_on. Qed.
Print Assumptions C15_output_escapes_when_on.

(* the evaluator's mode decision is the table's mode_on *)
Theorem C15_on_now_mode : forall ae ce rt, on_now ae ce rt = mode_on (ce_vol ce) (ce_ae ae ce) rt.
Proof. exact on_now_mode. Qed.
Print Assumptions C15_on_now_mode.

(* the check is not vacuous and not trivially true: the pre-fix filter block (result written without
   a wrapper is not expressible; the closest: str( under autoescape) is rejected *)
Example C15gen_rejects_unescaped_filter_block :
  ow_tbl_ok [(false, false, WStr); (false, true, WStr); (true, false, WSel); (true, true, WSel)] = false.
Proof. reflexivity. Qed.
