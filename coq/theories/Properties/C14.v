(* C14 -- template literals denote the same values as Python literals.
   M = Model/Lit.v (the lexer's recognisers and lexer.wrap's conversions),
   S = Spec/LitSpec.v (CPython's literal grammar and valuation). *)
From Coq Require Import List NArith ZArith Bool Lia.
Import ListNotations.
From JV Require Import Model.Lit Spec.LitSpec Proofs.LitProofs.
Open Scope N_scope.

(* a spelling that integer_re matches entirely is a Python integer literal, and
   int(spelling.replace("_", ""), 0) is the value Python gives it -- unless the decimal digit
   limit of CPython makes the conversion fail (then the lexer raises TemplateSyntaxError and
   no number is read) *)
Theorem C14_int_token_value : forall (limit : N) (s : str), lex_integer s = Some (length s) ->
  exists v, py_int s = Some v /\
    (jinja_int limit s = Ok v \/ (jinja_int limit s = SyntaxErr /\ over_limit limit s)).
Proof. exact int_token_value_lemma. Qed.
Print Assumptions C14_int_token_value.

Corollary C14_int_token_value_ok : forall limit s z, lex_integer s = Some (length s) ->
  jinja_int limit s = Ok z -> py_int s = Some z.
Proof.
  intros limit s z H J. destruct (C14_int_token_value limit s H) as (v & P & [A|[A _]]); rewrite J in A; [|discriminate].
  injection A as <-. exact P.
Qed.
Print Assumptions C14_int_token_value_ok.

(* a spelling that float_re matches entirely is a Python float literal, and both sides hand the
   same underscore-free spelling to the decimal -> double conversion *)
Theorem C14_float_token_python : forall (F : Type) (dec2float : str -> F) prev s,
  lex_float prev s = Some (length s) ->
  py_float_ok s = true /\ jinja_float F dec2float s = py_float F dec2float s.
Proof. intros F d prev s H. split; [exact (float_token_lemma prev s H)|reflexivity]. Qed.
Print Assumptions C14_float_token_python.

(* a spelling read as one number token is read by exactly one of the two rules; hence with the
   rule order (float first) the token kind is the kind of Python literal *)
Theorem C14_number_token_unique : forall prev s,
  ~ (lex_float prev s = Some (length s) /\ lex_integer s = Some (length s)).
Proof. exact number_unique_lemma. Qed.
Print Assumptions C14_number_token_unique.

Theorem C14_number_token_kind : forall prev s k, lex_number prev s = Some (k, length s) ->
  match k with
  | KFloatTok => py_float_ok s = true
  | KIntTok => exists v, py_int s = Some v
  end.
Proof.
  intros prev s k H. unfold lex_number in H.
  destruct (lex_float prev s) as [n|] eqn:Ef.
  - injection H as <- ->. exact (float_token_lemma prev s Ef).
  - destruct (lex_integer s) as [n|] eqn:Ei; [|discriminate]. injection H as <- ->.
    destruct (int_token_value_lemma 0 s Ei) as (v & P & _). now exists v.
Qed.
Print Assumptions C14_number_token_kind.

(* every code-point list, written between either quote in any of the four styles, is read by
   string_re as one token (whatever follows) and converted back to exactly that list, for
   every newline_sequence *)
Theorem C14_string_roundtrip : forall (nl : str) (st : style) (q : N) (v rest : str),
  In st [SRepr; SUni; SHex; SOct] -> In q [39; 34] -> Forall (fun c => c < 1114112) v ->
  lex_string (literal st q v ++ rest) = Some (length (literal st q v)) /\
  convert nl (encode st q v) = inl v.
Proof.
  intros nl st q v rest Hs Hq Hv. split.
  - exact (string_roundtrip_lex st q v rest Hs Hq Hv).
  - exact (string_roundtrip_convert nl st q v Hs Hq Hv).
Qed.
Print Assumptions C14_string_roundtrip.

(* adjacent string literals denote the concatenation of their values *)
Theorem C14_adjacent_concat : forall nl (lits : list (style * N * str)),
  Forall (fun x => In (fst (fst x)) [SRepr; SUni; SHex; SOct] /\ In (snd (fst x)) [39; 34] /\
                   Forall (fun c => c < 1114112) (snd x)) lits ->
  exists vals, Forall2 (fun x val => convert nl (encode (fst (fst x)) (snd (fst x)) (snd x)) = inl val) lits vals /\
               parse_strings vals = concat (map snd lits).
Proof.
  intros nl lits H. exists (map snd lits). split; [|reflexivity].
  induction H as [|[[st q] v] l (Hs & Hq & Hv) _ IH]; [constructor|]. constructor; [|exact IH].
  exact (string_roundtrip_convert nl st q v Hs Hq Hv).
Qed.
Print Assumptions C14_adjacent_concat.

(* unknown escapes are kept, as in Python ('\z' is the two characters \ z) -- for EVERY character that
   is not escape-significant, ASCII or not.  (Before the fix of the lexer a backslash before a raw
   non-ASCII character paired with the backslash that backslashreplace inserts: '\é' gave \xe9.) *)
Definition escape_significant (c : N) : bool :=
  match simple_escape c with
  | Some _ => true
  | None => is_oct c || (c =? 120) || (c =? 117) || (c =? 85) || (c =? 78) || (c =? 13)
  end.
Definition kept_ok (c : N) : bool :=
  escape_significant c ||
  match convert [10] [92; c] with inl [b; c'] => (b =? 92) && (c' =? c) | _ => false end.

Theorem C14_unknown_escape_kept : forall c, c < 1114112 -> kept_ok c = true.
Proof.
  intros c Hc. destruct (N.lt_ge_cases c 128) as [Hlo|Hhi].
  - exact (forallb_below kept_ok 128 ltac:(vm_compute; reflexivity) c Hlo).
  - unfold kept_ok. rewrite (unknown_escape_non_ascii [10] c Hhi Hc). rewrite !N.eqb_refl. apply orb_true_r.
Qed.
Print Assumptions C14_unknown_escape_kept.

(* "the value of a string literal does not depend on the configuration" is FALSE at full strength:
   a RAW line break inside a literal is replaced by the environment's newline_sequence (documented for
   Lexer._normalize_newlines: "Replace all newlines with the configured sequence in strings and
   template data") ... *)
Theorem C14_raw_break_refuted : exists body, convert [10] body <> convert [13; 10] body.
Proof. exists [97; 10; 98]. vm_compute. discriminate. Qed.

(* ... and true for every literal without raw CR / LF (line breaks written \n, \r are exact, see
   C14_string_roundtrip); with the default newline_sequence raw CR, CRLF and LF all denote LF,
   which is what Python's own source-line normalisation gives a (triple-quoted) literal *)
Theorem C14_raw_break_partial : forall nl nl' body, no_raw_breaks body = true -> convert nl body = convert nl' body.
Proof. exact convert_config_independent. Qed.
Print Assumptions C14_raw_break_partial.

(* a backslash-newline continuation inside a literal disappears under EVERY newline_sequence (before fix
   of the lexer the line break was first replaced by the sequence and the escape was lost), while an
   escaped backslash followed by a raw line break keeps both *)
Theorem C14_line_continuation : forall nl,
  convert nl [97; 92; 10; 98] = inl [97; 98] /\ convert nl [97; 92; 13; 10; 98] = inl [97; 98] /\
  convert nl [92; 10] = inl [].
Proof. intro nl. repeat split; reflexivity. Qed.
Print Assumptions C14_line_continuation.

Theorem C14_escaped_backslash_then_break :
  map (fun nl => convert nl [97; 92; 92; 10; 98]) [[10]; [13; 10]; [13]]
  = [inl [97; 92; 10; 98]; inl [97; 92; 13; 10; 98]; inl [97; 92; 13; 98]].
Proof. vm_compute. reflexivity. Qed.

Theorem C14_raw_break_default : normalize [10] [97; 13; 10; 98; 13; 99; 10; 100] = [97; 10; 98; 10; 99; 10; 100].
Proof. reflexivity. Qed.

(* non-vacuity *)
Example C14_example :
  lex_number (Some 32) [49; 95; 48; 48; 48] = Some (KIntTok, 5%nat) /\ jinja_int 4300 [49; 95; 48; 48; 48] = Ok 1000%Z /\
  py_int [48; 88; 65; 95; 102] = Some 175%Z /\ lex_integer [48; 88; 65; 95; 102] = Some 5%nat /\
  lex_number (Some 32) [49; 46; 53; 101; 45; 51] = Some (KFloatTok, 6%nat) /\ py_float_ok [49; 46; 53; 101; 45; 51] = true /\
  lex_number (Some 46) [49; 101; 53] = Some (KIntTok, 1%nat) /\
  literal SRepr 39 [39; 10; 233; 92] = [39; 92; 39; 92; 110; 233; 92; 92; 39] /\
  convert [10] [92; 39; 92; 110; 233; 92; 92] = inl [39; 10; 233; 92] /\
  convert [10] [92; 120; 52] = inr ETruncated /\
  jinja_int 4 [49; 50; 51; 52; 53] = SyntaxErr.
Proof. vm_compute. repeat split. Qed.
