(* C36 — async rendering always closes the generators it opens.
   Only statements, each closed by [exact <lemma>], followed by Print Assumptions. *)
From Coq Require Import List NArith Bool Arith.
Import ListNotations.
From JV Require Import Model.Gens Proofs.GensProofs.

(* For every tree of generators (any depth, any number of blocks / includes / parents / loop
   filters), every operation of the property (run to completion, data raises at interruption
   point k, the consumer stops at chunk k, the task is cancelled at await k) and every k: when
   every creation site is guarded, no generator is left open at the end of the task. *)
Theorem C36_all_guarded_closes :
  forall (t : list item) (o : op), all_guarded t = true -> leaked top_path t o = 0.
Proof. intros t o G. exact (all_guarded_no_leak t top_path o G eq_refl). Qed.
Print Assumptions C36_all_guarded_closes.

(* the premise, from the table regenerated out of the real generated Python and of
   environment.py / runtime.py: every Sub / Side site of the tree is a row of a table whose
   rows are all guarded (comprehension sites need no guard) *)
Theorem C36_regenerated_sites_suffice :
  forall (tab : list (skind * bool)) (t : list item) (o : op),
  sites_ok tab = true ->
  (forall g, In g (tree_guards t) -> exists k, k <> KCollect /\ In (k, g) tab) ->
  leaked top_path t o = 0.
Proof.
  intros tab t o T H. exact (all_guarded_no_leak t top_path o (sites_ok_guarded tab t T H) eq_refl).
Qed.
Print Assumptions C36_regenerated_sites_suffice.

(* every live configuration inside a guarded tree consists of guarded sites only: the live
   generators are the creation sites on the path to the current item *)
Theorem C36_live_generators_are_path :
  forall (t : list item) (p : path), all_guarded t = true -> path_ok p = true ->
  Forall (fun kp => path_ok (snd kp) = true) (points p t).
Proof. exact points_ok. Qed.
Print Assumptions C36_live_generators_are_path.

(* an exception that starts in the running frame closes every frame it leaves whatever the
   re-yield guards are: only element-yielding children (loop filters) depend on their guard *)
Theorem C36_up_exception_ignores_links :
  forall p q : path, map sides p = map sides q -> leak_up p = leak_up q.
Proof. exact leak_up_links. Qed.
Print Assumptions C36_up_exception_ignores_links.

(* the guards are needed (this is the loop-filter generator t_N before /repo ba9ba11:
   async for x in t_1(...) without try/finally): a fault in the loop body, a cancellation at
   an await of the body, and a consumer that stops at a chunk of the body each leave it open;
   and an unguarded re-yield site leaves the child open when the consumer stops *)
Theorem C36_unguarded_refuted :
  let t := [Emit; Side false [Point; Await; Emit]; Emit] in
  leaked top_path t (RaiseAt 1) = 1 /\ leaked top_path t (CancelAt 0) = 1 /\ leaked top_path t (StopAfter 1) = 1 /\
  leaked top_path t (StopAfter 0) = 0 /\ leaked top_path t Complete = 0 /\
  leaked top_path [Sub false [Emit; Sub true [Emit]]] (StopAfter 1) = 2 /\
  leaked top_path [Sub false [Emit; Sub true [Point]]] (RaiseAt 1) = 0.
Proof. vm_compute. repeat split; reflexivity. Qed.
Print Assumptions C36_unguarded_refuted.

(* The strongest statement that survives the recorded findings C36-F2 / C36-F3 (the async
   generators returned by the map / select / reject filters are element-yielding children that
   no consumer closes): when every re-yield site on the path is guarded - which the regenerated
   site table establishes - whatever the operation, what is left open is exactly the set of
   live unguarded element-yielding children; nothing else, and no block / include / parent /
   loop-filter generator. *)
Theorem C36_only_unguarded_children_leak_partial :
  forall p : path, forallb link p = true ->
  leak_down p = leak_up p /\ leak_up p = length (filter negb (flat_map sides p)).
Proof. intros p H. split; [exact (leak_down_links_true p H)|exact (leak_up_count p)]. Qed.
Print Assumptions C36_only_unguarded_children_leak_partial.

(* the filter-generator finding in the model: a loop over `xs|select(..)` is a Side child with no
   guard under otherwise guarded sites *)
Theorem C36_filter_generator_refuted :
  let t := [Sub true [Emit; Side false [Await; Emit; Point]; Emit]] in
  all_guarded t = false /\ leaked top_path t (CancelAt 0) = 1 /\ leaked top_path t (StopAfter 1) = 1 /\
  leaked top_path t (RaiseAt 3) = 1 /\ leaked top_path t (StopAfter 2) = 0.
Proof. vm_compute. repeat split; reflexivity. Qed.
Print Assumptions C36_filter_generator_refuted.

(* non-vacuity: extends + block + include inside a filtered loop + super() *)
Example C36_example :
  let t := [Sub true (* parent root *)
              [Emit; Sub true (* block *)
                       [Side true (* loop filter *) [Point; Emit; Sub true (* include *) [Emit; Await]; Await];
                        Collect (* super() *) [Emit; Await]]; Emit]] in
  all_guarded t = true /\ length (points top_path t) = 9 /\ opened_item (hd Await t) = 5 /\
  forallb (fun k => Nat.eqb (leaked top_path t (RaiseAt k)) 0 && Nat.eqb (leaked top_path t (StopAfter k)) 0 &&
                    Nat.eqb (leaked top_path t (CancelAt k)) 0) (seq 0 10) = true.
Proof. vm_compute. repeat split; reflexivity. Qed.
