(* C01 (parser half) — on every token stream of the shape the lexer + wrap emit, the parser returns a
   tree or fails with a TemplateSyntaxError located on a line of the template; the
   AssertionError("internal parsing error") of Parser.subparse (and any other exception) is unreachable.
   M = Model/ExprStmtParser.v (statements, tags, targets, tuples, TokenStream primitives) over
   Model/ExprParser.v (expressions); tied to parser.py by harness/c01parse.py (K-parse for statements). *)
From Coq Require Import List NArith ZArith Bool Arith Lia.
Import ListNotations.
From JV Require Import Model.ExprAst Model.ExprParser Model.ExprStmtParser Proofs.ExprStmtParserProofs.

(* parse_total_no_internal: for every well-shaped stream and EVERY fuel, the outcome is a tree, a syntax
   error whose line is the line of a token of the stream or of the eof token, "outside the modelled
   expression syntax", or out of fuel — never Internal *)
Theorem C01_parse_total_no_internal : forall (ts : list lstok) (n : nat),
  wf_stream ts = true ->
  match parse_with n ts with
  | SOk _ => True
  | SSyntaxErr l => In l (map snd ts) \/ l = eof_line ts
  | SInternal _ => False
  | SUnsup | SFuelStmt | SFuelTag | SFuelExpr => True
  end.
Proof. exact parse_total_no_internal. Qed.
Print Assumptions C01_parse_total_no_internal.

(* the shape hypothesis is exactly what separates the two: a stream that is not of that shape is the
   only way to Internal *)
Theorem C01_internal_iff_not_wf : forall (ts : list lstok) (n : nat),
  (exists t, parse_with n ts = SInternal t) <-> wf_stream ts = false.
Proof.
  intros ts n. split.
  - intros [t H]. destruct (wf_stream ts) eqn:W; [|reflexivity].
    pose proof (parse_total_no_internal ts n W) as P. rewrite H in P. contradiction.
  - intros W. unfold wf_stream in W. unfold parse_with. destruct (segments ts); [discriminate|]. exists 1. reflexivity.
Qed.
Print Assumptions C01_internal_iff_not_wf.

(* parse_fuel_adequate, PARTIAL: fuel linear in the number of tokens (one unit per token, +2) is enough
   for the statement level — subparse / parse_statements / the elif chain never exhaust it.  Not
   covered (named gap): SFuelTag, the loops inside one tag (tuples, signatures, with / print / import
   lists, filter chains; their fuel is the tag's token count + 2, adequate if every successful
   expression parse consumes a token), and SFuelExpr, the expression parser's default fuel
   40 * (tokens + 2); K-parse checks on every explored stream that neither outcome occurs. *)
Theorem C01_parse_fuel_adequate_partial : forall (ts : list lstok) (n : nat),
  length ts + 2 <= n -> parse_with n ts <> SFuelStmt.
Proof. exact parse_fuel_adequate_stmt. Qed.
Print Assumptions C01_parse_fuel_adequate_partial.

Corollary C01_parse_default_fuel : forall (ts : list lstok),
  wf_stream ts = true ->
  match parse ts with
  | SOk _ => True
  | SSyntaxErr l => In l (map snd ts) \/ l = eof_line ts
  | SUnsup | SFuelTag | SFuelExpr => True
  | SInternal _ | SFuelStmt => False
  end.
Proof.
  intros ts W. unfold parse. pose proof (parse_total_no_internal ts (2 * length ts + 2) W) as P.
  pose proof (parse_fuel_adequate_stmt ts (2 * length ts + 2) ltac:(lia)) as F.
  destruct (parse_with (2 * length ts + 2) ts); auto.
Qed.
Print Assumptions C01_parse_default_fuel.

(* non-vacuity:  a{% if x %}{{ y }}{% else %}b{% endif %}  parses;  {% endif %} alone is a syntax error on
   its line;  a stray block_end is not a lexer-shaped stream and is the Internal case *)
Example C01_parse_example :
  let nm := fun c => STok (KName [c]) in
  let kw := fun s => STok (KName s) in
  parse [(SData [97%N], 1); (SBlockBegin, 1); (kw k_if, 1); (nm 120%N, 1); (SBlockEnd, 1); (SVarBegin, 1); (nm 121%N, 1); (SVarEnd, 1);
         (SBlockBegin, 2); (kw k_else, 2); (SBlockEnd, 2); (SData [98%N], 2); (SBlockBegin, 3); (kw w_endif, 3); (SBlockEnd, 3)]
    = SOk [SOutput [OData [97%N]]; SIf (EName [120%N]) [SOutput [OExpr (EName [121%N])]] [] [SOutput [OData [98%N]]]] /\
  parse [(SData [97%N], 1); (SBlockBegin, 2); (kw w_endif, 2); (SBlockEnd, 2)] = SSyntaxErr 2 /\
  parse [(SBlockBegin, 1); (kw k_if, 1); (nm 120%N, 1); (SBlockEnd, 1)] = SSyntaxErr 1 /\
  parse [(SBlockEnd, 1)] = SInternal 1 /\ wf_stream [(SBlockEnd, 1)] = false.
Proof. vm_compute. repeat split; reflexivity. Qed.
