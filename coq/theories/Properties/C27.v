(* C27 — the bytecode cache never yields stale code and tolerates interrupted writes.
   Statements only; each closed by lemmas of Proofs/BcProofs.v.  pickle.load / marshal.load enter
   as functions with the laws named in the hypotheses (assumed of CPython, probed on every run);
   the handler table enters through the decidable predicates pickle_table_ok / marshal_table_ok,
   which the check discharges by vm_compute on the table regenerated from bccache.py. *)
From Coq Require Import List NArith Bool Arith Lia.
Import ListNotations.
From JV Require Import Model.Bc Proofs.BcProofs.
Open Scope N_scope.

(* for EVERY byte string: load_bytecode never raises, and it yields code only when the bytes
   start with the magic, the pickled checksum decodes to the wanted checksum and the rest
   unmarshals completely *)
Theorem C27_load_total : forall magic pickle_load marshal_load tbl,
  pickle_table_ok tbl = true -> marshal_table_ok tbl = true ->
  (forall b e, pickle_load b = PExn e -> e <> ENotException) ->
  (forall b e, marshal_load b = MExn e -> In e [EEOF; EValue; EType]) ->
  forall want data,
    (forall e, load_bytecode magic pickle_load marshal_load tbl want data <> Raise e) /\
    (forall cd, load_bytecode magic pickle_load marshal_load tbl want data = Hit cd ->
       firstn (length magic) data = magic /\
       exists rest, pickle_load (skipn (length magic) data) = POk want rest /\ marshal_load rest = MOk cd).
Proof.
  intros magic pl ml tbl Tp Tm Lp Lm want data. split.
  - intros e. exact (load_never_raises magic pl ml tbl Tp Tm Lp Lm want data e).
  - intros cd. exact (load_hit_complete magic pl ml tbl want data cd).
Qed.
Print Assumptions C27_load_total.

(* every truncation of a written entry — inside the magic, inside the pickled checksum, inside
   the marshalled code — is a cache miss; the complete entry is a hit iff the checksum matches *)
Theorem C27_load_truncated : forall magic pickle_load marshal_load tbl pk mk,
  pickle_table_ok tbl = true -> marshal_table_ok tbl = true ->
  (forall b e, pickle_load b = PExn e -> e <> ENotException) ->
  (forall b e, marshal_load b = MExn e -> In e [EEOF; EValue; EType]) ->
  (forall c rest, pickle_load (pk c ++ rest) = POk c rest) ->
  (forall c k, (k < length (pk c))%nat -> exists e, pickle_load (firstn k (pk c)) = PExn e) ->
  (forall c, marshal_load (mk c) = MOk c) ->
  (forall c k, (k < length (mk c))%nat -> exists e, marshal_load (firstn k (mk c)) = MExn e) ->
  forall want ck cd,
    (forall k, (k < length (entry magic pk mk ck cd))%nat ->
       load_bytecode magic pickle_load marshal_load tbl want (firstn k (entry magic pk mk ck cd)) = Miss) /\
    load_bytecode magic pickle_load marshal_load tbl want (entry magic pk mk ck cd) = (if ck =? want then Hit cd else Miss).
Proof.
  intros magic pl ml tbl pk mk Tp Tm Lp Lm P1 P2 M1 M2 want ck cd. split.
  - intros k Hk. exact (load_truncated magic pl ml tbl Tp Tm Lp Lm pk mk P1 P2 M2 want ck cd k Hk).
  - exact (load_roundtrip magic pl ml tbl pk mk P1 M1 want ck cd).
Qed.
Print Assumptions C27_load_truncated.

(* the assumed laws are consistent: the toy framing has them all *)
Theorem C27_laws_consistent : forall magic tbl,
  pickle_table_ok tbl = true -> marshal_table_ok tbl = true ->
  forall want data e, toy_load magic tbl want data <> Raise e.
Proof.
  intros magic tbl Tp Tm want data e.
  exact (load_never_raises magic toy_pickle_load toy_marshal_load tbl Tp Tm toy_pickle_exceptions toy_marshal_raises want data e).
Qed.
Print Assumptions C27_laws_consistent.

(* the table hypothesis is needed: with pickle.load outside any try (the code before the fix:
   commit) an entry cut inside the pickled checksum makes load_bytecode raise *)
Theorem C27_pickle_handler_needed :
  exists data, toy_load [106; 50] {| h_pickle := []; h_marshal := [HClass EEOF; HClass EValue; HClass EType] |} 5 data = Raise EEOF.
Proof. exists [106; 50; 200]. vm_compute. reflexivity. Qed.

(* interrupted write: whatever step the process dies after (crash) or whatever step raises
   (fault, the handler removes the temp file), the entry at the real name is what it was before,
   or the complete new entry — never a partial one *)
Theorem C27_atomic_replace : forall real tmp s0 chunks k,
  tmp <> real ->
  (crash_after real tmp s0 chunks k real = s0 real \/ crash_after real tmp s0 chunks k real = Some (concat chunks)) /\
  (fault_after real tmp s0 chunks k real = s0 real \/ fault_after real tmp s0 chunks k real = Some (concat chunks)) /\
  crash_after real tmp s0 chunks (length (dump_steps chunks)) real = Some (concat chunks).
Proof. exact C27_atomic_replace_proof. Qed.
Print Assumptions C27_atomic_replace.

(* one option set: for every history of loads (by any environment), source changes and cache
   clears over a shared cache, every load yields the compilation of the source current at that
   moment — given the checksum is injective (sha1 without collisions) *)
Theorem C27_never_stale_partial : forall (H : N -> N) (opts_of : N -> N) (o0 : N) s0 h,
  (forall a b, H a = H b -> a = b) -> (forall e, opts_of e = o0) ->
  snd (hrun H opts_of (world0 s0) h) = expected o0 s0 h.
Proof.
  intros H opts_of o0 s0 h Hi Ho. destruct (hrun H opts_of (world0 s0) h) as [w xs] eqn:R. cbn [snd].
  apply (hrun_current H Hi opts_of o0 Ho h (world0 s0) w xs); [|exact R].
  intros k ck c B. discriminate.
Qed.
Print Assumptions C27_never_stale_partial.

(* two environments whose compile-relevant options differ share a cache: the second is served the
   code the first compiled (key and checksum ignore the options) — for every checksum function *)
Theorem C27_never_stale_refuted : forall (H : N -> N) (opts_of : N -> N),
  opts_of 0 <> opts_of 1 ->
  exists s0 h e n, nth_error (snd (hrun H opts_of (world0 s0) h)) 1 = Some (Some (s0 n, opts_of 0)) /\
                   nth_error h 1 = Some (HLoad e n) /\ (s0 n, opts_of 0) <> (s0 n, opts_of e).
Proof.
  intros H opts_of D. exists (fun _ => 7), [HLoad 0 1; HLoad 1 1], 1, 1.
  split; [|split; [reflexivity|intros E; injection E as E; contradiction]].
  cbn. rewrite N.eqb_refl. reflexivity.
Qed.
Print Assumptions C27_never_stale_refuted.

(* non-vacuity: a complete toy entry hits, a stale checksum / foreign magic / every truncation miss *)
Example C27_example :
  let t := {| h_pickle := [HException]; h_marshal := [HClass EEOF; HClass EValue; HClass EType] |} in
  let e := entry [106; 50] toy_pk toy_mk 5 9 in
  toy_load [106; 50] t 5 e = Hit 9 /\ toy_load [106; 50] t 6 e = Miss /\ toy_load [106; 51] t 5 e = Miss /\
  forallb (fun k => match toy_load [106; 50] t 5 (firstn k e) with Miss => true | _ => false end) (seq 0 (length e)) = true.
Proof. vm_compute. repeat split; reflexivity. Qed.
