(* C27 — the shared-cache finding per class of compile-relevant option (statement only; the model is
   Model/Bc.v hrun with the options of an environment encoded by Model/BcOpt.v enc). *)
From Coq Require Import List NArith Bool.
Import ListNotations.
From JV Require Import Model.Bc Model.BcOpt Proofs.BcProofs.
Open Scope N_scope.

(* flipping any single option class changes the option set *)
Lemma flip_changes : forall k o, (enc o =? enc (flip k o)) = false.
Proof. intros k [a s y t l kn p]. destruct k, a, s, y, t, l, kn, p; reflexivity. Qed.

(* for EVERY checksum function, EVERY option class and EVERY option set: an environment whose options
   differ from the writer's in just that class (autoescape, sandboxed, async, trim_blocks,
   lstrip_blocks, keep_trailing_newline, optimized) is served the writer's code *)
Theorem C27_never_stale_refuted_per_class : forall (H : N -> N) (k : oclass) (o : copts),
  stale_witness H k o = true.
Proof.
  intros H k o. pose proof (flip_changes k o) as F. unfold stale_witness.
  revert F. generalize (enc (flip k o)). generalize (enc o). intros a b F.
  cbn. rewrite N.eqb_refl. cbn. rewrite N.eqb_refl, F. reflexivity.
Qed.
Print Assumptions C27_never_stale_refuted_per_class.

(* and the partial theorem covers exactly the histories in which all environments have one option set *)
Theorem C27_never_stale_partial_opts : forall (H : N -> N) (env_opts : N -> copts) (o : copts) s0 h,
  (forall a b, H a = H b -> a = b) -> (forall e, env_opts e = o) ->
  snd (hrun H (fun e => enc (env_opts e)) (world0 s0) h) = expected (enc o) s0 h.
Proof.
  intros H env_opts o s0 h Hi Ho.
  destruct (hrun H (fun e => enc (env_opts e)) (world0 s0) h) as [w xs] eqn:R. cbn [snd].
  apply (hrun_current H Hi (fun e => enc (env_opts e)) (enc o) (fun e => f_equal enc (Ho e)) h (world0 s0) w xs); [|exact R].
  intros k ck c B. discriminate.
Qed.
Print Assumptions C27_never_stale_partial_opts.
