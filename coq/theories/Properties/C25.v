(* C25 — the template cache always serves the current template source.
   Statements only; each closed by lemmas of Proofs/TcProofs.v (and Proofs/LRUProofs.v for the
   cache bound). *)
From Coq Require Import List NArith ZArith Bool Lia.
Import ListNotations.
From JV Require Import Model.LRU Spec.LRUSpec Proofs.LRUProofs Model.Tc Spec.TcSpec Proofs.TcProofs.
Open Scope N_scope.

(* auto_reload with a loader whose up-to-date check is correct: after EVERY history of gets,
   selects and source changes, for every cache size, asking for a name yields a template that
   renders the loader's current version, and TemplateNotFound exactly when the source is gone *)
Theorem C25_autoreload_current : forall u size l0 h n,
  upt_correct u = true ->
  let e := fst (run (new_env true u size l0) h) in
  loader e = loader_after l0 h /\
  match loader_after l0 h n with
  | Some v => exists t, snd (load_template e n) = RTpl t v
  | None => snd (load_template e n) = RNotFound
  end.
Proof. exact C25_autoreload_current_proof. Qed.
Print Assumptions C25_autoreload_current.

(* the same for a list of names: the first name that currently exists answers *)
Theorem C25_select_current : forall u size l0 h ns,
  upt_correct u = true ->
  let e := fst (run (new_env true u size l0) h) in
  match first_existing (loader_after l0 h) ns with
  | Some (_, v) => exists t, snd (select_template e ns) = RTpl t v
  | None => snd (select_template e ns) = RNotFound
  end.
Proof. exact C25_select_current_proof. Qed.
Print Assumptions C25_select_current.

(* auto_reload is a public attribute: whatever its value while the history h1 ran (templates cached with
   auto_reload off keep their up-to-date check), once it is switched on every request is current *)
Theorem C25_autoreload_current_after_toggle : forall ar0 u size l0 h1 h2 n,
  upt_correct u = true ->
  let e1 := fst (run (new_env ar0 u size l0) h1) in
  let e2 := fst (run (set_auto e1 true) h2) in
  match loader_after (loader_after l0 h1) h2 n with
  | Some v => exists t, snd (load_template e2 n) = RTpl t v
  | None => snd (load_template e2 n) = RNotFound
  end.
Proof. exact C25_autoreload_current_after_toggle_proof. Qed.
Print Assumptions C25_autoreload_current_after_toggle.

(* without auto_reload a cached template is returned as it is, whatever happened to its
   source (every cache kind, one step) ... *)
Theorem C25_no_reload_cached : forall u size l0 h n t,
  let e := fst (run (new_env false u size l0) h) in
  cache_lookup (cache e) n = Some t ->
  snd (load_template e n) = RTpl t (t_ver (heap e t)).
Proof.
  intros u size l0 h n t e D. subst e.
  destruct (run (new_env false u size l0) h) as [e xs] eqn:R. cbn [fst] in *.
  destruct (run_wf h _ _ _ (new_env_wf false u size l0) R) as (W & A & _).
  cbn [new_env auto_reload] in A.
  destruct (load_template e n) as [e' r] eqn:Ld. cbn [snd].
  exact (proj1 (load_sticky e n t e' r W A D Ld)).
Qed.
Print Assumptions C25_no_reload_cached.

(* ... and in an unbounded cache it is never reloaded: once a name has been served, every later
   request, after any further history, returns the same object showing the same version *)
Theorem C25_no_reload_sticky : forall u size l0 h1 n t v e2 h2,
  (size < 0)%Z ->
  load_template (fst (run (new_env false u size l0) h1)) n = (e2, RTpl t v) ->
  snd (load_template (fst (run e2 h2)) n) = RTpl t v.
Proof. exact C25_no_reload_sticky_proof. Qed.
Print Assumptions C25_no_reload_sticky.

(* a cache of size n >= 1 is an LRUCache driven by get / __setitem__ only: after every history its
   state is the LRU model's state after the environment's trace of cache operations, whose
   abstraction is the reference least-recently-used map of C26 after the same operations, and
   it never holds more than n templates *)
Theorem C25_cache_bound_lru : forall ar u size l0 h e' xs,
  (1 <= size)%Z ->
  run (new_env ar u size l0) h = (e', xs) ->
  let c := Z.to_N size in
  let ops := run_trace (new_env ar u size l0) h in
  exists s, cache e' = CLru s /\ s = fst (LRU.run (init c) ops) /\
            fst (srun c [] ops) = abs s /\ mlen (mapping s) <= c /\ cache_len (cache e') = Some (mlen (mapping s)).
Proof. exact C25_cache_bound_lru_proof. Qed.
Print Assumptions C25_cache_bound_lru.

(* cache size 0: nothing is cached, every successful request compiles a new template object *)
Theorem C25_size0_recompiles : forall ar u l0 h e' xs,
  run (new_env ar u 0 l0) h = (e', xs) ->
  cache e' = CNone /\ NoDup (tids xs) /\ forall t, In t (tids xs) -> 1 <= t < next e'.
Proof.
  intros ar u l0 h e' xs R.
  destruct (run_wf h _ _ _ (new_env_wf ar u 0 l0) R) as (_ & _ & _ & K & _).
  destruct (run_none h (new_env ar u 0 l0) e' xs eq_refl R) as (_ & ND & B).
  split; [|split; [exact ND|exact B]].
  cbn [new_env cache create_cache] in K. destruct (cache e'); cbn in K; try contradiction; reflexivity.
Qed.
Print Assumptions C25_size0_recompiles.

(* the hypothesis of C25_autoreload_current is needed: a loader that supplies no up-to-date
   check (FunctionLoader returning a plain string) keeps serving version 1 after the source
   changed to version 2, auto_reload or not *)
Theorem C25_autoreload_needs_uptodate :
  exists l0 h n, loader_after l0 h n = Some 2 /\
    snd (load_template (fst (run (new_env true UNone (-1) l0) h)) n) = RTpl 1 1.
Proof. exists (fun _ => Some 1), [OGet 7; OPut 7 2], 7. split; vm_compute; reflexivity. Qed.
Print Assumptions C25_autoreload_needs_uptodate.

(* non-vacuity: LRU of size 1 with auto_reload — hit, reload after a change, eviction by another
   name, deletion, select falling through to the second name *)
Example C25_example :
  snd (run (new_env true UVersion 1 (fun n => if n <=? 2 then Some 1 else None))
           [OGet 1; OGet 1; OPut 1 2; OGet 1; OGet 2; OGet 1; ODel 1; OGet 1; OSelect [1; 2]; OSelect []])
  = [OutR (RTpl 1 1) (Some 1); OutR (RTpl 1 1) (Some 1); OutUnit; OutR (RTpl 2 2) (Some 1); OutR (RTpl 3 1) (Some 1);
     OutR (RTpl 4 2) (Some 1); OutUnit; OutR RNotFound (Some 1); OutR (RTpl 5 1) (Some 1); OutR RNotFound (Some 1)].
Proof. vm_compute. reflexivity. Qed.
