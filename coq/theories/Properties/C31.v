(* C31 — precompiled templates render exactly like templates compiled from source.
   The generated module text differs between the two ways only in the binding of the name
   `environment` (tie K-gen checks that on every generated template); these theorems say that
   this difference is not observable once Template._from_namespace has run. *)
From Coq Require Import List NArith Bool Arith.
Import ListNotations.
From JV Require Import Model.Pre Proofs.PreProofs.

(* for every module (any number of root / block functions, any bodies), every environment and
   every call argument: the deferred module with namespace["environment"] installed by
   _from_namespace computes what the direct module (default argument bound at def time) computes,
   namely the body applied to that environment *)
Theorem C31_defer_init_equiv : forall (E C R : Type) (e : E) (ns0 : option E) (bodies : list (E -> C -> R)),
  exists md mx,
    exec_module true ns0 bodies = Some md /\ exec_module false (Some e) bodies = Some mx /\
    length md = length bodies /\ length mx = length bodies /\
    forall i fd fx c, nth_error md i = Some fd -> nth_error mx i = Some fx ->
      call fd (from_namespace e ns0) c = call fx (Some e) c /\
      exists b, nth_error bodies i = Some b /\ call fx (Some e) c = Done (b e c).
Proof. intros E C R e ns0 bodies. exact (defer_module_equiv E C R e ns0 bodies). Qed.
Print Assumptions C31_defer_init_equiv.

(* the installation is necessary: a deferred function called in a namespace without it fails *)
Theorem C31_defer_needs_install : forall (E C R : Type) (body : E -> C -> R) (c : C) fd,
  exec_def true None body = Some fd -> call fd None c = NameError.
Proof. intros E C R body c fd H. exact (defer_needs_install E C R body c fd H). Qed.
Print Assumptions C31_defer_needs_install.

(* distinct template names get distinct module keys and file names, up to the sha1 oracle *)
Theorem C31_module_key_injective : forall (sha1_hex : str -> str),
  (forall a b, sha1_hex a = sha1_hex b -> a = b) ->
  forall a b, (template_key sha1_hex a = template_key sha1_hex b -> a = b) /\
              (module_filename sha1_hex a = module_filename sha1_hex b -> a = b).
Proof.
  intros sha1_hex Hinj a b. split.
  - exact (key_injective sha1_hex Hinj a b).
  - exact (filename_injective sha1_hex Hinj a b).
Qed.
Print Assumptions C31_module_key_injective.

(* name lookup: an archive compiled from a loader whose listed names are in normal form finds,
   for EVERY requested spelling, exactly the template the normalising source loader finds (and
   none when split_template_path rejects the name) *)
Theorem C31_load_agrees_with_source : forall (sha1_hex : str -> str) (normal : str -> option str) (names : list str) (name : str),
  (forall a b, sha1_hex a = sha1_hex b -> a = b) ->
  (forall n, existsb (str_eqb n) names = true -> normal n = Some n) ->
  module_load sha1_hex normal (compile_archive sha1_hex names) name = source_load normal names name.
Proof. intros sha1_hex normal names name Hinj Hn. exact (load_agrees sha1_hex Hinj normal names name Hn). Qed.
Print Assumptions C31_load_agrees_with_source.

(* one ModuleLoader object used by any number of environments, any history of loads (also of the
   same template): the k-th load gets namespace number k of its own, the final namespaces are
   exactly the environments of the loads in order — no load rebinds the `environment` of a template
   handed out earlier — and therefore every function of the k-th Template, called at any later
   time, runs with the environment that loaded it (digest without ".": it is hexadecimal) *)
Theorem C31_shared_loader_own_environment :
  forall (E C R : Type) (sha1_hex : str -> str) (package_name : str) (h : list (str * E)),
  (forall n, ~ In 46%N (sha1_hex n)) ->
  let (st, ids) := loads sha1_hex package_name l_empty h in
  ids = seq 0 (length h) /\
  l_nss st = map (fun ne => Some (snd ne)) h /\
  forall k n e (body : E -> C -> R) (c : C) fd,
    nth_error h k = Some (n, e) -> exec_def true None body = Some fd ->
    call fd (nth k (l_nss st) None) c = Done (body e c).
Proof.
  intros E C R sha1_hex package_name h Hhex.
  pose proof (loads_fresh E sha1_hex Hhex package_name h l_empty) as H.
  destruct (loads sha1_hex package_name l_empty h) as [st ids].
  destruct H as [H1 [H2 _]]; [intros a i []|]. cbn [l_nss l_empty app length] in *.
  split; [exact H2|]. split; [exact H1|].
  intros k n e body c fd Hk Hd. injection Hd as <-. rewrite H1.
  assert (Hn : nth k (map (fun ne : str * E => Some (snd ne)) h) None = Some e).
  { apply nth_error_nth. now rewrite nth_error_map, Hk. }
  rewrite Hn. reflexivity.
Qed.
Print Assumptions C31_shared_loader_own_environment.

Example C31_example :
  probe_case true None (Some 7%N) = Some (Done 7%N) /\ probe_case false (Some 7%N) None = Some (Done 7%N) /\
  probe_case true None None = Some NameError /\ probe_case false None (Some 7%N) = None /\
  probe_case false (Some 1%N) (Some 2%N) = Some (Done 1%N) /\ probe_case true (Some 1%N) (Some 2%N) = Some (Done 2%N).
Proof. vm_compute. repeat split; reflexivity. Qed.
