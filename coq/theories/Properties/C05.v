(* C05 — include and import honour the documented context visibility.
   Only statements closed by [exact <lemma>] (plus glue), each followed by Print Assumptions.
   Contexts, frame-local chains (innermost first, with shadowing), globals and template sets are
   arbitrary; x ranges over every variable name. *)
From Coq Require Import List NArith Bool Arith Lia.
Import ListNotations.
From JV Require Import Model.Imp Spec.ImpSpec Proofs.ImpProofs Proofs.ImpEquiv.
From JV Require Lib.PyImp.

(* include: `template.new_context(context.get_all(), True, {locals})` makes exactly the current
   locals (innermost first), then the current context's own variables, then its parent visible —
   the same lookup the including frame itself performs, and the documented concatenation;
   `without context`: exactly the target's globals *)
Theorem C05_include_visibility : forall (c : ctx) (L g : env) (x : name),
  resolve [] (include_ctx c L g) x = resolve L c x /\
  resolve [] (include_ctx c L g) x = resolve [] (vis_include c L g) x /\
  resolve [] (default_ctx g) x = dget x g.
Proof.
  intros c L g x. split; [exact (include_lookup c L g x)|]. split; [|exact (default_lookup g x)].
  rewrite include_lookup. symmetry. exact (vis_include_lookup c L g x).
Qed.
Print Assumptions C05_include_visibility.

(* import / from-import `with context` is make_module(context.get_all(), True, {locals}):
   the include rule (same constructor); without context (the default) the target sees its own
   globals first and then the importing template's globals — nothing else, in particular no render
   variable that happens to carry a global's name.  Full since the repair recorded in
   known_findings.d/C05.json (the values are taken from the globals mapping, not from ctx.parent);
   ctx_wf (globals_keys = keys of that mapping) holds for every context the engine builds. *)
Theorem C05_import_visibility : forall (c : ctx) (g : env),
  ctx_wf c ->
  exists c', import_ctx c g = Ok c' /\ ctx_wf c' /\
    forall x, resolve [] c' x = match dget x g with Some v => Some v | None => dget x (c_globals c) end.
Proof. intros c g H. exact (import_lookup c g H). Qed.
Print Assumptions C05_import_visibility.

Theorem C05_ctx_wf_constructed : forall vars shared g L, ctx_wf (new_context vars shared g L).
Proof. intros. exact (new_context_wf vars shared g L). Qed.
Print Assumptions C05_ctx_wf_constructed.

(* whole renders: for EVERY template set of the modelled language, every main template, render
   data and recursion bound, the interpreter run with the implementation's context constructors
   (copied / updated dicts, globals_keys difference, try-each selection) and run with the documented
   visibility rules (lookup order, first existing name) give the same text or the same exception,
   and the same module (body text and exported attributes) *)
Theorem C05_render_equiv : forall (fuel : nat) (ts : tset) (main : tname) (data : env),
  render fuel ts main data = spec_render fuel ts main data.
Proof. intros. exact (render_equiv_gen fuel ts main data). Qed.
Print Assumptions C05_render_equiv.

Theorem C05_module_equiv : forall (fuel : nat) (ts : tset) (main : tname),
  module_of fuel ts main = spec_module fuel ts main.
Proof. intros. exact (module_equiv_gen fuel ts main). Qed.
Print Assumptions C05_module_equiv.

(* a module exposes exactly the public names whose LAST top-level binder is an assignment or a
   macro: imported names are not re-exported, names starting with "_" never (for a body without extends: a
   template that extends exports in addition what its parent's top level exports, which is covered by
   C05_module_equiv and the tie) — for every template
   body, template set, recursion bound and either way of building contexts *)
Theorem C05_module_exports_exact : forall (P : policy) (ts : tset) (fuel : nat) (s s' : st) (body : list stmt) (x : name),
  no_extend body = true ->
  c_exported (s_ctx s) = [] -> run_body P ts fuel true s body = Ok s' ->
  mem x (c_exported (s_ctx s')) = exported_spec body x /\
  (dget x (get_exported (s_ctx s')) <> None -> exported_spec body x = true).
Proof.
  intros P ts fuel s s' body x Hn H0 H. split; [exact (exports_exact_gen P ts fuel s body s' x Hn H0 H)|].
  intros Hx. rewrite <- (exports_exact_gen P ts fuel s body s' x Hn H0 H). exact (get_exported_names (s_ctx s') x Hx).
Qed.
Print Assumptions C05_module_exports_exact.

(* `ignore missing` changes nothing unless the lookup itself finds no template: whatever the
   included template does (including a TemplateNotFound of its own includes) is what the plain
   include does *)
Theorem C05_ignore_missing_scope : forall (P : policy) (ts : tset) (fuel : nat) (top : bool) (s : st)
    (targets : list target) (il wc : bool),
  run_stmt P ts (S fuel) top s (SInclude targets il wc true) =
  match (if il then p_select P ts targets else match targets with t :: _ => get_target ts t | [] => None end) with
  | None => Ok s
  | Some _ => run_stmt P ts (S fuel) top s (SInclude targets il wc false)
  end.
Proof. intros. exact (ignore_missing_gen P ts fuel top s targets il wc). Qed.
Print Assumptions C05_ignore_missing_scope.

(* select_template's try-each loop returns the first name that exists *)
Theorem C05_select_first_existing : forall (ts : tset) (names : list target),
  select_template ts names = first_existing ts names.
Proof. intros. exact (select_first ts names). Qed.
Print Assumptions C05_select_first_existing.

(* translator tie, model side: what the current source of runtime.new_context computes (the
   reference result the regenerated file Gen_imp proves the source equal to) makes the same
   variables visible as Model.Imp.new_context and agrees on all other fields; what
   Template._get_default_module(ctx) computes is Model.Imp.import_ctx *)
Theorem C05_new_context_is_source : forall vars shared g (locals : PyImp.locals_t),
  NoDup (map fst locals) ->
  let c := PyImp.new_context_ref vars shared (Some g) (Some locals) in
  let m := Imp.new_context vars shared g (PyImp.nonmissing locals) in
  (forall x, dget x (c_parent c) = dget x (c_parent m)) /\
  c_vars c = c_vars m /\ c_exported c = c_exported m /\ c_gkeys c = c_gkeys m /\ c_globals c = c_globals m.
Proof. intros vars shared g locals H. exact (PyImp.new_context_ref_model vars shared g locals H). Qed.
Print Assumptions C05_new_context_is_source.

Theorem C05_default_module_is_source : forall g c,
  match PyImp.gdm_ref g false (Some c) None with
  | PyImp.GModule m _ => option_map Ok (PyImp.ctx_of_mod g m) = Some (import_ctx c g)
  | PyImp.GKeyError => import_ctx c g = Err EKey
  | PyImp.GRuntimeError => False
  end.
Proof. intros g c. exact (PyImp.gdm_ref_model g c). Qed.
Print Assumptions C05_default_module_is_source.

(* non-vacuity: main (global mg) sets a, loops over i and includes t1 with and without context,
   imports t1; t1 exports b and f1 but neither _p nor the imported name *)
Definition ex_t1 : template :=
  {| t_globals := [(7%N, VStr [71%N])];
     t_body := [SProbe 1%N; SProbe 11%N; SProbe 8%N; SSet 2%N (EConst [66%N]); SSet 100%N (EConst [80%N]);
                SMacro 20%N [70%N]; SSet 3%N (EConst [67%N]); SImport (ByName 3%N) 3%N false] |}.
Definition ex_main : template :=
  {| t_globals := [(7%N, VStr [71%N]); (8%N, VStr [77%N])];
     t_body := [SSet 1%N (EConst [65%N]);
                SScope KFor 11%N [[49%N]; [50%N]] [SInclude [ByName 9%N; ByName 2%N] true true false];
                SInclude [ByName 2%N] false false false;
                SImport (ByName 2%N) 30%N false; SProbeAttr 30%N 2%N; SProbeAttr 30%N 3%N; SProbeAttr 30%N 100%N;
                SProbeAttr 30%N 20%N] |}.
Definition ex_ts : tset := [(1%N, ex_main); (2%N, ex_t1); (3%N, {| t_globals := []; t_body := [] |})].
Example C05_example :
  render 50 ex_ts 1%N [] =
    Ok [65; 49; 77;  65; 50; 77;  63; 63; 63;  66; 63; 63; 77; 70]%N /\
  spec_render 50 ex_ts 1%N [] = render 50 ex_ts 1%N [] /\
  (forall x, In x [1; 2; 3; 20; 30; 100]%N -> exported_spec (t_body ex_t1) x = match x with 2%N | 20%N => true | _ => false end).
Proof.
  split; [vm_compute; reflexivity|]. split; [vm_compute; reflexivity|].
  intros x Hx. cbn in Hx. repeat (destruct Hx as [<-|Hx]; [vm_compute; reflexivity|]). contradiction.
Qed.
