(* C39 — the raw token stream is lossless and line-accurate.
   Only statements, each closed by a short proof ending in [exact <lemma>] (a few glue lines). *)
From Coq Require Import List NArith Bool Arith Lia.
Import ListNotations.
From JV Require Import Model.LexBase Model.LexTokeniter Spec.LexPlainSpec Proofs.LexInv Proofs.LexPlain Proofs.LexTotal.
Open Scope N_scope.

(* token values and dropped gaps, in order, are exactly the normalised source *)
Theorem C39_spans_tile : forall c src its,
  tokeniter c src = LexOk its -> texts its = normalize (c_keep c) src.
Proof.
  intros c src its H. pose proof (tokeniter_inv c src) as G. rewrite H in G.
  destruct G as (st' & G & _). exact G.
Qed.
Print Assumptions C39_spans_tile.

(* ... and up to a syntax error the yielded tokens tile a prefix of it; the error is
   reported on the line where the unconsumed rest starts *)
Theorem C39_spans_tile_prefix : forall c src its l m,
  tokeniter c src = LexSyntaxErr its l m ->
  exists rest, texts its ++ rest = normalize (c_keep c) src /\ l = 1 + count_nl (texts its).
Proof.
  intros c src its l m H. pose proof (tokeniter_inv c src) as G. rewrite H in G.
  destruct G as (rest & st' & G1 & _ & _ & _ & _ & G2). exists rest. exact (conj G1 G2).
Qed.
Print Assumptions C39_spans_tile_prefix.

(* what is dropped is whitespace only, each gap is non-empty, and an lstrip gap needs
   lstrip_blocks and lies within one line *)
Theorem C39_gaps_are_whitespace : forall c src its l1 g w l2,
  tokeniter c src = LexOk its -> its = l1 ++ IGap g w :: l2 ->
  forallb is_space g = true /\ g <> [] /\
  match w with GLstrip => c_lstrip c = true /\ count_nl g = 0 | GMinus => True end.
Proof.
  intros c src its l1 g w l2 H ->. pose proof (tokeniter_inv c src) as G. rewrite H in G.
  destruct G as (st' & _ & _ & _ & G & _). exact (gaps_ok_at c l1 g w l2 G).
Qed.
Print Assumptions C39_gaps_are_whitespace.

(* lineno of a token = 1 + number of line breaks in the source before its span *)
Theorem C39_token_lines : forall c src its l1 ln ty v p l2,
  tokeniter c src = LexOk its -> its = l1 ++ ITok ln ty v p :: l2 ->
  ln = 1 + count_nl (firstn (N.to_nat p) (normalize (c_keep c) src)).
Proof.
  intros c src its l1 ln ty v p l2 H ->. pose proof (tokeniter_inv c src) as G. rewrite H in G.
  destruct G as (st' & Gt & Gl & Gs & _).
  rewrite (starts_ok_at 0 l1 ln ty v p l2 Gs), N.add_0_l, Nat2N.id, <- Gt, texts_app, firstn_app,
    firstn_all, Nat.sub_diag. cbn [firstn]. rewrite app_nil_r. exact (lines_ok_at 1 l1 ln ty v p l2 Gl).
Qed.
Print Assumptions C39_token_lines.

(* the value of a token is the slice of the normalised source at its span *)
Theorem C39_value_is_span : forall c src its l1 ln ty v p l2,
  tokeniter c src = LexOk its -> its = l1 ++ ITok ln ty v p :: l2 ->
  p = N.of_nat (length (texts l1)) /\
  v = firstn (length v) (skipn (N.to_nat p) (normalize (c_keep c) src)).
Proof.
  intros c src its l1 ln ty v p l2 H ->. pose proof (tokeniter_inv c src) as G. rewrite H in G.
  destruct G as (st' & Gt & _ & Gs & _).
  pose proof (starts_ok_at 0 l1 ln ty v p l2 Gs) as Hp. rewrite N.add_0_l in Hp. split; [exact Hp|].
  rewrite Hp, Nat2N.id, <- Gt, texts_app. cbn [texts item_text]. symmetry. exact (slice_of_app _ _ _).
Qed.
Print Assumptions C39_value_is_span.

(* the token types follow the lexer's state machine (begin / inner / end tokens nest
   properly; data only at top level and inside raw blocks) *)
Theorem C39_stream_wellformed : forall c src its,
  tokeniter c src = LexOk its -> exists st', walk SRoot its = Some st'.
Proof.
  intros c src its H. pose proof (tokeniter_inv c src) as G. rewrite H in G.
  destruct G as (st' & _ & _ & _ & _ & G). exists st'. exact G.
Qed.
Print Assumptions C39_stream_wellformed.

(* totality: with non-empty start strings the model never runs out of fuel and never takes
   a RuntimeError branch, so every source is either tokenised or rejected with a syntax error *)
Theorem C39_total : forall c src, cfg_ok c = true ->
  (exists its, tokeniter c src = LexOk its) \/ (exists its l m, tokeniter c src = LexSyntaxErr its l m).
Proof.
  intros c src Hc. destruct (lex_fuel_adequate c src Hc) as [H1 H2].
  destruct (tokeniter c src) as [its|its l m|its i|] eqn:E; [left; eauto|right; eauto| |contradiction].
  exfalso. exact (H2 its i eq_refl).
Qed.
Print Assumptions C39_total.

(* non-vacuity: "a \n  {%- if x -%}\n b{# c\n #}\n{{ y }}" under trim_blocks + lstrip_blocks:
   a '-' gap containing a line break, a multi-line comment, tokens on lines 1, 2, 3, 4 *)
Example C39_example :
  raw_tokens (match tokeniter (cfg_default true true false [10])
      [97;32;10;32;32;123;37;45;32;105;102;32;120;32;45;37;125;10;32;98;123;35;32;99;10;32;35;125;10;123;123;32;121;32;125;125]
    with LexOk its => its | _ => [] end)
  = [(1, TData, [97]); (2, TBlockBegin, [123;37;45]); (2, TWs, [32]); (2, TName, [105;102]); (2, TWs, [32]);
     (2, TName, [120]); (2, TWs, [32]); (2, TBlockEnd, [45;37;125;10;32]); (3, TData, [98]);
     (3, TCommentBegin, [123;35]); (3, TComment, [32;99;10;32]); (4, TCommentEnd, [35;125;10]);
     (5, TVarBegin, [123;123]); (5, TWs, [32]); (5, TName, [121]); (5, TWs, [32]); (5, TVarEnd, [125;125])].
Proof. vm_compute. reflexivity. Qed.
