(* C03 — statements and variable scoping follow Jinja's scoping rules.
   FrameExec : how the generated code runs (Model/ScopeFrameExec.v, symbols from the exact model
   of idtracking.py); SpecStmt : the documented scoping rules (Spec/ScopeSpecStmt.v). *)
From Coq Require Import List NArith ZArith Bool.
Import ListNotations.
From JV Require Import Model.ScopeAst Model.ScopeIdTrack Model.ScopeGuards Model.ScopeFrameExec
  Spec.ScopeSpecStmt Proofs.ScopeSymProofs Proofs.ScopeEraseProofs Proofs.ScopeC03Proofs Proofs.ScopeAlphaProofs.

(* static: a name resolves to the frame's own variable when the frame mentions it — as a
   parameter of the construct, as a variable assigned here (initialised from the enclosing
   binding or undefined), or as a context lookup when no enclosing frame binds it — and to
   the enclosing frames' decision otherwise *)
Theorem binding_sound : forall P ps body x id,
  let S := mk_frame P ps body in
  find_ref (S :: P) x = Some id ->
  (hasref S x /\ id = (s_level S, x) /\
   exists l, dget ident_eqb id (s_loads S) = Some l /\
     ((In x ps /\ l = LParam) \/
      (~ In x ps /\ exists o, l = LAlias o /\ find_ref P x = Some o) \/
      (~ In x ps /\ l = LUndef /\ find_ref P x = None) \/
      (~ In x ps /\ l = LResolve x /\ find_ref P x = None)))
  \/ (~ hasref S x /\ find_ref P x = Some id).
Proof. exact binding_sound_thm. Qed.
Print Assumptions binding_sound.

Theorem binding_covers : forall P ps body,
  let S := mk_frame P ps body in covers_l P S body /\ (forall x, In x ps -> hasref S x).
Proof. exact binding_covers_thm. Qed.
Print Assumptions binding_covers.

(* dynamic: for EVERY program of the fragment {output, if/elif/else, for (target, else, loop
   filter, loop.index), set, set ns.a, namespace(), block set, with (targets evaluated outside the
   new scope), filter block}, every render arguments d and every fuel, the generated code renders
   what the scoping rules define and exports the same variables — under the decidable guards
     wf_names  : reserved names (loop, caller, namespace, ...) are never assigned,
     noalias   : CPython's identifier normalisation is injective on the program's names,
     guard_rbw : no name a frame initialises as `undefined` is supplied by the context.
   The loop filter runs as its own Python function (activation) whose locals persist across
   items; the with-targets are written after the frame is entered.
   Missing constructs (carried by correspondence only): macros, macro calls, call blocks. *)
Theorem scoping_correct_loopfilter_with : forall (pynorm : name -> name) (priv : name -> bool) d p,
  core2_prog p = true -> wf_names p = true -> noalias pynorm p = true -> guard_rbw p d = true ->
  forall fuel, frender pynorm priv d fuel p = srender priv d fuel p.
Proof. exact scoping_correct_ext_thm. Qed.
Print Assumptions scoping_correct_loopfilter_with.

(* macros, step 1 — macro DEFINITIONS at top level (the root frame, also inside if-branches): the
   closure is stored, exported, printed, tested for truth, copied by assignments — but never called.
   For render arguments without macro objects.  Proof: the generated code equals an instrumented
   reference interpreter that keeps in the two closure fields the semantics never reads what the
   generated code keeps there (plain equality of values), and the reference interpreter computes the
   erasure of the instrumented one (sx_erase).
   Missing constructs: macro CALLS and call blocks, macro definitions inside inner scopes. *)
Theorem scoping_correct_macrodefs : forall (pynorm : name -> name) (priv : name -> bool) d p,
  core3_prog true p = true -> wf_names p = true -> noalias pynorm p = true -> guard_rbw p d = true ->
  (forall x v, dget N.eqb x d = Some v -> cfree' v) ->
  forall fuel, frender pynorm priv d fuel p = srender priv d fuel p.
Proof. exact scoping_correct_macrodefs_thm. Qed.
Print Assumptions scoping_correct_macrodefs.

(* the first-round statement (no loop filter, no with-targets) is the special case *)
Theorem scoping_correct_core : forall (pynorm : name -> name) (priv : name -> bool) d p,
  core_prog p = true -> wf_names p = true -> noalias pynorm p = true -> guard_rbw p d = true ->
  forall fuel, frender pynorm priv d fuel p = srender priv d fuel p.
Proof. exact scoping_correct_core_thm. Qed.
Print Assumptions scoping_correct_core.

(* fuel adequacy: in this fragment recursion is structural; with more fuel than statements
   neither interpreter runs out of fuel, so the equality above is about genuine results *)
Theorem C03_fuel_adequate : forall (pynorm : name -> name) (priv : name -> bool) d p fuel,
  core2_prog p = true -> wf_names p = true -> noalias pynorm p = true -> guard_rbw p d = true ->
  (ssize_l p < fuel)%nat ->
  srender priv d fuel p <> Err EFuel /\ frender pynorm priv d fuel p <> Err EFuel.
Proof.
  intros pynorm priv d p fuel Hc Hw Hn Hg Hs. split.
  - exact (fuel_adequate_thm priv d p fuel Hc Hs).
  - rewrite (scoping_correct_loopfilter_with pynorm priv d p Hc Hw Hn Hg fuel). exact (fuel_adequate_thm priv d p fuel Hc Hs).
Qed.
Print Assumptions C03_fuel_adequate.

(* alpha invariance: renaming the variables of the template and of the render arguments by an
   injective function that fixes the reserved names the semantics mentions (loop, namespace) and
   respects the underscore convention does not change the rendered text; the exported variables
   are renamed.  For the reference semantics on the whole proved fragment, and as a corollary for
   the generated code (both programs under the guards of scoping_correct_loopfilter_with). *)
Theorem alpha_invariance_spec : forall (rho : name -> name) d (priv priv' : name -> bool) fuel p,
  (forall x y, rho x = rho y -> x = y) -> rho n_loop = n_loop -> rho n_namespace = n_namespace ->
  (forall x, priv' (rho x) = priv x) -> core2_prog p = true ->
  srender priv' (rd rho d) fuel (rprog rho p) = robs rho (srender priv d fuel p).
Proof. intros rho d priv priv' fuel p Hi Hl Hn Hp Hc. exact (srender_alpha rho Hi Hl Hn d priv priv' Hp fuel p Hc). Qed.
Print Assumptions alpha_invariance_spec.

Theorem alpha_invariance : forall (rho : name -> name) d (priv priv' : name -> bool) pynorm fuel p,
  (forall x y, rho x = rho y -> x = y) -> rho n_loop = n_loop -> rho n_namespace = n_namespace ->
  (forall x, priv' (rho x) = priv x) ->
  core2_prog p = true -> wf_names p = true -> noalias pynorm p = true -> guard_rbw p d = true ->
  core2_prog (rprog rho p) = true -> wf_names (rprog rho p) = true -> noalias pynorm (rprog rho p) = true ->
  guard_rbw (rprog rho p) (rd rho d) = true ->
  frender pynorm priv' (rd rho d) fuel (rprog rho p) = robs rho (frender pynorm priv d fuel p).
Proof.
  intros rho d priv priv' pynorm fuel p Hi Hl Hn Hp. exact (frender_alpha rho Hi Hl Hn d priv priv' Hp pynorm fuel p).
Qed.
Print Assumptions alpha_invariance.

Open Scope N_scope.
(* the guards are needed.  a = 10, b = 11, i = 12, x = 13 *)
Definition idn (x : name) : name := x.
Definition nopriv (x : name) : bool := false.

(* NoAlias: {% set a = 1 %}{% set b = 2 %}{{ a }} with pynorm a = pynorm b renders 2 *)
Definition p_alias : list stmt := [SSet 10 (EInt 1%Z); SSet 11 (EInt 2%Z); SOut [EName 10]].
Definition norm_alias (x : name) : name := if N.eqb x 10 then 11 else x.
Theorem C03_alias_refuted :
  core_prog p_alias = true /\ wf_names p_alias = true /\ guard_rbw p_alias [] = true /\
  frender norm_alias nopriv [] 20%nat p_alias <> srender nopriv [] 20%nat p_alias.
Proof. vm_compute. repeat split; discriminate. Qed.

(* read-before-write through an inner scope:
   {% for i in x %}{{ a }}{% endfor %}{% set a = 1 %} with a = 5, x = [0] renders '' *)
Definition p_rbw : list stmt := [SFor 12 (EName 13) None [SOut [EName 10]] []; SSet 10 (EInt 1%Z)].
Definition d_rbw : list (name * value) := [(10, VInt 5%Z); (13, VList [VInt 0%Z])].
Theorem scoping_refuted_rbw :
  core_prog p_rbw = true /\ wf_names p_rbw = true /\ noalias idn p_rbw = true /\
  frender idn nopriv d_rbw 20%nat p_rbw = Ok ([], [(10, [49])]) /\
  srender nopriv d_rbw 20%nat p_rbw = Ok ([53], [(10, [49])]).
Proof. vm_compute. repeat split. Qed.

(* non-vacuity: shadowing in a loop, a conditional store, a block set, a namespace cell *)
Definition p_ex : list stmt :=
  [ SSet 10 (EInt 1%Z);
    SNsNew 14 [(1, EInt 0%Z)];
    SFor 12 (EName 13) None
      [ SIf (EName 12) [SSet 10 (EName 12)] [] [];
        SSetAttr 14 1 (EAdd (EAttr 14 1) (EName 12));
        SOut [ECat (EName 10) (EAttr 0 0)] ] [];
    SSetBlock 11 [SFilter FUpper [SOut [EStr [120]; EName 10]]];
    SOut [EName 10; EName 11; EAttr 14 1] ].
Definition d_ex : list (name * value) := [(13, VList [VInt 0%Z; VInt 7%Z])].
Example C03_example :
  core_prog p_ex = true /\ wf_names p_ex = true /\ noalias idn p_ex = true /\ guard_rbw p_ex d_ex = true /\
  frender idn nopriv d_ex 20%nat p_ex = Ok ([49; 49; 55; 50; 49; 88; 49; 55], [(10, [49]); (14, ns_text); (11, [39; 88; 49; 39])]).
Proof. vm_compute. repeat split. Qed.

(* non-vacuity of the extended fragment: a loop filter reading an outer variable and the loop
   target, with-targets evaluated outside the new scope *)
Definition p_ex2 : list stmt :=
  [ SSet 10 (EInt 1%Z);
    SFor 12 (EName 13) (Some (EAdd (EName 12) (EName 10)))
      [ SWith [(10, EAdd (EName 10) (EName 12)); (11, EName 10)] [SOut [EName 10; EName 11; EAttr 0 0]] ] [SOut [EStr [120]]] ].
Definition d_ex2 : list (name * value) := [(13, VList [VInt (-1)%Z; VInt 4%Z])].
Example C03_example_ext :
  core2_prog p_ex2 = true /\ core_prog p_ex2 = false /\ wf_names p_ex2 = true /\ noalias idn p_ex2 = true /\
  guard_rbw p_ex2 d_ex2 = true /\
  frender idn nopriv d_ex2 20%nat p_ex2 = Ok ([53; 49; 49], [(10, [49])]).
Proof. vm_compute. repeat split. Qed.

(* non-vacuity of the macro-definition step: a macro defined under an if, exported, printed, copied *)
Definition p_ex3 : list stmt :=
  [ SIf (EName 13) [SMacro 20 [10] [SOut [EName 10; EName 11]]] [] [SSet 20 (EInt 0%Z)];
    SSet 11 (EName 20); SOut [EName 20; EName 11]; SIf (EName 11) [SOut [EStr [121]]] [] [] ].
Example C03_example_macrodefs :
  core3_prog true p_ex3 = true /\ core2_prog p_ex3 = false /\ wf_names p_ex3 = true /\ guard_rbw p_ex3 [(13, VInt 1%Z)] = true /\
  frender idn nopriv [(13, VInt 1%Z)] 20%nat p_ex3 =
    Ok (macro_text 20 ++ macro_text 20 ++ [121], [(20, macro_text 20); (11, macro_text 20)]).
Proof. vm_compute. repeat split. Qed.
