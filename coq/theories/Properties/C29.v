(* C29 — rendering is repeatable and does not modify its inputs.
   Only statements, each closed by [exact <lemma>], followed by Print Assumptions.
   G is the (arbitrary) function giving the value each cache cell is meant to hold; its only
   assumed law is that it reads nothing but the read-only regions. *)
From Coq Require Import List NArith Bool.
Import ListNotations.
From JV Require Import Model.Frames Model.FramesSched Proofs.FramesProofs Proofs.FramesSchedProofs.

Definition cache_fn_ok (G : loc -> heap -> N) : Prop :=
  forall c h1 h2, (forall l, ro l = true -> h1 l = h2 l) -> G c h1 = G c h2.

(* Steps that write only their render's own region, or fill a cache once with a value that is a
   function of the read-only regions, (1) leave data, environment globals and template
   globals unchanged and (2) commute with the steps of every other render: in any
   interleaving, render a ends with exactly the private state (hence output) it reaches when
   its steps run alone. *)
Theorem C29_frame_noninterference :
  forall (G : loc -> heap -> N), cache_fn_ok G ->
  forall (a : N) (s : list (N * pstep)) (h : heap),
  sched_ok G s -> cache_inv G h ->
  (forall l, ro l = true -> run_sched G s h l = h l) /\
  (forall n, run_sched G s h (PerRender a, n) = run_sched G (only a s) h (PerRender a, n)).
Proof.
  intros G HG a s h K I. split.
  - exact (inputs_unchanged G s h (proj1 K)).
  - exact (noninterference G HG a s h K I).
Qed.
Print Assumptions C29_frame_noninterference.

(* rendering the same template again - after itself and after any other renders - gives the
   same output *)
Theorem C29_repeatable :
  forall (G : loc -> heap -> N), cache_fn_ok G ->
  forall (a b : N) (p : list pstep) (others : list (N * pstep)) (h : heap),
  a <> b -> sched_ok G (tag a p) -> sched_ok G others -> only b others = [] -> cache_inv G h ->
  (forall n, h (PerRender a, n) = h (PerRender b, n)) ->
  forall n, run_sched G (tag a p ++ others ++ tag b p) h (PerRender b, n) = run_sched G (tag a p) h (PerRender a, n).
Proof. intros G HG a b p others h. exact (repeatable G HG a b p others h). Qed.
Print Assumptions C29_repeatable.

(* ... after other templates, in any order: whatever ran before does not matter *)
Theorem C29_order_independent :
  forall (G : loc -> heap -> N), cache_fn_ok G ->
  forall (a : N) (p : list pstep) (before : list (N * pstep)) (h : heap),
  sched_ok G before -> sched_ok G (tag a p) -> only a before = [] -> cache_inv G h ->
  forall n, run_sched G (before ++ tag a p) h (PerRender a, n) = run_sched G (tag a p) h (PerRender a, n).
Proof.
  intros G HG a p before h Kb Ka Hb I n.
  rewrite (noninterference G HG a _ h (sched_ok_app G before (tag a p) Kb Ka) I n).
  now rewrite only_app, Hb, only_tag_same.
Qed.
Print Assumptions C29_order_independent.

(* ... and from several threads at once: every interleaving at step granularity *)
Theorem C29_thread_independent :
  forall (G : loc -> heap -> N), cache_fn_ok G ->
  forall (a : N) (s : list (N * pstep)) (h : heap),
  sched_ok G s -> cache_inv G h ->
  forall n, run_sched G s h (PerRender a, n) = run_sched G (only a s) h (PerRender a, n).
Proof. intros G HG a s h. exact (noninterference G HG a s h). Qed.
Print Assumptions C29_thread_independent.

(* the footprint premise is needed: a step that accumulates into the caller's data (what the
   async sum filter did with `rv = start; rv += x`) changes the input and makes the second
   render differ from the first *)
Theorem C29_accumulate_refuted :
  let G := fun (_ : loc) (_ : heap) => 0%N in
  let p := [PData 0 (fun _ h => h (Data, 0%N) + 1)%N; PPriv 0 (fun _ h => h (Data, 0%N))] in
  let h0 := fun _ : loc => 0%N in
  footprint_ok (tag 1 p) = false /\
  run_sched G (tag 1 p) h0 (Data, 0%N) <> h0 (Data, 0%N) /\
  run_sched G (tag 1 p ++ tag 2 p) h0 (PerRender 2, 0%N) <> run_sched G (tag 1 p) h0 (PerRender 1, 0%N).
Proof. vm_compute. repeat split; discriminate. Qed.
Print Assumptions C29_accumulate_refuted.

(* non-vacuity: two renders interleaved, both read a global and read through a module cache
   that one of them fills; results equal the isolated ones, the global is untouched *)
Example C29_example :
  let G := fun (c : loc) (h : heap) => (h (EnvGlobals, 0%N) + 40)%N in
  let rt := fun (h : heap) => if N.eqb (h (ModuleCache, 0%N)) 0 then G (ModuleCache, 0%N) h else h (ModuleCache, 0%N) in
  let p := [PFill (ModuleCache, 0%N); PPriv 0 (fun _ h => rt h + h (Data, 1%N))%N; PPriv 1 (fun v _ => v 0%N * 2)%N] in
  let h0 := fun l : loc => if loc_eqb l (EnvGlobals, 0%N) then 2%N else if loc_eqb l (Data, 1%N) then 5%N else 0%N in
  let s := [(1, nth 0 p (PFill (Caches, 0)));  (2, nth 0 p (PFill (Caches, 0))); (2, nth 1 p (PFill (Caches, 0)));
            (1, nth 1 p (PFill (Caches, 0))); (1, nth 2 p (PFill (Caches, 0))); (2, nth 2 p (PFill (Caches, 0)))]%N in
  footprint_ok s = true /\
  run_sched G s h0 (PerRender 1, 1%N) = 94%N /\ run_sched G s h0 (PerRender 2, 1%N) = 94%N /\
  run_sched G (tag 1 p) h0 (PerRender 1, 1%N) = 94%N /\
  run_sched G s h0 (EnvGlobals, 0%N) = 2%N /\ run_sched G s h0 (ModuleCache, 0%N) = 42%N.
Proof. vm_compute. repeat split; reflexivity. Qed.
