(* C06 — macro argument binding follows the documented macro calling rules.
   Only statements, each closed by [exact <lemma>], followed by Print Assumptions. *)
From Coq Require Import List NArith Bool Arith Lia.
Import ListNotations.
From JV Require Import Model.Macro Spec.MacroSpec Proofs.MacroProofs.
Open Scope N_scope.

(* Macro.__call__ realises exactly the documented outcome: for every signature with distinct
   parameter names and every call with distinct keyword names, the argument list handed to
   the generated function (or the TypeError) is the one the binding rules prescribe, and
   nothing else is *)
Theorem C06_bind_refines : forall (s : rsig) (c : call) (r : bres),
  wf_sig s -> wf_call c -> (matches (macro_call s c) r <-> binds s c r).
Proof. exact bind_refines. Qed.
Print Assumptions C06_bind_refines.

(* the rules determine the outcome, and always give one *)
Theorem C06_binds_functional : forall s c r1 r2, binds s c r1 -> binds s c r2 -> r1 = r2.
Proof. exact binds_functional. Qed.
Print Assumptions C06_binds_functional.

Theorem C06_binds_total : forall s c, exists r, binds s c r.
Proof. exact binds_total. Qed.
Print Assumptions C06_binds_total.

(* the executable form of the rules used as oracle is the relation *)
Theorem C06_oracle_is_spec : forall s c r, binds s c r <-> spec_bind s c = r.
Proof. exact binds_iff_spec. Qed.
Print Assumptions C06_oracle_is_spec.

(* compiler / runtime contract: the i-th Python parameter emitted by macro_body receives
   the i-th element Macro.__call__ appends — for every definition the compiler accepts and
   every call (no hypothesis on names) *)
Theorem C06_protocol_agrees : forall d py s c l,
  macro_body_sig d = COk py s -> macro_call s c = Ok l -> slots_ok py l = true.
Proof. exact protocol_agrees. Qed.
Print Assumptions C06_protocol_agrees.

(* so entering the generated function never fails with CPython's arity TypeError *)
Theorem C06_no_arity_error : forall d outer c, invoke d outer c <> Some (Err EArity).
Proof. exact invoke_no_arity_error. Qed.
Print Assumptions C06_no_arity_error.

(* unfilled parameters take their default evaluated at call time (earlier parameters with
   their final values, later ones as passed, other names in the enclosing scope of the
   call), or are undefined *)
Theorem C06_defaults_at_call_time : forall d outer l0,
  NoDup (d_params d) -> map fst l0 = d_params d ->
  let lf := prologue_go d outer (d_params d) 0 l0 in
  map fst lf = d_params d /\
  forall i p, nth_error (d_params d) i = Some p ->
    nth_error lf i = Some (p, Some (final_value d outer l0 lf i p)).
Proof. exact defaults_at_call_time. Qed.
Print Assumptions C06_defaults_at_call_time.

(* calling from Python (Template.module.m(...), no EvalContext argument) binds like calling
   from a template *)
Theorem C06_module_call_same : forall s da a vs kw,
  snd (macro_entry s da (REvalCtx a :: map RVal vs) kw) = snd (macro_entry s da (map RVal vs) kw).
Proof. exact module_call_same. Qed.
Print Assumptions C06_module_call_same.

(* the hypothesis on parameter names is needed (the engine rejects such a definition when it
   compiles the generated module): with a duplicated parameter the keyword is consumed once *)
Theorem C06_dup_params_refuted : exists s c,
  wf_call c /\ ~ matches (macro_call s c) (spec_bind s c).
Proof.
  exists {| r_args := [3; 3]; r_kwargs := false; r_varargs := false; r_caller := false |},
         {| c_args := []; c_kw := [(3, VInt 1)] |}.
  split; [repeat constructor; cbn; tauto|]. vm_compute. intros H. discriminate H.
Qed.

(* the input of the repaired defect: explicit caller parameter filled positionally while a
   later parameter is not — one value per Python parameter *)
Example C06_explicit_caller_positional :
  invoke {| d_params := [n_caller; 3]; d_defaults := [DConst VNone; DConst (VInt 1)];
            u_caller := true; u_kwargs := false; u_varargs := false |}
         (fun _ => None) {| c_args := [VInt 5]; c_kw := [] |}
  = Some (Ok {| f_params := [(n_caller, Some (VInt 5)); (3, Some (VInt 1))];
                f_caller := None; f_kwargs := None; f_varargs := None |}).
Proof. vm_compute. reflexivity. Qed.

(* non-vacuity: positional + keyword + default referring to an earlier parameter + kwargs +
   varargs + caller from a call block *)
Example C06_example :
  invoke {| d_params := [3; 4; 5]; d_defaults := [DRef 3; DConst (VInt 9)];
            u_caller := true; u_kwargs := true; u_varargs := true |}
         (fun _ => None)
         {| c_args := [VInt 1]; c_kw := [(5, VInt 2); (20, VInt 3); (n_caller, VMacro)] |}
  = Some (Ok {| f_params := [(3, Some (VInt 1)); (4, Some (VInt 1)); (5, Some (VInt 2))];
                f_caller := Some VMacro; f_kwargs := Some [(20, VInt 3)]; f_varargs := Some [] |}).
Proof. vm_compute. reflexivity. Qed.
