(* C02 — compiled expressions evaluate as the documented expression semantics.
   S = Spec/ExprSpec.eval (written from docs/templates.rst), M = Model/ExprTarget (gen, py_eval),
   Model/ExprFold (optimizer in front of gen), Model/ExprParser (parser). *)
From Coq Require Import List NArith ZArith Bool Lia.
Import ListNotations.
From JV Require Import Model.ExprAst Model.ExprPrim Spec.ExprSpec Model.ExprTarget Model.ExprFold
  Proofs.ExprProofs Proofs.ExprFoldProofs.

(* For every expression, every context, every event history, every amount of fuel and every
   configuration (default / async / sandboxed with any set of intercepted operators and any
   hooks / autoescape off, on, or decided at run time by an autoescape block): the Python expression the
   code generator emits evaluates to what the documented semantics says — same value or same
   error class, same calls of opaque callables and hook applications in the same order. *)
Theorem C02_compile_expr_correct : forall (O : oracles) (c : cfg),
  coherent c ->
  forall (n : nat) (e : expr) (rho : env) (l : list event),
    py_eval O c n (gen c e) rho l = eval O c n e rho l.
Proof. intros O c Hco. exact (gen_correct O c Hco). Qed.
Print Assumptions C02_compile_expr_correct.

(* the same through the optimizer (Environment(optimized=True), the default), given fuel for
   the nesting depth of the source expression *)
Theorem C02_compile_expr_correct_optimized : forall (O : oracles) (c : cfg),
  coherent c ->
  forall (n : nat) (e : expr), depth e <= n -> forall (rho : env) (l : list event),
    py_eval O c n (gen_opt O c e) rho l = eval O c n e rho l.
Proof. intros O c Hco. exact (gen_opt_correct O c Hco). Qed.
Print Assumptions C02_compile_expr_correct_optimized.

(* attribute syntax prefers the attribute: environment.getattr on a value that has both *)
Theorem C02_getattr_prefers_attr : forall (c : cfg) (O : oracles) (v : value) (name : str) (x : value),
  is_undef v = false -> attr_of O v name = Some x ->
  env_getattr c O v name = Ok (guard_attr c name x).
Proof. intros c O v name x Hu Ha. rewrite env_getattr_spec. exact (spec_getattr_prefers_attr c O v name x Hu Ha). Qed.
Print Assumptions C02_getattr_prefers_attr.

(* subscript syntax prefers the item *)
Theorem C02_getitem_prefers_item : forall (c : cfg) (O : oracles) (v k x : value),
  is_undef v = false -> item_of v k = Some x -> env_getitem c O v k = Ok x.
Proof. intros c O v k x Hu Hi. rewrite env_getitem_spec. exact (spec_getitem_prefers_item c O v k x Hu Hi). Qed.
Print Assumptions C02_getitem_prefers_item.

(* each syntax falls back to the other lookup *)
Theorem C02_fallbacks : forall (c : cfg) (O : oracles) (v : value) (name : str) (x : value),
  is_undef v = false ->
  (attr_of O v name = None -> item_of v (VStr name) = Some x -> env_getattr c O v name = Ok x) /\
  (item_of v (VStr name) = None -> attr_of O v name = Some x -> env_getitem c O v (VStr name) = Ok (guard_attr c name x)).
Proof.
  intros c O v name x Hu. split; intros H1 H2.
  - rewrite env_getattr_spec. exact (spec_getattr_falls_back c O v name x Hu H1 H2).
  - rewrite env_getitem_spec. exact (spec_getitem_falls_back c O v name x Hu H1 H2).
Qed.
Print Assumptions C02_fallbacks.

(* missing values become the environment's undefined object: names, attributes, items *)
Theorem C02_missing_is_undefined : forall (c : cfg) (O : oracles),
  (forall (n : nat) (x : str) (rho : env) (l : list event),
      assoc_s x rho = None -> py_eval O c (S n) (gen c (EName x)) rho l = (Ok (VUndef (UName x)), l)) /\
  (forall (v : value) (name : str),
      is_undef v = false -> attr_of O v name = None -> item_of v (VStr name) = None ->
      env_getattr c O v name = Ok (VUndef (UAttr name)) /\ env_getitem c O v (VStr name) = Ok (VUndef (UAttr name))).
Proof.
  intros c O. split.
  - intros n x rho l H. cbn. rewrite H. reflexivity.
  - intros v name Hu Ha Hi. rewrite env_getattr_spec, env_getitem_spec. exact (spec_missing_undefined c O v name Hu Ha Hi).
Qed.
Print Assumptions C02_missing_is_undefined.

(* Environment.compile_expression: the `result = <expr>` wrapper and undefined_to_none *)
Definition undefined_to_none (v : value) : value := if is_undef v then VNone else v.
Theorem C02_compile_expression_correct : forall (O : oracles) (c : cfg),
  coherent c ->
  forall (n : nat) (e : expr), depth e <= n -> forall (rho : env) (l : list event),
    (v <- py_eval O c n (gen_opt O c e) rho ;; ret (undefined_to_none v)) l
    = (v <- eval O c n e rho ;; ret (undefined_to_none v)) l.
Proof.
  intros O c Hco n e Hd rho l. apply bind_ext; [|reflexivity].
  exact (gen_opt_correct O c Hco n e Hd rho).
Qed.
Print Assumptions C02_compile_expression_correct.

(* non-vacuity: o.a on an object with attribute a = 1 and item 'a' = 2 yields 1, o['a'] yields 2,
   o.zz (item only) yields the item, o.nope is undefined; 2 ** 3 ** 2 is (2 ** 3) ** 2 *)
Example C02_example :
  let o := VObj 1 [([97%N], VInt 1)] [(VStr [97%N], VInt 2); (VStr [122%N; 122%N], VInt 3)] in
  let c := {| sandboxed := false; ibin := fun _ => false; iun := fun _ => false;
                 is_async := false; autoescape := false; volatile := false; rt_autoescape := false; optimized := true;
                 hook_bin := prim_bin; hook_un := prim_un |} in
  let run := fun e => fst (py_eval none_oracles c 5 (gen c e) [([111%N], o)] []) in
  run (EGetattr (EName [111%N]) [97%N]) = Ok (VInt 1) /\
  run (EGetitem (EName [111%N]) (EConst (VStr [97%N]))) = Ok (VInt 2) /\
  run (EGetattr (EName [111%N]) [122%N; 122%N]) = Ok (VInt 3) /\
  run (EGetattr (EName [111%N]) [110%N]) = Ok (VUndef (UAttr [110%N])) /\
  run (EBin Pow (EBin Pow (EConst (VInt 2)) (EConst (VInt 3))) (EConst (VInt 2))) = Ok (VInt 64).
Proof. vm_compute. repeat split; reflexivity. Qed.

(* parse_unparse — the precedence / associativity table as a theorem.  [unparse] prints an
   expression with parentheses only where a child's level is lower than its position requires
   (Model/ExprUnparse.v: 13 levels from the conditional expression down to primaries; left
   operands of or / and / + - / * / // % / ** , filter and postfix chains are printed at the
   same level, i.e. the chains are left-associative, including the left-to-right **; unary
   minus binds tighter than ** and looser than postfix; a filter binds looser than unary minus;
   comparison chains and ~ are flat; the else branch nests to the right).  For every
   expression of the AST in printable normal form ([wf]: non-negative int / str / bool / none
   constants, non-reserved names, >= 2 operands for ~, >= 1 for a comparison chain, test name
   other than `not`), the parser run on the printed tokens returns exactly that expression and
   consumes all tokens, for every sufficiently large fuel. *)
From JV Require Import Model.ExprParser Model.ExprUnparse Proofs.ExprParseMain.
Theorem C02_parse_unparse : forall (e : expr), wf e = true ->
  exists m0, forall m, m0 <= m -> p_cond (kit_of m) (unparse e) = ROk e [].
Proof. exact parse_unparse_enough_fuel. Qed.
Print Assumptions C02_parse_unparse.

(* the same for parse_expr (Parser.parse_expression + end-of-stream check) at a given fuel *)
Definition parse_expr_at (m : nat) (ts : list tok) : pres expr :=
  match p_cond (kit_of m) ts with ROk e [] => ROk e [] | ROk _ rest => RErr rest | x => x end.
Theorem C02_parse_expr_default_fuel : forall ts, parse_expr ts = parse_expr_at (40 * (length ts + 2)) ts.
Proof. reflexivity. Qed.
Theorem C02_parse_unparse_expr : forall (e : expr), wf e = true ->
  exists m0, forall m, m0 <= m -> parse_expr_at m (unparse e) = ROk e [].
Proof.
  intros e Hw. destruct (parse_unparse_enough_fuel e Hw) as [m0 H]. exists m0. intros m Hm.
  unfold parse_expr_at. rewrite (H m Hm). reflexivity.
Qed.
Print Assumptions C02_parse_unparse_expr.

(* computed instances (default fuel of parse_expr): left-to-right **, unary minus, filter,
   not / in, chained comparison, ~ flattening *)
Example C02_parse_examples :
  let n := fun z => KInt z in let v := fun c => KName [c] in
  let a := EName [97%N] in let b := EName [98%N] in let c := EName [99%N] in
  parse_expr [v 97%N; KOp OPow; v 98%N; KOp OPow; v 99%N] = ROk (EBin Pow (EBin Pow a b) c) [] /\
  parse_expr [KOp OSub; v 97%N; KOp OPow; v 98%N] = ROk (EBin Pow (EUn Neg a) b) [] /\
  parse_expr [KOp OSub; n 1%Z; KOp OPipe; v 98%N] = ROk (EFilter (EUn Neg (EConst (VInt 1))) [98%N] []) [] /\
  parse_expr [KName k_not; v 97%N; KName k_in; v 98%N] = ROk (ENot (ECompare a [(CIn, b)])) [] /\
  parse_expr [v 97%N; KOp OLt; v 98%N; KOp OLe; v 99%N] = ROk (ECompare a [(CLt, b); (CLe, c)]) [] /\
  parse_expr [v 97%N; KOp OAdd; v 98%N; KOp OTilde; v 99%N; KOp OMul; v 97%N]
    = ROk (EBin Add a (EConcat [b; EBin Mul c a])) [] /\
  parse_expr [v 97%N; KOp OAdd] = RErr [] /\
  unparse (EBin Pow (EBin Pow a b) (EUn Neg c)) = [v 97%N; KOp OPow; v 98%N; KOp OPow; KOp OSub; v 99%N] /\
  unparse (EBin Pow a (EBin Pow b c)) = [v 97%N; KOp OPow; KOp OLParen; v 98%N; KOp OPow; v 99%N; KOp ORParen] /\
  unparse (EBin Mul (EBin Add a b) c) = [KOp OLParen; v 97%N; KOp OAdd; v 98%N; KOp ORParen; KOp OMul; v 99%N].
Proof. vm_compute. repeat split; reflexivity. Qed.
