(* C01, lexer half: for every source string and every configuration whose start delimiters are
   non-empty, the tokeniter model terminates within its built-in fuel (no hang), never reaches
   one of the RuntimeError branches of lexer.tokeniter, and reports a syntax error only on a
   line of the source.  Lemmas from the lexer development (Proofs/LexTotal.v), whose model is
   tied to jinja2.lexer by the C39 / C11 correspondence runs. *)
From Coq Require Import List NArith Bool Arith Lia.
Import ListNotations.
From JV Require Import Model.LexBase Model.LexTokeniter Spec.LexPlainSpec Proofs.LexTotal.
Open Scope N_scope.

Theorem C01_lex_terminates_no_internal : forall (c : cfg) (src : str), cfg_ok c = true ->
  tokeniter c src <> LexOutOfFuel /\ (forall its i, tokeniter c src <> LexInternal its i).
Proof. exact lex_fuel_adequate. Qed.
Print Assumptions C01_lex_terminates_no_internal.

Theorem C01_lex_error_line_in_source : forall (c : cfg) (src : str) its l m,
  tokeniter c src = LexSyntaxErr its l m -> 1 <= l <= 1 + count_breaks src.
Proof. exact lex_error_line_in_source. Qed.
Print Assumptions C01_lex_error_line_in_source.

(* hence: the lexer stage has exactly two outcomes *)
Theorem C01_lex_total : forall (c : cfg) (src : str), cfg_ok c = true ->
  (exists its, tokeniter c src = LexOk its) \/
  (exists its l m, tokeniter c src = LexSyntaxErr its l m /\ 1 <= l <= 1 + count_breaks src).
Proof.
  intros c src Hc. destruct (lex_fuel_adequate c src Hc) as [Hf Hi].
  destruct (tokeniter c src) as [its|its l m|its i|] eqn:E.
  - left. now exists its.
  - right. exists its, l, m. split; [reflexivity|]. exact (lex_error_line_in_source c src its l m E).
  - exfalso. exact (Hi its i eq_refl).
  - exfalso. exact (Hf eq_refl).
Qed.
Print Assumptions C01_lex_total.

(* non-vacuity: the stock configurations satisfy the guard, and an unterminated comment on the
   second line is a syntax error reported on line 2 *)
Example C01lex_example :
  cfg_ok (cfg_default false false false [10]) = true /\ cfg_ok (cfg_angle true true false [10]) = true /\
  cfg_ok (cfg_line true true true [13; 10]) = true /\
  match tokeniter (cfg_default false false false [10]) [97; 10; 123; 35; 32; 120] with
  | LexSyntaxErr _ l _ => l = 2 | _ => False end.
Proof. vm_compute. repeat split; reflexivity. Qed.
