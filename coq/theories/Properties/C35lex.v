(* C35 (lexer half of syntax_error_line) -- a syntax error raised by the lexer carries the line
   on which the offending position lies.  The lexer development (Model/LexTokeniter.v,
   Proofs/LexInv.v, Proofs/LexTotal.v -- builder-lexer's files, tied to /repo by C39's check) is
   imported read-only; nothing is redefined here. *)
From Coq Require Import List NArith Bool Arith Lia.
Import ListNotations.
From JV Require Import Model.LexBase Model.LexTokeniter Proofs.LexInv Proofs.LexTotal.
Open Scope N_scope.

(* the line of position p of a text: 1 + the number of line feeds before p *)
Definition line_at (t : str) (p : nat) : N := 1 + count_nl (firstn p t).

(* Lexer.tokeniter failing with TemplateSyntaxError(msg, l): everything before the offending
   position had been consumed (yielded as tokens / skipped gaps, [pre]); the offending position is
   the first unconsumed character of the line-normalised source, and l is its line *)
Theorem C35_lex_error_line : forall c src its l m,
  tokeniter c src = LexSyntaxErr its l m ->
  exists pre rest, normalize (c_keep c) src = pre ++ rest /\ pre = texts its /\
                   l = line_at (normalize (c_keep c) src) (length pre).
Proof.
  intros c src its l m H. pose proof (tokeniter_inv c src) as I. rewrite H in I.
  destruct I as (rest & st' & Ht & _ & _ & _ & _ & Hl).
  exists (texts its), rest. split; [now rewrite Ht|]. split; [reflexivity|].
  unfold line_at. rewrite <- Ht, firstn_app, firstn_all, Nat.sub_diag. cbn [firstn]. now rewrite app_nil_r.
Qed.
Print Assumptions C35_lex_error_line.

(* ... and that line exists in the source as written (before CR / CRLF normalisation) *)
Theorem C35_lex_error_line_in_source : forall c src its l m,
  tokeniter c src = LexSyntaxErr its l m -> 1 <= l <= 1 + count_breaks src.
Proof. exact lex_error_line_in_source. Qed.
Print Assumptions C35_lex_error_line_in_source.

(* the same reading for every token that IS produced: its line is the line of its first character *)
Theorem C35_lex_token_line : forall c src its l1 ln ty v p l2,
  tokeniter c src = LexOk its -> its = l1 ++ ITok ln ty v p :: l2 ->
  ln = line_at (normalize (c_keep c) src) (length (texts l1)).
Proof.
  intros c src its l1 ln ty v p l2 H E. pose proof (tokeniter_inv c src) as I. rewrite H in I.
  destruct I as (st' & Ht & Hl & _). subst its.
  pose proof (lines_ok_at 1 l1 ln ty v p l2 Hl) as Hln.
  unfold line_at. rewrite <- Ht, texts_app, firstn_app, firstn_all, Nat.sub_diag. cbn [firstn]. now rewrite app_nil_r.
Qed.
Print Assumptions C35_lex_token_line.
