(* C01 — every template source compiles or fails with a template syntax error.
   This file: the code-generation half (the Python compiler accepts whatever the statement
   code generator emits).  The lexer half (progress / no hang / error lines in range) is
   imported from the lexer development once available (see notes/C01.md). *)
From Coq Require Import List NArith Bool Lia.
Import ListNotations.
From JV Require Import Model.PyWf Proofs.PyWfProofs.
Open Scope N_scope.

(* For every statement tree, in every frame context (inside a loop body or not, loop frame or
   not, block frame or not): if the parser and code generator accept it, the emitted structure
   satisfies CPython's acceptance rules (break / continue inside a for of the same function,
   distinct parameters, distinct keywords — the keywords the generator adds itself, caller /
   _loop_vars / _block_vars, included) — provided Python's identifier normalisation does not
   alias two template names (NoAlias). *)
Theorem C01_gen_wf_partial :
  forall (ascii : name -> bool) (pynorm : name -> name), (forall a b, pynorm a = pynorm b -> a = b) ->
  forall (s : stmt) (in_loop loop_frame block_frame : bool) (t : list py),
    gen ascii in_loop loop_frame block_frame s = Ok t -> forallb (py_ok pynorm in_loop) t = true.
Proof. exact gen_wf. Qed.
Print Assumptions C01_gen_wf_partial.

(* The NoAlias guard is needed: with a normalisation that identifies two names (as NFKC does
   for 'ﬁ' and 'fi') a macro with those two parameters is accepted and emitted, and rejected
   by the Python compiler.  Recorded as known finding C01-nfkc-params. *)
Definition toy_norm (n : name) : name := if n =? 9 then 8 else n.
Definition toy_ascii (n : name) : bool := negb (n =? 9).
Theorem C01_gen_wf_refuted_alias :
  exists s t, gen toy_ascii false false false s = Ok t /\ forallb (py_ok toy_norm false) t = false.
Proof. exists (SMacro [8; 9] [SText]), [PDef [8; 9] [PSimple]; PSimple]. split; vm_compute; reflexivity. Qed.
Print Assumptions C01_gen_wf_refuted_alias.

(* The NoAlias guard is NOT needed for the keywords of calls (repaired by the fix: commit that routes
   non-ASCII keyword names through a dict, like Python keywords): under any normalisation that fixes
   ASCII names and the engine's own three keywords, every emitted keyword list is accepted — the
   aliasing pair as keywords of one call, and an alias of the engine's own caller keyword, included *)
Theorem C01_keywords_need_no_noalias :
  forall (ascii : name -> bool) (pynorm : name -> name),
  (forall a, ascii a = true -> pynorm a = a) ->
  pynorm CALLER = CALLER -> pynorm LOOPVARS = LOOPVARS -> pynorm BLOCKVARS = BLOCKVARS ->
  forall fc lf bf kws il t, gen_call ascii fc lf bf kws = Ok t -> forallb (py_ok pynorm il) t = true.
Proof. exact gen_call_ok_ascii. Qed.
Print Assumptions C01_keywords_need_no_noalias.
Example C01_alias_keywords_accepted :
  gen toy_ascii false false false (SCallKw [8; 9]) = Ok [PCall []] /\
  forallb (py_ok toy_norm false) [PCall []] = true.
Proof. split; vm_compute; reflexivity. Qed.

(* break / continue are rejected exactly where no for statement of the same emitted function
   encloses them: top level, macro / call block / block bodies, else of a recursive loop *)
Theorem C01_loopctl_rejected_outside : forall ascii lf bf,
  gen ascii false lf bf SBreak = SyntaxErr /\
  (forall b, gen ascii true lf bf (SMacro [] [SBreak]) = SyntaxErr /\ gen ascii b lf bf (SFor false [SMacro [] [SContinue]] []) = SyntaxErr) /\
  gen ascii true lf bf (SFor true [] [SBreak]) = SyntaxErr /\
  gen ascii false lf bf (SFor false [] [SContinue]) = SyntaxErr /\
  gen ascii true lf bf (SBlock [SBreak]) = SyntaxErr.
Proof. intros ascii lf bf. repeat split; reflexivity. Qed.

(* caller= is refused on the call of a call block (the generator passes it there) and is an ordinary
   keyword elsewhere; _loop_vars= / _block_vars= are refused as explicit keywords of every call; the
   generator itself passes _loop_vars exactly in loop frames (loop body, also under if; not under with /
   macro / the loop's else) and _block_vars exactly in block frames (repaired by the fix: commits
   9fa25ee and 55e3ad6; before them the emitted call repeated the keyword or silently dropped it) *)
Theorem C01_engine_keywords :
  gen toy_ascii false false false (SCallBlock [] [] [CALLER] []) = SyntaxErr /\
  (forall il lf bf, gen toy_ascii il lf bf (SCallKw [LOOPVARS]) = SyntaxErr /\ gen toy_ascii il lf bf (SCallKw [BLOCKVARS]) = SyntaxErr) /\
  gen toy_ascii false false false (SCallKw [CALLER]) = Ok [PCall [CALLER]] /\
  gen toy_ascii false false false (SFor false [SInline true [SCallKw []]; SIf [SSame [SCallKw [10]]] []] [SCallKw []])
    = Ok [PFor [PCall []; PIf [PCall [10; LOOPVARS]]; PIf []]; PIf [PCall []]] /\
  gen toy_ascii false false false (SBlock [SFor false [SCallKw []] []; SCallBlock [] [] [] []])
    = Ok [PDef [] [PFor [PCall [LOOPVARS]]; PIf []; PDef [] []; PCall [CALLER; BLOCKVARS]]; PSimple].
Proof. repeat split; try (destruct lf, bf); vm_compute; reflexivity. Qed.

(* non-vacuity: a nested program with loop control in every accepted position *)
Example C01_example :
  gen toy_ascii false false false (SFor false [SIf [SBreak] [SInline false [SContinue]]; SFor true [SBreak] [SFor false [SContinue] []]]
                        [SText])
  = Ok [PFor [PIf [PBreak]; PIf [PContinue];
              PDef [] [PFor [PBreak]; PIf [PFor [PContinue]; PIf []]]; PSimple];
        PIf [PSimple]].
Proof. vm_compute. reflexivity. Qed.
