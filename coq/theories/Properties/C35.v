(* C35 -- errors point at the template line that caused them: the part that is a theorem.
   M = Model/Dbg.v: the code generator's line bookkeeping seen as a trace of write / newline
   events, and Template.get_corresponding_lineno.  (debug.rewrite_traceback_stack /
   fake_traceback manipulate interpreter frames; only their result is compared, in the check.) *)
From Coq Require Import List NArith Bool Lia.
Import ListNotations.
From JV Require Import Model.Dbg Proofs.DbgProofs.
Open Scope N_scope.

(* for EVERY trace: a statement whose first write starts a new code line (any write after a
   newline except the very first write of the module) lands on code line c; when generation is
   finished -- whatever was emitted afterwards -- get_corresponding_lineno maps c to the line of
   the node most recently handed to newline (template lines are >= 1), and to 1 if no node was *)
Theorem C35_debug_info_sound : forall (evs1 evs2 : list ev) (l : N),
  let s0 := run init evs1 in
  let s1 := step s0 EWrite in
  new_lines s0 <> 0 -> first s0 = false ->
  (last_node None evs1 = Some l -> l <> 0 -> corresponding (dbg (run s1 evs2)) (code_line s1) = l) /\
  (last_node None evs1 = None -> corresponding (dbg (run s1 evs2)) (code_line s1) = 1).
Proof.
  intros evs1 evs2 l s0 s1 Hn Hf. pose proof (debug_info_sound_lemma evs1 evs2 Hn Hf) as H. cbv zeta in H.
  fold s0 in H. fold s1 in H. split.
  - intros E Hl. rewrite E in H. apply N.eqb_neq in Hl. now rewrite Hl in H.
  - intro E. now rewrite E in H.
Qed.
Print Assumptions C35_debug_info_sound.

(* the representation invariant behind it: code lines of the pairs never exceed the current
   code line, and the newest pair (or the pending one) carries the line of the last node *)
Theorem C35_bookkeeping_invariant : forall evs, Inv (run init evs).
Proof. intro evs. exact (run_inv evs init inv_init). Qed.
Print Assumptions C35_bookkeeping_invariant.

(* the hypotheses are needed: the very first write does not flush the pending pair *)
Theorem C35_first_write_refuted : exists evs1, let s0 := run init evs1 in
  new_lines s0 <> 0 /\ last_node None evs1 = Some 7 /\
  corresponding (dbg (step s0 EWrite)) (code_line (step s0 EWrite)) <> 7.
Proof. exists [ENewline (Some 7) 0]. cbn. repeat split; discriminate. Qed.

(* token line numbers: the k-th token is given line  first + number of line feeds in the
   source text before it  (the running counter of Lexer.tokeniter) *)
Theorem C35_token_lines : forall toks line k t, nth_error toks k = Some t ->
  nth_error (token_lines line toks) k = Some (line + count_nl (concat (firstn k toks))).
Proof. exact token_lines_nth. Qed.
Print Assumptions C35_token_lines.

(* parser errors over token streams: TokenStream.expect failing, and Parser.fail without an explicit
   line, report the line of the CURRENT token (the lexer half of syntax_error_line is
   Properties/C35lex.v; build/C35/Gen_dbgparse.v proves the current source of expect / fail equal
   to these model functions) *)
Theorem C35_expect_error_line : forall cur matches l,
  expect cur matches = PSyntaxError l -> matches = false /\ l = t_line cur.
Proof. intros cur [|] l H; cbn in H; [discriminate|]. injection H as <-. auto. Qed.
Print Assumptions C35_expect_error_line.

Theorem C35_fail_error_line : forall cur lineno,
  fail cur lineno = PSyntaxError (match lineno with Some l => l | None => t_line cur end).
Proof. reflexivity. Qed.

(* ... and that line is the line on which the offending token starts: with the lexer's running
   counter (C35_token_lines), an expect that fails at the k-th token reports
   first line + number of line feeds in the source text before that token *)
Theorem C35_parser_error_token_line : forall (texts : list (list N)) first k t ln eof,
  nth_error texts k = Some t -> nth_error (token_lines first texts) k = Some ln ->
  expect (mkTok ln eof) false = PSyntaxError (first + count_nl (concat (firstn k texts))) /\
  fail (mkTok ln eof) None = PSyntaxError (first + count_nl (concat (firstn k texts))).
Proof.
  intros texts first k t ln eof Ht Hl. rewrite (token_lines_nth texts first k t Ht) in Hl. injection Hl as <-.
  split; reflexivity.
Qed.
Print Assumptions C35_parser_error_token_line.

(* non-vacuity: module header, a statement for line 3 spread over two code lines, one for line 5 *)
Example C35_example :
  let evs := [ENewline None 0; EWrite; ENewline None 1; EWrite; ENewline (Some 3) 0; EWrite; EWrite;
              ENewline None 0; EWrite; ENewline (Some 5) 0; ENewline (Some 5) 0; EWrite; ENewline (Some 3) 0; EWrite] in
  rev (dbg (run init evs)) = [(3, 4); (5, 6); (3, 7)] /\
  snd (run_lines init evs) = [1; 3; 4; 4; 5; 6; 7] /\
  map (corresponding (dbg (run init evs))) [1; 3; 4; 5; 6; 7; 99] = [1; 1; 3; 3; 5; 3; 3].
Proof. vm_compute. repeat split. Qed.
