(* C20 — sandbox operator interception sees every intercepted operator application.
   The hook log is part of the semantics: ExprSpec.eval routes an operator application
   through the hook exactly when the sandbox intercepts the operator (apply_bin / apply_un);
   M = the emitted code (optimizer included) with environment.call_binop / call_unop. *)
From Coq Require Import List NArith ZArith Bool Lia.
Import ListNotations.
From JV Require Import Model.ExprAst Model.ExprPrim Spec.ExprSpec Model.ExprTarget Model.ExprFold
  Proofs.ExprProofs Proofs.ExprFoldProofs Proofs.ExprSandboxProofs.

(* intercept_complete + result_is_hook_result: for every set of intercepted binary and unary
   operators, every hook behaviour (hook_bin / hook_un are arbitrary functions), every
   expression and context: running the compiled code (constant folding included) produces
   exactly the hook applications of the documented evaluation — same operators, same
   operands, same order — and the same result, which is computed from the hooks' results. *)
Theorem C20_intercept_complete : forall (O : oracles) (c : cfg),
  coherent c -> sandboxed c = true ->
  forall (n : nat) (e : expr), depth e <= n -> forall (rho : env) (l : list event),
    py_eval O c n (gen_opt O c e) rho l = eval O c n e rho l.
Proof. intros O c Hco _. exact (gen_opt_correct O c Hco). Qed.
Print Assumptions C20_intercept_complete.

(* intercept_exact: the log only ever grows, and only by hook applications of operators in
   the intercepted sets (and by calls of opaque callables); nothing else reaches the hooks *)
Theorem C20_intercept_exact : forall (O : oracles) (c : cfg) (n : nat) (e : expr) (rho : env) (l l' : list event) r,
  eval O c n e rho l = (r, l') ->
  exists d, l' = d ++ l /\
    Forall (fun ev => match ev with
                      | EvBin op _ _ => sandboxed c = true /\ ibin c op = true
                      | EvUn op _ => sandboxed c = true /\ iun c op = true
                      | EvCall _ _ _ => True
                      end) d.
Proof. intros O c n e rho l l' r H. exact (eval_appends O c n e rho l r l' H). Qed.
Print Assumptions C20_intercept_exact.

(* the same for the compiled code *)
Theorem C20_compiled_exact : forall (O : oracles) (c : cfg),
  coherent c ->
  forall (n : nat) (e : expr), depth e <= n -> forall (rho : env) (l l' : list event) r,
    py_eval O c n (gen_opt O c e) rho l = (r, l') ->
    exists d, l' = d ++ l /\ Forall (ev_ok c) d.
Proof.
  intros O c Hco n e Hd rho l l' r H. rewrite (gen_opt_correct O c Hco n e Hd rho l) in H.
  exact (eval_appends O c n e rho l r l' H).
Qed.
Print Assumptions C20_compiled_exact.

(* result_is_hook_result at an intercepted application: operands evaluated left to right,
   one hook call with those operands, the value of the application is the hook's result *)
Theorem C20_result_is_hook_result : forall (O : oracles) (c : cfg) (op : binop) (a b : expr) (n : nat) (rho : env) (l : list event),
  sandboxed c = true -> ibin c op = true ->
  eval O c (S n) (EBin op a b) rho l =
    (va <- eval O c n a rho ;; vb <- eval O c n b rho ;; _ <- emit (EvBin op va vb) ;; lift (hook_bin c op va vb)) l.
Proof. intros O c op a b n rho l Hs Hi. cbn [eval]. unfold apply_bin. rewrite Hs, Hi. reflexivity. Qed.
Print Assumptions C20_result_is_hook_result.

Theorem C20_unary_result_is_hook_result : forall (O : oracles) (c : cfg) (op : unop) (a : expr) (n : nat) (rho : env) (l : list event),
  sandboxed c = true -> iun c op = true ->
  eval O c (S n) (EUn op a) rho l = (va <- eval O c n a rho ;; _ <- emit (EvUn op va) ;; lift (hook_un c op va)) l.
Proof. intros O c op a n rho l Hs Hi. cbn [eval]. unfold apply_un. rewrite Hs, Hi. reflexivity. Qed.
Print Assumptions C20_unary_result_is_hook_result.

(* no folding: an intercepted operator applied to constants is not a constant for the
   optimizer, and the compiler emits the hook call *)
Theorem C20_constants_not_folded : forall (O : oracles) (c : cfg) (op : binop) (x y : value),
  sandboxed c = true -> ibin c op = true ->
  as_const O c (EBin op (EConst x) (EConst y)) = FImp /\
  gen_opt O c (EBin op (EConst x) (EConst y)) = TCallBinop op (TConst x) (TConst y).
Proof.
  intros O c op x y Hs Hi. split.
  - exact (intercepted_not_folded O c op _ _ Hs Hi).
  - exact (intercepted_const_code O c op x y Hs Hi).
Qed.
Print Assumptions C20_constants_not_folded.

(* non-vacuity: 1 + 2 * 3 with + intercepted and * not: the product is folded, the sum goes
   through the (perturbing) hook with operands 1 and 6 *)
Example C20_example :
  let c := {| sandboxed := true; ibin := fun op => binop_eqb op Add; iun := fun _ => false; is_async := false;
              autoescape := false; volatile := false; rt_autoescape := false; optimized := true;
              hook_bin := fun op a b => match prim_bin op a b with Ok (VInt z) => Ok (VInt (z + 1000)) | r => r end;
              hook_un := prim_un |} in
  let e := EBin Add (EConst (VInt 1)) (EBin Mul (EConst (VInt 2)) (EConst (VInt 3))) in
  gen_opt none_oracles c e = TCallBinop Add (TConst (VInt 1)) (TConst (VInt 6)) /\
  py_eval none_oracles c 3 (gen_opt none_oracles c e) [] [] = (Ok (VInt 1007), [EvBin Add (VInt 1) (VInt 6)]).
Proof. vm_compute. split; reflexivity. Qed.
