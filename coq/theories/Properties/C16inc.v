(* C16 for template sets (Model/EscLang2.v): set block with a filter, include, import, block tags
   with inheritance and super().  Statements only. *)
From Coq Require Import List NArith Bool.
Import ListNotations.
From JV Require Import Model.EscMarkup Model.EscLang2 Proofs.EscMarkupProofs Proofs.EscLang2Proofs.
Open Scope N_scope.

(* escape_once through every set block (with or without filter), macro, call block, include,
   import, block reference and super(): for every template set whose templates use neutral
   filters, '&'-free text and only runtime-decided autoescape blocks, every block table, every
   data set and every fuel.  On = every template autoescaped and flag true, off = none and false. *)
Theorem C16_escape_once_sets : forall dl tt bt n main base root d,
  tt_ok tt -> bt_ok bt -> c16_ok root = true ->
  match render (fun _ => true) true dl tt bt n main base root d,
        render (fun _ => false) false dl tt bt n main base root d with
  | Some on, Some off => Aligned on /\ unescape5 on = off
  | None, None => True
  | _, _ => False
  end.
Proof. intros dl tt bt n main base root d Ht Hb H. exact (escape_once_sets dl tt bt Ht Hb n main base root d H). Qed.
Print Assumptions C16_escape_once_sets.

(* non-vacuity: child block with super() over a base block, an included template, an imported
   macro, a set block with a filter; data "<&" *)
Definition c16i_base : list stmt := [SText [91]; SBlock 5 [SOut (EVar 1)]; SInclude 10; SImport 20; SOut (ECall 21 [EVar 1]);
                                     SSetBlockF 30 FLower [] [SOut (EVar 1)]; SOut (ECat (EVar 30) (EVar 1))].
Definition c16i_child : list stmt := [SBlock 5 [SOut ESuper; SText [124]; SOut (ECat ESuper (EVar 1))]].
Definition c16i_tt : list (N * list stmt) := [(10, [SOut (EVar 1)]); (20, [SMacro 21 [22] [SText [40]; SOut (EVar 22); SText [41]]])].
Definition c16i_bt := block_table [5] [(1, c16i_child); (2, c16i_base)].

Example C16inc_example :
  c16_ok c16i_base = true /\
  exists on off,
    render (fun _ => true) true [] c16i_tt c16i_bt 40 1 2 c16i_base [(1, [60; 38])] = Some on /\
    render (fun _ => false) false [] c16i_tt c16i_bt 40 1 2 c16i_base [(1, [60; 38])] = Some off /\
    unescape5 on = off /\ on <> off.
Proof.
  split; [reflexivity|]. eexists. eexists. split; [vm_compute; reflexivity|]. split; [vm_compute; reflexivity|].
  split; [vm_compute; reflexivity|]. discriminate.
Qed.
