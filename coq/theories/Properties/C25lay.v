(* C25 over layered loaders (FileSystemLoader with several search paths, ChoiceLoader): the
   theorem C25_autoreload_current restated for loaders that are ordered lists of layers, with the
   up-to-date closures the code has.  Statements only; lemmas in Proofs/TcLayProofs.v. *)
From Coq Require Import List NArith ZArith Bool Arith Lia.
Import ListNotations.
From JV Require Import Model.LRU Model.Tc Proofs.TcProofs Model.TcLay Proofs.TcLayProofs.
Open Scope N_scope.

(* the FileSystemLoader closure after fix 3f4facf — "no earlier search path has the file and the resolved file
   is unchanged" — holds exactly when the loader still resolves the name to that layer and version *)
Theorem C25_fs_closure_is_resolution : forall ls n i v,
  forallb (lacks n) (firstn (N.to_nat i) ls) && opt_eqb (layer_get ls i n) (Some v) = true <-> eff ls n 0 = Some (i, v).
Proof. exact fs_closure_eff. Qed.
Print Assumptions C25_fs_closure_is_resolution.

(* FileSystemLoader with any number of search paths, auto_reload: after EVERY history of gets, selects,
   additions / modifications / deletions in any layer, for every cache size, a request renders what the
   layered loader resolves the name to now; TemplateNotFound exactly when no layer has it *)
Theorem C25_autoreload_current_layered : forall size ls h n,
  let e := fst (lrun (new_lenv true LFs size ls) h) in
  l_layers e = layers_after ls h /\
  match eff (layers_after ls h) n 0 with
  | Some (_, v) => exists t, snd (lload e n) = RTpl t v
  | None => snd (lload e n) = RNotFound
  end.
Proof.
  intros size ls h n e. subst e.
  destruct (lrun (new_lenv true LFs size ls) h) as [e xs] eqn:R. cbn [fst].
  destruct (lrun_wf h _ _ _ (new_lenv_wf true LFs size ls) R) as (W & A & U & L).
  cbn [new_lenv l_auto l_upt l_layers] in A, U, L. split; [exact L|].
  destruct (lload e n) as [e' r] eqn:Ld. cbn [snd]. rewrite <- L.
  exact (lload_current e n e' r W A (fs_closure_sound e W U) Ld).
Qed.
Print Assumptions C25_autoreload_current_layered.

(* ChoiceLoader hands out the serving member's closure only: a template added to an EARLIER member after
   the name was served by a later one is not noticed (recorded known finding) *)
Theorem C25_choice_shadowing_refuted :
  exists ls h n, eff (layers_after ls h) n 0 = Some (0, 1) /\
    snd (lload (fst (lrun (new_lenv true LChoice (-1) ls) h)) n) = RTpl 1 3.
Proof.
  exists [(fun _ => None); (fun _ => Some 3)], [LGet 7; LPut 0 7 1], 7. split; vm_compute; reflexivity.
Qed.
Print Assumptions C25_choice_shadowing_refuted.

(* ... and holds for every history in which sources are only added to / modified in the LAST member
   (earlier members only ever lose templates) *)
Theorem C25_choice_current_partial : forall size ls h n,
  puts_only_last (length ls) h = true ->
  let e := fst (lrun (new_lenv true LChoice size ls) h) in
  match eff (layers_after ls h) n 0 with
  | Some (_, v) => exists t, snd (lload e n) = RTpl t v
  | None => snd (lload e n) = RNotFound
  end.
Proof.
  intros size ls h n G e. subst e.
  destruct (lrun (new_lenv true LChoice size ls) h) as [e xs] eqn:R. cbn [fst].
  pose proof (new_lenv_wf true LChoice size ls) as W0.
  destruct (lrun_wf h _ _ _ W0 R) as (W & A & U & L).
  cbn [new_lenv l_auto l_upt l_layers] in A, U, L.
  assert (E0 : forall k t, cache_lookup (l_cache (new_lenv true LChoice size ls)) k = Some t -> False).
  { intros k t. cbn [new_lenv l_cache]. unfold create_cache.
    destruct (size =? 0)%Z; [discriminate|]. destruct (size <? 0)%Z; discriminate. }
  assert (EL : earlier_lack e).
  { apply (lrun_choice_inv h _ e xs W0); [intros k t D; destruct (E0 k t D)|intros k t D; destruct (E0 k t D)|exact G|exact R]. }
  destruct (lload e n) as [e' r] eqn:Ld. cbn [snd]. rewrite <- L.
  exact (lload_current e n e' r W A (choice_closure_sound e W U EL) Ld).
Qed.
Print Assumptions C25_choice_current_partial.

(* non-vacuity: two search paths; the name is served from the second, then appears in the first, is
   modified there, deleted there (falls back to the second), deleted everywhere *)
Example C25lay_example :
  snd (lrun (new_lenv true LFs 2 [(fun _ => None); (fun n => if n =? 7 then Some 3 else None)])
            [LGet 7; LGet 7; LPut 0 7 1; LGet 7; LPut 0 7 2; LGet 7; LDel 0 7; LGet 7; LDel 1 7; LGet 7])
  = [OutR (RTpl 1 3) (Some 1); OutR (RTpl 1 3) (Some 1); OutUnit; OutR (RTpl 2 1) (Some 1); OutUnit; OutR (RTpl 3 2) (Some 1);
     OutUnit; OutR (RTpl 4 3) (Some 1); OutUnit; OutR RNotFound (Some 1)].
Proof. vm_compute. reflexivity. Qed.
