(* C33 — translation blocks render like their source text and are fully extractable.
   Only statements, each closed by [exact <lemma>], followed by Print Assumptions. *)
From Coq Require Import List NArith Bool.
Import ListNotations.
From JV Require Import Model.EscMarkup Model.I18nModel Proofs.I18nProofs.
Open Scope N_scope.

(* literal text survives the %-escaping of _parse_block and the later % formatting *)
Theorem C33_percent_roundtrip : forall text vars, pyformat (escape_percent text) vars = Some text.
Proof. exact percent_roundtrip. Qed.
Print Assumptions C33_percent_roundtrip.

(* ... and the un-doubling old-style gettext does when no formatting happens *)
Theorem C33_undouble_roundtrip : forall text, undouble (escape_percent text) = text.
Proof. exact undouble_escape. Qed.
Print Assumptions C33_undouble_roundtrip.

(* formatting the format string of a block = substituting the variables into the block *)
Theorem C33_format_block : forall vars b, names_ok b = true -> pyformat (parse_block b) vars = subst vars b.
Proof. exact fmt_block. Qed.
Print Assumptions C33_format_block.

(* identity translations: old and new style render the block text with variables substituted
   (None on both sides when a referenced variable is unbound); [vals ae] escapes the values
   exactly when autoescaping is on; new style adds the `context` default *)
Theorem C33_trans_renders : forall st ae ctx sing vars,
  names_ok sing = true -> (vars = [] -> text_only sing = true) ->
  render_trans st ae false ctx sing None None vars = subst (vals ae (final_vars st ctx None vars)) sing.
Proof. exact trans_renders. Qed.
Print Assumptions C33_trans_renders.

Theorem C33_values_escaped : forall vars k v, In (k, v) vars -> In (k, esc_str v) (vals true vars).
Proof. exact vals_autoescape. Qed.
Print Assumptions C33_values_escaped.

(* the count chooses the singular or the plural form *)
Theorem C33_plural_choice : forall st ae ctx sing pl one numtxt vars,
  names_ok sing = true -> names_ok pl = true -> vars <> [] ->
  render_trans st ae false ctx sing (Some pl) (Some (one, numtxt)) vars
  = subst (vals ae (final_vars st ctx (Some numtxt) vars)) (if one then sing else pl).
Proof. exact plural_choice. Qed.
Print Assumptions C33_plural_choice.

(* every message passed to a gettext function at run time is among those extracted *)
Theorem C33_extraction_covers : forall t c, In c (runtime_calls t) -> In c (extracted t).
Proof. exact extraction_covers. Qed.
Print Assumptions C33_extraction_covers.

(* non-vacuity: {% trans u=user %}100% of {{ u }} (x){% endtrans %} with user = "<b>", old style,
   autoescape on:  "100% of &lt;b&gt; (x)" *)
Example C33_example :
  render_trans OldStyle true false None
    [PText [49;48;48;37;32;111;102;32]; PVar [117]; PText [32;40;120;41]] None None [([117], Plain [60;98;62])]
  = Some [49;48;48;37;32;111;102;32; 38;108;116;59;98;38;103;116;59; 32;40;120;41].
Proof. vm_compute. reflexivity. Qed.
