(* C37 — concurrent async renders do not interfere.
   The steps of a task are its segments between await points; the event loop may resume any
   task at any await, i.e. any interleaving of the segments is possible. *)
From Coq Require Import List NArith Bool.
Import ListNotations.
From JV Require Import Model.Frames Model.FramesSched Proofs.FramesProofs Proofs.FramesSchedProofs.
From JV Require Properties.C29.

(* every task ends with the private state (hence output) it reaches when rendered alone,
   for every set of tasks and every interleaving of their await-to-await segments *)
Theorem C37_task_noninterference :
  forall (G : loc -> heap -> N), C29.cache_fn_ok G ->
  forall (s : list (N * pstep)) (h : heap),
  sched_ok G s -> cache_inv G h ->
  forall (task : N) (n : N), run_sched G s h (PerRender task, n) = run_sched G (only task s) h (PerRender task, n).
Proof. intros G HG s h K I task. exact (noninterference G HG task s h K I). Qed.
Print Assumptions C37_task_noninterference.

(* Template._module under racing tasks (_get_default_module_async): whatever the interleaving,
   the cell is empty or holds the value computed from the read-only regions of the initial
   heap - two tasks that both find it empty store equal modules *)
Theorem C37_module_cache_fill_once :
  forall (G : loc -> heap -> N), C29.cache_fn_ok G ->
  forall (s : list (N * pstep)) (h : heap) (c : loc),
  footprint_ok s = true -> cache_inv G h -> is_cache c = true ->
  run_sched G s h c = 0%N \/ run_sched G s h c = G c h.
Proof. intros G HG s h c. exact (cache_value G HG s h c). Qed.
Print Assumptions C37_module_cache_fill_once.

(* a cache whose value is NOT a function of the read-only regions (it looks at a task's
   private state) breaks the claim: the task that loses the race sees the winner's value *)
Theorem C37_private_cache_value_refuted :
  let G := fun (c : loc) (h : heap) => (h (PerRender 1, 9) + h (PerRender 2, 9) + 1)%N in
  let rt := fun (h : heap) => if N.eqb (h (ModuleCache, 0%N)) 0 then 77%N else h (ModuleCache, 0%N) in
  let p := fun k : N => [PPriv 9 (fun _ _ => k); PFill (ModuleCache, 0%N); PPriv 0 (fun _ h => rt h)] in
  let h0 := fun _ : loc => 0%N in
  run_sched G (tag 1 (p 10%N) ++ tag 2 (p 20%N)) h0 (PerRender 2, 0%N) <> run_sched G (tag 2 (p 20%N)) h0 (PerRender 2, 0%N).
Proof. vm_compute. discriminate. Qed.
Print Assumptions C37_private_cache_value_refuted.

(* non-vacuity: three tasks, the second suspended between its segments while the others run *)
Example C37_example :
  let G := fun (c : loc) (h : heap) => (h (TplGlobals, 0%N) + 1)%N in
  let seg1 := PPriv 0 (fun _ h => h (Data, 0%N) + 1)%N in
  let seg2 := PPriv 1 (fun v _ => v 0%N + 10)%N in
  let s := [(2, seg1); (1, seg1); (3, PFill (ModuleCache, 0)); (1, seg2); (3, seg1); (2, PFill (ModuleCache, 0)); (3, seg2); (2, seg2)]%N in
  let h0 := fun l : loc => if loc_eqb l (Data, 0%N) then 4%N else 0%N in
  footprint_ok s = true /\
  map (fun t => run_sched G s h0 (PerRender t, 1%N)) [1; 2; 3]%N = [15; 15; 15]%N /\
  run_sched G (tag 2 [seg1; PFill (ModuleCache, 0%N); seg2]) h0 (PerRender 2, 1%N) = 15%N /\
  run_sched G s h0 (ModuleCache, 0%N) = 1%N.
Proof. vm_compute. repeat split; reflexivity. Qed.
