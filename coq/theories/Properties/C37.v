(* C37 — concurrent async renders do not interfere.
   The steps of a task are its segments between await points; the event loop may resume any
   task at any await, i.e. any interleaving of the segments is possible. *)
From Coq Require Import List NArith Bool.
Import ListNotations.
From JV Require Import Model.Frames Model.FramesSched Proofs.FramesProofs Proofs.FramesSchedProofs.
From JV Require Properties.C29.

(* every task ends with the private state (hence output) it reaches when rendered alone,
   for every set of tasks and every interleaving of their await-to-await segments *)
Theorem C37_task_noninterference :
  forall (G : loc -> heap -> N), C29.cache_fn_ok G ->
  forall (s : list (N * pstep)) (h : heap),
  sched_ok G s -> cache_inv G h ->
  forall (task : N) (n : N), run_sched G s h (PerRender task, n) = run_sched G (only task s) h (PerRender task, n).
Proof. intros G HG s h K I task. exact (noninterference G HG task s h K I). Qed.
Print Assumptions C37_task_noninterference.

(* Template._module under racing tasks (_get_default_module_async): whatever the interleaving,
   the cell is empty or holds the value computed from the read-only regions of the initial
   heap - two tasks that both find it empty store equal modules *)
Theorem C37_module_cache_fill_once :
  forall (G : loc -> heap -> N), C29.cache_fn_ok G ->
  forall (s : list (N * pstep)) (h : heap) (c : loc),
  footprint_ok s = true -> cache_inv G h -> is_cache c = true ->
  run_sched G s h c = 0%N \/ run_sched G s h c = G c h.
Proof. intros G HG s h c. exact (cache_value G HG s h c). Qed.
Print Assumptions C37_module_cache_fill_once.

(* a cache whose value is NOT a function of the read-only regions (it looks at a task's
   private state) breaks the claim: the task that loses the race sees the winner's value *)
Theorem C37_private_cache_value_refuted :
  let G := fun (c : loc) (h : heap) => (h (PerRender 1, 9) + h (PerRender 2, 9) + 1)%N in
  let rt := fun (h : heap) => if N.eqb (h (ModuleCache, 0%N)) 0 then 77%N else h (ModuleCache, 0%N) in
  let p := fun k : N => [PPriv 9 (fun _ _ => k); PFill (ModuleCache, 0%N); PPriv 0 (fun _ h => rt h)] in
  let h0 := fun _ : loc => 0%N in
  run_sched G (tag 1 (p 10%N) ++ tag 2 (p 20%N)) h0 (PerRender 2, 0%N) <> run_sched G (tag 2 (p 20%N)) h0 (PerRender 2, 0%N).
Proof. vm_compute. discriminate. Qed.
Print Assumptions C37_private_cache_value_refuted.

(* Recorded finding C37-F1 (also C29-F2): the macros of a module imported without context run
   against the module's own context, which lives in the module cache; an {% autoescape %} block
   in such a macro stores into that shared eval context (save / set ... revert).  Cell 0 of the
   module cache is the autoescape flag (1 = on).  Task 1 enters its `autoescape false` block
   (saves 1, stores 0) and is suspended, task 2 enters (saves 0, stores 0), task 1 leaves
   (restores 1), task 2 continues: it reads 1 inside its `autoescape false` block - not what it
   reads when rendered alone - and finally restores 0, which every later render then sees. *)
Theorem C37_shared_module_context_refuted :
  let G := fun (_ : loc) (_ : heap) => 0%N in
  let flag := (ModuleCache, 0%N) in
  let enter := [PPriv 5 (fun _ h => h flag); PCacheWrite flag (fun _ _ => 0%N)] in      (* save; autoescape := false *)
  let body := [PPriv 0 (fun _ h => h flag)] in                                            (* a filter reads the flag *)
  let leave := [PCacheWrite flag (fun v _ => v 5%N)] in                                    (* revert *)
  let h0 := fun l : loc => if loc_eqb l flag then 1%N else 0%N in
  let s := tag 1 enter ++ tag 2 enter ++ tag 1 (body ++ leave) ++ tag 2 (body ++ leave) in
  footprint_ok s = false /\
  run_sched G s h0 (PerRender 2, 0%N) <> run_sched G (only 2 s) h0 (PerRender 2, 0%N) /\
  run_sched G s h0 flag <> h0 flag /\
  run_sched G (tag 1 (enter ++ body ++ leave) ++ tag 2 (enter ++ body ++ leave)) h0 flag = h0 flag.
Proof. vm_compute. repeat split; try discriminate; reflexivity. Qed.
Print Assumptions C37_shared_module_context_refuted.

(* What survives it (the _partial statement) is C37_task_noninterference itself: its premise
   sched_ok includes footprint_ok, which excludes exactly the PCacheWrite / PData steps; i.e. task
   non-interference holds for all task sets in which no macro of a cached module contains a
   scoped eval-context modifier. *)
Theorem C37_task_noninterference_partial :
  forall (G : loc -> heap -> N), C29.cache_fn_ok G ->
  forall (s : list (N * pstep)) (h : heap),
  Forall (fun ts => match snd ts with PCacheWrite _ _ | PData _ _ => False | PFill c => is_cache c = true | PPriv _ _ => True end) s ->
  sched_oblivious G s -> Forall (fun ts => view_ext (snd ts)) s -> cache_inv G h ->
  forall (task : N) (n : N), run_sched G s h (PerRender task, n) = run_sched G (only task s) h (PerRender task, n).
Proof.
  intros G HG s h F O V I task. apply (noninterference G HG task s h); [|exact I].
  split; [|split; assumption]. unfold footprint_ok. apply forallb_forall. intros ts Hin.
  rewrite Forall_forall in F. specialize (F ts Hin). destruct (snd ts); cbn; try contradiction; try reflexivity. exact F.
Qed.
Print Assumptions C37_task_noninterference_partial.

(* non-vacuity: three tasks, the second suspended between its segments while the others run *)
Example C37_example :
  let G := fun (c : loc) (h : heap) => (h (TplGlobals, 0%N) + 1)%N in
  let seg1 := PPriv 0 (fun _ h => h (Data, 0%N) + 1)%N in
  let seg2 := PPriv 1 (fun v _ => v 0%N + 10)%N in
  let s := [(2, seg1); (1, seg1); (3, PFill (ModuleCache, 0)); (1, seg2); (3, seg1); (2, PFill (ModuleCache, 0)); (3, seg2); (2, seg2)]%N in
  let h0 := fun l : loc => if loc_eqb l (Data, 0%N) then 4%N else 0%N in
  footprint_ok s = true /\
  map (fun t => run_sched G s h0 (PerRender t, 1%N)) [1; 2; 3]%N = [15; 15; 15]%N /\
  run_sched G (tag 2 [seg1; PFill (ModuleCache, 0%N); seg2]) h0 (PerRender 2, 1%N) = 15%N /\
  run_sched G s h0 (ModuleCache, 0%N) = 1%N.
Proof. vm_compute. repeat split; reflexivity. Qed.
