(* C23 — string and number filters satisfy their documented contracts.  Statements only. *)
From Coq Require Import List NArith ZArith Bool Lia.
Import ListNotations.
From JV Require Import Model.FiltStr Proofs.FiltStrProofs.

(* truncate never exceeds length + leeway; text within the leeway is returned unchanged;
   otherwise the result is a prefix of the text followed by the end marker, within length *)
Theorem C23_truncate_bound : forall pol s L kw e lw r,
  do_truncate pol s L kw e lw = Ok r ->
  let lw' := match lw with Some l => l | None => pol end in
  (len r <= L + lw')%Z /\
  (r = s \/ ((len r <= L)%Z /\ exists p, is_prefix p s /\ r = p ++ e)).
Proof.
  intros pol s L kw e lw r H lw'.
  destruct (truncate_spec pol s L kw e lw r H) as (He & Hl & [[A ->]|(A & B & C)]); fold lw' in Hl, A.
  - split; [exact A|now left].
  - split; [lia|right; split; [exact B|exact C]].
Qed.
Print Assumptions C23_truncate_bound.

Theorem C23_truncate_leeway_identity : forall pol s L kw e lw,
  let lw' := match lw with Some l => l | None => pol end in
  (len e <= L)%Z -> (0 <= lw')%Z -> (len s <= L + lw')%Z -> do_truncate pol s L kw e lw = Ok s.
Proof.
  intros pol s L kw e lw lw' H1 H2 H3. unfold do_truncate. fold lw'.
  destruct (Z.ltb_spec L (len e)); [lia|]. destruct (Z.ltb_spec lw' 0); [lia|].
  destruct (Z.leb_spec (len s) (L + lw')); [reflexivity|lia].
Qed.
Print Assumptions C23_truncate_leeway_identity.

(* bad arguments are rejected by the assertions, nothing else fails *)
Theorem C23_truncate_total : forall pol s L kw e lw,
  (exists r, do_truncate pol s L kw e lw = Ok r) \/ do_truncate pol s L kw e lw = Err AssertionError.
Proof.
  intros. unfold do_truncate. destruct (_ <? _)%Z; [now right|]. destruct (_ <? _)%Z; [now right|].
  destruct (_ <=? _)%Z; [left; eauto|]. destruct kw; left; eauto.
Qed.
Print Assumptions C23_truncate_total.

(* indent only inserts the indentation in front of lines (and normalises line breaks to \n) *)
Theorem C23_indent_only_inserts : forall s w first blank,
  do_indent s w first blank = spec_indent (indention_of w) first blank (splitlines (s ++ [10%N])).
Proof. exact indent_spec. Qed.
Print Assumptions C23_indent_only_inserts.

Theorem C23_center_pad : forall s w,
  exists l r, do_center s w = repeat 32%N l ++ s ++ repeat 32%N r /\
              Z.of_nat (l + r) = Z.max 0 (w - len s) /\ (l <= r + 1 /\ r <= l + 1).
Proof. exact center_spec. Qed.
Print Assumptions C23_center_pad.

(* wordcount counts maximal runs of word characters, for any character class *)
Theorem C23_wordcount_runs : forall (is_word : N -> bool),
  (forall s1 c s2, is_word c = false ->
     do_wordcount is_word (s1 ++ c :: s2) = (do_wordcount is_word s1 + do_wordcount is_word s2)%N) /\
  (forall s, forallb is_word s = true -> s <> [] -> do_wordcount is_word s = 1%N) /\
  do_wordcount is_word [] = 0%N.
Proof.
  intros is_word. split; [|split; [|reflexivity]].
  - intros s1 c s2 Hc. exact (count_runs_sep is_word s1 false c s2 Hc).
  - intros s Hs Hne. exact (count_runs_word is_word s false Hs Hne).
Qed.
Print Assumptions C23_wordcount_runs.

(* filesizeformat picks the prefix i with base^(i+1) <= bytes < base^(i+2) (the last prefix
   takes everything above) and shows bytes / base^(i+1), a number in [1, base) *)
Theorem C23_filesizeformat_prefix : forall (b : Z) (binary : bool),
  let base := if binary then 1024%Z else 1000%Z in
  (base <= b)%Z ->
  exists i, i <= 7 /\
    do_filesizeformat b binary = FUnit i (base * b) (base ^ (Z.of_nat i + 2)) /\
    (base ^ (Z.of_nat i + 1) <= b)%Z /\ (i < 7 -> (b < base ^ (Z.of_nat i + 2))%Z).
Proof. exact filesize_spec. Qed.
Print Assumptions C23_filesizeformat_prefix.

Theorem C23_filesizeformat_bytes : forall (b : Z) (binary : bool),
  (b < (if binary then 1024 else 1000))%Z ->
  do_filesizeformat b binary = if (b =? 1)%Z then FOneByte else FBytes b.
Proof.
  intros b binary H. unfold do_filesizeformat. destruct (b =? 1)%Z; [reflexivity|].
  destruct (Z.ltb_spec b (if binary then 1024 else 1000)%Z); [reflexivity|lia].
Qed.
Print Assumptions C23_filesizeformat_bytes.

(* wordwrap keeps all non-whitespace text in order, for every textwrap.wrap that only drops or
   moves whitespace and every whitespace-only wrap string *)
Theorem C23_wordwrap_preserves : forall (is_space : N -> bool) (wrap : str -> list str),
  (forall c, is_linebreak c = true -> is_space c = true) ->
  (forall line, nonws is_space (concat (wrap line)) = nonws is_space line) ->
  forall ws s, nonws is_space ws = [] -> nonws is_space (do_wordwrap wrap ws s) = nonws is_space s.
Proof. exact wordwrap_preserves_nonws. Qed.
Print Assumptions C23_wordwrap_preserves.

(* int / float return a value for every input, whatever the conversions do, as soon as the
   except clauses cover the three exceptions conversions can raise *)
Theorem C23_int_total : forall (V I F : Type) is_str int_str int_val float_val int_float outer inner,
  (forall v b e, int_str v b = Raises e -> conv_exn e) -> (forall v e, int_val v = Raises e -> conv_exn e) ->
  (forall v e, float_val v = Raises e -> conv_exn e) -> (forall f e, int_float f = Raises e -> conv_exn e) ->
  covers outer -> covers inner ->
  forall v d b, exists i, do_int V I F is_str int_str int_val float_val int_float outer inner v d b = Returns i.
Proof. exact int_total_gen. Qed.
Print Assumptions C23_int_total.

Theorem C23_float_total : forall (V F : Type) float_val cf,
  (forall v e, float_val v = Raises e -> conv_exn e) -> covers cf ->
  forall v d, exists f, do_float V F float_val cf v d = Returns f.
Proof. exact float_total_gen. Qed.
Print Assumptions C23_float_total.

(* the kind table enumerates its domain *)
Theorem C23_all_kinds_complete : forall k, In k all_kinds.
Proof. intros k. destruct k; cbn; tauto. Qed.
Print Assumptions C23_all_kinds_complete.

(* OverflowError must be among the caught classes: without it an infinite float makes int
   raise, a huge int makes float raise (the handlers of the pinned revision) *)
Theorem C23_overflow_guard_needed :
  int_shape [TypeError; ValueError] [TypeError; ValueError; OverflowError] KFloatInf = SRaises OverflowError /\
  float_shape [TypeError; ValueError] KHugeInt = SRaises OverflowError.
Proof. vm_compute. split; reflexivity. Qed.

Example C23_example :
  do_truncate 0 [102;111;111;32;98;97;114;32;98;97;122]%N 9 false [46;46;46]%N None = Ok [102;111;111;46;46;46]%N /\
  do_indent [97;10;10;98]%N (WInt 2) false false = [97;10;10;32;32;98]%N /\
  do_filesizeformat 1500000 false = FUnit 1 1500000000 1000000000 /\
  int_shape [TypeError; ValueError; OverflowError] [TypeError; ValueError; OverflowError] KFloatInf = SDefault.
Proof. vm_compute. repeat split; reflexivity. Qed.

(* --- truncate with a safe (Markup) input: the end marker is escaped AFTER the length
   arithmetic (s[:length - len(end)] + end with a Markup s).  The bound then holds in raw
   characters only for end markers that escaping leaves unchanged ... *)
From JV Require Import Model.FiltHtml.

Theorem C23_truncate_markup_partial : forall s L kw e lw t,
  escape e = e ->
  truncate_markup s L kw (Plain e) lw = Ok t -> (len (payload t) <= L + lw)%Z.
Proof.
  intros s L kw e lw t He H. unfold truncate_markup in H.
  destruct (do_truncate lw s L kw [] (Some lw)) as [r0|]; [|discriminate].
  cbn [payload escape_t] in H. rewrite He in H.
  destruct (do_truncate lw s L kw e (Some lw)) as [r|] eqn:E; [|discriminate].
  destruct (truncate_spec lw s L kw e (Some lw) r E) as (H1 & H2 & [[A ->]|(A & B & p & P & ->)]).
  - destruct (Z.leb_spec (len s) (L + lw)); [|lia]. injection H as <-. exact A.
  - destruct (Z.leb_spec (len s) (L + lw)); [lia|]. injection H as <-. cbn [payload].
    rewrite app_length. replace (length p + length e - length e) with (length p) by lia.
    rewrite firstn_app, firstn_all, Nat.sub_diag. cbn [firstn]. rewrite app_nil_r. lia.
Qed.
Print Assumptions C23_truncate_markup_partial.

(* ... and is false otherwise: 8 characters, length 5, end "<<<" give 2 + 12 raw characters
   (which display as 5) — recorded finding C23-truncate-markup-end *)
Theorem C23_truncate_markup_refuted : exists s L kw e lw t,
  truncate_markup s L kw (Plain e) lw = Ok t /\ (len (payload t) > L + lw)%Z.
Proof.
  exists [97;97;97;97;97;97;97;97]%N, 5%Z, true, [60;60;60]%N, 0%Z,
         (Mk [97;97; 38;108;116;59; 38;108;116;59; 38;108;116;59]%N).
  vm_compute. split; reflexivity.
Qed.

(* --- indent against the DOCUMENTED lines of the text (every line break ends a line; a text
   that ends with a break has an empty last line).  The `s + "\n"` quirk of do_indent yields
   exactly these lines unless the text ends with a lone carriage return ... *)
Theorem C23_indent_documented_lines_partial : forall s w first blank,
  ends_with_cr s = false ->
  do_indent s w first blank = spec_indent (indention_of w) first blank (doc_lines s).
Proof.
  intros s w first blank H. rewrite indent_spec. unfold splitlines, doc_lines.
  now rewrite (splitlines_quirk (length s) s [] (le_n _) H).
Qed.
Print Assumptions C23_indent_documented_lines_partial.

(* ... in which case the final break is dropped: "a\r"|indent is "a" although "a\n"|indent is
   "a\n" (recorded finding C23-indent-trailing-cr) *)
Theorem C23_indent_documented_lines_refuted : exists s w first blank,
  do_indent s w first blank <> spec_indent (indention_of w) first blank (doc_lines s).
Proof. exists [97; 13]%N, (WInt 4), false, false. vm_compute. discriminate. Qed.
