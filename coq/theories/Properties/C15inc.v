(* C15 for template sets (Model/EscLang2.v).  Statements only. *)
From Coq Require Import List NArith Bool.
Import ListNotations.
From JV Require Import Model.EscMarkup Model.EscLang2 Proofs.EscMarkupProofs Proofs.EscLang2Proofs.
Open Scope N_scope.

(* autoescape_safe through set blocks with filters, includes, imports, block references and
   super(): ae gives every template its own static setting (selector on the template name).
   Guards: main and base templates are autoescaped; every included / imported template is
   autoescaped (c15 predicate: ok_s ... ae, i.e. libs_ok); every block function of the render's
   block table runs in an enabled mode (bt_on = blocks_ok: compiled volatile or in an
   autoescaped template); no |safe, clean text, no {% autoescape false %}. *)
Theorem C15_autoescape_safe_inc : forall ae dl tt bt n main base root d o,
  tt_on ae tt -> bt_on ae bt ->
  ae main = true -> ae base = true -> c15_ok ae root = true ->
  render ae true dl tt bt n main base root d = Some o -> Clean o.
Proof. intros ae dl tt bt n main base root d o Ht Hb. exact (autoescape_safe_sets ae dl tt bt Ht Hb n main base root d o). Qed.
Print Assumptions C15_autoescape_safe_inc.

(* the set block with a filter escapes the filter's result (fix 45747b5): covered by the theorem;
   the guards are needed: *)

(* known finding C15-macro-imported-from-unescaped-template: library 20 is not autoescaped *)
Theorem C15_import_from_unescaped_refuted : exists ae tt root d o,
  ae 1 = true /\ render ae true [] tt [] 12 1 1 root d = Some o /\ ~ Clean o.
Proof.
  exists (fun t => t =? 1), [(20, [SMacro 21 [22] [SOut (EVar 22)]])], [SImport 20; SOut (ECall 21 [EVar 1])], [(1, [60])], [60].
  vm_compute. repeat split; try reflexivity. discriminate.
Qed.
Print Assumptions C15_import_from_unescaped_refuted.

(* known finding C15-overriding-block-in-parent-region: environment default off, the parent renders
   block 5 inside {% autoescape true %}, the child's overriding block is compiled with the child's
   static setting *)
Theorem C15_override_in_region_refuted : exists root child d o,
  render (fun _ => false) true [] [] (block_table [5] [(1, child); (2, root)]) 12 1 2 root d = Some o /\ ~ Clean o.
Proof.
  exists [SAutoescape (AConst true) [SBlock 5 []]], [SBlock 5 [SOut (EVar 1)]], [(1, [60])], [60].
  vm_compute. split; [reflexivity|discriminate].
Qed.
Print Assumptions C15_override_in_region_refuted.

(* known finding C15-super-from-unescaped-parent: the parent template 2 is not autoescaped, the child 1
   is; super() wraps the parent's unescaped block output in Markup *)
Theorem C15_super_from_unescaped_refuted : exists ae root child d o,
  ae 1 = true /\ render ae true [] [] (block_table [5] [(1, child); (2, root)]) 12 1 2 root d = Some o /\ ~ Clean o.
Proof.
  exists (fun t => t =? 1), [SBlock 5 [SOut (EVar 1)]], [SBlock 5 [SOut ESuper]], [(1, [60])], [60].
  vm_compute. repeat split; try reflexivity. discriminate.
Qed.
Print Assumptions C15_super_from_unescaped_refuted.

(* known finding C15-include-inside-autoescape-region: the included template 10 follows its own setting *)
Theorem C15_include_in_region_refuted : exists root d o,
  render (fun _ => false) true [] [(10, [SOut (EVar 1)])] [] 12 1 1 root d = Some o /\ ~ Clean o.
Proof.
  exists [SAutoescape (AConst true) [SInclude 10]], [(1, [60])], [60]. vm_compute. split; [reflexivity|discriminate].
Qed.
Print Assumptions C15_include_in_region_refuted.

(* ... whereas a block tag inside a region of its OWN template is compiled volatile (fix 60bd736)
   and escapes: {% autoescape true %}{% block b %}{{ d }}{% endblock %}{% endautoescape %}, default off *)
Example C15_block_in_own_region :
  render (fun _ => false) true [] [] (block_table [5] [(1, [SAutoescape (AConst true) [SBlock 5 [SOut (EVar 1)]]])]) 12 1 1
         [SAutoescape (AConst true) [SBlock 5 [SOut (EVar 1)]]] [(1, [60])] = Some [38; 108; 116; 59].
Proof. vm_compute. reflexivity. Qed.

(* non-vacuity of the theorem's guards *)
Example C15inc_example :
  let ae := fun _ : N => true in
  let base := [SText [91]; SBlock 5 [SOut (EVar 1)]; SInclude 10; SImport 20; SOut (ECall 21 [EVar 1]);
               SSetBlockF 30 FForceescape [] [SOut (EVar 1)]; SOut (EVar 30)] in
  let child := [SBlock 5 [SOut ESuper; SOut (ECat ESuper (EVar 1))]] in
  let tt := [(10, [SOut (EVar 1)]); (20, [SMacro 21 [22] [SOut (EVar 22)]])] in
  c15_ok ae base = true /\
  exists o, render ae true [] tt (block_table [5] [(1, child); (2, base)]) 40 1 2 base [(1, [60; 39])] = Some o
            /\ clean o = true /\ o <> [].
Proof.
  cbv zeta. split; [reflexivity|]. eexists. split; [vm_compute; reflexivity|]. split; [reflexivity|discriminate].
Qed.
