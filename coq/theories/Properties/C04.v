(* C04 — template inheritance renders the most-derived block overrides.
   Only statements, each closed by [exact <lemma>] (plus glue), followed by Print Assumptions.
   chain = [rendered template; its parent; ...; root]; names, texts, contexts, nesting, loop
   values, the number of templates and of super / self calls are all unbounded. *)
From Coq Require Import List NArith Bool Arith Lia.
Import ListNotations.
From JV Require Import Model.Inh Spec.InhSpec Proofs.InhProofs Model.InhRt Proofs.InhRtProofs.

(* context.blocks[n], built by Context.__init__ and the setdefault/append loop of every
   executed extends, lists the definitions of n from the most- to the least-derived template *)
Theorem C04_stack_order : forall (chain : list template) (n : name),
  chain_wf chain = true ->
  stack (blocks_of_chain chain) n = map (fun x => (fst (fst x), n)) (defs chain n).
Proof. intros chain n H. exact (stack_order_gen chain n H). Qed.
Print Assumptions C04_stack_order.

(* the generated code (block stacks, index(current)+1, BlockReference depth arithmetic, the
   two `required` tests, parent_template flags) renders what the documentation describes, for
   every chain, every data and every recursion bound at which the run does not die of
   RecursionError *)
Theorem C04_inherit_correct : forall (fuel : nat) (chain : list template) (data : vars),
  chain_wf chain = true -> render fuel chain data <> Err EFuel ->
  render fuel chain data = spec_render fuel chain data.
Proof. intros fuel chain data H Hne. exact (inherit_correct_gen fuel chain data H Hne). Qed.
Print Assumptions C04_inherit_correct.

(* fuel adequacy: a result obtained below some recursion bound is the result for every larger
   bound (so EFuel is the only fuel-dependent outcome, and it is excluded above) *)
Theorem C04_fuel_adequate : forall (fuel fuel' : nat) (chain : list template) (data : vars) (r : res),
  fuel <= fuel' -> render fuel chain data = r -> r <> Err EFuel -> render fuel' chain data = r.
Proof. intros fuel fuel' chain data r H1 H2 H3. exact (render_fuel_mono fuel fuel' chain data r H1 H2 H3). Qed.
Print Assumptions C04_fuel_adequate.

(* whatever a child template writes after its extends tag outside blocks is never rendered:
   deleting all of it from every template of the chain changes nothing *)
Theorem C04_no_child_output : forall (fuel : nat) (chain : list template) (data : vars),
  render fuel (map strip_child chain) data = render fuel chain data.
Proof. intros fuel chain data. exact (no_child_output_gen fuel chain data). Qed.
Print Assumptions C04_no_child_output.

(* a required definition that no descendant overrides (it is the first definition of its name in
   the chain, wherever in the chain it is declared) makes every block site of that name and every
   self.name() raise TemplateRuntimeError — at every point of the render (after m templates of the
   chain have been entered), in every function, loop nesting and context *)
Theorem C04_required_enforced :
  forall (whole : list template) (m fuel j : nat) (t : template) (cur : option name) (ctx L : vars)
         (b : name) (jm : nat) (tm : template) (dm : bdef),
  chain_wf whole = true ->
  nth_error (firstn m whole) j = Some t ->
  nth_error (defs (firstn m whole) b) 0 = Some (jm, tm, dm) -> b_required dm = true ->
  let B := blocks_of_chain (firstn m whole) in
  (forall dsite, assoc b (t_blocks t) = Some dsite ->
     exec_item (run_block (S fuel) whole B) B j t cur ctx L (IBlock b) = Err ERequired) /\
  exec_item (run_block (S fuel) whole B) B j t cur ctx L (ISelf b) = Err ERequired.
Proof.
  intros whole m fuel j t cur ctx L b jm tm dm Hwf Ht H0 Hr B.
  assert (Hne : firstn m whole <> []) by (intro Hc; rewrite Hc in Ht; destruct j; discriminate).
  pose proof (Brel_chain (firstn m whole) (chain_wf_firstn m whole Hwf) Hne) as HB.
  split.
  - intros dsite Hsite.
    exact (required_site_gen whole (firstn m whole) B HB (view_in_whole m whole) fuel j t cur ctx L b dsite jm tm dm
             Ht Hsite H0 Hr).
  - exact (required_self_gen whole (firstn m whole) B HB (view_in_whole m whole) fuel j t cur ctx L b jm tm dm H0 Hr).
Qed.
Print Assumptions C04_required_enforced.

(* what the model does for {{ super.super...() }} is the composition of the three runtime methods
   Context.super, BlockReference.super (k times) and BlockReference.__call__ in the stand-alone form
   that the translator (gen/inh_translate.py, regenerated on every run) proves equal to their
   current source *)
Theorem C04_super_is_runtime : forall call B j t b ctx L k,
  exec_item call B j t (Some b) ctx L (ISuper k) = super_item call B j b ctx k.
Proof. intros. exact (exec_item_super_rt call B j t b ctx L k). Qed.
Print Assumptions C04_super_is_runtime.

(* non-vacuity.  t0 extends t1 extends t2:
     t2 = "[" {% block a %}A2{% endblock %} "|" {% for i in [1,2] %}{% block b scoped %}{{ i }}{% endblock %}{% endfor %} "]"
     t1 = {% extends %} junk {% block a %}A1{{ super() }}{% endblock %}
     t0 = {% extends %} {% block a %}A0{{ super.super() }}{{ self.b() }}{% endblock %} {% block b %}b{{ i }}{{ super() }}{% endblock %} *)
Definition ex_t2 : template :=
  {| t_top := [TItem (IText [91%N]); TItem (IBlock 1%N); TItem (IText [124%N]);
               TItem (IFor [[(101%N, [49%N])]; [(101%N, [50%N])]] [IBlock 2%N]); TItem (IText [93%N])];
     t_blocks := [(1%N, {| b_scoped := false; b_required := false; b_body := [IText [65%N; 50%N]] |});
                  (2%N, {| b_scoped := true; b_required := false; b_body := [IVar 101%N] |})] |}.
Definition ex_t1 : template :=
  {| t_top := [TExtends None; TItem (IText [33%N]); TItem (IBlock 1%N)];
     t_blocks := [(1%N, {| b_scoped := false; b_required := false; b_body := [IText [65%N; 49%N]; ISuper 0] |})] |}.
Definition ex_t0 : template :=
  {| t_top := [TExtends None; TItem (IBlock 1%N); TItem (IBlock 2%N)];
     t_blocks := [(1%N, {| b_scoped := false; b_required := false;
                           b_body := [IText [65%N; 48%N]; ISuper 1; ISelf 2%N] |});
                  (2%N, {| b_scoped := false; b_required := false;
                           b_body := [IText [98%N]; IVar 101%N; ISuper 0] |})] |}.

Example C04_example :
  chain_wf [ex_t0; ex_t1; ex_t2] = true /\
  render 8 [ex_t0; ex_t1; ex_t2] [] =
    Ok [91; 65; 48; 65; 50; 98; 124; 98; 49; 49; 98; 50; 50; 93]%N /\
  spec_render 8 [ex_t0; ex_t1; ex_t2] [] = render 8 [ex_t0; ex_t1; ex_t2] [] /\
  stack (blocks_of_chain [ex_t0; ex_t1; ex_t2]) 1%N = [(0, 1%N); (1, 1%N); (2, 1%N)].
Proof. vm_compute. repeat split; reflexivity. Qed.

(* a required block declared in the MIDDLE template and not overridden below it: the whole
   render fails (with the code as it was before the repair recorded in known_findings.d/C04.json
   this chain rendered "[]") *)
Example C04_required_middle_example :
  render 8
    [ {| t_top := [TExtends None]; t_blocks := [] |};
      {| t_top := [TExtends None; TItem (IBlock 1%N)];
         t_blocks := [(1%N, {| b_scoped := false; b_required := true; b_body := [] |})] |};
      {| t_top := [TItem (IText [91%N]); TItem (IBlock 1%N); TItem (IText [93%N])];
         t_blocks := [(1%N, {| b_scoped := false; b_required := false; b_body := [IText [112%N]] |})] |} ] []
  = Err ERequired.
Proof. vm_compute. reflexivity. Qed.

(* how the clause "a required block that no descendant overrides fails" reads when the required
   block is never reached: root = {% block o %}[{% block inner required %}{% endblock %}]{% endblock %},
   the child overrides only o.  The documentation says a required block "cannot be rendered
   directly"; the check is made where a block is rendered (C04_required_enforced), and here the
   definition of inner is never rendered, so the render succeeds with the child's text.  The
   specification (and the engine) take this reading. *)
Example C04_required_unreached_example :
  spec_render 8
    [ {| t_top := [TExtends None];
         t_blocks := [(1%N, {| b_scoped := false; b_required := false; b_body := [IText [111%N]] |})] |};
      {| t_top := [TItem (IBlock 1%N)];
         t_blocks := [(1%N, {| b_scoped := false; b_required := false; b_body := [IText [91%N]; IBlock 2%N; IText [93%N]] |});
                      (2%N, {| b_scoped := false; b_required := true; b_body := [] |})] |} ] []
  = Ok [111%N].
Proof. vm_compute. reflexivity. Qed.
