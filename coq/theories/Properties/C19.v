(* C19 — the immutable sandbox never hands out a mutating method of list / dict / set / deque.
   Only statements, each closed by a short proof, followed by Print Assumptions.

   The property's domain is finite but depends on /repo (the ordered _mutable_spec table) and on
   the running interpreter (public method names, isinstance facts).  Therefore:
   * this file proves the theorem for EVERY table that passes the boolean checker, and for the
     snapshot of the table taken at the fix commit (so the static build is self-contained);
   * on every run gen/sbx_tables.py regenerates the table from the current source and the
     theorem [immutable_blocks_mutators] is re-proved about it (build/C19/SbxGenC19.v, via
     vm_compute + C19_blocks_mutators_of_checker). *)
From Coq Require Import List Bool String.
Import ListNotations.
From JV Require Import Model.SbxAttr Model.SbxMutable Spec.SbxMutators Proofs.SbxMutableProofs.
Open Scope string_scope.

(* the theorem for every table accepted by the checker (used by the regenerated obligation) *)
Theorem C19_blocks_mutators_of_checker : forall tb spec pubs, blocks_ok tb spec pubs = true ->
  forall T m, In m (pubs T) -> mutates T m = true -> immutable_is_safe_attribute tb spec T m = false.
Proof. exact blocks_ok_sound. Qed.
Print Assumptions C19_blocks_mutators_of_checker.

(* ... and what is handed out instead is the SecurityError-raising undefined *)
Theorem C19_blocked_is_unsafe_undefined : forall tb spec pubs, blocks_ok tb spec pubs = true ->
  forall T m, In m (pubs T) -> mutates T m = true -> immutable_handout tb spec T m = HUnsafeUndefined.
Proof.
  intros tb spec pubs Hok T m Hin Hmut. apply blocked_handout.
  exact (blocks_ok_sound tb spec pubs Hok T m Hin Hmut).
Qed.
Print Assumptions C19_blocked_is_unsafe_undefined.

(* stored references: a bound mutating method handed to the template as DATA (render(f=lst.append)) never
   passes attribute access; the immutable call gate refuses it, for every table accepted by the checker *)
Theorem C19_refuses_stored_mutators_of_checker : forall spec pubs, calls_ok spec pubs = true ->
  forall T m, In m (pubs T) -> mutates T m = true -> immutable_is_safe_callable spec T m = false.
Proof. exact calls_ok_sound. Qed.
Print Assumptions C19_refuses_stored_mutators_of_checker.

(* ... in whatever form the reference is stored: bound, unbound (list.append with the list as argument),
   wrapped in functools.partial any number of times *)
Theorem C19_refuses_every_stored_form_of_checker : forall spec pubs, calls_ok spec pubs = true ->
  forall r T m, ref_target r = Some (T, m) -> In m (pubs T) -> mutates T m = true -> immutable_safe_ref spec r = false.
Proof.
  intros spec pubs Hok r T m Ht Hin Hmut. rewrite (safe_ref_by_target spec r T m Ht).
  exact (calls_ok_sound spec pubs Hok T m Hin Hmut).
Qed.
Print Assumptions C19_refuses_every_stored_form_of_checker.

(* underscore names (dunder mutators __setitem__, __iadd__, ...) are blocked for every table *)
Theorem C19_private_blocked : forall tb spec T a, starts_underscore a = true ->
  immutable_is_safe_attribute tb spec T a = false.
Proof. exact private_blocked. Qed.
Print Assumptions C19_private_blocked.

(* write footprint of filters.py: the checker over the regenerated facts is sound *)
Theorem C19_filters_do_not_mutate_args_of_checker : forall facts, filters_clean facts = true ->
  forall f sites, In (f, sites) facts -> sites = [].
Proof. exact filters_clean_sound. Qed.
Print Assumptions C19_filters_do_not_mutate_args_of_checker.

(* ------------------------------------------------------------------ snapshot instance *)
Definition snap_tables : tables := mkTables [] [] ["gi_frame"; "gi_code"] ["cr_frame"; "cr_code"] ["ag_code"; "ag_frame"].

(* sandbox._mutable_spec after the fix commit; CPython 3.12 isinstance facts *)
Definition snap_spec : list row :=
  [ mkRow "abc.MutableSet" [TSet]
      ["add"; "clear"; "difference_update"; "discard"; "intersection_update"; "pop"; "remove";
       "symmetric_difference_update"; "update"];
    mkRow "abc.MutableMapping" [TDict] ["clear"; "pop"; "popitem"; "setdefault"; "update"];
    mkRow "deque" [TDeque]
      ["append"; "appendleft"; "clear"; "extend"; "extendleft"; "insert"; "pop"; "popleft";
       "remove"; "reverse"; "rotate"];
    mkRow "abc.MutableSequence" [TList; TDeque]
      ["append"; "clear"; "pop"; "reverse"; "insert"; "sort"; "extend"; "remove"] ].

(* dir(T) without underscore names, CPython 3.12 *)
Definition snap_public (T : btype) : list string :=
  match T with
  | TList => ["append"; "clear"; "copy"; "count"; "extend"; "index"; "insert"; "pop"; "remove"; "reverse"; "sort"]
  | TDict => ["clear"; "copy"; "fromkeys"; "get"; "items"; "keys"; "pop"; "popitem"; "setdefault"; "update"; "values"]
  | TSet => ["add"; "clear"; "copy"; "difference"; "difference_update"; "discard"; "intersection";
             "intersection_update"; "isdisjoint"; "issubset"; "issuperset"; "pop"; "remove";
             "symmetric_difference"; "symmetric_difference_update"; "union"; "update"]
  | TDeque => ["append"; "appendleft"; "clear"; "copy"; "count"; "extend"; "extendleft"; "index"; "insert";
               "maxlen"; "pop"; "popleft"; "remove"; "reverse"; "rotate"]
  end.

Theorem C19_immutable_blocks_mutators_snapshot : forall T m, In m (snap_public T) -> mutates T m = true ->
  immutable_is_safe_attribute snap_tables snap_spec T m = false.
Proof. apply blocks_ok_sound. vm_compute. reflexivity. Qed.
Print Assumptions C19_immutable_blocks_mutators_snapshot.

(* the table as it was before the fix (deque after MutableSequence, no intersection_update)
   does NOT satisfy the theorem: the order of rows matters because the first match decides.
   Kept as a regression witness; the finding is recorded as fixed in known_findings.d/C19.json *)
Definition prefix_spec : list row :=
  [ mkRow "abc.MutableSet" [TSet]
      ["add"; "clear"; "difference_update"; "discard"; "pop"; "remove"; "symmetric_difference_update"; "update"];
    mkRow "abc.MutableMapping" [TDict] ["clear"; "pop"; "popitem"; "setdefault"; "update"];
    mkRow "abc.MutableSequence" [TList; TDeque]
      ["append"; "clear"; "pop"; "reverse"; "insert"; "sort"; "extend"; "remove"];
    mkRow "deque" [TDeque]
      ["append"; "appendleft"; "clear"; "extend"; "extendleft"; "pop"; "popleft"; "remove"; "rotate"] ].

Example C19_prefix_table_refuted :
  failing_rows snap_tables prefix_spec snap_public =
  [(TSet, "intersection_update"); (TDeque, "appendleft"); (TDeque, "extendleft"); (TDeque, "popleft"); (TDeque, "rotate")].
Proof. vm_compute. reflexivity. Qed.

(* non-vacuity: the snapshot domain contains mutating and non-mutating public methods, the
   former blocked, the latter handed out *)
Example C19_example :
  immutable_handout snap_tables snap_spec TDeque "rotate" = HUnsafeUndefined /\
  immutable_handout snap_tables snap_spec TDeque "count" = HValue /\
  immutable_handout snap_tables snap_spec TSet "intersection_update" = HUnsafeUndefined /\
  immutable_handout snap_tables snap_spec TSet "intersection" = HValue /\
  failing_rows snap_tables snap_spec snap_public = [] /\
  immutable_is_safe_callable snap_spec TDeque "appendleft" = false /\
  immutable_is_safe_callable snap_spec TList "index" = true /\
  calls_ok snap_spec snap_public = true /\
  immutable_safe_ref snap_spec (RPartial (RPartial (RUnbound TList "append"))) = false /\
  immutable_safe_ref snap_spec (RPartial (RBound TList "copy")) = true.
Proof. vm_compute. repeat split; reflexivity. Qed.
