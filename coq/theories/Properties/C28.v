(* C28 — loaders never resolve a template name outside their search locations.
   Statements only; each closed by a lemma of Proofs/LdrProofs.v. *)
From Coq Require Import List NArith Bool Lia.
Import ListNotations.
From JV Require Import Model.Ldr Spec.LdrSpec Proofs.LdrProofs.
Open Scope N_scope.

(* every piece split_template_path returns is non-empty, not "." or "..", and contains neither
   "/" nor a separator of the platform convention — for every name and every convention *)
Theorem C28_split_safe : forall cv name ps,
  split_template_path cv name = Some ps -> Forall (safe cv) ps.
Proof. exact split_safe. Qed.
Print Assumptions C28_split_safe.

(* a name is rejected exactly when one of its "/"-separated segments is ".." or contains a
   platform separator; the file-system and package loaders then raise TemplateNotFound
   without touching the file system *)
Theorem C28_rejects_escape : forall cv name,
  (split_template_path cv name = None <->
   exists p, In p (split_on c_slash name) /\ (existsb (is_sep cv) p = true \/ p = s_dotdot)) /\
  (split_template_path cv name = None ->
   forall fs sps root, get_source cv fs (LFs sps) name = NotFound /\ get_source cv fs (LPkg root) name = NotFound).
Proof. exact C28_rejects_escape_proof. Qed.
Print Assumptions C28_rejects_escape.

(* POSIX convention (os.path = posixpath), every root and every name: the normalised joined
   path has the normalised root's anchor and components followed by exactly the safe pieces —
   nothing of the root is ever popped *)
Theorem C28_join_contained : forall cv root name ps,
  split_template_path cv name = Some ps ->
  contained_posix root (posix_join root ps) ps /\
  posix_normpath (posix_join root ps) = render_posix (fst (posix_parts root), snd (posix_parts root) ++ ps).
Proof.
  intros cv root name ps H. pose proof (posix_join_parts cv ps root (split_safe cv name ps H)) as E.
  split; [exact E|]. unfold posix_normpath. now rewrite E.
Qed.
Print Assumptions C28_join_contained.

(* Windows convention (sep "\", altsep "/", os.path.normpath = ntpath.normpath): the same
   containment for every plain root ... *)
Theorem C28_join_contained_nt_partial : forall root name ps,
  nt_plain root = true -> split_template_path nt name = Some ps ->
  contained_nt root (posix_join root ps) ps /\
  nt_normpath (posix_join root ps) = render_nt (fst (nt_parts root), snd (nt_parts root) ++ ps).
Proof.
  intros root name ps G H. pose proof (nt_join_parts ps root (split_safe nt name ps H) G) as E.
  split; [exact E|]. unfold nt_normpath. now rewrite E.
Qed.
Print Assumptions C28_join_contained_nt_partial.

(* ... and the guard is needed: with the empty search path the accepted name "C:x" becomes a
   drive-relative path, and with the search path "\" the name "a/b" becomes the UNC path \\a\b *)
Theorem C28_join_contained_nt_refuted :
  (exists name ps, split_template_path nt name = Some ps /\ ~ contained_nt [] (posix_join [] ps) ps) /\
  (exists name ps, split_template_path nt name = Some ps /\ ~ contained_nt [92] (posix_join [92] ps) ps).
Proof.
  split.
  - exists [67; 58; 120], [[67; 58; 120]]. split; [vm_compute; reflexivity|]. unfold contained_nt. vm_compute. discriminate.
  - exists [97; 47; 98], [[97]; [98]]. split; [vm_compute; reflexivity|]. unfold contained_nt. vm_compute. discriminate.
Qed.
Print Assumptions C28_join_contained_nt_refuted.

(* FileSystemLoader on a directory tree: the only file it opens is join(sp, pieces) for a
   search path sp and safe pieces; that path is lexically contained in sp, and in the tree it
   resolves to the node reached from sp's directory by descending through the pieces *)
Theorem C28_fs_contained : forall cv fs sps name f fn c,
  get_source cv fs (LFs sps) name = Found (Some f) fn c ->
  exists sp ps d, In sp sps /\ split_template_path cv name = Some ps /\ Forall (safe cv) ps /\
    f = posix_join sp ps /\ contained_posix sp f ps /\
    fs_resolve_dir fs sp = Some d /\ fs_resolve_dir fs f = Some (d ++ ps) /\ fs_file fs (d ++ ps) = Some c.
Proof. exact C28_fs_contained_proof. Qed.
Print Assumptions C28_fs_contained.

(* PackageLoader (directory form): the opened path is the normal form of a path contained
   in the template root *)
Theorem C28_pkg_contained : forall cv fs root name o fn c,
  get_source cv fs (LPkg root) name = Found o fn c ->
  exists ps, split_template_path cv name = Some ps /\ Forall (safe cv) ps /\
    o = Some (posix_normpath (posix_join root ps)) /\ contained_posix root (posix_join root ps) ps.
Proof.
  intros cv fs root name o fn c H. cbn [get_source] in H.
  destruct (split_template_path cv name) as [ps|] eqn:Es; [|discriminate].
  destruct (os_read fs (posix_normpath (posix_join root ps))); [|discriminate].
  injection H as <- _ _. pose proof (split_safe cv name ps Es) as Hs.
  exists ps. repeat split; try assumption. exact (posix_join_parts cv ps root Hs).
Qed.
Print Assumptions C28_pkg_contained.

(* ChoiceLoader: the answer is that of the first member that has the template *)
Theorem C28_choice_first : forall cv fs ls name o fn c,
  get_source cv fs (LChoice ls) name = Found o fn c <->
  exists l1 l l2, ls = l1 ++ l :: l2 /\
    Forall (fun l' => get_source cv fs l' name = NotFound) l1 /\ get_source cv fs l name = Found o fn c.
Proof. exact C28_choice_first_proof. Qed.
Print Assumptions C28_choice_first.

(* PrefixLoader: a name "<p><delimiter><rest>" (first occurrence of a non-empty delimiter) is
   answered by the loader bound to p asked for <rest>; anything else is TemplateNotFound *)
Theorem C28_prefix_route : forall cv fs d m name,
  (forall p rest, split_once d name = Some (p, rest) ->
     d <> [] /\ name = p ++ d ++ rest /\
     (forall p' rest', name = p' ++ d ++ rest' -> (length p <= length p')%nat) /\
     get_source cv fs (LPrefix d m) name =
       match prefix_lookup p m with Some l => get_source cv fs l rest | None => NotFound end) /\
  (split_once d name = None ->
     (d = [] \/ forall p' rest', name <> p' ++ d ++ rest') /\ get_source cv fs (LPrefix d m) name = NotFound).
Proof. exact C28_prefix_route_proof. Qed.
Print Assumptions C28_prefix_route.

(* "has it" as list_templates sees it: the listed name <prefix><delimiter><n> of a member template resolves — whenever
   the FIRST occurrence of the delimiter in that name is the one after the prefix ... *)
Theorem C28_prefix_listed_partial : forall cv fs d m p l n,
  prefix_lookup p m = Some l -> split_once d (p ++ d ++ n) = Some (p, n) ->
  get_source cv fs (LPrefix d m) (p ++ d ++ n) = get_source cv fs l n.
Proof. intros cv fs d m p l n Hl Hs. rewrite get_source_prefix, Hs, Hl. reflexivity. Qed.
Print Assumptions C28_prefix_listed_partial.

(* ... and not otherwise: a prefix that itself contains the delimiter makes every template of its loader
   unreachable although list_templates lists it (recorded known finding) *)
Theorem C28_prefix_listed_refuted :
  exists d m p l n c, (prefix_lookup p m = Some l) /\ (get_source posix nil l n = Found None None c) /\
    (get_source posix nil (LPrefix d m) (p ++ d ++ n) = NotFound).
Proof.
  exists [47], [([97; 47; 98], LDict [([120], 7)])], [97; 47; 98], (LDict [([120], 7)]), [120], 7.
  vm_compute. repeat split; reflexivity.
Qed.
Print Assumptions C28_prefix_listed_refuted.

(* any composition: the answer is that of the first leaf loader on the route of the name that
   has the template; TemplateNotFound exactly when no leaf on the route has it *)
Theorem C28_notfound_iff_none : forall cv fs l name,
  get_source cv fs l name = first_found (leaf_results cv fs (route l name)) /\
  (get_source cv fs l name = NotFound <->
   Forall (fun ln => get_source cv fs (fst ln) (snd ln) = NotFound) (route l name)).
Proof.
  intros cv fs l name. split; [exact (get_source_route cv fs l name)|].
  rewrite (get_source_route cv fs l name), first_found_none. unfold leaf_results.
  split; intros H; [apply Forall_map in H|apply Forall_map]; exact H.
Qed.
Print Assumptions C28_notfound_iff_none.

(* non-vacuity: a tree with a file inside and a sentinel outside the search path; a nested
   name is found, a traversal name and a backslash name (Windows convention) are rejected,
   a choice falls through to its second member, a prefix routes *)
Definition ex_fs : fsys := [([[116]; [97]], 1); ([[116]; [115]; [97]], 2); ([[111]; [120]], 9)].  (* t/a t/s/a o/x *)
Example C28_example :
  get_source posix ex_fs (LFs [[47; 116]]) [115; 47; 46; 47; 47; 97] = Found (Some [47; 116; 47; 115; 47; 97]) (Some [47; 116; 47; 115; 47; 97]) 2
  /\ get_source posix ex_fs (LFs [[47; 116]]) [46; 46; 47; 111; 47; 120] = NotFound
  /\ get_source nt ex_fs (LFs [[47; 116]]) [115; 92; 97] = NotFound
  /\ get_source posix ex_fs (LChoice [LDict [([98], 5)]; LFs [[47; 116]]]) [97] = Found (Some [47; 116; 47; 97]) (Some [47; 116; 47; 97]) 1
  /\ get_source posix ex_fs (LPrefix [47] [([112], LDict [([98; 47; 99], 7)])]) [112; 47; 98; 47; 99] = Found None None 7.
Proof. vm_compute. repeat split; reflexivity. Qed.
