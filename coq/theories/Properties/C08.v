(* C08 — compile-time constant folding never changes what a template renders.
   M = Model/ExprFold (as_const per node kind, Optimizer, optimizeconst, output folding), following
   /repo after the three fix: commits of this property; S = Spec/ExprSpec.eval. *)
From Coq Require Import List NArith ZArith Bool Lia.
Import ListNotations.
From JV Require Import Model.ExprAst Model.ExprPrim Spec.ExprSpec Model.ExprTarget Model.ExprFold
  Proofs.ExprProofs Proofs.ExprFoldProofs.

(* whenever as_const yields a constant, evaluating the expression at run time yields that
   constant, in every context, without calling anything (the event log is unchanged) *)
Theorem C08_as_const_sound : forall (O : oracles) (c : cfg) (e : expr) (v : value),
  as_const O c e = FConst v ->
  forall (n : nat), depth e <= n -> forall (rho : env) (l : list event), eval O c n e rho l = (Ok v, l).
Proof. exact as_const_sound. Qed.
Print Assumptions C08_as_const_sound.

(* the optimizer (and its placement by optimizeconst) preserves value, errors and events *)
Theorem C08_optimize_preserves : forall (O : oracles) (c : cfg) (n : nat) (e : expr),
  depth e <= n -> forall (rho : env) (l : list event),
    eval O c n (optimize O c e) rho l = eval O c n e rho l /\
    eval O c n (pre_opt O c e) rho l = eval O c n e rho l.
Proof.
  intros O c n e Hd rho l. split.
  - exact (proj2 (optimize_good O c n e Hd) rho l).
  - exact (proj2 (pre_opt_good O c n e Hd) rho l).
Qed.
Print Assumptions C08_optimize_preserves.

(* optimized=True and optimized=False emit code with the same meaning: [gen c e] is what the
   compiler emits when the optimizer is off ([pre_opt] is the identity then) *)
Theorem C08_optimized_equals_unoptimized : forall (O : oracles) (c : cfg),
  coherent c ->
  forall (n : nat) (e : expr), depth e <= n -> forall (rho : env) (l : list event),
    py_eval O c n (gen_opt O c e) rho l = py_eval O c n (gen c e) rho l.
Proof.
  intros O c Hco n e Hd rho l.
  rewrite (gen_opt_correct O c Hco n e Hd rho l). symmetry. exact (gen_correct O c Hco n e rho l).
Qed.
Print Assumptions C08_optimized_equals_unoptimized.

Theorem C08_unoptimized_is_gen : forall (O : oracles) (c : cfg) (e : expr),
  optimized c = false -> gen_opt O c e = gen c e.
Proof. intros O c e H. unfold gen_opt, pre_opt, opt_on. rewrite H. reflexivity. Qed.
Print Assumptions C08_unoptimized_is_gen.

(* the text {{ e }} contributes — whether written into the module at compile time or computed
   at run time — is the text of the documented value, in both static escaping modes and in
   the run-time-decided mode *)
Theorem C08_output_const_sound : forall (O : oracles) (c : cfg),
  coherent c ->
  forall (n : nat) (e : expr), depth e <= n -> forall (rho : env) (l : list event),
    render_child O c n e rho l = (v <- eval O c n e rho ;; lift (out_text c v)) l.
Proof. exact render_child_correct. Qed.
Print Assumptions C08_output_const_sound.

(* nothing is folded when the escaping mode is decided at run time *)
Theorem C08_volatile_nothing_folded : forall (O : oracles) (c : cfg) (e : expr),
  volatile c = true -> output_child O c e = OutRun (gen c e).
Proof. exact volatile_no_const. Qed.
Print Assumptions C08_volatile_nothing_folded.

(* the constant-lifting metamorphosis: replacing a variable by the constant it holds (or,
   read right to left, lifting a constant into a fresh variable) does not change the result *)
Theorem C08_lift_constant : forall (O : oracles) (c : cfg) (x : str) (k : value) (n : nat) (e : expr) (rho : env) (l : list event),
  eval O c n (subst x k e) rho l = eval O c n e ((x, k) :: rho) l.
Proof. intros O c x k. exact (subst_eval O c x k). Qed.
Print Assumptions C08_lift_constant.

(* the property end to end: compiled-with-folding == compiled after lifting the constant *)
Theorem C08_folded_equals_lifted : forall (O : oracles) (c : cfg),
  coherent c ->
  forall (x : str) (k : value) (n : nat) (e : expr), depth e <= n -> depth (subst x k e) <= n ->
  forall (rho : env) (l : list event),
    render_child O c n (subst x k e) rho l = render_child O c n e ((x, k) :: rho) l.
Proof.
  intros O c Hco x k n e Hd Hd' rho l.
  rewrite (render_child_correct O c Hco n _ Hd' rho l), (render_child_correct O c Hco n e Hd _ l).
  apply bind_ext; [apply subst_eval|reflexivity].
Qed.
Print Assumptions C08_folded_equals_lifted.

(* non-vacuity: ("<b>"|safe) ~ "<i>" under autoescape folds to the Markup the run time
   computes, and is written out unescaped-where-safe *)
Definition ae_cfg : cfg := {|
  sandboxed := false; ibin := fun _ => false; iun := fun _ => false; is_async := false;
  autoescape := true; volatile := false; rt_autoescape := true; optimized := true;
  hook_bin := prim_bin; hook_un := prim_un |}.
Example C08_example :
  let e := EConcat [EFilter (EConst (VStr [60; 98; 62]%N)) s_safe []; EConst (VStr [60; 105; 62]%N)] in
  as_const none_oracles ae_cfg e = FConst (VMk [60; 98; 62; 38; 108; 116; 59; 105; 38; 103; 116; 59]%N) /\
  output_child none_oracles ae_cfg e = OutConst [60; 98; 62; 38; 108; 116; 59; 105; 38; 103; 116; 59]%N /\
  optimize none_oracles ae_cfg (EBin Add (EName [120%N]) (EBin Mul (EConst (VInt 2)) (EConst (VInt 3))))
    = EBin Add (EName [120%N]) (EConst (VInt 6)).
Proof. vm_compute. repeat split; reflexivity. Qed.
