(* C26 — the LRU cache behaves like a least-recently-used map (sequential half, and the
   lock-atomicity argument for the concurrent half in Proofs/LRUConc.v). *)
From Coq Require Import List NArith Bool Arith Lia.
Import ListNotations.
From JV Require Import Model.LRU Spec.LRUSpec Proofs.LRUProofs.
Open Scope N_scope.

(* every operation sequence on a cache of capacity >= 1 returns what the reference LRU map
   returns, and ends in a state whose abstraction is the reference state *)
Theorem C26_lru_refines : forall (c : N) (ops : list op) s' xs,
  1 <= c -> run (init c) ops = (s', xs) -> srun c [] ops = (abs s', xs).
Proof.
  intros c ops s' xs Hc H.
  exact (proj1 (run_refines ops (init c) s' xs (init_inv c Hc) H)).
Qed.
Print Assumptions C26_lru_refines.

(* reachable states satisfy the representation invariant: no duplicate in the queue, queue
   and mapping hold the same keys, and the size never exceeds the capacity *)
Theorem C26_reachable_inv : forall (c : N) (ops : list op) s' xs,
  1 <= c -> run (init c) ops = (s', xs) -> Inv s' /\ cap s' = c.
Proof.
  intros c ops s' xs Hc H.
  exact (proj2 (run_refines ops (init c) s' xs (init_inv c Hc) H)).
Qed.
Print Assumptions C26_reachable_inv.

Theorem C26_capacity_bound : forall (c : N) (ops : list op) s' xs,
  1 <= c -> run (init c) ops = (s', xs) -> mlen (mapping s') <= c /\ N.of_nat (length (abs s')) <= c.
Proof.
  intros c ops s' xs Hc H. destruct (C26_reachable_inv c ops s' xs Hc H) as [I C].
  unfold mlen, abs. rewrite absl_length, <- (inv_size s' I), <- C. split; exact (inv_cap s' I).
Qed.
Print Assumptions C26_capacity_bound.

(* the IndexError / ValueError branches of the implementation (empty deque, key missing from
   the deque in __setitem__) are unreachable: only the documented KeyError can be raised *)
Theorem C26_only_keyerror : forall (c : N) (ops : list op) s' xs,
  1 <= c -> run (init c) ops = (s', xs) -> forallb (fun x => negb (is_internal_exn x)) xs = true.
Proof.
  intros c ops s' xs Hc H. pose proof (C26_lru_refines c ops s' xs Hc H) as R.
  pose proof (srun_no_internal c ops []) as N. now rewrite R in N.
Qed.
Print Assumptions C26_only_keyerror.

(* the guard 1 <= c is needed: with capacity 0 the first insertion pops from an empty deque *)
Theorem C26_cap0_refuted : exists ops, snd (run (init 0) ops) = [OExn IndexError].
Proof. exists [SetItem 1 1]. vm_compute. reflexivity. Qed.

(* non-vacuity: an eviction, a touch that saves a key from eviction, copy and pickle *)
Example C26_example :
  snd (run (init 2) [SetItem 1 10; SetItem 2 20; GetItem 1; SetItem 3 30; Contains 2; Copy; Keys; Pickle; Items; Len])
  = [ONone; ONone; OVal 10; ONone; OBool false; ONone; OKeys [3; 1]; ONone; OItems [(3, 30); (1, 10)]; ONat 2].
Proof. vm_compute. reflexivity. Qed.
