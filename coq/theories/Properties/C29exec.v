(* C29 / C37 — the theorems instantiated at the concrete, extracted model (Model/FramesExec.v):
   what build/bin/framesexec runs is [crun], i.e. FramesSched.run_sched on the denotation of a
   concrete schedule, and for well-formed schedules it has the non-interference properties. *)
From Coq Require Import List NArith Bool.
Import ListNotations.
From JV Require Import Model.Frames Model.FramesSched Model.FramesExec
  Proofs.FramesProofs Proofs.FramesSchedProofs Proofs.FramesExecProofs.
Open Scope N_scope.

Definition only_c (a : N) (s : list (N * cstep)) : list (N * cstep) := filter (fun ts => N.eqb (fst ts) a) s.

(* for every well-formed concrete schedule and every initial heap with empty caches: the
   read-only regions are unchanged, every render ends with the private cells it computes when
   its steps run alone, and every cache cell is empty or holds G *)
Theorem C29_exec_noninterference :
  forall (init : list (loc * N)) (s : list (N * cstep)),
  csched_wf s = true -> forallb (fun lv => negb (is_cache (fst lv))) init = true ->
  let h0 := heap_of init in
  let h := run_sched Gc (denote_sched s) h0 in
  (forall l, ro l = true -> h l = h0 l) /\
  (forall a n, h (PerRender a, n) = run_sched Gc (denote_sched (only_c a s)) h0 (PerRender a, n)) /\
  (forall c, is_cache c = true -> h c = 0 \/ h c = Gc c h0).
Proof.
  intros init s W E h0 h. pose proof (wf_sched_ok s W) as K. pose proof (cache_inv_heap_of init E) as I.
  split; [|split].
  - exact (inputs_unchanged Gc (denote_sched s) h0 (proj1 K)).
  - intros a n. unfold h, only_c. rewrite <- only_denote. exact (noninterference Gc Gc_ro a (denote_sched s) h0 K I n).
  - intros c Hc. exact (cache_value Gc Gc_ro (denote_sched s) h0 c (proj1 K) I Hc).
Qed.
Print Assumptions C29_exec_noninterference.

(* outside the footprint the concrete model shows the two recorded / repaired defects *)
Theorem C29_exec_refuted :
  let init := [((Data, 2), 5); ((EnvGlobals, 0), 7)] in
  (* namespace(d) adopting the caller's dict: the attribute store lands in the data *)
  crun init [(1, CData 2 (CAdd (CRead (Data, 2)) (CConst 1))); (1, CPriv 100 (CRead (Data, 2)))] [(Data, 2)] = [6] /\
  (* two renders inside the autoescape block of a cached module's macro *)
  crun [((ModuleCache, 9), 1)]
       [(1, CPriv 5 (CThrough (ModuleCache, 9))); (1, CCacheW (ModuleCache, 9) (CConst 2));
        (2, CPriv 5 (CThrough (ModuleCache, 9))); (2, CCacheW (ModuleCache, 9) (CConst 2));
        (1, CCacheW (ModuleCache, 9) (COwn 5)); (2, CPriv 100 (CThrough (ModuleCache, 9))); (2, CCacheW (ModuleCache, 9) (COwn 5))]
       [(PerRender 2, 100); (ModuleCache, 9)] = [1; 2].
Proof. vm_compute. split; reflexivity. Qed.

(* non-vacuity: two renders, both import the module (cell 0), interleaved chunk by chunk *)
Example C29_exec_example :
  let init := [((Data, 0), 3); ((Data, 1), 4); ((EnvGlobals, 0), 10); ((TplGlobals, 0), 20)] in
  let s := [(1, CFill (ModuleCache, 0)); (1, CPriv 100 (CAdd (CRead (Data, 0)) (CThrough (ModuleCache, 0))));
            (2, CPriv 0 (CAdd (CRead (Data, 1)) (CRead (TplGlobals, 0)))); (2, CFill (ModuleCache, 0));
            (1, CPriv 101 (CAdd (COwn 100) (CConst 1))); (2, CPriv 100 (CAdd (COwn 0) (CThrough (ModuleCache, 0))))] in
  csched_wf s = true /\
  crun init s [(PerRender 1, 100); (PerRender 1, 101); (PerRender 2, 100); (ModuleCache, 0); (Data, 0); (EnvGlobals, 0)]
  = [14; 15; 35; 11; 3; 10].
Proof. vm_compute. split; reflexivity. Qed.
