(* C18 — a sandboxed template never calls a callable the sandbox deems unsafe.
   Only statements, each closed by a short proof, followed by Print Assumptions. *)
From Coq Require Import List Bool String.
Import ListNotations.
From JV Require Import Model.SbxGen Model.SbxCall Proofs.SbxGenProofs Proofs.SbxCallProofs Model.SbxRoute Proofs.SbxRouteProofs.
Open Scope list_scope.

(* Syntactic half.  In sandboxed mode every Call node of an expression — wherever nested: callee,
   positional / keyword / * / ** arguments, filter and test arguments, subscripts, slices,
   operands — is compiled to environment.call(context, f, ...); no context.call, no direct call;
   and gates are in bijection with Call nodes (none dropped). *)
Theorem C18_calls_gated : forall m e, sandboxed m = true ->
  gated (gen m e) = true /\ count_gates (gen m e) = count_calls e.
Proof. intros m e H. split; [exact (gen_gated m e H)|exact (gen_count m e H)]. Qed.
Print Assumptions C18_calls_gated.

(* ... for every expression position of every statement: output, set, set-block filter, loop
   iterable and loop filter, if tests, macro and call-block defaults, the call of a call block,
   filter blocks, with, include, and all nested bodies *)
Theorem C18_calls_gated_template : forall m body, sandboxed m = true ->
  Forall (fun t => gated t = true) (gen_template m body) /\
  sum_list (map count_gates (gen_template m body)) = sum_list (map count_calls (template_exprs body)).
Proof. intros m body H. split; [exact (gen_template_gated m body H)|exact (gen_template_count m body H)]. Qed.
Print Assumptions C18_calls_gated_template.

(* The gate constructor [gen] chooses for a Call node is the token the emission model of visit_Call
   writes, and in sandboxed mode that model never writes context.call; the regenerated decision table
   of compiler.visit_Call is compared with the model on every run. *)
Theorem C18_call_route_as_emitted : forall m f args kw dyn dynkw,
  In (first_write (gen m (ECall f args kw dyn dynkw))) (route_call m) /\
  (sandboxed m = true -> ~ In "W:context.call("%string (route_call m)).
Proof. intros m f args kw dyn dynkw. split; [exact (gen_call_route m f args kw dyn dynkw)|exact (route_call_sandboxed m)]. Qed.
Print Assumptions C18_call_route_as_emitted.

(* Semantic half.  For every safety predicate (default or overridden), every behaviour of the
   callables, attributes, items, filters, tests and operators, and every variable binding:
   in the evaluation of the generated code of any expression, an invocation of a callable is
   immediately preceded by a positive safety check of that same callable. *)
Theorem C18_call_gate_sound :
  forall policy invoke_result format_result env attr_of item_of filter_res test_res op_res m e c,
  sandboxed m = true ->
  In (EvInvoke c) (fst (eval policy invoke_result format_result env attr_of item_of filter_res test_res op_res (gen m e))) ->
  policy c = true /\
  exists pre post, fst (eval policy invoke_result format_result env attr_of item_of filter_res test_res op_res (gen m e))
                   = pre ++ EvCheck c true :: EvInvoke c :: post.
Proof.
  intros policy invoke_result format_result env attr_of item_of filter_res test_res op_res m e c Hs Hin.
  exact (eval_invoke_checked policy invoke_result format_result env attr_of item_of filter_res test_res op_res
           (gen m e) c (gen_gated m e Hs) Hin).
Qed.
Print Assumptions C18_call_gate_sound.

(* a callable the predicate in force rejects never runs *)
Theorem C18_rejected_never_runs :
  forall policy invoke_result format_result env attr_of item_of filter_res test_res op_res m e c,
  sandboxed m = true -> policy c = false ->
  ~ In (EvInvoke c) (fst (eval policy invoke_result format_result env attr_of item_of filter_res test_res op_res (gen m e))).
Proof.
  intros policy invoke_result format_result env attr_of item_of filter_res test_res op_res m e c Hs Hp.
  exact (eval_unsafe_never_runs policy invoke_result format_result env attr_of item_of filter_res test_res op_res
           (gen m e) c (gen_gated m e Hs) Hp).
Qed.
Print Assumptions C18_rejected_never_runs.

(* with the default predicate: marked unsafe or alters_data — on the object or on its class's
   __call__ method — => never runs *)
Theorem C18_unsafe_never_runs :
  forall invoke_result format_result env attr_of item_of filter_res test_res op_res m e c,
  sandboxed m = true ->
  c_unsafe c = true \/ c_alters c = true \/ c_call_unsafe c = true \/ c_call_alters c = true \/
  c_icall_unsafe c = true \/ c_icall_alters c = true ->
  ~ In (EvInvoke c) (fst (eval is_safe_callable_default invoke_result format_result env attr_of item_of filter_res test_res op_res (gen m e))).
Proof.
  intros invoke_result format_result env attr_of item_of filter_res test_res op_res m e c Hs Hu.
  apply C18_rejected_never_runs; [exact Hs|].
  unfold is_safe_callable_default. apply negb_false_iff.
  destruct Hu as [-> | [-> | [-> | [-> | [-> | ->]]]]]; repeat (rewrite orb_true_r || rewrite orb_true_l); reflexivity.
Qed.
Print Assumptions C18_unsafe_never_runs.

(* the gate: a rejected callable raises SecurityError and the log holds the refused check only;
   a refused check is the last event of any evaluation *)
Theorem C18_gate_refuses : forall policy invoke_result format_result c args, policy c = false ->
  sandbox_call policy invoke_result format_result (CVCallable c) args = ([EvCheck c false], OSecurityError).
Proof. exact gate_refuses. Qed.
Print Assumptions C18_gate_refuses.

Theorem C18_refused_is_last :
  forall policy invoke_result format_result env attr_of item_of filter_res test_res op_res m e c,
  sandboxed m = true ->
  In (EvCheck c false) (fst (eval policy invoke_result format_result env attr_of item_of filter_res test_res op_res (gen m e))) ->
  policy c = false /\
  exists pre, fst (eval policy invoke_result format_result env attr_of item_of filter_res test_res op_res (gen m e)) = pre ++ [EvCheck c false].
Proof.
  intros policy invoke_result format_result env attr_of item_of filter_res test_res op_res m e c Hs Hin.
  pose proof (good_log_ok policy _ (eval_good policy invoke_result format_result env attr_of item_of filter_res test_res op_res
                                      (gen m e) (gen_gated m e Hs))) as Hok.
  destruct (refused_is_last policy _ c Hok Hin) as [Hp [pre [Heq _]]]. split; [exact Hp|]. exists pre. exact Heq.
Qed.
Print Assumptions C18_refused_is_last.

(* a bound str.format / str.format_map — wherever it came from, also when the host put it into the
   render data — is never run natively by a call written in the template: the sandboxed formatter
   runs on its format string instead (this is what keeps C17's format-field theorem applicable
   to host-supplied method references) *)
Theorem C18_format_methods_routed :
  forall policy invoke_result format_result env attr_of item_of filter_res test_res op_res m e c,
  sandboxed m = true -> c_format c = true ->
  ~ In (EvInvoke c) (fst (eval policy invoke_result format_result env attr_of item_of filter_res test_res op_res (gen m e))).
Proof.
  intros policy invoke_result format_result env attr_of item_of filter_res test_res op_res m e c Hs Hf.
  exact (eval_format_never_native policy invoke_result format_result env attr_of item_of filter_res test_res op_res
           (gen m e) c (gen_gated m e Hs) Hf).
Qed.
Print Assumptions C18_format_methods_routed.

(* functools.partial: refused as soon as the partial itself or anything it transitively wraps is marked *)
Theorem C18_partial_of_marked_refused : forall w c, In c (w_runs w) ->
  c_unsafe c = true \/ c_alters c = true -> is_safe_wcallable w = false.
Proof.
  intros w c Hin Hm. apply (wcallable_refused w c Hin). unfold is_safe_callable_default. apply negb_false_iff.
  destruct Hm as [-> | ->]; repeat (rewrite orb_true_r || rewrite orb_true_l); reflexivity.
Qed.
Print Assumptions C18_partial_of_marked_refused.

(* Wrappers built by the host.  [runs_inside c]: what running c runs (functools.partial(f) runs f).
   _partial: everything that ran is accepted by the predicate in force, under the guard that accepted
   callables only run accepted callables inside.  _refuted: without the guard an unsafe-marked
   function wrapped in an opaque host-built callable (a closure, operator.methodcaller; functools.partial itself is
   seen through since 6689262) runs: such wrappers are outside what the predicate can see. *)
Theorem C18_wrapped_partial :
  forall policy invoke_result format_result env attr_of item_of filter_res test_res op_res runs_inside m e c,
  (forall w, policy w = true -> forall u, In u (runs_inside w) -> policy u = true) ->
  sandboxed m = true ->
  In c (ran runs_inside (fst (eval policy invoke_result format_result env attr_of item_of filter_res test_res op_res (gen m e)))) ->
  policy c = true.
Proof.
  intros policy invoke_result format_result env attr_of item_of filter_res test_res op_res runs_inside m e c Hguard Hs Hin.
  exact (ran_all_accepted policy invoke_result format_result env attr_of item_of filter_res test_res op_res
           runs_inside (gen m e) c Hguard (gen_gated m e Hs) Hin).
Qed.
Print Assumptions C18_wrapped_partial.

(* ------------------------------------------------------------------ witnesses *)
Definition ex_unsafe : callable := mkCallable 1 true false false false false false false.
Definition ex_alters : callable := mkCallable 2 false true false false false false false.
Definition ex_safe : callable := mkCallable 3 false false false false false false false.
Definition ex_fmt : callable := mkCallable 4 false false true false false false false.
Definition ex_env (n : string) : cval :=
  if String.eqb n "hf" then CVCallable ex_fmt else
  if String.eqb n "u" then CVCallable ex_unsafe else if String.eqb n "a" then CVCallable ex_alters
  else if String.eqb n "s" then CVCallable ex_safe else CVUndef.
Definition ex_eval (m : mode) (e : expr) : res :=
  eval is_safe_callable_default (fun _ _ => CVData 7) (fun _ _ => CVData 8) ex_env (fun v _ => v) (fun vs => hd CVUndef vs)
       (fun _ vs => hd CVUndef vs) (fun _ _ => CVData 1) (fun _ vs => hd CVUndef vs) (gen m e).

(* u(s()) with u unsafe, s safe:  s is checked and runs, u is checked, refused, never runs *)
Definition ex_expr : expr := ECall (EName "u") [ECall (EName "s") [] [] None None] [("k", EName "a")] None None.

Example C18_example :
  ex_eval (mkMode true false) ex_expr = ([EvCheck ex_safe true; EvInvoke ex_safe; EvCheck ex_unsafe false], OSecurityError) /\
  ex_eval (mkMode true true) (EFilter "default" (ECall (EName "a") [] [] None None) [] []) = ([EvCheck ex_alters false], OSecurityError) /\
  ex_eval (mkMode true false) (ECall (EName "hf") [EName "s"] [] None None) = ([EvCheck ex_fmt true; EvFormat ex_fmt], OVal (CVData 8)) /\
  show (gen (mkMode true false) ex_expr) = "ENVCALL(V(u);ENVCALL(V(s);;;_;_);k=V(a);_;_)"%string.
Proof. vm_compute. repeat split; reflexivity. Qed.

(* the hypothesis [sandboxed] is needed: the plain environment's code runs the unsafe callable *)
Example C18_unsandboxed_refuted :
  In (EvInvoke ex_unsafe) (fst (ex_eval (mkMode false false) ex_expr)) /\ gated (gen (mkMode false false) ex_expr) = false.
Proof. vm_compute. split; [tauto|reflexivity]. Qed.

(* p = an opaque host-built wrapper (closure) around u: p carries no marker, running it runs the unsafe-marked u *)
Definition ex_partial : callable := mkCallable 5 false false false false false false false.
Example C18_wrapped_refuted :
  let runs_inside := fun c => if Nat.eqb (c_id c) 5 then [ex_unsafe] else [] in
  let log := fst (eval is_safe_callable_default (fun _ _ => CVData 7) (fun _ _ => CVData 8)
                       (fun _ => CVCallable ex_partial) (fun v _ => v) (fun vs => hd CVUndef vs)
                       (fun _ vs => hd CVUndef vs) (fun _ _ => CVData 1) (fun _ vs => hd CVUndef vs)
                       (gen (mkMode true false) (ECall (EName "p") [] [] None None))) in
  In ex_unsafe (ran runs_inside log) /\ is_safe_callable_default ex_unsafe = false.
Proof. vm_compute. split; [tauto|reflexivity]. Qed.

(* a callable instance whose class marks __call__ is refused *)
Example C18_call_marked_example :
  is_safe_callable_default (mkCallable 6 false false false true false false false) = false /\
  is_safe_callable_default (mkCallable 7 false false false false false false true) = false /\
  is_safe_wcallable (WPartial ex_safe (WPartial ex_safe (WPlain ex_unsafe))) = false /\
  is_safe_wcallable (WPartial ex_safe (WPlain ex_safe)) = true.
Proof. vm_compute. repeat split; reflexivity. Qed.
