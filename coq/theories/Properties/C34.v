(* C34 — native rendering returns native values as documented.
   Only statements, each closed by [exact <lemma>], followed by Print Assumptions.
   literal_eval (CPython's ast.literal_eval over ast.parse(_, mode="eval")) and str() of objects
   are universally quantified: the theorems hold for whatever these functions are. *)
From Coq Require Import List NArith Bool.
Import ListNotations.
From JV Require Import Model.Native Spec.NativeSpec Proofs.NativeProofs.

(* every valid entry point (render in a sync or an async-enabled environment, render_async in an
   async-enabled one) returns the documented value, for every list of output nodes *)
Theorem C34_render_refines : forall (L : Type) (literal_eval : str -> option L) (str_of : N -> str)
  (is_async : bool) (e : entry) (ps : list piece),
  valid_entry is_async e = true ->
  native_render L literal_eval str_of is_async e ps = RVal (spec_native L literal_eval str_of ps).
Proof. exact render_refines. Qed.
Print Assumptions C34_render_refines.

(* a single non-string value is returned itself *)
Theorem C34_native_single : forall L literal_eval str_of is_async e o,
  valid_entry is_async e = true ->
  native_render L literal_eval str_of is_async e [PObj o] = RVal (NObj o).
Proof. exact native_single. Qed.
Print Assumptions C34_native_single.

(* anything else with output: the literal value of the concatenated text, else the text *)
Theorem C34_native_joined : forall L literal_eval str_of is_async e ps,
  valid_entry is_async e = true -> ps <> [] -> single_object ps = None ->
  native_render L literal_eval str_of is_async e ps
  = RVal (eval_or_text L literal_eval (join str_of ps)).
Proof. exact native_joined. Qed.
Print Assumptions C34_native_joined.

Theorem C34_native_empty : forall L literal_eval str_of is_async e,
  valid_entry is_async e = true -> native_render L literal_eval str_of is_async e [] = RVal NNone.
Proof. exact native_empty. Qed.
Print Assumptions C34_native_empty.

(* the statement read literally ("the text otherwise") would give the empty text for a template without
   output; the code returns None on every entry point — witness for the known finding C34-empty-output-none;
   C34_native_joined above is the statement under the guard ps <> [] *)
Theorem C34_empty_text_refuted : forall L literal_eval str_of is_async e,
  valid_entry is_async e = true -> native_render L literal_eval str_of is_async e [] <> RVal (NText []).
Proof. intros L le so a e H. rewrite (native_empty L le so a e H). discriminate. Qed.
Print Assumptions C34_empty_text_refuted.

(* render_async outside an async-enabled environment is the documented RuntimeError *)
Theorem C34_render_async_needs_async : forall L literal_eval str_of ps,
  native_render L literal_eval str_of false RenderAsync ps = RRuntimeError.
Proof. exact render_async_needs_async. Qed.
Print Assumptions C34_render_async_needs_async.

(* NativeCodeGenerator's grouping of adjacent constant outputs into one string is unobservable *)
Theorem C34_grouping_unobservable : forall L literal_eval str_of ps,
  native_concat L literal_eval str_of (group_consts ps) = native_concat L literal_eval str_of ps.
Proof. exact grouping_unobservable. Qed.
Print Assumptions C34_grouping_unobservable.

(* non-vacuity, with a toy literal_eval that recognises the text "7" (code point 55) *)
Example C34_example :
  let le := fun s : str => match s with [55%N] => Some 7%N | _ => None end in
  let so := fun _ : N => [55%N] in
  native_render N le so true Render [PObj 1%N] = RVal (NObj 1%N) /\
  native_render N le so true Render [PStr []; PObj 1%N] = RVal (NLit 7%N) /\
  native_render N le so false Render [PObj 1%N; PObj 2%N] = RVal (NText [55%N; 55%N]) /\
  native_render N le so true RenderAsync [] = RVal NNone.
Proof. vm_compute. repeat split. Qed.
