(* C30 — template compilation is deterministic: no iteration order of a Python set reaches the
   generated source.  [ord] is the order in which a set hands out its elements (any
   permutation, it may differ between processes / hash seeds and between sets). *)
From Coq Require Import List NArith ZArith Bool Permutation.
Import ListNotations.
From JV Require Import Model.ScopeAst Model.ScopeIdTrack Model.ScopeOrder Proofs.ScopeSymProofs Proofs.ScopeOrderProofs.

(* the symbol tables of every frame of every program (they decide every load / alias / missing
   line, every reference name and every dump_stores dictionary) do not depend on the order in
   which Symbols.branch_update walks its set of branch stores *)
Theorem codegen_order_independent : forall ord ord' p,
  is_perm ord -> is_perm ord' -> frames_of ord p = frames_of ord' p.
Proof.
  intros ord ord' p H H'. rewrite (frames_of_indep ord H p), (frames_of_indep ord' H' p). reflexivity.
Qed.
Print Assumptions codegen_order_independent.

(* the code-generator sites: sorted() hides the order (pull_dependencies, dump_stores,
   pop_assign_tracking's update lines); the unsorted comprehension and next(iter(...)) of
   pop_assign_tracking are only observed through their length and through a singleton *)
Theorem emission_order_independent : forall ord ord' priv, is_perm ord -> is_perm ord' ->
  (forall names next, deps_lines ord names next = deps_lines ord' names next) /\
  (forall k vars, pop_lines ord priv k vars = pop_lines ord' priv k vars) /\
  (forall chain, dump_stores ord chain = dump_stores ord' chain).
Proof.
  intros ord ord' priv H H'. split; [|split].
  - intros. apply deps_lines_indep; auto.
  - intros. apply pop_lines_indep; auto.
  - intros. apply dump_stores_indep; auto.
Qed.
Print Assumptions emission_order_independent.

Theorem sorted_hides_order : forall l l', Permutation l l' -> isort l = isort l'.
Proof. exact isort_perm. Qed.
Print Assumptions sorted_hides_order.

Open Scope N_scope.
(* non-vacuity: reversing the set order; a branch storing two names, three tracked variables *)
Definition p30 : list stmt :=
  [SIf (EName 10) [SSet 11 (EInt 1%Z); SSet 12 (EInt 2%Z)] [] [SSet 12 (EInt 3%Z)]; SOut [EName 11; EName 12]].
Example C30_example :
  frames_of (@rev name) p30 = frames_of (fun l => l) p30 /\
  pop_lines (@rev name) (fun x => N.eqb x 7) KTopF [9; 7; 8] = [LUpdate KTopF [7; 8; 9]; LExportUpdate [8; 9]] /\
  pop_lines (fun l => l) (fun x => N.eqb x 7) KTopF [9; 7] = [LUpdate KTopF [7; 9]; LExportAdd 9].
Proof. vm_compute. repeat split. Qed.
