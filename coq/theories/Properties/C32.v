(* C32 — static template introspection over-approximates runtime behaviour. *)
From Coq Require Import List NArith ZArith Bool.
Import ListNotations.
From JV Require Import Model.ScopeAst Model.ScopeIdTrack Model.ScopeFrameExec Model.ScopeMeta
  Proofs.ScopeMetaProofs Proofs.ScopeMeta2Proofs.

(* every name the generated code passes to resolve() during a completed render is reported by
   find_undeclared_variables or is an environment global.  Proved for every program without
   macro calls / call blocks (all frame kinds, loop-filter functions included), by induction
   over the interpreter: the frames entered at run time are frames of the static traversal.
   Missing construct: SCallOut / SCallBlock (a called closure enters the frame recorded at its
   definition; covered by the correspondence run only). *)
Theorem resolves_subset_undeclared_partial : forall pynorm priv d globals fuel p st o,
  nocall_l p = true -> frender_st pynorm priv d fuel p = Ok (st, o) ->
  forall x, In x (f_log st) -> In x (meta_undeclared globals p) \/ In x globals.
Proof.
  intros pynorm priv d globals fuel p st o Hn E x Hx.
  apply undeclared_cover_thm. exact (resolves_subset_thm pynorm priv d fuel p st o Hn E x Hx).
Qed.
Print Assumptions resolves_subset_undeclared_partial.

(* second round: the same for ALL programs — macro definitions, macro calls (closures entering the
   frame recorded at their definition, recursion, callers) and call blocks included — for render
   arguments that contain no macro objects.  Invariant over the whole interpreter state: every
   closure stored in a local, a suspended activation, context.vars or a namespace was created
   by a macro / call-block statement whose frames belong to the static traversal. *)
Theorem resolves_subset_undeclared : forall pynorm priv d globals fuel p st o,
  (forall x v, dget N.eqb x d = Some v -> cfree v) ->
  frender_st pynorm priv d fuel p = Ok (st, o) ->
  forall x, In x (f_log st) -> In x (meta_undeclared globals p) \/ In x globals.
Proof. exact resolves_subset_full_thm. Qed.
Print Assumptions resolves_subset_undeclared.

(* for EVERY program (calls included): the names find_undeclared_variables reports together with
   the globals are exactly an over-approximation of the resolve loads of all frames the code
   generator creates — the only places where generated code calls resolve() *)
Theorem static_resolves_reported : forall globals p x,
  In x (static_resolves p) -> In x (meta_undeclared globals p) \/ In x globals.
Proof. exact undeclared_cover_thm. Qed.
Print Assumptions static_resolves_reported.

(* every template name the runtime asks the loader for on behalf of an extends / include /
   import / from-import node is yielded by find_referenced_templates for that node, or the
   node yields None (unknown), for constant, list / tuple, conditional and dynamic names *)
Theorem referenced_templates_cover : forall dv truth have k t n,
  In n (requested dv truth have k t) -> In (Some n) (referenced k t) \/ In None (referenced k t).
Proof. exact referenced_cover_thm. Qed.
Print Assumptions referenced_templates_cover.

Open Scope N_scope.
(* non-vacuity: {{ a }}{% for i in x if b %}{{ c }}{% set c = 1 %}{% endfor %}  (a=10 b=11 c=12 i=13 x=14) *)
Definition p32 : list stmt :=
  [SOut [EName 10]; SFor 13 (EName 14) (Some (EName 11)) [SOut [EName 12]; SSet 12 (EInt 1%Z)] []].
Example C32_example :
  nocall_l p32 = true /\
  meta_undeclared [n_namespace] p32 = [10; 14; 11; 12] /\
  fresolves (fun x => x) (fun _ => false) [(14, VList [VInt 1%Z]); (11, VInt 1%Z)] 30%nat p32 = [12; 11; 14; 10] /\
  referenced KInclude (TSeq [IConst (CStr [97]); IDyn 10; IConst COther]) = [Some [97]; None].
Proof. vm_compute. repeat split. Qed.
