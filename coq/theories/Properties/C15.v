(* C15 — autoescaping never lets unescaped data or string literals into the output.
   Only statements, each closed by [exact <lemma>] (a few glue lines), followed by Print Assumptions. *)
From Coq Require Import List NArith Bool.
Import ListNotations.
From JV Require Import Model.EscMarkup Model.EscLang Model.EscRows
  Proofs.EscMarkupProofs Proofs.EscLangProofs Proofs.EscRowsProofs.
Open Scope N_scope.

(* ---- invariant MkClean: one lemma per Markup primitive *)
Theorem C15_escape_clean : forall s, Clean (escape s).
Proof. exact Clean_escape. Qed.
Print Assumptions C15_escape_clean.

Theorem C15_prim_escape : forall v, MkClean v -> MkClean (esc v).
Proof. exact MkClean_esc. Qed.
Print Assumptions C15_prim_escape.

Theorem C15_prim_markup_join : forall seq, Forall MkClean seq -> MkClean (markup_join seq).
Proof. exact MkClean_markup_join. Qed.
Print Assumptions C15_prim_markup_join.

Theorem C15_prim_add : forall a b, MkClean a -> MkClean b -> MkClean (mk_add a b).
Proof. exact MkClean_mk_add. Qed.
Print Assumptions C15_prim_add.

Theorem C15_prim_join : forall sep items, MkClean sep -> Forall MkClean items -> MkClean (mk_join sep items).
Proof. exact MkClean_mk_join. Qed.
Print Assumptions C15_prim_join.

Theorem C15_prim_replace : forall s old new, MkClean s -> MkClean new -> MkClean (mk_replace s old new).
Proof. exact MkClean_mk_replace. Qed.
Print Assumptions C15_prim_replace.

(* Markup % args for any formatting function that only copies its inputs *)
Theorem C15_prim_mod : forall pyfmt,
  (forall f args, Clean f -> Forall Clean args -> Clean (pyfmt f args)) ->
  forall fmt args, MkClean fmt -> Forall MkClean args -> MkClean (mk_mod pyfmt fmt args).
Proof. exact MkClean_mk_mod. Qed.
Print Assumptions C15_prim_mod.

Theorem C15_prim_method : forall f, (forall s, Clean s -> Clean (f s)) -> forall v, MkClean v -> MkClean (mk_map f v).
Proof. exact MkClean_mk_map. Qed.
Print Assumptions C15_prim_method.

(* ---- one lemma per filter row of the language T (under autoescape) *)
Theorem C15_filter_rows_T : forall f v args r,
  f <> FSafe -> MkClean v -> Forall MkClean args -> apply_filter true f v args = Some r -> MkClean r.
Proof.
  intros f v args r Hf. apply filt_clean. destruct f; try reflexivity. now elim Hf.
Qed.
Print Assumptions C15_filter_rows_T.

(* the safe filter is the documented opt-out: its row is false *)
Theorem C15_row_safe_refuted : exists v, MkClean v /\ ~ MkClean (Mk (raw v)).
Proof. exact row_safe_refuted. Qed.
Print Assumptions C15_row_safe_refuted.

(* ---- abstract rows (all built-in filters; the table itself is regenerated from the running
   jinja2 on every check and its safety is decided by vm_compute there) *)
Theorem C15_row_case_clean : forall taints fl args ps,
  flows_safe taints fl = true -> map is_mk args = taints ->
  Forall MkClean args -> Forall piece_ok ps -> Clean (render_pieces args fl ps).
Proof. exact row_case_clean. Qed.
Print Assumptions C15_row_case_clean.

Theorem C15_row_unsafe_refuted : exists args ps, Forall MkClean args /\ Forall piece_ok ps /\
  ~ Clean (render_pieces args [FlRaw] ps).
Proof. exact row_case_unsafe_witness. Qed.
Print Assumptions C15_row_unsafe_refuted.

(* ... with arguments of ANY kind: a plain or Markup string, or a non-string object (list, tuple, dict,
   object with __str__, str subclass without __html__) whose text carries data — such an object is
   never Markup, so a safe case may only let it into a Markup result through escape *)
Theorem C15_row_case_clean_carriers : forall taints fl args ps,
  flows_safe taints fl = true -> map c_is_mk args = taints ->
  Forall cMkClean args -> Forall piece_ok ps -> Clean (render_pieces_c args fl ps).
Proof. exact row_case_clean_c. Qed.
Print Assumptions C15_row_case_clean_carriers.

(* lifted to a whole row table: instantiated in the regenerated Gen_filter_rows.v with the table
   observed on the running jinja2, which contains the string rows AND the carrier rows *)
Theorem C15_rows_table_clean : forall rows, row_safe rows = true ->
  forall taints fl, In (taints, true, fl) rows ->
  forall args ps, map c_is_mk args = taints -> Forall cMkClean args -> Forall piece_ok ps ->
  Clean (render_pieces_c args fl ps).
Proof. exact rows_table_clean. Qed.
Print Assumptions C15_rows_table_clean.

(* an object copied raw into a Markup result leaks (what seeded change C15_b did to xmlattr) *)
Theorem C15_row_carrier_raw_refuted : exists args ps,
  Forall cMkClean args /\ Forall piece_ok ps /\ map c_is_mk args = [false] /\ ~ Clean (render_pieces_c args [FlRaw] ps).
Proof. exact row_case_carrier_raw_witness. Qed.
Print Assumptions C15_row_carrier_raw_refuted.

(* ---- autoescape_safe, for ALL templates of T, all data, all fuel.
   c15_ok t : no |safe, template text Clean, no {% autoescape false %};
   top_ok b0 t : the environment default is on, or the top level consists of template text and
   enabled {% autoescape %} blocks only.  The second argument of render is the value of `flag`
   in {% autoescape flag %} (runtime-decided mode), here true. *)
Theorem C15_autoescape_safe : forall b0 dl n t d o,
  c15_ok t = true -> top_ok b0 t = true -> render b0 true dl n t d = Some o -> Clean o.
Proof. exact autoescape_safe_gen. Qed.
Print Assumptions C15_autoescape_safe.

(* static mode *)
Theorem C15_static : forall dl n t d o,
  c15_ok t = true -> render true true dl n t d = Some o -> Clean o.
Proof. intros dl n t d o H. exact (autoescape_safe_gen true dl n t d o H eq_refl). Qed.
Print Assumptions C15_static.

(* selector mode: select_autoescape enables the template by its extension *)
Theorem C15_selector : forall enabled disabled dfs dflt nm ext dl n t d o,
  In ext enabled -> ends_with (lower nm) ext = true -> c15_ok t = true ->
  render (select_autoescape enabled disabled dfs dflt (Some nm)) true dl n t d = Some o -> Clean o.
Proof.
  intros enabled disabled dfs dflt nm ext dl n t d o Hin He H.
  rewrite (select_autoescape_enabled enabled disabled dfs dflt nm ext Hin He).
  exact (autoescape_safe_gen true dl n t d o H eq_refl).
Qed.
Print Assumptions C15_selector.

(* runtime-decided mode: environment default off, the whole template inside {% autoescape flag %} *)
Theorem C15_runtime : forall dl n body d o,
  c15_ok [SAutoescape AFlag body] = true ->
  render false true dl n [SAutoescape AFlag body] d = Some o -> Clean o.
Proof. intros dl n body d o H. exact (autoescape_safe_gen false dl n _ d o H eq_refl). Qed.
Print Assumptions C15_runtime.

(* the hypotheses are needed: |safe, a disabled region *)
Theorem C15_no_safe_needed_refuted : exists t d o,
  render true true [] 6 t d = Some o /\ ~ Clean o.
Proof.
  exists [SOut (EFilt FSafe (EVar 1) [])], [(1, [60])], [60]. vm_compute. split; [reflexivity|discriminate].
Qed.
Print Assumptions C15_no_safe_needed_refuted.

Theorem C15_region_needed_refuted : exists t d o,
  render true true [] 6 t d = Some o /\ ~ Clean o.
Proof.
  exists [SAutoescape (AConst false) [SOut (EVar 1)]], [(1, [60])], [60].
  vm_compute. split; [reflexivity|discriminate].
Qed.
Print Assumptions C15_region_needed_refuted.

(* known finding C15-macro-compiled-outside-region: a macro defined where autoescaping is
   statically off, called inside an enabled region, is marked safe by the caller's eval context:
   {% macro m(x) %}{{ x }}{% endmacro %}{% autoescape true %}{{ m(d) }}{% endautoescape %},
   environment default off.  top_ok excludes it (the macro body is outside every enabled region). *)
Theorem C15_macro_outside_region_refuted : exists t d o,
  c15_ok t = true /\ top_ok false t = false /\ render false true [] 9 t d = Some o /\ ~ Clean o.
Proof.
  exists [SMacro 20 [21] [SOut (EVar 21)]; SAutoescape (AConst true) [SOut (ECall 20 [EVar 1])]], [(1, [60])], [60].
  vm_compute. repeat split; try reflexivity. discriminate.
Qed.
Print Assumptions C15_macro_outside_region_refuted.

(* non-vacuity: runtime-decided mode, macro + call block + set block + replace with a data
   argument + filter block + forceescape; data "<&", list ["'", ">"] *)
Definition c15_example_t : list stmt :=
  [SAutoescape AFlag
     [SMacro 20 [21] [SOut (EVar 21); SOut ECaller];
      SSetBlock 22 [SOut (EVar 1)];
      SCallBlock 20 [EFilt FReplace (EVar 22) [ELit [38]; EVar 1]]
        [SFor 23 11 [SOut (ECat (EVar 23) (EVar 22))]];
      SFilterBlock FUpper [] [SOut (EFilt FForceescape (EVar 22) [])]]].

Example C15_example :
  c15_ok c15_example_t = true /\ top_ok false c15_example_t = true /\
  exists o, render false true [(11, [[39]; [62]])] 40 c15_example_t [(1, [60; 38])] = Some o /\
            clean o = true /\ o <> [].
Proof.
  split; [reflexivity|]. split; [reflexivity|].
  eexists. split; [vm_compute; reflexivity|]. split; [reflexivity|discriminate].
Qed.
