(* C17 — a sandboxed template cannot obtain private or internal attributes.
   Only statements, each closed by a short proof, followed by Print Assumptions.
   All theorems hold for every UNSAFE_* table [tb], every object tree and every name / path. *)
From Coq Require Import List Bool String ZArith.
Import ListNotations.
From JV Require Import Model.SbxAttr Model.SbxAccess Model.SbxGen Proofs.SbxAccessProofs Proofs.SbxGenProofs.
From JV Require Model.SbxCall Proofs.SbxCallProofs.
From JV Require Import Model.SbxFold Proofs.SbxFoldProofs Model.SbxRoute Proofs.SbxRouteProofs.
Open Scope string_scope.

(* The value of an attribute (or the sandboxed wrapper of a bound str.format / format_map found
   under it) comes out of environment.getattr, environment.getitem or the attr filter only when
   the name does not start with an underscore and is not internal for the object's type.  The
   other possible results are item values, undefined, the SecurityError-undefined, or a raise. *)
Theorem C17_no_private_attr : forall tb o a v,
  sandbox_getattr tb o a = RValue v \/ sandbox_getattr tb o a = RFormat v \/
  sandbox_getitem tb o (KStr a) = RValue v \/ sandbox_getitem tb o (KStr a) = RFormat v \/
  do_attr tb o a = RValue v \/ do_attr tb o a = RFormat v ->
  starts_underscore a = false /\ is_internal_attribute tb (kind_of o) a = false.
Proof.
  intros tb o a v H. apply safe_means_public.
  destruct H as [H|[H|[H|[H|[H|H]]]]].
  - exact (getattr_value_safe tb o a v (or_introl H)).
  - exact (getattr_value_safe tb o a v (or_intror H)).
  - exact (getitem_value_safe tb o a v (or_introl H)).
  - exact (getitem_value_safe tb o a v (or_intror H)).
  - exact (do_attr_value_safe tb o a v (or_introl H)).
  - exact (do_attr_value_safe tb o a v (or_intror H)).
Qed.
Print Assumptions C17_no_private_attr.

(* a subscript key that is an instance of a str subclass (compares like [c], str() gives [a]): the
   attribute is fetched under str(key) and that same name is the one checked *)
Theorem C17_str_subclass_key_checked : forall tb o c a v,
  sandbox_getitem tb o (KSub c a) = RValue v \/ sandbox_getitem tb o (KSub c a) = RFormat v ->
  starts_underscore a = false /\ is_internal_attribute tb (kind_of o) a = false.
Proof. intros tb o c a v H. exact (safe_means_public _ _ _ (getitem_subkey_value_safe tb o c a v H)). Qed.
Print Assumptions C17_str_subclass_key_checked.

(* an integer subscript never yields an attribute *)
Theorem C17_int_subscript_is_item_only : forall tb o z v,
  sandbox_getitem tb o (KInt z) <> RValue v /\ sandbox_getitem tb o (KInt z) <> RFormat v.
Proof. exact getitem_int_never_attr. Qed.
Print Assumptions C17_int_subscript_is_item_only.

(* whatever the three entry points hand out is one legitimate hop away from the object, and a
   legitimate hop is an item, a public non-internal attribute, or the wrapper of one *)
Theorem C17_handout_is_hop : forall tb o a k w,
  is_handout (sandbox_getattr tb o a) w \/ is_handout (sandbox_getitem tb o k) w \/ is_handout (do_attr tb o a) w ->
  hop tb o w.
Proof.
  intros tb o a k w [H|[H|H]];
    [exact (getattr_hop _ _ _ _ H)|exact (getitem_hop _ _ _ _ H)|exact (do_attr_hop _ _ _ _ H)].
Qed.
Print Assumptions C17_handout_is_hop.

Theorem C17_hop_is_public : forall tb o w, hop tb o w ->
  (exists k, py_getitem o k = Some w) \/
  (exists a, py_getattr o a = Some w /\ starts_underscore a = false /\ is_internal_attribute tb (kind_of o) a = false) \/
  (exists a s m, w = VWrap s m /\ py_getattr o a = Some (VFmt s m) /\
                 starts_underscore a = false /\ is_internal_attribute tb (kind_of o) a = false).
Proof.
  intros tb o w H. destruct (hop_cases tb o w H) as [Hi|[[a [Ha Hs]]|[a [s [m [Hw [Ha Hs]]]]]]].
  - left. exact Hi.
  - right. left. exists a. split; [exact Ha|exact (safe_means_public _ _ _ Hs)].
  - right. right. exists a, s, m. split; [exact Hw|]. split; [exact Ha|exact (safe_means_public _ _ _ Hs)].
Qed.
Print Assumptions C17_hop_is_public.

(* str.format / format_map / Markup.format field lookups "{0.a[b].c}": every step of every field
   path goes through the two functions above, so the object a field denotes is reachable from a
   format argument by legitimate hops only (stored method references are wrapped at access:
   the wrapper itself is what [RFormat] hands out) *)
Theorem C17_format_fields_sandboxed : forall tb args kwargs first rest w,
  is_handout (get_field tb args kwargs first rest) w ->
  exists root, get_value args kwargs first = Some root /\ reach tb root w.
Proof. exact get_field_reach. Qed.
Print Assumptions C17_format_fields_sandboxed.

(* attribute arguments of built-in filters ("a.b.0" of map / sort / groupby / sum / unique / min /
   max / join / selectattr / rejectattr, through make_attrgetter / make_multi_attrgetter) *)
Theorem C17_filters_route_through_env : forall tb parts o w,
  is_handout (attrgetter tb parts o) w -> reach tb o w.
Proof. intros tb parts o w H. exact (walk_reach tb (map SItem parts) o w H). Qed.
Print Assumptions C17_filters_route_through_env.

(* the code generator never emits a raw attribute access, raw non-slice subscript or direct call
   on a template value, in any mode, for any expression in any statement position *)
Theorem C17_codegen_no_raw_attr : forall m body, Forall (fun t => no_raw t = true) (gen_template m body).
Proof. exact gen_template_no_raw. Qed.
Print Assumptions C17_codegen_no_raw_attr.

Theorem C17_codegen_no_raw_attr_expr : forall m e, no_raw (gen m e) = true.
Proof. exact gen_no_raw. Qed.
Print Assumptions C17_codegen_no_raw_attr_expr.

(* The routing constructors [gen] chooses are the tokens the emission model Model/SbxRoute writes; the
   regenerated decision table of compiler.visit_Getattr / visit_Getitem (gen/sbx_route.py) is compared
   with that model on every run, for every (sandboxed, async, slice) condition. *)
Theorem C17_codegen_routes_as_emitted : forall m e a i lo hi st,
  In (first_write (gen m (EGetattr e a))) (route_getattr m) /\
  In (first_write (gen m (EGetitem e i))) (route_getitem m false) /\
  In (first_write (gen m (ESlice e lo hi st))) (route_getitem m true).
Proof.
  intros m e a i lo hi st. split; [exact (gen_getattr_route m e a)|].
  split; [exact (gen_getitem_route m e i)|exact (gen_slice_route m e lo hi st)].
Qed.
Print Assumptions C17_codegen_routes_as_emitted.

(* Stored method references that did NOT come through getattr / getitem — a bound str.format,
   str.format_map or Markup.format the host put into the render data, directly or inside a dict /
   list — are never run natively by a call written in the template: for every safety predicate,
   world and binding, the log of the generated code of any expression contains no native invocation
   of such a method (SandboxedEnvironment.call wraps it, so its field lookups are the
   [get_field] of C17_format_fields_sandboxed).  Event-log semantics of Model/SbxCall. *)
Theorem C17_host_format_methods_sandboxed :
  forall policy invoke_result format_result env attr_of item_of filter_res test_res op_res m e c,
  sandboxed m = true -> SbxCall.c_format c = true ->
  ~ In (SbxCall.EvInvoke c)
       (fst (SbxCall.eval policy invoke_result format_result env attr_of item_of filter_res test_res op_res (gen m e))).
Proof.
  intros policy invoke_result format_result env attr_of item_of filter_res test_res op_res m e c Hs Hf.
  exact (SbxCallProofs.eval_format_never_native policy invoke_result format_result env attr_of item_of filter_res
           test_res op_res (gen m e) c (gen_gated m e Hs) Hf).
Qed.
Print Assumptions C17_host_format_methods_sandboxed.

(* Compile-time constant folding (nodes.Getattr.as_const / Getitem.as_const) of attribute and
   subscript chains rooted at a template LITERAL goes through the same two sandbox functions:
   whatever is folded into the generated code is what the run-time code would have produced, and
   it is an undefined or reachable from the literal by legitimate hops only — the value of an
   underscore / internal attribute of a literal ('abc'.__doc__, (1).__class__.__name__) is never
   folded. *)
Theorem C17_constant_folding_sandboxed : forall tb e v, as_const tb e = Some v ->
  run_chain tb e = RtVal v /\ (v = VUndef \/ v = VUnsafe \/ reach tb (root e) v).
Proof. intros tb e v H. split; [exact (fold_eq_runtime tb e v H)|exact (fold_reach tb e v H)]. Qed.
Print Assumptions C17_constant_folding_sandboxed.

Theorem C17_folded_attribute_is_safe : forall tb e a o v,
  as_const tb e = Some o -> as_const tb (CAttr e a) = Some v ->
  v = VUndef \/ v = VUnsafe \/ py_getitem o (KStr a) = Some v \/
  (starts_underscore a = false /\ is_internal_attribute tb (kind_of o) a = false).
Proof.
  intros tb e a o v Ho H. destruct (fold_attr_safe tb e a o v Ho H) as [Hu|[Hu|[Hi|[Hs _]]]]; auto.
  right. right. right. exact (safe_means_public _ _ _ Hs).
Qed.
Print Assumptions C17_folded_attribute_is_safe.

(* ------------------------------------------------------------------ non-vacuity *)
Definition ex_tables : tables := mkTables [] [] ["gi_frame"; "gi_code"] ["cr_frame"; "cr_code"] ["ag_code"; "ag_frame"].
Definition ex_secret : value := VData 42.
Definition ex_obj : value :=
  VObj KOther [("pub", VData 1); ("_secret", ex_secret); ("__dunder", ex_secret); ("_fmt", VFmt "S {0}" false);
               ("child", VObj KGenerator [("gi_frame", ex_secret); ("gi_running", VData 0)] [])]
              [(KStr "key", VData 2); (KStr "_k", VData 3)].

Example C17_example :
  sandbox_getattr ex_tables ex_obj "pub" = RValue (VData 1) /\
  sandbox_getattr ex_tables ex_obj "_secret" = RUnsafe /\
  sandbox_getitem ex_tables ex_obj (KStr "__dunder") = RUnsafe /\
  sandbox_getattr ex_tables ex_obj "_fmt" = RUnsafe /\
  sandbox_getattr ex_tables ex_obj "_k" = RItem (VData 3) /\
  do_attr ex_tables ex_obj "key" = RUndefined /\
  get_field ex_tables [ex_obj] [] (KInt 0) [SAttr "child"; SAttr "gi_frame"] = RUnsafe /\
  get_field ex_tables [ex_obj] [] (KInt 0) [SAttr "child"; SAttr "gi_running"] = RValue (VData 0) /\
  get_field ex_tables [ex_obj] [] (KInt 0) [SAttr "_secret"; SAttr "x"] = RRaise ESecurityError /\
  sandbox_getattr ex_tables (VStr "{0._secret}") "format" = RFormat (VWrap "{0._secret}" false) /\
  sandbox_getattr ex_tables (VObj KType [("mro", VData 7)] []) "mro" = RUnsafe /\
  as_const ex_tables (CAttr (CLit (VObj KOther [("__doc__", VData 5); ("real", VData 6)] [])) "__doc__") = Some VUnsafe /\
  as_const ex_tables (CAttr (CAttr (CLit (VObj KOther [("__doc__", VData 5); ("real", VData 6)] [])) "__doc__") "x") = None /\
  as_const ex_tables (CAttr (CLit (VObj KOther [("__doc__", VData 5); ("real", VData 6)] [])) "real") = Some (VData 6) /\
  show (gen (mkMode true false) (EGetattr (EGetitem (EName "x") (EConst "'a'")) "_secret"))
    = "GA(GI(V(x),C('a')),_secret)".
Proof. vm_compute. repeat split; reflexivity. Qed.
