(* C22 — collection filters satisfy their documented contracts.
   Statements only; each is closed by the lemma that proves it.  Generic theorems quantify
   over the item type, the key function and the key order (the order laws are hypotheses:
   Python's order on ints and on strs is total and transitive); the entry points of
   Model/FiltCollRun.v instantiate them. *)
From Coq Require Import List NArith ZArith Bool Lia Sorted Permutation.
Import ListNotations.
From JV Require Import Model.FiltColl Model.FiltCollRun Spec.FiltCollSpec
                       Proofs.FiltCollProofs Proofs.FiltCollRunProofs Proofs.FiltOrderProofs.

(* slice(n, fill) with n >= 1 is the documented column layout: n columns that partition the
   input in order, the first |xs| mod n one item longer, the fill value appended exactly to
   the columns that are one short (none when the length divides evenly) *)
Theorem C22_slice_partition : forall (A : Type) (n : N) (fill : option A) (xs : list A),
  (1 <= n)%N ->
  let len := N.of_nat (length xs) in
  let sizes := map (slice_size (len / n) (len mod n)) (iota 0 (N.to_nat n)) in
  do_slice (Z.of_N n) fill xs = Ok (spec_slice n fill xs) /\
  concat (chunks sizes xs) = xs /\
  map (@length A) (chunks sizes xs) = sizes /\
  length (spec_slice n fill xs) = N.to_nat n.
Proof.
  intros A n fill xs Hn len sizes.
  pose proof (slice_sizes_total A n xs Hn) as Hsum. cbv zeta in Hsum. fold len in Hsum. fold sizes in Hsum.
  split; [exact (do_slice_spec A n fill xs Hn)|].
  split; [rewrite chunks_concat, Hsum; apply firstn_all|].
  split; [apply chunks_lengths; lia|].
  unfold spec_slice. rewrite map_length, combine_length, iota_length.
  fold len. fold sizes.
  assert (length (chunks sizes xs) = N.to_nat n).
  { rewrite <- (map_length (@length A)), chunks_lengths by lia. unfold sizes. now rewrite map_length, iota_length. }
  lia.
Qed.
Print Assumptions C22_slice_partition.

(* slice(0) divides by zero, a negative count yields nothing *)
Theorem C22_slice_degenerate : forall (A : Type) (fill : option A) (xs : list A) (n : Z),
  (n <= 0)%Z -> do_slice n fill xs = (if (n =? 0)%Z then Err ZeroDivisionError else Ok []).
Proof.
  intros A fill xs n H. unfold do_slice. destruct (Z.eqb_spec n 0); [reflexivity|].
  destruct (Z.ltb_spec n 0); [reflexivity|lia].
Qed.
Print Assumptions C22_slice_degenerate.

(* batch(n, fill) with n >= 1: the rows concatenate to the input followed by the padding,
   every row but the last holds n items, the last 1..n (exactly n when a fill value is given),
   and there is no row for an empty input *)
Theorem C22_batch_partition : forall (A : Type) (n : Z) (fill : option A) (xs : list A),
  (1 <= n)%Z ->
  concat (do_batch n fill xs) = xs ++ batch_pad (Z.to_nat n) fill (length xs) /\
  rows_ok A (Z.to_nat n) (match fill with Some _ => true | None => false end) (do_batch n fill xs) /\
  (do_batch n fill xs = [] <-> xs = []).
Proof.
  intros A n fill xs Hn. unfold do_batch. split; [|split].
  - exact (batch_concat A n fill Hn xs [] ltac:(cbn; lia)).
  - exact (batch_rows A n fill Hn xs [] ltac:(cbn; lia)).
  - split; [intros H; exact (proj2 (batch_nonempty A n fill xs [] H))|intros ->; reflexivity].
Qed.
Print Assumptions C22_batch_partition.

(* outside the documented domain (a line count <= 0): nothing is ever flushed — except the
   empty first row when the count is 0 *)
Theorem C22_batch_degenerate : forall (A : Type) (n : Z) (fill : option A) (xs : list A),
  (n <= 0)%Z ->
  do_batch n fill xs = match xs with [] => [] | _ => if (n =? 0)%Z then [[]; xs] else [xs] end.
Proof.
  intros A n fill xs Hn. unfold do_batch. destruct xs as [|x r]; [reflexivity|]. cbn [batch_go length].
  destruct (Z.eqb_spec (Z.of_nat 0) n) as [H|H]; cbn [Z.of_nat] in H.
  - subst n. cbn [Z.eqb]. rewrite (batch_go_noflush A 0 fill ltac:(lia) r [x]) by discriminate. reflexivity.
  - destruct (Z.eqb_spec n 0) as [->|_]; [congruence|].
    rewrite (batch_go_noflush A n fill Hn r ([] ++ [x])) by discriminate. reflexivity.
Qed.
Print Assumptions C22_batch_degenerate.

(* unique keeps exactly the items no earlier item shares a key with, in input order *)
Theorem C22_unique_first_occurrences :
  forall (A K : Type) (keqb : K -> K -> bool) (key : A -> K),
  (forall a b, keqb a b = keqb b a) ->
  (forall a b c, keqb a b = true -> keqb b c = true -> keqb a c = true) ->
  forall xs, do_unique keqb key xs = first_occ keqb key [] xs.
Proof. intros A K keqb key Hs Ht xs. exact (do_unique_spec A K keqb key Ht xs). Qed.
Print Assumptions C22_unique_first_occurrences.

(* sort / dictsort: ordered by the key, a permutation of the input, stable — also with
   reverse=True, which is the same sort under the flipped order *)
Theorem C22_sort_stable_perm :
  forall (A K : Type) (key : A -> K) (kleb : K -> K -> bool),
  (forall a b, kleb a b = true \/ kleb b a = true) ->
  (forall a b c, kleb a b = true -> kleb b c = true -> kleb a c = true) ->
  forall xs, stable_sort_of key kleb xs (sort_by key kleb xs) /\
             stable_sort_of key (flip kleb) xs (sort_by key (flip kleb) xs).
Proof.
  intros A K key kleb Htot Htr xs. split.
  - exact (sort_is_stable_sort A K key kleb Htot Htr xs).
  - apply sort_is_stable_sort; unfold flip; [intros a b; destruct (Htot a b); auto|intros a b c H1 H2; eauto].
Qed.
Print Assumptions C22_sort_stable_perm.

(* the same, instantiated: for the concrete key order the filters use on the modelled values
   (Z order on ints, code-point order on strs, Python's list comparison on the case-folded
   multi-attribute keys) totality and transitivity are PROVED, so do_sort's result is the stable
   sort of its input with no hypothesis left on the order *)
Theorem C22_sort_concrete : forall reverse cs a xs ys,
  f_sort reverse cs a xs = Ok (VList ys) ->
  exists kxs, mkeyed a cs xs = Ok kxs /\ map snd kxs = xs /\
    let order := if reverse then flip mkey_leb else mkey_leb in
    ys = map snd (sort_by fst order kxs) /\ stable_sort_of fst order kxs (sort_by fst order kxs).
Proof. exact f_sort_concrete. Qed.
Print Assumptions C22_sort_concrete.

Theorem C22_key_order_laws :
  (forall a b : list value, mkey_leb a b = true \/ mkey_leb b a = true) /\
  (forall a b c : list value, mkey_leb a b = true -> mkey_leb b c = true -> mkey_leb a c = true) /\
  (forall a b : value, vkey_leb a b = true \/ vkey_leb b a = true) /\
  (forall a b c : value, vkey_leb a b = true -> vkey_leb b c = true -> vkey_leb a c = true).
Proof. repeat split; [exact mkey_leb_total|exact mkey_leb_trans|exact vkey_leb_total|exact vkey_leb_trans]. Qed.
Print Assumptions C22_key_order_laws.

(* groupby: the groups concatenate to the stable sort of the input by key; every group is
   non-empty and all its members carry the group's key; group keys strictly increase *)
Theorem C22_groupby_sorted_partition :
  forall (A K : Type) (key : A -> K) (kleb keqb : K -> K -> bool),
  (forall a b, kleb a b = true \/ kleb b a = true) ->
  (forall a b c, kleb a b = true -> kleb b c = true -> kleb a c = true) ->
  (forall a b, keqb a b = kleb a b && kleb b a) ->
  forall xs, let groups := group_adj keqb key (sort_by key kleb xs) in
    stable_sort_of key kleb xs (concat (map snd groups)) /\
    Forall (group_ok keqb key) groups /\
    Sorted (group_lt kleb) groups.
Proof.
  intros A K key kleb keqb Htot Htr Heq xs groups. unfold groups.
  split; [rewrite group_adj_flat; exact (sort_is_stable_sort A K key kleb Htot Htr xs)|].
  split; [exact (group_adj_ok A K key kleb Htot keqb Heq _)|].
  exact (group_adj_sorted A K key kleb Htr keqb Heq _ (sort_sorted A K key kleb Htot _)).
Qed.
Print Assumptions C22_groupby_sorted_partition.

(* min / max return an item of the sequence that is a lower / upper bound by key *)
Theorem C22_min_max_extremum :
  forall (A K : Type) (key : A -> K) (kleb : K -> K -> bool),
  (forall a b, kleb a b = true \/ kleb b a = true) ->
  (forall a b c, kleb a b = true -> kleb b c = true -> kleb a c = true) ->
  forall first rest,
    (In (min_go key kleb first rest) (first :: rest) /\
     Forall (fun y => kleb (key (min_go key kleb first rest)) (key y) = true) (first :: rest)) /\
    (In (max_go key kleb first rest) (first :: rest) /\
     Forall (fun y => kleb (key y) (key (max_go key kleb first rest)) = true) (first :: rest)).
Proof.
  intros A K key kleb Htot Htr first rest. split.
  - exact (min_go_spec A K key kleb Htot Htr rest first).
  - exact (max_go_spec A K key kleb Htot Htr rest first).
Qed.
Print Assumptions C22_min_max_extremum.

(* the generator loops are the list definitions *)
Theorem C22_list_definitions : forall (A B : Type) (f : A -> B) (p : A -> bool) (xs : list A),
  map_loop f [] xs = map f xs /\
  select_loop (fun b => b) p [] xs = filter p xs /\
  select_loop negb p [] xs = filter (fun x => negb (p x)) xs /\
  reverse_loop [] xs = rev xs /\
  auto_to_list xs = xs /\
  length_N xs = N.of_nat (length xs) /\
  first_of xs = hd_error xs /\
  (forall x, last_of (xs ++ [x]) = Some x) /\ last_of (@nil A) = None.
Proof.
  intros A B f p xs.
  split; [exact (map_loop_spec A B f xs [])|].
  split; [exact (select_loop_spec A (fun b => b) p xs [])|].
  split; [exact (select_loop_spec A negb p xs [])|].
  split; [rewrite reverse_loop_spec; apply app_nil_r|].
  split; [exact (auto_to_list_id A xs)|].
  split; [exact (length_N_spec A xs)|].
  split; [now destruct xs|].
  split; [exact (last_of_spec A xs)|reflexivity].
Qed.
Print Assumptions C22_list_definitions.

(* attribute paths: dots separate parts, all-digit parts are integers, lookups compose, a
   present key / index is found, and with a default the result is never undefined *)
Theorem C22_attrgetter_paths :
  (forall s1 s2, prepare_parts (AStr (s1 ++ 46%N :: s2)) = prepare_parts (AStr s1) ++ prepare_parts (AStr s2)) /\
  (forall x, part_of x = if isdigit x then KI (int_of_digits x) else KS x) /\
  (forall p q d v, getter_go (p ++ q) d v = bind (getter_go p d v) (getter_go q d)) /\
  (forall ks vs p x, dict_get p ks vs = Some x -> getitem (VDict ks vs) p = Ok x) /\
  (forall l n x, nth_error l (N.to_nat n) = Some x -> getitem (VList l) (KI n) = Ok x) /\
  (forall parts dv v r, parts <> [] -> is_undef dv = false ->
     getter_go parts (Some dv) v = Ok r -> is_undef r = false).
Proof.
  split; [exact prepare_parts_dot|]. split; [reflexivity|]. split; [exact getter_go_app|].
  split; [exact getitem_present|]. split; [exact getitem_index|exact getter_go_default].
Qed.
Print Assumptions C22_attrgetter_paths.

(* every async variant returns what the sync filter returns: the same value whenever either
   succeeds, and they fail together; for every filter but sum the results are equal as they are
   (async sum runs every getter before the first addition, so when both a getter and an addition
   fail the exception may be the other one) *)
Theorem C22_async_variant_agree : forall aug c v, res_sim (res_map fst (run_async aug c v)) (run_sync c v).
Proof. exact run_async_agrees. Qed.
Print Assumptions C22_async_variant_agree.

Theorem C22_async_variant_agree_exact : forall aug c v,
  is_sum c = false -> res_map fst (run_async aug c v) = run_sync c v.
Proof. exact run_async_agrees_exact. Qed.
Print Assumptions C22_async_variant_agree_exact.

(* the start argument of the async sum is left as it was — unless the accumulation is an
   augmented assignment on the alias of start AND start is a list (the flag is regenerated
   from the source on every run) *)
Theorem C22_args_unmodified_sum : forall aug a start xs rv start',
  (aug = false \/ is_list start = false) ->
  f_sum_async aug a start xs = Ok (rv, start') -> start' = start.
Proof. exact sum_async_start. Qed.
Print Assumptions C22_args_unmodified_sum.

(* ... and the guard is needed: with the augmented assignment a list start is extended *)
Theorem C22_args_unmodified_sum_guard_needed :
  exists a start xs rv start', f_sum_async true a start xs = Ok (rv, start') /\ start' <> start.
Proof.
  exists ANone, (VList [VInt 0]), [VList [VInt 1]], (VList [VInt 0; VInt 1]), (VList [VInt 0; VInt 1]).
  split; [vm_compute; reflexivity|discriminate].
Qed.

(* non-vacuity: 7 items in 3 columns with a fill value; 6 items get no fill; a
   case-insensitive groupby keeps the first spelling *)
Example C22_example :
  do_slice 3 (Some 70%N) [0;1;2;3;4;5;6]%N = Ok [[0;1;2]; [3;4;70]; [5;6;70]]%N /\
  do_slice 3 (Some 70%N) [0;1;2;3;4;5]%N = Ok [[0;1]; [2;3]; [4;5]]%N /\
  do_batch 3 (Some 70%N) [0;1;2;3]%N = [[0;1;2]; [3;70;70]]%N /\
  run_sync (CGroupby (AStr [107%N]) None false)
           (VList [VDict [KS [107%N]] [VStr [98%N]]; VDict [KS [107%N]] [VStr [65%N]]; VDict [KS [107%N]] [VStr [97%N]]])
  = Ok (VList [VList [VStr [65%N]; VList [VDict [KS [107%N]] [VStr [65%N]]; VDict [KS [107%N]] [VStr [97%N]]]];
               VList [VStr [98%N]; VList [VDict [KS [107%N]] [VStr [98%N]]]]]).
Proof. vm_compute. repeat split; reflexivity. Qed.
