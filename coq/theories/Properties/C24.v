(* C24 — HTML-producing filters cannot be used to inject markup.  Statements only. *)
From Coq Require Import List NArith ZArith Bool Lia.
Import ListNotations.
From JV Require Import Model.FiltStr Model.FiltHtml Proofs.FiltHtmlProofs.

(* MarkupSafe escaping leaves no less-than, greater-than or quote character *)
Theorem C24_escape_clean : forall s, Clean (escape s).
Proof. exact escape_clean. Qed.
Print Assumptions C24_escape_clean.

(* tojson: after the replace chain there is no '<', '>', '&' or single quote, for every text *)
Theorem C24_tojson_no_meta : forall s, forallb (fun c => negb (is_meta c)) (replace4 s) = true.
Proof. exact replace4_no_meta. Qed.
Print Assumptions C24_tojson_no_meta.

(* tojson round trip: on every JSON text that follows the string-literal grammar (what
   json.dumps writes: metacharacters can only be raw characters of string literals), the replace
   chain turns exactly those raw metacharacters into \u00XX items, which decode to the same
   characters; structure and all other items are untouched *)
Theorem C24_tojson_roundtrip : forall d, forallb tok_wf d = true ->
  replace4 (render_doc d) = render_doc (map protect_tok d) /\
  map decode_tok (map protect_tok d) = map decode_tok d.
Proof. intros d H. split; [exact (protect_doc_render d H)|exact (protect_doc_decode d)]. Qed.
Print Assumptions C24_tojson_roundtrip.

(* xmlattr: a key with a space, '/', '>' or '=' is rejected; otherwise the output is the
   space-joined k="v" items whose key part has no name terminator and no quote and whose value
   part has no quote or angle bracket *)
Theorem C24_xmlattr_shape : forall d autospace out,
  Forall (fun kv => match snd kv with Some v => plain_or_clean v | None => True end) d ->
  do_xmlattr d autospace = Some out ->
  exists items, xmlattr_items d = Some items /\ Forall attr_shape items /\
    out = (if autospace && nonempty (join [32%N] items) then [32%N] else []) ++ join [32%N] items.
Proof.
  intros d a out Hd H. unfold do_xmlattr in H. destruct (xmlattr_items d) as [items|] eqn:E; [|discriminate].
  exists items. split; [reflexivity|]. split; [exact (xmlattr_items_shape d items Hd E)|].
  injection H as <-. destruct (a && nonempty (join [32%N] items)); reflexivity.
Qed.
Print Assumptions C24_xmlattr_shape.

Theorem C24_xmlattr_bad_key_rejected : forall k v r autospace,
  existsb bad_key_char k = true -> do_xmlattr ((k, Some v) :: r) autospace = None.
Proof. intros k v r a H. unfold do_xmlattr. cbn [xmlattr_items]. now rewrite H. Qed.
Print Assumptions C24_xmlattr_bad_key_rejected.

(* urlize: for EVERY behaviour of the URL / e-mail / extra-scheme matchers and every
   punctuation split that only cuts a word in three, the output of urlize on plain text is a
   sequence of clean text pieces and anchors <a href="H" attrs>T</a> with H and T clean (no
   angle bracket, no quote) and attrs the escaped rel / target attributes *)
Theorem C24_urlize_shape :
  forall (http_match email_match extra_match other_guards : str -> bool)
         (split3 : str -> str * str * str) (trim_limit : option nat),
  (forall w, let '(h, m, t) := split3 w in h ++ m ++ t = w) ->
  forall s rel target,
    urlize http_match email_match extra_match other_guards split3 trim_limit (Plain s) rel target
      = flat_map render_piece (urlize_pieces http_match email_match extra_match other_guards split3 trim_limit (Plain s) rel target) /\
    Forall (piece_ok rel target)
           (urlize_pieces http_match email_match extra_match other_guards split3 trim_limit (Plain s) rel target).
Proof.
  intros hm em xm og sp tl L s rel target. split; [reflexivity|].
  exact (urlize_pieces_ok hm em xm og sp tl L s rel target).
Qed.
Print Assumptions C24_urlize_shape.

(* ... and href values contain no whitespace, provided whitespace runs are never linked *)
Theorem C24_urlize_href_no_space :
  forall (http_match email_match extra_match other_guards : str -> bool)
         (split3 : str -> str * str * str) (trim_limit : option nat),
  (forall w, let '(h, m, t) := split3 w in h ++ m ++ t = w) ->
  (forall m, Forall (fun c => is_ws c = true) m ->
     http_match m = false /\ email_match m = false /\ email_match (skipn 7 m) = false /\ extra_match m = false) ->
  forall s rel target,
    Forall href_nows (urlize_pieces http_match email_match extra_match other_guards split3 trim_limit (Plain s) rel target).
Proof. intros hm em xm og sp tl L W s rel target. exact (urlize_pieces_nows hm em xm og sp tl L W s rel target). Qed.
Print Assumptions C24_urlize_href_no_space.

(* the rel / target attribute values are escaped *)
Theorem C24_urlize_attrs_escaped : forall r t,
  attrs_of (Some (Plain r)) (Some (Plain t)) = s_rel ++ escape r ++ [34%N] ++ s_target ++ escape t ++ [34%N] /\
  Clean (escape r) /\ Clean (escape t).
Proof.
  intros r t. split; [unfold attrs_of; cbn [escape_t]; now rewrite <- !app_assoc|].
  split; apply escape_clean.
Qed.
Print Assumptions C24_urlize_attrs_escaped.

(* forceescape escapes the markup form of its input, safe or not; a plain width given to
   indent with a safe input is escaped, a safe width is kept *)
Theorem C24_forceescape_and_indent_width : forall v s w first blank,
  Clean (payload (do_forceescape v)) /\
  indent_markup s (Plain w) first blank = Mk (do_indent s (WStr (escape w)) first blank) /\
  indent_markup s (Mk w) first blank = Mk (do_indent s (WStr w) first blank) /\
  Clean (escape w).
Proof.
  intros v s w first blank. split; [destruct v; apply escape_clean|].
  split; [reflexivity|]. split; [reflexivity|apply escape_clean].
Qed.
Print Assumptions C24_forceescape_and_indent_width.

Example C24_example :
  replace4 [34; 60; 47; 115; 62; 38; 39; 34]%N
    = [34; 92;117;48;48;51;99; 47; 115; 92;117;48;48;51;101; 92;117;48;48;50;54; 92;117;48;48;50;55; 34]%N /\
  do_xmlattr [([97; 32; 98]%N, Some (Plain [120%N]))] true = None /\
  do_xmlattr [([97]%N, Some (Plain [34; 60]%N)); ([98]%N, None)] true
    = Some [32; 97; 61; 34; 38;35;51;52;59; 38;108;116;59; 34]%N /\
  payload (indent_markup [97; 10; 98]%N (Plain [60]%N) false false) = [97; 10; 38;108;116;59; 98]%N.
Proof. vm_compute. repeat split; reflexivity. Qed.

(* the link text of a trimmed URL is the escaping of a prefix of the text the word stands for,
   followed by "...": trim_url_limit never cuts through an entity *)
Theorem C24_urlize_trim_escaped : forall (trim_limit : option nat) (x : str),
  trim_url trim_limit x = x \/
  exists n, trim_limit = Some n /\ trim_url trim_limit x = (escape (firstn n (unescape5 x)) ++ [46; 46; 46]%N)%list.
Proof.
  intros [n|] x; unfold trim_url; [|now left].
  destruct (Nat.ltb n (length (unescape5 x))); [right; exists n; split; reflexivity|now left].
Qed.
Print Assumptions C24_urlize_trim_escaped.
