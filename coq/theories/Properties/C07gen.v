(* C07 (compiler half) — the skeleton of the code visit_For generates has the shape the Loop model
   relies on.  The configuration space is finite (eight booleans: recursive, else, test, body mentions
   `loop`, scoped block, async mode, enclosing in_loop_body, enclosing buffer); every property is a
   decidable predicate over the event trace and holds for all 256 configurations (vm_compute, lifted).
   The trace generator Model/LoopGen.for_trace is compared with the trace recorded from the real
   CodeGenerator on every run. *)
From Coq Require Import List Bool Arith.
Import ListNotations.
From JV Require Import Model.LoopGen Spec.LoopGenSpec Proofs.LoopGenProofs.

(* the iteration indicator: set before the loop, cleared exactly once, inside the for statement,
   after the loop frame is entered and BEFORE the body (at the body's indentation), tested after the
   loop frame is left, at the indentation of its initialisation, and the else branch follows the
   test; all with the same temporary.  Without an else branch there is no indicator. *)
Theorem C07gen_indicator : forall c, check_indicator c (for_trace c) = true.
Proof. exact indicator_all. Qed.
Print Assumptions C07gen_indicator.

(* the body is visited exactly once, in the loop frame (loop_frame and in_loop_body set), one
   indentation level inside the for statement of the node *)
Theorem C07gen_body_once : forall c, check_body c (for_trace c) = true.
Proof. exact body_all. Qed.
Print Assumptions C07gen_body_once.

(* the else branch runs in its own frame whose in_loop_body flag is the enclosing frame's — and is
   reset for a recursive loop, where it also shares the loop function's buffer *)
Theorem C07gen_else_flag : forall c, check_else_flag c (for_trace c) = true.
Proof. exact else_flag_all. Qed.
Print Assumptions C07gen_else_flag.

(* frames are entered and left in order: test frame (with its own Python scope), loop frame, else frame *)
Theorem C07gen_frames : forall c, check_frames c (for_trace c) = true.
Proof. exact frames_all. Qed.
Print Assumptions C07gen_frames.

(* the loop object exists exactly when the loop is recursive, its body mentions `loop`, or a scoped
   block sits below it *)
Theorem C07gen_extended : forall c, check_extended c (for_trace c) = true.
Proof. exact extended_all. Qed.
Print Assumptions C07gen_extended.

(* an async loop filter generator is closed in a finally that encloses the for statement *)
Theorem C07gen_async_filter : forall c, check_async_filter c (for_trace c) = true.
Proof. exact async_filter_all. Qed.
Print Assumptions C07gen_async_filter.

Theorem C07gen_balanced : forall c, check_balanced c (for_trace c) = true.
Proof. exact balanced_all. Qed.
Print Assumptions C07gen_balanced.

(* non-vacuity: an async, filtered, extended loop with an else branch inside another loop's body *)
Example C07gen_example :
  let c := {| recursive := false; has_else := true; has_test := true; mentions := true; scoped := false;
              is_async := true; pilb := true; pbuf := false |} in
  filter is_frame_op (for_trace c)
  = [Enter TestF false true; Leave TestF true; Enter LoopF true true; Leave LoopF false; Enter ElseF false true; Leave ElseF false]
  /\ depth_of (is_set false) (for_trace c) = Some 2 /\ depth_of is_ift (for_trace c) = Some 0.
Proof. vm_compute. repeat split. Qed.
