(* C11 — plain text, comments and raw blocks render verbatim.
   Only statements, each closed by a short proof ending in [exact <lemma>]. *)
From Coq Require Import List NArith Bool Arith Lia.
Import ListNotations.
From JV Require Import Model.LexBase Model.LexTokeniter Spec.LexPlainSpec Spec.LexTrimSpec Proofs.LexInv Proofs.LexPlain
  Proofs.LexSkelD Proofs.LexSkelE.
Open Scope N_scope.

(* A source without any start sequence renders as the one-pass spec: every line break
   replaced by newline_sequence, one trailing line break removed unless keep_trailing_newline.
   All sources, all configurations whose start strings contain no line break characters. *)
Theorem C11_plain_verbatim : forall (c : cfg) (src : str),
  starts_nl_free c = true -> no_start_delim c src = true ->
  render_data c src = Some (spec_plain (c_nlseq c) (c_keep c) src).
Proof. intros c src H1 H2. exact (plain_render c src H1 H2). Qed.
Print Assumptions C11_plain_verbatim.

(* the lexer's three-phase treatment of line breaks (normalise to \n, drop a trailing one,
   substitute in data tokens) equals the one-pass spec on every string *)
Theorem C11_newline_pipeline : forall seq keep s,
  nl_subst seq (normalize keep s) = spec_plain seq keep s.
Proof. intros seq keep s. exact (normalize_spec seq keep s). Qed.
Print Assumptions C11_newline_pipeline.

(* normalisation is idempotent (a normalised source is a fixpoint when the trailing line
   break is kept), and substituting "\n" for "\n" is the identity *)
Theorem C11_normalize_idempotent : forall keep s,
  normalize true (normalize keep s) = normalize keep s /\ nl_subst [10] (normalize keep s) = normalize keep s.
Proof. intros keep s. split; [exact (normalize_idempotent_keep keep s)|exact (nl_subst_id _)]. Qed.
Print Assumptions C11_normalize_idempotent.

(* without keep_trailing_newline a second pass removes a second trailing line break:
   idempotence holds only in the form above *)
Theorem C11_normalize_twice_drop_refuted :
  exists s, normalize false (normalize false s) <> normalize false s.
Proof. exists [97; 10; 10]. vm_compute. discriminate. Qed.
Print Assumptions C11_normalize_twice_drop_refuted.

(* Comments contribute no output: whatever follows a comment_begin token, up to the
   comment_end token (or the end of the stream), is comment tokens only, and the data the
   template outputs for them is empty.  Every source, every configuration. *)
Theorem C11_comment_silent : forall c src its l1 ln v p l2,
  tokeniter c src = LexOk its ->
  its = l1 ++ ITok ln TCommentBegin v p :: l2 ->
  exists body rest, l2 = body ++ rest /\ Forall (is_ty TComment) body /\
    data_of (c_nlseq c) body = [] /\
    (rest = [] \/ exists ln' v' p' r, rest = ITok ln' TCommentEnd v' p' :: r).
Proof.
  intros c src its l1 ln v p l2 H ->. apply tokeniter_run in H. apply run_ok in H.
  destruct H as (rest0 & st' & _ & _ & _ & _ & _ & Hw & _).
  apply walk_app_inv in Hw as (s1 & Hw1 & Hw2). cbn [walk] in Hw2.
  destruct (delta s1 TCommentBegin) as [s2|] eqn:E; [|discriminate].
  assert (s2 = SComment) by (destruct s1; cbn in E; try discriminate; injection E as <-; reflexivity). subst s2.
  destruct (walk_until_close SComment TComment TCommentEnd l2 st') as (body & rest & -> & Hb & Hr);
    [|discriminate|exact Hw2|].
  - intros t s2 Hd. destruct t; cbn in Hd; try discriminate; injection Hd as <-; auto.
  - exists body, rest. repeat split; auto. exact (data_of_non_data _ TComment body ltac:(discriminate) Hb).
Qed.
Print Assumptions C11_comment_silent.

(* Raw blocks: between raw_begin and raw_end there are only data tokens and whitespace gaps;
   together they are the exact slice of the normalised source between the two tags, so the
   body is output verbatim apart from the whitespace its own tags remove (the gap, by the
   '-' / lstrip_blocks rule of the endraw tag; leading whitespace eaten by a '-%}' of the raw
   tag is part of the raw_begin token). *)
Theorem C11_raw_verbatim : forall c src its l1 ln v p l2,
  tokeniter c src = LexOk its ->
  its = l1 ++ ITok ln TRawBegin v p :: l2 ->
  exists body rest, l2 = body ++ rest /\ Forall (is_ty TData) body /\ gaps_ok c body /\
    normalize (c_keep c) src = texts l1 ++ v ++ texts body ++ texts rest /\
    (rest = [] \/ exists ln' v' p' r, rest = ITok ln' TRawEnd v' p' :: r).
Proof.
  intros c src its l1 ln v p l2 H ->. apply tokeniter_run in H. apply run_ok in H.
  destruct H as (rest0 & st' & Ht & He & _ & _ & Hg & Hw & _).
  rewrite (He eq_refl), app_nil_r in Ht.
  apply walk_app_inv in Hw as (s1 & Hw1 & Hw2). cbn [walk] in Hw2.
  destruct (delta s1 TRawBegin) as [s2|] eqn:E; [|discriminate].
  assert (s2 = SRaw) by (destruct s1; cbn in E; try discriminate; injection E as <-; reflexivity). subst s2.
  destruct (walk_until_close SRaw TData TRawEnd l2 st') as (body & rest & -> & Hb & Hr);
    [|discriminate|exact Hw2|].
  - intros t s2 Hd. destruct t; cbn in Hd; try discriminate; injection Hd as <-; auto.
  - exists body, rest. apply gaps_ok_app in Hg as [_ Hg]. cbn [gaps_ok] in Hg. apply gaps_ok_app in Hg as [Hg _].
    repeat split; auto. rewrite <- Ht, texts_app. cbn [texts item_text]. rewrite texts_app. reflexivity.
Qed.
Print Assumptions C11_raw_verbatim.

(* Closed forms (default delimiters; texts a, b over all strings without '{' and CR).
   A comment with an ARBITRARY body (any characters except '#', '+', '-', CR) between two texts
   contributes nothing: the output is the two texts, each treated by the documented whitespace
   rules of the comment tag's sides (identity when trim_blocks / lstrip_blocks are off), with the
   template's final line break removed.  All four settings. *)
Theorem C11_comment_closed_form : forall t l a cb b,
  forallb (txt_of 123) a = true -> forallb cbody cb = true -> forallb (txt_of 123) b = true ->
  render_data (cfg_default t l false [10]) (a ++ [123; 35] ++ cb ++ [35; 125] ++ b)
  = Some (trim_text t l LStart (RTag true MNone) a ++ trim_text t l (LTag true MNone) REnd (drop_final_nl b)).
Proof. intros t l a cb b Ha Hc Hb. exact (comment_closed_form t l a cb b Ha Hc Hb). Qed.
Print Assumptions C11_comment_closed_form.

(* A raw block between two texts, whitespace control off: a ++ "{% raw %}" ++ body ++
   "{% endraw %}" ++ b renders a ++ body ++ b (minus the template's final line break), for every
   body without '{' and CR.  (With modifiers / trim / lstrip: C12_trim_refines on a Raw segment.) *)
Theorem C11_raw_closed_form : forall a body b,
  forallb (txt_of 123) a = true -> forallb (txt_of 123) body = true -> forallb (txt_of 123) b = true ->
  render_data (cfg_default false false false [10]) (a ++ open_raw ++ body ++ close_raw ++ b)
  = Some (a ++ body ++ drop_final_nl b).
Proof. intros a body b Ha Hy Hb. exact (raw_closed_form a body b Ha Hy Hb). Qed.
Print Assumptions C11_raw_closed_form.

(* non-vacuity: "a\r\n{ b\r" has no start sequence; rendered with newline_sequence "\r\n" *)
Example C11_example :
  no_start_delim (cfg_default false false false [13; 10]) [97; 13; 10; 123; 32; 98; 13] = true /\
  render_data (cfg_default false false false [13; 10]) [97; 13; 10; 123; 32; 98; 13]
  = Some [97; 13; 10; 123; 32; 98] /\
  render_data (cfg_default true true false [10])
    ([123;35;32;120;32;35;125;10] ++ [123;37;32;114;97;119;32;45;37;125;32;123;123;32;10;32;123;37;45;32;101;110;100;114;97;119;32;37;125;33])
  = Some [123; 123; 33].
Proof. vm_compute. repeat split. Qed.
