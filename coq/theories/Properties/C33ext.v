(* C33 (second part) — trimmed blocks and extraction over the generic AST walk.
   Only statements, each closed by [exact <lemma>], followed by Print Assumptions. *)
From Coq Require Import List NArith Bool.
Import ListNotations.
From JV Require Import Model.EscMarkup Model.I18nModel Model.I18nTrim Proofs.I18nProofs Proofs.I18nTrimProofs.
Open Scope N_scope.

(* ext._trim_whitespace applied to the format string = the format string of the trimmed token
   sequence (strip; every whitespace run with a line break becomes one space; {{ name }} is
   not whitespace) *)
Theorem C33_trim_format : forall b, names_nows b = true -> fmt_of true b = fmt_of false (trim_block b).
Proof. exact trim_fmt. Qed.
Print Assumptions C33_trim_format.

(* rendering a trimmed block = rendering the untrimmed block of the trimmed text
   (any style, autoescape mode, context string, plural, count, variables) *)
Theorem C33_trans_trimmed : forall st ae ctx sing plur count vars,
  names_nows sing = true -> match plur with Some p => names_nows p = true | None => True end ->
  render_trans st ae true ctx sing plur count vars
  = render_trans st ae false ctx (trim_block sing) (option_map trim_block plur) count vars.
Proof. exact trans_trimmed. Qed.
Print Assumptions C33_trans_trimmed.

(* hence C33_trans_renders for trimmed blocks *)
Theorem C33_trans_renders_trimmed : forall st ae ctx sing vars,
  names_ok sing = true -> names_nows sing = true -> (vars = [] -> text_only sing = true) ->
  render_trans st ae true ctx sing None None vars = subst (vals ae (final_vars st ctx None vars)) (trim_block sing).
Proof. exact trans_renders_trimmed. Qed.
Print Assumptions C33_trans_renders_trimmed.

(* extract_from_ast = filter over Node.find_all(Call): every Call node anywhere below the root
   (nested in arguments, keyword values, other calls, any statement) whose callee is a gettext
   function name is reported with its constant string arguments *)
Theorem C33_extraction_covers_ast : forall t c e, Sub c t -> entry c = Some e -> In e (extract t).
Proof. exact extraction_covers_ast. Qed.
Print Assumptions C33_extraction_covers_ast.

(* the node _make_node builds for a trans block is reported with exactly the message strings
   that are passed to the gettext function at run time *)
Theorem C33_trans_node_extracted : forall newstyle c count varexprs, arg_string count = None ->
  exists kws, In (call_name c,
      (match c_ctx c with Some x => [Some x] | None => [] end) ++ [Some (c_sing c)] ++
      (match c_plur c with Some p => [Some p; None] | None => [] end) ++ kws)
     (extract (ANode [trans_node newstyle c count varexprs])).
Proof. exact trans_node_entry. Qed.
Print Assumptions C33_trans_node_extracted.

(* non-vacuity: trimming "  a \n  {{ u }}\t\n b  " gives "a {{ u }} b"; a gettext call nested in
   the keyword value of another call inside an unknown node is found *)
Example C33ext_example :
  trim_block [PText [32;32;97;32;10;32;32]; PVar [117]; PText [9;10;32;98;32;32]]
    = [PText [97]; PText [32]; PVar [117]; PText [32]; PText [98]] /\
  extract (ANode [ACall (AName [102]) [] [ANode [ACall (AName [95]) [AConstStr [120]] [] []]] []])
    = [([95], [Some [120]])].
Proof. vm_compute. split; reflexivity. Qed.
