(* C38 — exceptions from data propagate unchanged and leave the engine usable.
   Only statements, each closed by [exact <lemma>], followed by Print Assumptions. *)
From Coq Require Import List NArith Bool String.
Import ListNotations.
From JV Require Import Model.Exn Model.Frames Proofs.ExnProofs Proofs.FramesProofs.

(* An exception object below no documented signal class, raised by a data event, travels
   through any stack of try statements that satisfy the handler obligation (every except
   clause names signal classes only, or re-raises the object it caught) and arrives unchanged:
   same class, same identity.  No bound on the depth of the stack. *)
Theorem C38_foreign_exception_propagates :
  forall (sig : list cls) (e : exn) (stack : list trystmt),
  foreign sig e = true -> Forall (fun t => try_ok sig t = true) stack -> propagate e stack = Raised e.
Proof. exact propagate_foreign. Qed.
Print Assumptions C38_foreign_exception_propagates.

(* The same for a whole render: data event k raises e inside the try bodies [st], all of them
   rows of a handler table that satisfies the obligation (the table regenerated from /repo's
   source on every run; rows of the documented catch-alls are excluded by name) - the render
   fails with that very object. *)
Theorem C38_render_raises_same_object :
  forall (sig : list cls) (tab : list row) (stacks : list (list trystmt)) (k : nat) (e : exn) (st : list trystmt),
  table_ok sig tab = true -> nth_error stacks k = Some st -> from_table tab st ->
  foreign sig e = true -> render_with_fault stacks k e = Failed e.
Proof. exact render_fault_foreign. Qed.
Print Assumptions C38_render_raises_same_object.

(* Documented conversions: the innermost try whose first matching clause returns / passes /
   converts to undefined ends the propagation - the render goes on. *)
Theorem C38_signal_swallowed_by_innermost :
  forall (e : exn) (t : trystmt) (r : list trystmt) (h : handler),
  find (matches e) t = Some h -> is_reraise (h_kind h) = false ->
  (forall c, h_kind h <> RaiseOther c) -> propagate e (t :: r) = Swallowed.
Proof. exact propagate_swallow. Qed.
Print Assumptions C38_signal_swallowed_by_innermost.

(* The engine stays usable: a render (id rid) that writes only its own per-render region and
   is cut short after k steps by an exception leaves everything another render (id rid') can
   see unchanged, so the next render computes what it would have computed anyway. *)
Theorem C38_engine_reusable :
  forall (A : Type) (rid rid' : N) (steps1 : list step) (k : nat) (steps2 : list step)
         (out2 : heap -> A) (h : heap),
  rid <> rid' -> Forall (fun s => writes_only (is_per_render rid) s = true) steps1 ->
  Forall (step_reads (visible rid')) steps2 -> depends_on (visible rid') out2 ->
  out2 (run (run h (firstn k steps1)) steps2) = out2 (run h steps2).
Proof. intros A. exact (@next_render_unaffected A). Qed.
Print Assumptions C38_engine_reusable.

(* the guard is needed: one clause that names Exception and does not re-raise swallows a
   foreign exception (this is what a careless "except Exception: pass" on the render path does) *)
Theorem C38_catch_all_refuted :
  exists e t, foreign signals e = true /\ try_ok signals t = false /\ propagate e [t] = Swallowed.
Proof.
  exists {| e_cls := User 1 (B E_Exception); e_id := 1 |}, [{| h_catch := [B E_Exception]; h_kind := Pass |}].
  vm_compute. repeat split; reflexivity.
Qed.
Print Assumptions C38_catch_all_refuted.

(* non-vacuity.  The stack of Environment.getattr's item fallback inside Template.render:
   a private KeyError subclass becomes undefined, a private Exception subclass and a private
   BaseException subclass come out unchanged, a StopIteration inside a generator frame turns
   into RuntimeError (PEP 479). *)
Example C38_example :
  let getattr_item := [{| h_catch := [B E_TypeError; B E_LookupError; B E_AttributeError]; h_kind := ToUndefined |}] in
  let render := [{| h_catch := [B E_Exception]; h_kind := Reraise |}] in
  let pep479 := [{| h_catch := [B E_StopIteration]; h_kind := RaiseOther (B E_RuntimeError) |}] in
  let st := [getattr_item; pep479; render] in
  let mk c := {| e_cls := c; e_id := 7 |} in
  propagate (mk (User 1 (B E_KeyError))) st = Swallowed /\
  propagate (mk (User 2 (B E_Exception))) st = Raised (mk (User 2 (B E_Exception))) /\
  propagate (mk (User 3 (B E_BaseException))) st = Raised (mk (User 3 (B E_BaseException))) /\
  propagate (mk (User 4 (B E_StopIteration))) st = Raised {| e_cls := B E_RuntimeError; e_id := 0 |} /\
  try_ok signals getattr_item = true /\ try_ok signals render = true /\
  foreign signals (mk (User 2 (B E_Exception))) = true /\ foreign signals (mk (User 1 (B E_KeyError))) = false /\
  subclass (B E_TemplatesNotFound) (B E_LookupError) = true /\ subclass (B E_KeyError) (B E_IndexError) = false.
Proof. vm_compute. repeat split; reflexivity. Qed.
