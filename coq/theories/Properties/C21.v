(* C21 -- undefined values behave as documented for every undefined type.
   Finite domain: 8 types x the operation table (Spec/UndefSpec.v, [domain], 2724 cells).
   The theorems below are about the class tables of Model/UndefSnapshot.v; the check
   regenerates the tables from /repo on every run and re-proves the same statements about
   them through C21_table_sound (build/C21/Gen_undef.v). *)
From Coq Require Import List NArith Bool.
Import ListNotations.
From JV Require Import Model.Undef Spec.UndefSpec Proofs.UndefProofs Model.UndefSnapshot.

(* the generic step: a class table that passes the boolean check satisfies the documented
   outcome on every cell of the domain *)
Theorem C21_table_sound : forall (T : Undef.tables) (F : Undef.facts), table_ok T F = true ->
  forall c o, In (c, o) domain -> known_deviation (c, o) = false ->
  exists s, spec c o = Some s /\ agrees (fst (dispatch T F c o)) s = true.
Proof. exact table_ok_sound. Qed.
Print Assumptions C21_table_sound.

(* forall (type, operation, other operand) in the domain: dispatch over the class tables =
   the documented outcome *)
Theorem C21_undefined_table : forall c o, In (c, o) domain -> known_deviation (c, o) = false ->
  exists s, spec c o = Some s /\ agrees (fst (dispatch tables facts c o)) s = true.
Proof. apply table_ok_sound. vm_compute. reflexivity. Qed.
Print Assumptions C21_undefined_table.

(* the guard is needed: the full statement (without known_deviation) is FALSE.  Markup("a") +
   ChainableUndefined succeeds although "+" is documented to raise (Markup.__add__ finds
   ChainableUndefined.__html__); witness and the exact extent of the deviation: *)
Theorem C21_markup_concat_refuted : exists c o s, In (c, o) domain /\ spec c o = Some s /\
  agrees (fst (dispatch tables facts c o)) s = false.
Proof.
  exists (Named BC), (OpArith Add Rev (OB KMarkup)), SUndefinedError.
  assert (E : find (fun x => match x with (Named BC, OpArith Add Rev (OB KMarkup)) => true | _ => false end) domain
              = Some (Named BC, OpArith Add Rev (OB KMarkup))) by (vm_compute; reflexivity).
  apply find_some in E. split; [exact (proj1 E)|]. split; vm_compute; reflexivity.
Qed.
Theorem C21_known_deviation_extent :
  filter known_deviation domain = [(Named BC, OpArith Add Rev (OB KMarkup)); (Logging BC, OpArith Add Rev (OB KMarkup))]
  /\ forallb (fun x => negb (agrees (fst (dispatch tables facts (fst x) (snd x))) SUndefinedError)) (filter known_deviation domain) = true.
Proof. vm_compute. split; reflexivity. Qed.

(* the model never falls outside the modelled fragment on the domain (no Unmodelled result
   hides behind a documented outcome: [agrees] is false on Unmodelled), and the domain is
   the whole cross product minus the cells the documentation is silent about *)
Theorem C21_domain_size : length all_cells = 2784%nat /\ length domain = 2724%nat /\
  forallb (fun x => match snd x with OpPickle | OpRevContains _ | OpArith Mod Rev (OB KStr) | OpArith Mod Rev (OB KBytes) | OpArith Mod Rev (OB KMarkup) | OpArith Mul Rev (OB KMarkup) => true | _ => false end) unspecified_cells = true.
Proof. vm_compute. repeat split; reflexivity. Qed.
Print Assumptions C21_domain_size.

(* the error message is the hint when one was given, otherwise it names the missing
   variable / attribute / element (and the owner object's type for attributes and elements) *)
Theorem C21_message_names_subject : forall o,
  (forall h, eff_hint o = Some h -> message o = h) /\
  (eff_hint o = None -> infix (repr_name (name o)) (message o)) /\
  (forall t, eff_hint o = None -> obj o = Some t -> infix t (message o)) /\
  (forall s, name o = NStr s -> infix s (repr_name (name o))).
Proof.
  intro o. split; [exact (message_hint o)|]. split; [exact (message_subject o)|].
  split; [exact (message_owner o)|]. intros s H. rewrite H. exact (repr_simple_contains s).
Qed.
Print Assumptions C21_message_names_subject.

(* DebugUndefined prints '{{ name }}' for a missing variable, and in every case
   '{{ ' ++ info ++ ' }}' where the info contains the hint / the name *)
Theorem C21_debug_str_form : forall o,
  (forall s, o = mkO None None (NStr s) -> debug_str o = s_open ++ s ++ s_close) /\
  exists mid, debug_str o = s_open ++ mid ++ s_close /\
    match eff_hint o with Some h => infix h mid
    | None => infix (str_name (name o)) mid \/ infix (repr_name (name o)) mid end.
Proof. intro o. split; [intros s ->; exact (debug_str_name s)|exact (debug_str_shape o)]. Qed.
Print Assumptions C21_debug_str_form.

(* ... and when the value came from a missing attribute / element, the debug text names the OWNER's type,
   whatever the owner's truth value (None, {}, [], '', 0 are owners like any other) *)
Theorem C21_debug_str_owner : forall o t, eff_hint o = None -> obj o = Some t -> infix t (debug_str o).
Proof. exact debug_str_owner. Qed.
Print Assumptions C21_debug_str_owner.

(* logging variants: printing and iterating are logged (make_logging_undefined docstring) *)
Theorem C21_logging_print_iter : forall c o, In (c, o) all_cells -> log_print_iter_ok tables facts (c, o) = true.
Proof. apply forallb_cells. vm_compute. reflexivity. Qed.
Print Assumptions C21_logging_print_iter.

(* "implement logging on failures" (api.rst) is FALSE at full strength: the operator aliases
   `__add__ = ... = _fail_with_undefined_error` of class Undefined are bound to Undefined's
   function, so the override in the logging class is not reached ... *)
Theorem C21_logging_failures_refuted : exists c o, In (c, o) domain /\ is_logging c = true /\
  log_failure_ok tables facts (c, o) = false.
Proof.
  assert (E : find (fun x => is_logging (fst x) && negb (log_failure_ok tables facts x)) domain
              = Some (Logging BU, OpPos)) by (vm_compute; reflexivity).
  apply find_some in E. destruct E as [Hin HP]. exists (Logging BU), OpPos.
  split; [exact Hin|]. split; vm_compute; reflexivity.
Qed.

(* ... what does hold: failures raised through attribute access are logged *)
Theorem C21_logging_failures_partial : forall c o, In (c, o) all_cells -> via_getattr (c, o) = true ->
  log_failure_ok tables facts (c, o) = true.
Proof.
  intros c o Hin Hv.
  assert (H : forallb (fun x => implb (via_getattr x) (log_failure_ok tables facts x)) all_cells = true) by (vm_compute; reflexivity).
  pose proof (forallb_cells _ H c o Hin) as H1. cbv beta in H1. rewrite Hv in H1. exact H1.
Qed.
Print Assumptions C21_logging_failures_partial.

(* non-vacuity: cells of every kind, with their outcomes *)
Example C21_example :
  map (fun x => fst (dispatch tables facts (fst x) (snd x)))
    [(Named BU, OpStr); (Named BD, OpStr); (Named BS, OpStr); (Named BC, OpGetAttr); (Logging BC, OpGetItem);
     (Named BU, OpArith Add Rev (OB KStr)); (Named BC, OpCmp CEq Rev OPlain); (Named BU, OpCmp CEq Fwd OPlain);
     (Named BS, OpCmp CLt Rev OPlain); (Logging BS, OpDefault); (Named BS, OpCopy); (Logging BD, OpContains (OB KInt));
     (Named BU, OpGetDunder)]
  = [Succeeds RStrEmpty; Succeeds RDebugStr; Raises Self; Succeeds RItself; Succeeds RItself;
     Raises Self; Succeeds (RBool false); Succeeds (RBool true);
     Raises Self; Succeeds RDefault; Succeeds RCopy; Succeeds (RBool false); AttrErr]
  /\ In (Named BS, OpCmp CLt Rev OPlain) domain
  /\ message (mkO None (Some [105; 110; 116; 32; 111; 98; 106; 101; 99; 116]%N) (NStr [120]%N))
     = [39; 105; 110; 116; 32; 111; 98; 106; 101; 99; 116; 39; 32; 104; 97; 115; 32; 110; 111; 32; 97; 116; 116; 114; 105; 98; 117; 116; 101; 32; 39; 120; 39]%N.
Proof.
  split; [vm_compute; reflexivity|]. split; [|vm_compute; reflexivity].
  assert (E : find (fun x => match x with (Named BS, OpCmp CLt Rev OPlain) => true | _ => false end) domain
              = Some (Named BS, OpCmp CLt Rev OPlain)) by (vm_compute; reflexivity).
  apply find_some in E. exact (proj1 E).
Qed.
