(* C09 — async mode renders exactly what sync mode renders.
   Only statements, each closed by [exact <lemma>], followed by Print Assumptions. *)
From Coq Require Import List ZArith Bool.
Import ListNotations.
From JV Require Import Model.Asy Proofs.AsyProofs.
Open Scope Z_scope.

(* code generation parity at the level of the model: erasing the async decoration of what the
   generator emits in async mode gives what it emits in sync mode (the real generated Python is
   compared the same way on every run: K-gen) *)
Theorem C09_codegen_parity : forall s, plain s = true -> erase (decorate s) = s.
Proof. exact erase_decorate. Qed.
Print Assumptions C09_codegen_parity.

(* await erasure: for every program, data and environment of variables, the async-decorated
   program run on data whose callables are coroutine functions and whose iterables are async
   generators computes the (wrapped) value the plain program computes on the plain data *)
Theorem C09_await_erasure :
  forall (fn : nat -> val -> val) (s : exp) (rho : list val),
  fn_sync fn -> plain s = true -> rho_sync rho ->
  eval (wrap_fn fn) (map wrapv rho) (decorate s) = option_map wrapv (eval fn rho s).
Proof. intros fn s rho F. exact (await_erasure_gen fn s F rho). Qed.
Print Assumptions C09_await_erasure.

(* ... and on plain data (auto_await / auto_aiter let plain values through) exactly the same value *)
Theorem C09_async_over_plain_data :
  forall (fn : nat -> val -> val) (s : exp) (rho : list val),
  fn_sync fn -> plain s = true -> rho_sync rho -> eval fn rho (decorate s) = eval fn rho s.
Proof. intros fn s rho F. exact (async_over_plain_data fn s F rho). Qed.
Print Assumptions C09_async_over_plain_data.

(* each filter with an @async_variant gives, on an async generator and on a plain sequence in
   async mode, what its sync variant gives on the list of the same items *)
Theorem C09_variant_agree : forall (f : filt) (l : list Z), has_async_variant f = true ->
  run_chain true KAGen l [f] = run_chain false KSeq l [f] /\ run_chain true KSeq l [f] = run_chain false KSeq l [f].
Proof. exact variant_agree. Qed.
Print Assumptions C09_variant_agree.

(* chains of filters agree in both modes, for every chain and every input list.  (Before /repo
   f6c81fd, a69269b, fe6bb48, d4b3a53 the consumers sort / min / max / batch / reverse had no async
   variant and this held only under the guard below; the witness [map abs; sort] on [3; -1; 2]
   refuted the full statement - findings C09-F1..F5, now fixed.) *)
Theorem C09_chain_parity : forall (c : list filt) (l : list Z),
  run_chain true KSeq l c = run_chain false KSeq l c.
Proof. exact chain_parity_full. Qed.
Print Assumptions C09_chain_parity.

(* the guarded form, kept: it does not depend on which filters have a variant *)
Theorem C09_chain_parity_partial : forall (c : list filt) (l : list Z),
  chain_guard false c = true -> run_chain true KSeq l c = run_chain false KSeq l c.
Proof. exact chain_parity_guarded. Qed.
Print Assumptions C09_chain_parity_partial.

(* non-vacuity *)
Example C09_example :
  let fn := fun (f : nat) (v : val) => match v with VInt z => VSeq false [z; z + 1; 7] | _ => VInt 0 end in
  let s := Sum false false (Call 0 (Var 0)) (Add (Var 0) (Var 1)) in
  plain s = true /\
  eval fn [VInt 10] s = Some (VInt 58) /\
  eval (wrap_fn fn) [VInt 10] (decorate s) = Some (VInt 58) /\
  eval (wrap_fn fn) [VInt 10] s = None /\          (* the undecorated program cannot run on async data *)
  run_chain true KSeq [3; -1; 2; 3] [FMapAbs; FUnique; FList] = RItems [3; 1; 2] /\
  run_chain false KSeq [3; -1; 2] [FMapAbs; FSort] = RItems [1; 2; 3] /\
  run_chain true KSeq [3; -1; 2] [FMapAbs; FSort] = RItems [1; 2; 3] /\
  run_chain true KSeq [3; -1; 2] [FMapAbs; FLength] = RErr /\ run_chain false KSeq [3; -1; 2] [FMapAbs; FLength] = RErr /\
  chain_guard false [FMapAbs; FList; FSort] = true /\ chain_guard false [FMapAbs; FLength] = false.
Proof. vm_compute. repeat split; reflexivity. Qed.
