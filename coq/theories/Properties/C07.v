(* C07 — the loop variable reports correct iteration state for every iterable.
   Only statements, each closed by [exact <lemma>], followed by Print Assumptions. *)
From Coq Require Import List NArith ZArith Bool Arith Lia.
Import ListNotations.
From JV Require Import Model.Loop Spec.LoopSpec Proofs.LoopProofs.
Open Scope Z_scope.

(* for every item list, sized or not, every nesting depth and every script of queries (any
   queries, any number, in any order, per iteration) the LoopContext state machine visits
   exactly the items and answers every query as documented; the loop never runs out of fuel *)
Theorem C07_loop_refines : forall (k : kind) (d0 : Z) (xs : list item) (script : list (list query)),
  run k d0 xs script = Some (spec xs d0 script).
Proof. exact loop_refines. Qed.
Print Assumptions C07_loop_refines.

(* querying look-ahead attributes never changes which items are visited *)
Theorem C07_lookahead_transparent : forall k d0 xs script,
  option_map (map fst) (run k d0 xs script) = Some xs.
Proof. exact lookahead_transparent. Qed.
Print Assumptions C07_lookahead_transparent.

(* every state the loop object can reach (creation, __next__, any query at any time) splits the
   items into consumed ++ look-ahead cache ++ remaining *)
Theorem C07_invariant : forall k xs d0 s, reachable k xs d0 s ->
  firstn (Z.to_nat (index0 s + 1)) xs ++ opt_item (after s) ++ rem s = xs.
Proof. exact loop_invariant. Qed.
Print Assumptions C07_invariant.

(* the else branch runs exactly when no item passed the loop filter; the visited items are the
   filtered items *)
Theorem C07_else_iff_empty : forall k filtered p d0 xs script o,
  run_for k filtered p d0 xs script = Some o ->
  map fst (visited o) = (if filtered then filter p xs else xs) /\
  (else_taken o = true <-> (if filtered then filter p xs else xs) = []).
Proof. exact else_iff_empty. Qed.
Print Assumptions C07_else_iff_empty.

Theorem C07_run_for_total : forall k filtered p d0 xs script, exists o, run_for k filtered p d0 xs script = Some o.
Proof. exact run_for_total. Qed.
Print Assumptions C07_run_for_total.

(* with loop controls: continue / break at any position of any iteration — the visited items and
   their answers are those of the documented loop up to and including the first iteration that
   breaks, and the else branch still runs exactly when no item passed the filter (an iteration
   that does not reach the end of the body counts) *)
Theorem C07_else_iff_empty_ctl : forall k filtered p d0 xs script ctls o,
  run_for_ctl k filtered p d0 xs script ctls = Some o ->
  let src := if filtered then filter p xs else xs in
  visited o = cut ctls (spec src d0 script) /\
  map fst (visited o) = cut ctls src /\
  (else_taken o = true <-> src = []).
Proof. exact else_iff_empty_ctl. Qed.
Print Assumptions C07_else_iff_empty_ctl.

Theorem C07_run_for_ctl_total : forall k filtered p d0 xs script ctls,
  exists o, run_for_ctl k filtered p d0 xs script ctls = Some o.
Proof. exact run_for_ctl_total. Qed.
Print Assumptions C07_run_for_ctl_total.

(* recursive loops report the nesting level *)
Theorem C07_recursive_depth : forall t d0, rec_loop d0 t = levels d0 t.
Proof. exact recursive_depth. Qed.
Print Assumptions C07_recursive_depth.

(* non-vacuity: an unsized iterable, length asked while an item sits in the look-ahead cache,
   previtem / nextitem at both ends, changed over a repeated item, cycle *)
Example C07_example :
  run Unsized 0 [7%N; 7%N; 9%N]
      [[QNextitem; QLength; QPrevitem; QChanged None]; [QChanged None; QRevindex; QLast; QCycle [1%N; 2%N]];
       [QLast; QNextitem; QPrevitem; QChanged None; QRevindex0]]
  = Some [(7%N, [AItem 7%N; ANum 3; ANoPrev; ABool true]);
          (7%N, [ABool false; ANum 2; ABool false; AItem 2%N]);
          (9%N, [ABool true; ANoNext; AItem 7%N; ABool true; ANum 0])].
Proof. vm_compute. reflexivity. Qed.
