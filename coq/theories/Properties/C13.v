(* C13 — equivalent syntax configurations render identically.
   Only statements, each closed by a short proof ending in [exact <lemma>]. *)
From Coq Require Import List NArith Bool Arith Lia Sorted.
Import ListNotations.
From JV Require Import Model.LexBase Model.LexTokeniter Spec.LexTrimSpec Proofs.LexInv Proofs.LexTrim Proofs.LexCfg
  Proofs.LexSkelA Proofs.LexSkelB Proofs.LexSkelC Proofs.LexSkelD Proofs.LexLineA.
Open Scope N_scope.

(* compile_rules sorts by decreasing start-string length, for every configuration ... *)
Theorem C13_rules_sorted_by_length : forall c, StronglySorted len_ge (compile_rules c).
Proof. intros c. exact (compile_rules_sorted c). Qed.
Print Assumptions C13_rules_sorted_by_length.

(* ... hence at any position of any source the rule the lexer picks is a matching rule with
   the longest start string (<%= beats <%, ## beats #): every configuration, every source *)
Theorem C13_longest_start_wins : forall c prev s k n sg,
  try_alts c (compile_rules c) prev s = Some (k, n, sg) ->
  exists d, In (k, d) (compile_rules c) /\ try_alt c prev s (k, d) = Some (n, sg) /\
    forall k' d', In (k', d') (compile_rules c) -> try_alt c prev s (k', d') <> None ->
                  (length d' <= length d)%nat.
Proof. intros c prev s k n sg H. exact (try_alts_longest c _ prev s k n sg (compile_rules_sorted c) H). Qed.
Print Assumptions C13_longest_start_wins.

(* Delimiter invariance, EVERY skeleton: two configurations whose delimiters satisfy the bundle
   of local facts [skel_cfg] (a consistent delimiter substitution: unparse writes the same
   skeleton with each configuration's own strings) and that agree on trim_blocks, lstrip_blocks,
   keep_trailing_newline and newline_sequence give the same data for every well-formed skeleton
   whose texts are delimiter-free for both. *)
Theorem C13_delimiter_invariance : forall c c' txt txt' sk,
  skel_cfg c txt -> skel_cfg c' txt' -> c_trim c = c_trim c' -> c_lstrip c = c_lstrip c' ->
  c_keep c = c_keep c' -> c_nlseq c = c_nlseq c' ->
  skel_wf txt sk = true -> skel_wf txt' sk = true ->
  render_data c (unparse c sk) = render_data c' (unparse c' sk).
Proof. intros c c' txt txt' sk H H' Et El Ek En Hw Hw'. exact (delimiter_invariance c c' txt txt' sk H H' Et El Ek En Hw Hw'). Qed.
Print Assumptions C13_delimiter_invariance.

(* ... in particular between the default delimiters, <% %> <%= %> <%# #%> (block start a prefix of
   the two other start strings: this is where longest_start_wins is needed), <% %> <%= %> <!-- -->
   (comment end starting with '-') and $% %$ ${ } $# #$, for all skeletons with texts free of '{',
   '<', '$' and CR, all settings *)
Theorem C13_delimiter_invariance_families : forall t l k seq sk,
  skel_wf (fun x => txt_of 123 x && txt_of 60 x && txt_of 36 x) sk = true ->
  render_data (cfg_asp t l k seq) (unparse (cfg_asp t l k seq) sk)
    = render_data (cfg_default t l k seq) (unparse (cfg_default t l k seq) sk) /\
  render_data (cfg_angle t l k seq) (unparse (cfg_angle t l k seq) sk)
    = render_data (cfg_default t l k seq) (unparse (cfg_default t l k seq) sk) /\
  render_data (cfg_dollar t l k seq) (unparse (cfg_dollar t l k seq) sk)
    = render_data (cfg_default t l k seq) (unparse (cfg_default t l k seq) sk).
Proof.
  intros t l k seq sk H.
  assert (W : forall h, (forall x, txt_of 123 x && txt_of 60 x && txt_of 36 x = true -> txt_of h x = true) ->
              skel_wf (txt_of h) sk = true) by (intros h Hh; exact (skel_wf_weaken _ _ sk Hh H)).
  assert (W1 : skel_wf (txt_of 123) sk = true)
    by (apply W; intros x Hx; apply andb_true_iff in Hx as [Hx _]; apply andb_true_iff in Hx as [Hx _]; exact Hx).
  assert (W2 : skel_wf (txt_of 60) sk = true)
    by (apply W; intros x Hx; apply andb_true_iff in Hx as [Hx _]; apply andb_true_iff in Hx as [_ Hx]; exact Hx).
  assert (W3 : skel_wf (txt_of 36) sk = true)
    by (apply W; intros x Hx; apply andb_true_iff in Hx as [_ Hx]; exact Hx).
  repeat split.
  - exact (delimiter_invariance _ _ _ _ sk (skel_cfg_asp t l k seq) (skel_cfg_default t l k seq) eq_refl eq_refl eq_refl eq_refl W2 W1).
  - exact (delimiter_invariance _ _ _ _ sk (skel_cfg_angle t l k seq) (skel_cfg_default t l k seq) eq_refl eq_refl eq_refl eq_refl W2 W1).
  - exact (delimiter_invariance _ _ _ _ sk (skel_cfg_dollar t l k seq) (skel_cfg_default t l k seq) eq_refl eq_refl eq_refl eq_refl W3 W1).
Qed.
Print Assumptions C13_delimiter_invariance_families.

(* Regression instance kept from the first round: *)
(* Delimiter invariance, small scope (Coq-checked enumeration, NOT the unbounded statement):
   every skeleton  text tag text  of the stated domain written with the default delimiters,
   with <% %> / <%= %> / <!-- --> (a start string that is a prefix of another) and with
   $% %$ / ${ } / $# #$ (three start strings sharing a prefix) yields the same data under
   all four trim_blocks / lstrip_blocks settings. *)
Theorem C13_delimiter_invariance_small_scope : forall sk tl,
  In sk ss_skeletons -> In tl ss_settings ->
  let d := cfg_default (fst tl) (snd tl) false [10] in
  let a := cfg_angle (fst tl) (snd tl) false [10] in
  let o := cfg_dollar (fst tl) (snd tl) false [10] in
  render_data a (unparse a sk) = render_data d (unparse d sk) /\
  render_data o (unparse o sk) = render_data d (unparse d sk).
Proof.
  assert (H : forallb (fun tl => forallb (fun sk =>
              trim_check (cfg_default (fst tl) (snd tl) false [10]) sk
              && trim_check (cfg_angle (fst tl) (snd tl) false [10]) sk
              && trim_check (cfg_dollar (fst tl) (snd tl) false [10]) sk) ss_skeletons) ss_settings = true)
    by (vm_compute; reflexivity).
  intros sk tl Hsk Htl d a o. rewrite forallb_forall in H. specialize (H tl Htl).
  rewrite forallb_forall in H. specialize (H sk Hsk).
  apply andb_true_iff in H as [H H3]. apply andb_true_iff in H as [H1 H2].
  apply trim_check_sound in H1, H2, H3. subst d a o. rewrite H1, H2, H3. split; reflexivity.
Qed.
Print Assumptions C13_delimiter_invariance_small_scope.

(* Line statements, EVERY line-structured skeleton: a template made of chunks  text ++ indentation ++
   whole-line tag ++ LF  (any number of them) and a final text, with line_statement_prefix '#',
   line_comment_prefix '##', trim_blocks and lstrip_blocks, renders the same when every whole-line
   "{% set x = 1 %}" is rewritten as the line statement "# set x = 1".  [lsk_ok]: texts are any
   strings without '{', '#', CR that are empty or end a line, indentation is spaces / tabs / VT, and
   what follows a statement line does not begin with a blank line (its first non-indentation
   character is not whitespace).  Both forms render the texts with the statement lines removed.
   Every newline_sequence; keep_trailing_newline set, or a non-empty final text. *)
Theorem C13_line_statement_equiv : forall keep nlseq chs F,
  lsk_ok chs F = true -> (keep = true \/ F <> []) ->
  render_data (cfg_line true true keep nlseq) (unparse_form tag_line_form chs F)
  = render_data (cfg_line true true keep nlseq) (unparse_form tag_block_form chs F).
Proof. intros k seq chs F H Hk. exact (line_statement_equiv k seq chs F H Hk). Qed.
Print Assumptions C13_line_statement_equiv.

Theorem C13_line_form_render : forall tag keep nlseq chs F,
  (tag = tag_block_form \/ tag = tag_line_form) -> lsk_ok chs F = true -> (keep = true \/ F <> []) ->
  render_data (cfg_line true true keep nlseq) (unparse_form tag chs F)
  = Some (nl_subst nlseq (spec_lines chs (if keep then F else drop_last_nl F))).
Proof. intros tag k seq chs F Ht H Hk. exact (line_form_render tag k seq chs F Ht H Hk). Qed.
Print Assumptions C13_line_form_render.

(* The guard is needed: a statement line followed by a blank line loses that line in the
   line-statement form only (\s*(\n|$) consumes through the last line break of the whitespace run). *)
Theorem C13_line_statement_blank_line_refuted :
  exists src_line src_block,
    src_line = [35] ++ body_block ++ [10; 10; 97] /\ src_block = tag_block_form ++ [10; 10; 97] /\
    render_data (cfg_line true true false [10]) src_line <> render_data (cfg_line true true false [10]) src_block.
Proof. eexists. eexists. split; [reflexivity|]. split; [reflexivity|]. vm_compute. discriminate. Qed.
Print Assumptions C13_line_statement_blank_line_refuted.

(* Regression instance kept from the first round: *)
(* Line statements, small scope: a whole-line {% set x = 1 %} and its line-statement form
   # set x = 1  (prefix '#', trim_blocks + lstrip_blocks) give the same data for every
   indentation / preceding text / following text of the stated domain whose following text
   does not begin with a blank line. *)
Definition ls_pre : list str := [[]; [97; 10]; [97; 32; 10]; [10]; [32; 10]].
Definition ls_indent : list str := [[]; [32]; [9; 32]].
Definition ls_post : list str := [[]; [98]; [32; 98; 10]; [98; 10; 10; 99]].
Definition ls_block (i : str) : str := i ++ [123; 37] ++ body_block ++ [37; 125; 10].
Definition ls_line (i : str) : str := i ++ [35] ++ body_block ++ [10].

Theorem C13_line_statement_equiv_small_scope : forall p i q,
  In p ls_pre -> In i ls_indent -> In q ls_post ->
  render_data (cfg_line true true false [10]) (p ++ ls_line i ++ q)
  = render_data (cfg_line true true false [10]) (p ++ ls_block i ++ q)
  /\ render_data (cfg_line true true false [10]) (p ++ ls_block i ++ q) <> None.
Proof.
  assert (H : forallb (fun p => forallb (fun i => forallb (fun q =>
      match render_data (cfg_line true true false [10]) (p ++ ls_line i ++ q),
            render_data (cfg_line true true false [10]) (p ++ ls_block i ++ q) with
      | Some x, Some y => eqstr x y | _, _ => false end) ls_post) ls_indent) ls_pre = true)
    by (vm_compute; reflexivity).
  intros p i q Hp Hi Hq. rewrite forallb_forall in H. specialize (H p Hp).
  rewrite forallb_forall in H. specialize (H i Hi). rewrite forallb_forall in H. specialize (H q Hq).
  destruct (render_data _ (p ++ ls_line i ++ q)) as [x|]; [|discriminate].
  destruct (render_data _ (p ++ ls_block i ++ q)) as [y|]; [|discriminate].
  split; [f_equal; exact (eqstr_eq x y H)|discriminate].
Qed.
Print Assumptions C13_line_statement_equiv_small_scope.

(* Line comments: the same rewriting is NOT output-preserving.  The line comment rule ends
   with a look-ahead (?=\n|$) and leaves the line break in the data, whereas the whole-line
   {# ... #} loses it under trim_blocks.  Witness "a\n{# c #}\nb" vs "a\n## c\nb". *)
Theorem C13_line_comment_equiv_refuted :
  exists p q,
    render_data (cfg_line true true false [10]) (p ++ [123;35;32;99;32;35;125;10] ++ q)
    <> render_data (cfg_line true true false [10]) (p ++ [35;35;32;99;10] ++ q).
Proof. exists [97; 10], [98]. vm_compute. discriminate. Qed.
Print Assumptions C13_line_comment_equiv_refuted.

(* non-vacuity *)
Example C13_example :
  render_data (cfg_line true true false [10]) ([97; 10] ++ [123;35;32;99;32;35;125;10] ++ [98]) = Some [97; 10; 98] /\
  render_data (cfg_line true true false [10]) ([97; 10] ++ [35;35;32;99;10] ++ [98]) = Some [97; 10; 10; 98] /\
  map fst (compile_rules (cfg_angle false false false [10])) = [KComment; KVar; KBlock] /\
  map fst (compile_rules (cfg_line false false false [10])) = [KVar; KLc; KComment; KBlock; KLs].
Proof. vm_compute. repeat split. Qed.
