(* C12 — whitespace control follows the documented trimming rules.
   Only statements, each closed by a short proof ending in [exact <lemma>]. *)
From Coq Require Import List NArith Bool Arith Lia.
Import ListNotations.
From JV Require Import Model.LexBase Model.LexTokeniter Spec.LexTrimSpec Proofs.LexInv Proofs.LexTrim
  Proofs.LexSkelA Proofs.LexSkelB Proofs.LexSkelC Proofs.LexSkelD Proofs.LexSkelF.
Open Scope N_scope.

(* Non-whitespace text is never removed: the non-whitespace characters of the (normalised)
   source are exactly those of the tokens, in order.  Every source, every configuration. *)
Theorem C12_only_whitespace_removed : forall c src its,
  tokeniter c src = LexOk its ->
  visible (normalize (c_keep c) src) = visible (tok_texts its).
Proof.
  intros c src its H. pose proof (tokeniter_inv c src) as G. rewrite H in G.
  destruct G as (st' & Gt & _ & _ & Gg & _). rewrite <- Gt. exact (visible_texts c its Gg).
Qed.
Print Assumptions C12_only_whitespace_removed.

(* Left side of a tag (the OptionalLStrip branch of tokeniter), every text, every setting:
   what is kept of the text in front of a tag with sign sg is the documented rule —
   '-' removes the maximal whitespace suffix, '+' keeps everything, otherwise lstrip_blocks
   removes the whitespace after the last line break when the tag is not a variable tag and the
   text reaches back to a line start. *)
Theorem C12_trim_refines_left : forall c sg var line_starting text k why nls,
  strip_text c sg var line_starting text = (k, why, nls) ->
  firstn k text = left_rule (c_lstrip c) (RTag (negb var) (md_of sg)) line_starting text.
Proof. intros c sg var ls text k why nls H. exact (strip_text_left_rule c sg var ls text k why nls H). Qed.
Print Assumptions C12_trim_refines_left.

(* Right side of a block / comment / endraw tag, every following text: after
   [modifier] end-string the lexer's rule consumes exactly what the documented rule removes
   ('-' all whitespace, trim_blocks one line break, '+' nothing). *)
Theorem C12_trim_refines_right : forall trim_blocks e m rest,
  head_not_sign e = true ->
  exists n, end_alts true trim_blocks e (md_str m ++ e ++ rest) = Some n /\
            skipn n (md_str m ++ e ++ rest) = right_rule trim_blocks (LTag true m) rest.
Proof. intros t e m rest H. exact (end_alts_right_rule t e m rest H). Qed.
Print Assumptions C12_trim_refines_right.

(* Whole templates, EVERY skeleton (any number of segments: texts, block / comment / variable tags
   and raw blocks with every modifier combination), all four trim_blocks / lstrip_blocks
   settings, default delimiters: the data the lexer model outputs for the template text of a
   well-formed skeleton is spec_trim.  Texts and raw bodies range over all strings without
   '{' and CR.  Induction over the segments; no bound. *)
Theorem C12_trim_refines : forall trim_blocks lstrip_blocks sk,
  skel_wf (txt_of 123) sk = true ->
  render_data (cfg_default trim_blocks lstrip_blocks false [10])
              (unparse (cfg_default trim_blocks lstrip_blocks false [10]) sk)
  = Some (spec_trim trim_blocks lstrip_blocks [] sk).
Proof. intros t l sk H. exact (trim_refines_default t l sk H). Qed.
Print Assumptions C12_trim_refines.

(* ... with newline_sequence and keep_trailing_newline as parameters: the output is spec_trim_k
   (spec_trim, or the same without the removal of the template's final line break when
   keep_trailing_newline is set) with every line break replaced by newline_sequence. *)
Theorem C12_trim_refines_general : forall trim_blocks lstrip_blocks keep nlseq sk,
  skel_wf (txt_of 123) sk = true ->
  render_data (cfg_default trim_blocks lstrip_blocks keep nlseq)
              (unparse (cfg_default trim_blocks lstrip_blocks keep nlseq) sk)
  = Some (nl_subst nlseq (spec_trim_k keep trim_blocks lstrip_blocks sk)).
Proof. intros t l k seq sk H. exact (trim_refines_default_gen t l k seq sk H). Qed.
Print Assumptions C12_trim_refines_general.

(* ... and with CR / CRLF / LF line breaks in the texts and raw bodies (all strings without '{'):
   the output is that of the skeleton whose texts have their line breaks unified ([normsk]). *)
Theorem C12_trim_refines_cr : forall trim_blocks lstrip_blocks keep nlseq sk,
  skel_wf (with_cr (txt_of 123)) sk = true ->
  render_data (cfg_default trim_blocks lstrip_blocks keep nlseq)
              (unparse (cfg_default trim_blocks lstrip_blocks keep nlseq) sk)
  = Some (nl_subst nlseq (spec_trim_k keep trim_blocks lstrip_blocks (normsk sk))).
Proof.
  intros t l k seq sk H.
  exact (skel_render_cr (cfg_default t l k seq) (txt_of 123) (skel_cfg_default t l k seq) eq_refl sk H).
Qed.
Print Assumptions C12_trim_refines_cr.

(* The same for every configuration whose delimiters satisfy the bundle of local facts
   [skel_cfg] (start strings recognised at a tag start, delimiter-free text characters, end
   strings not starting with '+', not mistakable for '-' followed by themselves and not ending in a
   line break, tag bodies lexed to their end) ... *)
Theorem C12_trim_refines_cfg : forall c txt sk,
  skel_cfg c txt -> skel_wf txt sk = true ->
  render_data c (unparse c sk)
  = Some (nl_subst (c_nlseq c) (spec_trim_k (c_keep c) (c_trim c) (c_lstrip c) sk)).
Proof. intros c txt sk H Hw. exact (skel_render_cfg c txt H sk Hw). Qed.
Print Assumptions C12_trim_refines_cfg.

(* ... which holds for  <% %> <%= %> <%# #%>  (block start a prefix of both other start strings),
   <% %> <%= %> <!-- -->  (comment end string starting with '-') and  $% %$ ${ } $# #$  (shared
   first character), all trim / lstrip / keep settings and newline sequences *)
Theorem C12_trim_refines_families : forall t l k seq,
  skel_cfg (cfg_default t l k seq) (txt_of 123) /\
  skel_cfg (cfg_asp t l k seq) (txt_of 60) /\
  skel_cfg (cfg_angle t l k seq) (txt_of 60) /\
  skel_cfg (cfg_dollar t l k seq) (txt_of 36).
Proof.
  intros t l k seq.
  exact (conj (skel_cfg_default t l k seq) (conj (skel_cfg_asp t l k seq) (conj (skel_cfg_angle t l k seq) (skel_cfg_dollar t l k seq)))).
Qed.
Print Assumptions C12_trim_refines_families.

(* The interplay of the two sides of a text, every text: applying the previous tag's right rule
   first and the next tag's left rule to the remainder with the lexer's line_starting flag
   (the lexer's order) equals the documented rules applied to the original text. *)
Theorem C12_rules_commute : forall trim lstrip L R s,
  left_rule lstrip R (ls_ctx trim L s) (right_rule trim L s)
  = right_rule trim L (left_rule lstrip R (at_start L) s).
Proof. intros trim lstrip L R s. exact (rules_commute trim lstrip L R s). Qed.
Print Assumptions C12_rules_commute.

(* Regression instance kept from the first round: the one-tag skeletons of the small-scope domain,
   by computation (now also a corollary of C12_trim_refines). *)
Theorem C12_trim_refines_small_scope : forall sk tl,
  In sk ss_skeletons -> In tl ss_settings ->
  trim_check (cfg_default (fst tl) (snd tl) false [10]) sk = true.
Proof.
  assert (H : forallb (fun tl => forallb (trim_check (cfg_default (fst tl) (snd tl) false [10])) ss_skeletons) ss_settings = true)
    by (vm_compute; reflexivity).
  intros sk tl Hsk Htl. rewrite forallb_forall in H. specialize (H tl Htl). rewrite forallb_forall in H. exact (H sk Hsk).
Qed.
Print Assumptions C12_trim_refines_small_scope.

(* non-vacuity: "<div>\n    {% set x = 1 %}\n        yay\n</div>\n" with both options: the tag line vanishes *)
Example C12_example :
  let sk := [Text [60;100;105;118;62;10;32;32;32;32]; Block MNone MNone; Text [10;32;32;121;97;121;10]] in
  render_data (cfg_default true true false [10]) (unparse (cfg_default true true false [10]) sk)
    = Some [60;100;105;118;62;10;32;32;121;97;121] /\
  spec_trim true true [] sk = [60;100;105;118;62;10;32;32;121;97;121] /\
  spec_trim false false [] sk = [60;100;105;118;62;10;32;32;32;32;10;32;32;121;97;121] /\
  length ss_skeletons = 2160%nat.
Proof. vm_compute. repeat split. Qed.
