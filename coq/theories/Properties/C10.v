(* C10 — all rendering entry points produce the same text.
   Only statements, each closed by [exact <lemma>], followed by Print Assumptions. *)
From Coq Require Import List NArith Bool Arith Lia.
Import ListNotations.
From JV Require Import Model.Stream Proofs.StreamProofs Lib.PyGen Proofs.StreamTrans Proofs.StreamHist.

(* the concatenation of a buffered stream equals render, for every piece list and size *)
Theorem C10_buffered_concat : forall (size : nat) (pieces : list str) (chunks : list str),
  stream_buffered size pieces = Ok chunks -> concat chunks = render pieces.
Proof.
  intros size pieces chunks H. unfold stream_buffered in H.
  destruct (Nat.leb size 1); [discriminate|]. injection H as <-. exact (buffered_concat_gen size pieces).
Qed.
Print Assumptions C10_buffered_concat.

(* a buffer size <= 1 is rejected, never looped on *)
Theorem C10_small_size_rejected : forall size pieces, size <= 1 -> stream_buffered size pieces = ValueError.
Proof. intros size pieces H. unfold stream_buffered. destruct (Nat.leb_spec size 1); [reflexivity|lia]. Qed.
Print Assumptions C10_small_size_rejected.

(* every chunk except the last combines exactly [size] non-empty pieces (the last 1..size),
   chunks are the concatenations of consecutive groups of pieces, and what follows the
   last group is empty pieces only *)
Theorem C10_buffered_chunks : forall (size : nat) (pieces : list str) (chunks : list str),
  stream_buffered size pieces = Ok chunks ->
  exists (gs : list (list str)) (tail : list str),
    chunks = map concat gs /\ pieces = flat gs ++ tail /\
    Forall (fun s => nonempty s = false) tail /\ chunks_ok size gs.
Proof.
  intros size pieces chunks H. unfold stream_buffered in H.
  destruct (Nat.leb_spec size 1) as [|Hs]; [discriminate|]. injection H as <-.
  destruct (groups_flat size [] pieces) as [tail [H1 H2]].
  exists (groups_go size [] 0 pieces), tail.
  split; [exact (buffered_groups size [] 0 pieces)|].
  split; [exact H1|]. split; [exact H2|].
  exact (groups_chunks size [] pieces ltac:(lia) ltac:(cbn; lia)).
Qed.
Print Assumptions C10_buffered_chunks.

(* generate / unbuffered stream / module string / text dump all concatenate to render *)
Theorem C10_entry_points_agree : forall pieces,
  concat (generate pieces) = render pieces /\
  concat (stream_unbuffered pieces) = render pieces /\
  module_str pieces = render pieces /\
  dump_text (stream_unbuffered pieces) = render pieces.
Proof. intros; repeat split; reflexivity. Qed.
Print Assumptions C10_entry_points_agree.

(* dump to an encoded target: feeding the chunks (buffered or not) to ONE incremental encoder and
   flushing it yields the encoding of the rendered text, for every encoder obeying the law of
   incremental encoders (feed (a ++ b) = feed a then feed b) — stateful ones that emit a byte
   order mark first (utf-16, utf-32, utf-8-sig) included *)
Theorem C10_dump_encoded : forall (B St : Type) (feed : St -> str -> St * list B) (flush : St -> list B),
  (forall st, feed st [] = (st, [])) ->
  (forall st a b, feed st (a ++ b) = let '(s1, x) := feed st a in let '(s2, y) := feed s1 b in (s2, x ++ y)) ->
  forall st0 size pieces chunks, stream_buffered size pieces = Ok chunks ->
  dump_enc B St feed flush st0 chunks = encode_all B St feed flush st0 (render pieces) /\
  dump_enc B St feed flush st0 pieces = encode_all B St feed flush st0 (render pieces).
Proof.
  intros B St feed flush Hn Ha st0 size pieces chunks H. split.
  - rewrite (dump_enc_concat B St feed flush Hn Ha). f_equal. exact (C10_buffered_concat size pieces chunks H).
  - exact (dump_enc_concat B St feed flush Hn Ha st0 pieces).
Qed.
Print Assumptions C10_dump_encoded.

(* why ONE encoder is needed (the defect repaired by the fix: commit): an encoder that emits a
   mark before its first output encodes two pieces separately differently from their concatenation *)
Definition bom_feed (st : bool) (s : str) : bool * list N :=
  match s with [] => (st, []) | _ => (true, (if st then [] else [65279%N]) ++ s) end.
Theorem C10_per_piece_encoding_refuted :
  snd (bom_feed false [97%N]) ++ snd (bom_feed false [98%N]) <> snd (bom_feed false [97%N; 98%N]).
Proof. vm_compute. discriminate. Qed.

(* the Python text of TemplateStream._buffered_generator, as a term of the deep embedding Lib/PyGen
   (the harness regenerates the term from the current source on every run and proves it equal to
   buffered_term): executed by the embedding's interpreter with a loop budget of len(pieces) + 2 it
   returns after yielding exactly the model's chunks — for every buffer size the stream accepts and
   every piece list *)
Theorem C10_source_term_semantics : forall size pieces chunks, stream_buffered size pieces = Ok chunks ->
  exists s', run_gen buffered_term 5 size pieces (length pieces + 2) = OReturn s' chunks.
Proof. exact buffered_term_stream. Qed.
Print Assumptions C10_source_term_semantics.

(* and why enable_buffering must refuse size 0 (it refuses everything <= 1): the generator would
   yield empty chunks forever — no budget suffices *)
Theorem C10_size_zero_spins : forall n, run_gen buffered_term 5 0 [] n = OFuel.
Proof. exact size_zero_spins. Qed.
Print Assumptions C10_size_zero_spins.

(* histories on one stream object: whatever sequence of enable_buffering(n) (refused for n <= 1),
   disable_buffering() and next() calls precedes, the text yielded so far followed by the text of
   iterating the stream to the end is the rendered text — switching modes loses and duplicates nothing *)
Theorem C10_history_text : forall ops pieces,
  let '(st, outs) := srun {| mode := None; rest := pieces |} ops in
  concat (map out_text outs) ++ concat (sdrain st) = render pieces.
Proof. exact history_text. Qed.
Print Assumptions C10_history_text.

(* and after buffering was enabled with size n over the pieces then left, the next() calls yield exactly
   the buffered generator's chunks of those pieces (to which C10_buffered_chunks applies), whatever
   happened before *)
Theorem C10_history_chunks : forall n ps k, length ps < k ->
  nexts k {| mode := Some n; rest := ps |} = buffered_go n [] 0 ps.
Proof. intros n ps k H. exact (nexts_buffered n (length ps) ps k (le_n _) H). Qed.
Print Assumptions C10_history_chunks.

(* non-vacuity: a concrete stream with empty pieces, two full chunks and a short last one *)
Example C10_example :
  stream_buffered 2 [[97%N]; []; [98%N]; [99%N]; []; []; [100%N]; [101%N]; []]
  = Ok [[97%N; 98%N]; [99%N; 100%N]; [101%N]].
Proof. vm_compute. reflexivity. Qed.
Example C10_example_history :
  snd (srun {| mode := None; rest := [[97%N]; []; [98%N]; [99%N]; [100%N]; [101%N]] |}
            [ONext; OEnable 1; OEnable 2; ONext; ODisable; ONext; OEnable 2; ODisable; OEnable 2; ONext; ONext])
  = [SChunk [97%N]; SValueError; SNone; SChunk [98%N; 99%N]; SNone; SChunk [100%N]; SNone; SNone; SNone; SChunk [101%N]; SStop].
Proof. vm_compute. reflexivity. Qed.
Example C10_example_term :
  run_gen buffered_term 5 2 [[97%N]; []; [98%N]; [99%N]; []; []; [100%N]; [101%N]; []] 11
  = OReturn {| vars := [VNat 2; VList []; VNat 0; VAppend 1; VStr []]; input := [] |} [[97%N; 98%N]; [99%N; 100%N]; [101%N]].
Proof. vm_compute. reflexivity. Qed.
