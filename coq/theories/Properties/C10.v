(* C10 — all rendering entry points produce the same text.
   Only statements, each closed by [exact <lemma>], followed by Print Assumptions. *)
From Coq Require Import List NArith Bool Arith Lia.
Import ListNotations.
From JV Require Import Model.Stream Proofs.StreamProofs.

(* the concatenation of a buffered stream equals render, for every piece list and size *)
Theorem C10_buffered_concat : forall (size : nat) (pieces : list str) (chunks : list str),
  stream_buffered size pieces = Ok chunks -> concat chunks = render pieces.
Proof.
  intros size pieces chunks H. unfold stream_buffered in H.
  destruct (Nat.leb size 1); [discriminate|]. injection H as <-. exact (buffered_concat_gen size pieces).
Qed.
Print Assumptions C10_buffered_concat.

(* a buffer size <= 1 is rejected, never looped on *)
Theorem C10_small_size_rejected : forall size pieces, size <= 1 -> stream_buffered size pieces = ValueError.
Proof. intros size pieces H. unfold stream_buffered. destruct (Nat.leb_spec size 1); [reflexivity|lia]. Qed.
Print Assumptions C10_small_size_rejected.

(* every chunk except the last combines exactly [size] non-empty pieces (the last 1..size),
   chunks are the concatenations of consecutive groups of pieces, and what follows the
   last group is empty pieces only *)
Theorem C10_buffered_chunks : forall (size : nat) (pieces : list str) (chunks : list str),
  stream_buffered size pieces = Ok chunks ->
  exists (gs : list (list str)) (tail : list str),
    chunks = map concat gs /\ pieces = flat gs ++ tail /\
    Forall (fun s => nonempty s = false) tail /\ chunks_ok size gs.
Proof.
  intros size pieces chunks H. unfold stream_buffered in H.
  destruct (Nat.leb_spec size 1) as [|Hs]; [discriminate|]. injection H as <-.
  destruct (groups_flat size [] pieces) as [tail [H1 H2]].
  exists (groups_go size [] 0 pieces), tail.
  split; [exact (buffered_groups size [] 0 pieces)|].
  split; [exact H1|]. split; [exact H2|].
  exact (groups_chunks size [] pieces ltac:(lia) ltac:(cbn; lia)).
Qed.
Print Assumptions C10_buffered_chunks.

(* generate / unbuffered stream / module string / text dump all concatenate to render *)
Theorem C10_entry_points_agree : forall pieces,
  concat (generate pieces) = render pieces /\
  concat (stream_unbuffered pieces) = render pieces /\
  module_str pieces = render pieces /\
  dump_text (stream_unbuffered pieces) = render pieces.
Proof. intros; repeat split; reflexivity. Qed.
Print Assumptions C10_entry_points_agree.

(* dump to an encoded target: encoding chunk by chunk equals encoding the rendered text,
   for any encoder that is a monoid homomorphism (utf-8 & co. on valid text) *)
Theorem C10_dump_encoded : forall (B : Type) (enc : str -> list B),
  enc [] = [] -> (forall a b, enc (a ++ b) = enc a ++ enc b) ->
  forall size pieces chunks, stream_buffered size pieces = Ok chunks ->
  dump_enc B enc chunks = enc (render pieces) /\ dump_enc B enc pieces = enc (render pieces).
Proof.
  intros B enc Hn Ha size pieces chunks H. split.
  - rewrite (dump_enc_concat B enc Hn Ha). f_equal. exact (C10_buffered_concat size pieces chunks H).
  - exact (dump_enc_concat B enc Hn Ha pieces).
Qed.
Print Assumptions C10_dump_encoded.

(* non-vacuity: a concrete stream with empty pieces, two full chunks and a short last one *)
Example C10_example :
  stream_buffered 2 [[97%N]; []; [98%N]; [99%N]; []; []; [100%N]; [101%N]; []]
  = Ok [[97%N; 98%N]; [99%N; 100%N]; [101%N]].
Proof. vm_compute. reflexivity. Qed.
