(* C26, concurrent half: every interleaving of lock-protected cache operations, scheduled at
   micro-step (source line) granularity, behaves as the sequential execution of the
   operations in lock-acquisition order — hence as the reference LRU map on that order. *)
From Coq Require Import List NArith Bool Arith Lia.
Import ListNotations.
From JV Require Import Model.LRU Model.LRUConc Spec.LRUSpec Lib.LockAtomic Proofs.LRUProofs Proofs.LRUConcProofs.
Open Scope N_scope.

Definition csys := sys lru op out.
Definition cexec := exec lru op out step decomp.
Definition cinit := LockAtomic.init lru op out.

Theorem C26_locked_ops_atomic :
  forall (s0 : lru) (progs : list (list op)) (sched : list nat) (y : csys) (log : list (nat * op)),
  cexec (cinit s0 progs) [] sched = (y, log) -> holder _ _ _ y = None ->
  shared _ _ _ y = fst (run s0 (map snd log)) /\
  forall i t, nth_error (threads _ _ _ y) i = Some t ->
    outs _ _ _ t = outs_of op out i log (snd (run s0 (map snd log))).
Proof.
  intros s0 progs sched y log H Hh.
  rewrite <- (seq_run_eq_run (map snd log) s0).
  exact (locked_ops_atomic lru op out step decomp decomp_ok s0 progs sched y log H Hh).
Qed.
Print Assumptions C26_locked_ops_atomic.

(* ... and therefore as the reference LRU map run on the acquisition order *)
Theorem C26_concurrent_refines_spec :
  forall (c : N) (progs : list (list op)) (sched : list nat) (y : csys) (log : list (nat * op)),
  1 <= c -> cexec (cinit (LRU.init c) progs) [] sched = (y, log) -> holder _ _ _ y = None ->
  abs (shared _ _ _ y) = fst (srun c [] (map snd log)) /\
  forall i t, nth_error (threads _ _ _ y) i = Some t ->
    outs _ _ _ t = outs_of op out i log (snd (srun c [] (map snd log))).
Proof.
  intros c progs sched y log Hc H Hh.
  destruct (C26_locked_ops_atomic (LRU.init c) progs sched y log H Hh) as [A B].
  destruct (run (LRU.init c) (map snd log)) as [s' xs] eqn:R.
  destruct (run_refines (map snd log) (LRU.init c) s' xs (init_inv c Hc) R) as [R1 _].
  cbn [cap LRU.init] in R1. rewrite abs_init in R1. rewrite R1. cbn [fst snd] in *.
  split; [now rewrite A|exact B].
Qed.
Print Assumptions C26_concurrent_refines_spec.

(* Why __contains__ must read under the lock (the defect repaired by the fix: commit):
   in the state between the two halves of an evicting __setitem__, two membership tests
   give answers that no sequential order of the three calls produces. *)
Definition s12 : lru := fst (run (LRU.init 2) [SetItem 1 1; SetItem 2 2]).
Definition mid : lru := setitem_phase1 3 s12.
Theorem C26_unlocked_contains_refuted :
  snd (contains mid 1) = OBool false /\ snd (contains mid 3) = OBool false /\
  snd (run s12 [SetItem 3 30; Contains 1; Contains 3]) <> [ONone; OBool false; OBool false] /\
  snd (run s12 [Contains 1; SetItem 3 30; Contains 3]) <> [OBool false; ONone; OBool false] /\
  snd (run s12 [Contains 1; Contains 3; SetItem 3 30]) <> [OBool false; OBool false; ONone].
Proof. vm_compute. repeat split; discriminate. Qed.
Print Assumptions C26_unlocked_contains_refuted.

(* non-vacuity: two threads, a schedule that pre-empts thread 0 inside __setitem__ *)
Example C26conc_example :
  let '(y, log) := cexec (cinit s12 [[SetItem 3 30; GetItem 1]; [Contains 1; Contains 3]]) []
                         [0; 0; 1; 1; 0; 0; 1; 1; 1; 1; 1; 1; 0; 0; 0; 0]%nat in
  holder _ _ _ y = None /\
  map (fun t => outs _ _ _ t) (threads _ _ _ y) = [[ONone; OExn KeyError]; [OBool false; OBool true]].
Proof. vm_compute. split; reflexivity. Qed.
