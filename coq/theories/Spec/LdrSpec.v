(* C28 — what the documentation of the loaders promises, independent of how get_source walks
   the composition.

   route l n  : the ordered list of (leaf loader, local name) pairs a composed loader consults
                for the name n: a ChoiceLoader consults its members in order, a PrefixLoader
                strips "<prefix><delimiter>" and consults the loader bound to that prefix
                (nothing when there is no delimiter or no such prefix).
   first_found: the first leaf that has the template answers; TemplateNotFound when none has it.
   contained  : lexical containment of a resolved path under a search root, on the components
                os.path.normpath computes. *)
From Coq Require Import List NArith Bool.
Import ListNotations.
From JV Require Import Model.Ldr.
Open Scope N_scope.

Fixpoint first_found (rs : list res) : res :=
  match rs with
  | [] => NotFound
  | NotFound :: r => first_found r
  | x :: _ => x
  end.

Fixpoint route (l : loader) (n : str) : list (loader * str) :=
  match l with
  | LChoice ls => (fix go (ls : list loader) := match ls with [] => [] | l' :: r => route l' n ++ go r end) ls
  | LPrefix d m =>
      match split_once d n with
      | None => []
      | Some (p, rest) =>
          (fix go (m : list (str * loader)) :=
             match m with
             | [] => []
             | (q, l') :: r => if str_eqb q p then route l' rest else go r
             end) m
      end
  | leaf => [(leaf, n)]
  end.

(* a piece that cannot leave a directory: non-empty, not "." or "..", no separator of the
   convention and no "/" *)
Definition safe (cv : conv) (p : str) : Prop := safe_piece cv p = true.

(* the normalised path f lies under the normalised root: same anchor, the root's components
   followed by safe pieces only *)
Definition contained_posix (root f : str) (ps : list str) : Prop :=
  posix_parts f = (fst (posix_parts root), snd (posix_parts root) ++ ps).
Definition contained_nt (root f : str) (ps : list str) : Prop :=
  nt_parts f = (fst (nt_parts root), snd (nt_parts root) ++ ps).

(* resolution of a directory string the way posixpath.join treats it: "" is the current
   directory *)
Definition fs_resolve_dir (fs : fsys) (s : str) : option node := walk fs [] (split_on c_slash s).

(* guard of the Windows-convention containment theorem: the search root is not "", not a lone
   backslash, does not begin with two separators (UNC / device paths) and is not a bare
   drive "X:" *)
Definition nt_plain (s : str) : bool :=
  match map nt_norm_char s with
  | [] => false
  | [a] => negb (a =? c_bslash) || ends_slash s
  | a :: b :: r => if a =? c_bslash then negb (b =? c_bslash)
                   else if b =? c_colon then negb (str_eqb r []) else true
  end.

(* first binding of a prefix in a PrefixLoader mapping *)
Fixpoint prefix_lookup (p : str) (m : list (str * loader)) : option loader :=
  match m with
  | [] => None
  | (q, l) :: r => if str_eqb q p then Some l else prefix_lookup p r
  end.
