(* What the Loop model (Model/Loop.v: run_for / run_for_ctl) and the loop-control fix rely on in the
   code visit_For generates, as decidable predicates over its event trace:
   - the iteration indicator is set before the loop, cleared once per iteration BEFORE the body at
     the body's indentation, and tested after the loop at the indentation of its initialisation;
   - the body is visited exactly once, in the loop frame, inside the for statement;
   - the else branch is visited in its own frame, after the test of the indicator, with the
     in_loop_body flag of the enclosing frame — reset for a recursive loop, whose else branch is
     emitted outside the for statement of the loop function;
   - frames are entered and left in a properly nested order; the extended loop is used exactly when
     the loop is recursive, mentions `loop`, or contains a scoped block; an async loop filter is
     closed in a finally around the for statement; indentation is balanced. *)
From Coq Require Import List Bool Arith.
Import ListNotations.
From JV Require Import Model.LoopGen.

Fixpoint with_depth (d : nat) (l : list ev) : list (ev * nat) :=
  match l with
  | [] => []
  | e :: r => (e, d) :: with_depth (match e with Indent => S d | Outdent n => d - n | _ => d end) r
  end.
Fixpoint final_depth (d : nat) (l : list ev) : nat :=
  match l with [] => d | e :: r => final_depth (match e with Indent => S d | Outdent n => d - n | _ => d end) r end.

Definition count (p : ev -> bool) (l : list ev) : nat := length (filter p l).
Fixpoint index_of (p : ev -> bool) (l : list ev) (i : nat) : option nat :=
  match l with [] => None | e :: r => if p e then Some i else index_of p r (S i) end.
Definition depth_of (p : ev -> bool) (l : list ev) : option nat :=
  match filter (fun ed => p (fst ed)) (with_depth 0 l) with (_, d) :: _ => Some d | [] => None end.

(* the first occurrences of the given kinds of event exist and come in this order *)
Fixpoint ordered_from (ps : list (ev -> bool)) (l : list ev) (lo : nat) : bool :=
  match ps with
  | [] => true
  | p :: r => match index_of p l 0 with
              | Some i => Nat.leb lo i && ordered_from r l (S i)
              | None => false
              end
  end.
Definition ordered (ps : list (ev -> bool)) (l : list ev) : bool := ordered_from ps l 0.

Definition is_set (v : bool) (e : ev) := match e with Line (LSet _ b) => Bool.eqb b v | _ => false end.
Definition is_ift (e : ev) := match e with Line (LIfT _) => true | _ => false end.
Definition is_for_node (e : ev) := match e with Line (LFor true) => true | _ => false end.
Definition is_block (body : bool) (e : ev) := match e with Block b _ _ _ => Bool.eqb b body | _ => false end.
Definition role_eqb (a b : role) : bool :=
  match a, b with Outer, Outer | LoopF, LoopF | TestF, TestF | ElseF, ElseF => true | _, _ => false end.
Definition is_enter (r : role) (e : ev) := match e with Enter r' _ _ => role_eqb r r' | _ => false end.
Definition is_leave (r : role) (e : ev) := match e with Leave r' _ => role_eqb r r' | _ => false end.
Definition is_frame_op (e : ev) := match e with Enter _ _ _ | Leave _ _ => true | _ => false end.
Definition is_ctx (e : ev) := match e with W (WCtx _) => true | _ => false end.
Definition is_refmissing (e : ev) := match e with Line LRefMissing => true | _ => false end.
Definition is_try (e : ev) := match e with Line LTry => true | _ => false end.
Definition is_finally (e : ev) := match e with Line (LFinally _) => true | _ => false end.
Definition is_outdent (e : ev) := match e with Outdent _ => true | _ => false end.

Definition temp_of (e : ev) : option nat :=
  match e with Line (LSet t _) | Line (LIfT t) => Some t | _ => None end.
Definition opt_nat_eqb (a b : option nat) : bool :=
  match a, b with Some x, Some y => Nat.eqb x y | None, None => true | _, _ => false end.
Definition temps_agree (l : list ev) : bool :=
  match filter (fun e => match temp_of e with Some _ => true | None => false end) l with
  | a :: r => forallb (fun e => opt_nat_eqb (temp_of e) (temp_of a)) r
  | [] => true
  end.

Definition check_indicator (c : cfg) (tr : list ev) : bool :=
  if has_else c then
    Nat.eqb (count (is_set true) tr) 1 && Nat.eqb (count (is_set false) tr) 1 && Nat.eqb (count is_ift tr) 1
    && ordered [is_set true; is_for_node; is_enter LoopF; is_set false; is_block true; is_leave LoopF; is_ift;
                is_enter ElseF; is_block false; is_leave ElseF] tr
    && opt_nat_eqb (depth_of (is_set false) tr) (depth_of (is_block true) tr)
    && opt_nat_eqb (depth_of (is_block true) tr) (option_map S (depth_of is_for_node tr))
    && opt_nat_eqb (depth_of is_ift tr) (depth_of (is_set true) tr)
    && temps_agree tr
  else Nat.eqb (count (is_set true) tr + count (is_set false) tr + count is_ift tr + count (is_block false) tr) 0.

Definition check_body (c : cfg) (tr : list ev) : bool :=
  Nat.eqb (count (is_block true) tr) 1
  && forallb (fun e => match e with Block true r ilb _ => role_eqb r LoopF && ilb | _ => true end) tr
  && forallb (fun e => match e with Enter LoopF lf ilb => lf && ilb | _ => true end) tr
  && ordered [is_for_node; is_enter LoopF; is_block true; is_leave LoopF] tr
  && opt_nat_eqb (depth_of (is_block true) tr) (option_map S (depth_of is_for_node tr)).

Definition check_else_flag (c : cfg) (tr : list ev) : bool :=
  let want := if recursive c then false else pilb c in
  forallb (fun e => match e with
                    | Block false r ilb b => role_eqb r ElseF && Bool.eqb ilb want
                                             && (if recursive c then match b with BufSame => true | _ => false end else true)
                    | Enter ElseF lf ilb => negb lf && Bool.eqb ilb want
                    | _ => true end) tr
  && Nat.eqb (count (is_block false) tr) (if has_else c then 1 else 0).

Definition frame_ops (c : cfg) : list ev :=
  (if has_test c then [Enter TestF false (pilb c); Leave TestF true] else [])
  ++ [Enter LoopF true true; Leave LoopF (recursive c && negb (has_else c))]
  ++ (if has_else c then [Enter ElseF false (if recursive c then false else pilb c); Leave ElseF false] else []).
Definition ev_frame_eqb (a b : ev) : bool :=
  match a, b with
  | Enter r lf ilb, Enter r' lf' ilb' => role_eqb r r' && Bool.eqb lf lf' && Bool.eqb ilb ilb'
  | Leave r s, Leave r' s' => role_eqb r r' && Bool.eqb s s'
  | _, _ => false
  end.
Fixpoint list_eqb {A} (f : A -> A -> bool) (a b : list A) : bool :=
  match a, b with [], [] => true | x :: a', y :: b' => f x y && list_eqb f a' b' | _, _ => false end.
Definition check_frames (c : cfg) (tr : list ev) : bool :=
  list_eqb ev_frame_eqb (filter is_frame_op tr) (frame_ops c).

Definition check_extended (c : cfg) (tr : list ev) : bool :=
  let n := if extended c then 1 else 0 in
  Nat.eqb (count is_ctx tr) n && Nat.eqb (count is_refmissing tr) n
  && (if extended c then ordered [is_refmissing; is_for_node; is_ctx] tr else true).

Definition check_async_filter (c : cfg) (tr : list ev) : bool :=
  if has_test c && is_async c then
    ordered [is_try; is_for_node; is_block true; is_finally; is_leave LoopF] tr
    && Nat.eqb (count is_try tr) 1 && Nat.eqb (count is_finally tr) 1
  else Nat.eqb (count is_try tr + count is_finally tr) 0.

Definition check_balanced (c : cfg) (tr : list ev) : bool := Nat.eqb (final_depth 0 tr) 0.

(* the configuration space: eight booleans *)
Definition both (f : bool -> bool) : bool := f false && f true.
Definition all_cfg (chk : cfg -> bool) : bool :=
  both (fun a => both (fun b => both (fun c => both (fun d => both (fun e => both (fun f => both (fun g => both (fun h =>
    chk {| recursive := a; has_else := b; has_test := c; mentions := d; scoped := e; is_async := f; pilb := g; pbuf := h |})))))))).
