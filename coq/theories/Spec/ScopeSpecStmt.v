(* SpecStmt.exec — reference interpreter for statements and scoping, written from
   docs/templates.rst ("Assignments", "Scoping Behavior", "For", "Macros", "Call",
   "Block Assignments", "With Statement"):

   * a template is run against an environment chain of scopes; a name denotes its binding in
     the innermost scope that has one, else the render argument / global, else undefined;
   * `set` binds in the innermost scope; `if` does not introduce a scope;
   * every loop iteration, the loop's else branch, `with`, `filter`, block `set`, macro and
     call-block body runs in a fresh scope: what it assigns is not visible outside;
   * the values of a `with` statement are evaluated outside the new scope;
   * macros and call blocks are closures over the scope chain of their definition and see the
     enclosing variables as they are at call time; parameters not provided are undefined;
     `caller` is bound in a macro whose body mentions it;
   * assignments and macros at top level are exported unless the name starts with `_`;
   * namespace objects are the only mutable cell: `set ns.a = v` updates the object.

   No symbol tables, no generated identifiers: independent of the implementation's algorithm. *)
From Coq Require Import List NArith ZArith Bool.
Import ListNotations.
From JV Require Import Model.ScopeAst.

Definition scope := list (name * value).
Record sstate := mkS { s_scopes : list scope; s_heap : nsheap }.

Definition spec_globals : list (name * value) := [(n_namespace, VNsCtor)].

Section SpecStmt.
  Variable priv : name -> bool.
  Variable d : list (name * value).

  Fixpoint lookup_env (scopes : list scope) (env : list nat) (x : name) : option value :=
    match env with
    | [] => None
    | i :: r => match dget N.eqb x (nth i scopes []) with
                | Some v => Some v
                | None => lookup_env scopes r x
                end
    end.
  Definition slk (env : list nat) (st : sstate) (x : name) : res value :=
    match lookup_env (s_scopes st) env x with
    | Some v => Ok v
    | None => match dget N.eqb x d with
              | Some v => Ok v
              | None => match dget N.eqb x spec_globals with Some v => Ok v | None => Ok VUndef end
              end
    end.

  Fixpoint upd_scope (scopes : list scope) (i : nat) (x : name) (v : value) : list scope :=
    match scopes, i with
    | [], _ => []
    | s :: r, O => dset N.eqb x v s :: r
    | s :: r, S j => s :: upd_scope r j x v
    end.
  (* `set x = v` binds in the innermost scope *)
  Definition sassign (env : list nat) (st : sstate) (x : name) (v : value) : sstate :=
    match env with
    | [] => st
    | i :: _ => mkS (upd_scope (s_scopes st) i x v) (s_heap st)
    end.
  Definition new_scope (st : sstate) (binds : scope) : nat * sstate :=
    (length (s_scopes st), mkS (s_scopes st ++ [binds]) (s_heap st)).
  Definition sset_heap (st : sstate) (h : nsheap) : sstate := mkS (s_scopes st) h.

  Fixpoint bind_args (ps : list name) (args : list value) : scope :=
    match ps with
    | [] => []
    | p :: r => match args with
                | a :: ar => dset N.eqb p a (bind_args r ar)
                | [] => dset N.eqb p VUndef (bind_args r [])
                end
    end.

  Fixpoint sx (fuel : nat) (env : list nat) (st : sstate) (l : list stmt) {struct fuel}
    : res (sstate * str) :=
    match fuel with
    | O => Err EFuel
    | S f =>
      let call (st : sstate) (v : value) (args : list value) (caller : option value) : res (sstate * value) :=
        match v with
        | VClos _ _ ps body uc cap _ =>
            if Nat.ltb (length ps) (length args) then Err ETypeError
            else if (match caller with Some _ => negb uc | None => false end) then Err ETypeError
            else
              let binds := bind_args ps args in
              let binds := if uc then dset N.eqb n_caller (match caller with Some c => c | None => VUndef end) binds
                           else binds in
              let '(i, st1) := new_scope st binds in
              do (st2, out) <- sx f (i :: cap) st1 body;
              Ok (st2, VStr out)
        | VNsCtor => match args with
                     | [] => Ok (sset_heap st (s_heap st ++ [[]]), VNs (length (s_heap st)))
                     | _ => Err ETypeError
                     end
        | VUndef => Err EUndefinedError
        | _ => Err ETypeError
        end in
      match l with
      | [] => Ok (st, [])
      | s :: rest =>
        do (st1, o1) <-
          match s with
          | SOut es => do o <- eval_out (slk env st) (s_heap st) es; Ok (st, o)
          | SIf t body elifs els =>
              do v <- eval (slk env st) (s_heap st) t;
              if truthy v then sx f env st body
              else
                (fix go (ei : list stmt) : res (sstate * str) :=
                   match ei with
                   | [] => sx f env st els
                   | SIf t2 b2 _ _ :: r =>
                       do v2 <- eval (slk env st) (s_heap st) t2;
                       if truthy v2 then sx f env st b2 else go r
                   | _ :: r => go r
                   end) elifs
          | SFor tg it te body els =>
              do v <- eval (slk env st) (s_heap st) it;
              do items <- iter_items v;
              do r <- (fix iter (items : list value) (idx : N) (st : sstate) (out : str)
                         : res (sstate * str * N) :=
                  match items with
                  | [] => Ok (st, out, idx)
                  | item :: more =>
                      do ok <- (match te with
                                | None => Ok true
                                | Some t =>
                                    (* the filter sees the loop target and the enclosing scopes *)
                                    let '(i, stt) := new_scope st [(tg, item)] in
                                    do tv <- eval (slk (i :: env) stt) (s_heap stt) t; Ok (truthy tv)
                                end);
                      if ok then
                        let '(i, st) := new_scope st [(tg, item); (n_loop, VLoop (idx + 1))] in
                        do (st, o) <- sx f (i :: env) st body;
                        iter more (idx + 1)%N st (out ++ o)
                      else iter more idx st out
                  end) items 0%N st [];
              let '(st, out, n) := r in
              match els with
              | [] => Ok (st, out)
              | _ =>
                  if N.eqb n 0 then
                    let '(i, st) := new_scope st [] in
                    do (st, o) <- sx f (i :: env) st els;
                    Ok (st, out ++ o)
                  else Ok (st, out)
              end
          | SSet x e =>
              do v <- eval (slk env st) (s_heap st) e;
              Ok (sassign env st x v, [])
          | SSetAttr x a e =>
              do c <- slk env st x;
              match c with
              | VNs nid =>
                  do v <- eval (slk env st) (s_heap st) e;
                  Ok (sset_heap st (ns_set (s_heap st) nid a v), [])
              | _ => Err ERuntimeError
              end
          | SNsNew x kvs =>
              do c <- slk env st n_namespace;
              do vs <- eval_kvs (slk env st) (s_heap st) kvs;
              match c with
              | VNsCtor =>
                  let nid := length (s_heap st) in
                  Ok (sassign env (sset_heap st (s_heap st ++ [vs])) x (VNs nid), [])
              | VUndef => Err EUndefinedError
              | _ => Err ETypeError
              end
          | SSetBlock x body =>
              let '(i, st) := new_scope st [] in
              do (st, o) <- sx f (i :: env) st body;
              Ok (sassign env st x (VStr o), [])
          | SWith binds body =>
              do vs <- eval_list (slk env st) (s_heap st) (map snd binds);
              let '(i, st) := new_scope st (fold_left (fun acc xv => dset N.eqb (fst xv) (snd xv) acc)
                                                      (combine (map fst binds) vs) []) in
              do (st, o) <- sx f (i :: env) st body;
              Ok (st, o)
          | SFilter k body =>
              let '(i, st) := new_scope st [] in
              do (st, o) <- sx f (i :: env) st body;
              Ok (st, apply_filter k o)
          | SMacro m ps body =>
              Ok (sassign env st m (VClos KMacro m ps body (mentions_l n_caller body) env []), [])
          | SCallOut g args =>
              do c <- slk env st g;
              do vs <- eval_list (slk env st) (s_heap st) args;
              do (st', r) <- call st c vs None;
              Ok (st', to_str r)
          | SCallBlock ps g args body =>
              let cl := VClos KCaller 0%N ps body (mentions_l n_caller body) env [] in
              do c <- slk env st g;
              do vs <- eval_list (slk env st) (s_heap st) args;
              do (st', r) <- call st c vs (Some cl);
              Ok (st', to_str r)
          end;
        do (st2, o2) <- sx f env st1 rest;
        Ok (st2, o1 ++ o2)
      end
    end.

  (* exported: what the top-level scope (scope 0) binds, minus private names *)
  Definition sexported (st : sstate) : list (name * str) :=
    map (fun xv => (fst xv, to_text true (snd xv)))
        (filter (fun xv => negb (priv (fst xv))) (nth 0 (s_scopes st) [])).

  Definition srender (fuel : nat) (p : list stmt) : res observable :=
    do (st, o) <- sx fuel [0] (mkS [[]] []) p; Ok (o, sexported st).
End SpecStmt.
