(* C11, right-hand side, written from the property text / docs (templates.rst "Whitespace
   Control": "a single trailing newline is stripped if present", keep_trailing_newline;
   api.rst newline_sequence): the source with each line break (\r\n, \r or \n) replaced by
   the configured newline sequence, and a line break that ends the source removed unless
   keep_trailing_newline.  One pass, no tokens. *)
From Coq Require Import List NArith Bool.
Import ListNotations.
From JV Require Import Model.LexBase.
Open Scope N_scope.

Definition brk (seq : str) (keep : bool) (rest_is_empty : bool) (rest_out : str) : str :=
  if rest_is_empty && negb keep then [] else seq ++ rest_out.

Fixpoint spec_plain (seq : str) (keep : bool) (s : str) : str :=
  match s with
  | [] => []
  | c :: r =>
      if c =? 13 then
        match r with
        | d :: r' => if d =? 10 then brk seq keep (negb (nonempty r')) (spec_plain seq keep r')
                     else brk seq keep false (spec_plain seq keep r)
        | [] => brk seq keep true []
        end
      else if c =? 10 then brk seq keep (negb (nonempty r)) (spec_plain seq keep r)
      else c :: spec_plain seq keep r
  end.

(* "contains no delimiter start sequence" *)
Fixpoint occurs (d s : str) : bool :=
  match s with
  | [] => prefixb d []
  | _ :: r => prefixb d s || occurs d r
  end.

Definition start_strings (c : cfg) : list str :=
  [c_bs c; c_vs c; c_cs c]
  ++ (match c_lsp c with Some p => [p] | None => [] end)
  ++ (match c_lcp c with Some p => [p] | None => [] end).

Definition no_start_delim (c : cfg) (src : str) : bool :=
  forallb (fun d => negb (occurs d src)) (start_strings c).

(* the start strings contain no line break characters *)
Definition nl_free (d : str) : bool := forallb (fun x => negb (x =? 10) && negb (x =? 13)) d.
Definition starts_nl_free (c : cfg) : bool := forallb nl_free (start_strings c).
