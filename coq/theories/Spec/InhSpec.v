(* C04 — what the documentation says a chain of templates renders (templates.rst, "Template
   Inheritance", "Super Blocks", "Nesting extends", "Block Nesting and Scope", "Required Blocks").

   chain = [t0; t1; ...; root]: t0 is rendered, each template extends the next one.
   * the definitions of block b are looked up directly in the templates (most-derived first);
     a block site renders definition number 0, super() inside definition number d renders
     number d+1 (super.super() d+2, ...), self.b() renders number 0;
   * a scoped block sees the variables of the enclosing loops, an unscoped one only the
     template context;
   * a required definition "cannot be rendered directly": rendering it as definition number 0
     (nothing overrides it) is a TemplateRuntimeError;
   * of a child only what stands before its {% extends %} tag is rendered ("everything before
     it is printed out normally"), and for that content the child is the end of the chain;
     a second {% extends %} that executes is a TemplateRuntimeError.
   No block stacks, no function identities, no index arithmetic on them. *)
From Coq Require Import List NArith Bool Arith.
Import ListNotations.
From JV Require Import Model.Inh.

(* definitions of block n in ts, in chain order: (template number, template, definition) *)
Fixpoint defs_from (j : nat) (ts : list template) (n : name) : list (nat * template * bdef) :=
  match ts with
  | [] => []
  | t :: r => match assoc n (t_blocks t) with
              | Some d => (j, t, d) :: defs_from (S j) r n
              | None => defs_from (S j) r n
              end
  end.
Definition defs (view : list template) (n : name) := defs_from 0 view n.

Section SItems.
  Variable callS : name -> nat -> vars -> res.   (* render definition number [depth] of block b *)
  Variable view : list template.                 (* the chain as far as it is known *)
  Variable t : template.                         (* the template the items are written in *)
  Variable cur : option (name * nat).            (* inside definition number d of block b *)
  Variable ctx : vars.

  Definition resolve (b : name) (depth : nat) (undefined : err) (c : vars) : res :=
    match nth_error (defs view b) depth with
    | None => Err undefined
    | Some (_, _, d) => if Nat.eqb depth 0 && b_required d then Err ERequired else callS b depth c
    end.

  Fixpoint s_item (L : vars) (it : item) {struct it} : res :=
    match it with
    | IText s => Ok s
    | IStmt s => Ok s
    | IVar v => Ok (lookup_var v (L ++ ctx))
    | IBlock b =>
        match assoc b (t_blocks t) with
        | None => Err EInternal
        | Some d => resolve b 0 EInternal (if b_scoped d then L ++ ctx else ctx)
        end
    | ISuper k =>
        match cur with
        | None => Err EUndefined
        | Some (b, depth) => resolve b (depth + 1 + k) EUndefined ctx
        end
    | ISelf b => resolve b 0 EUndefined ctx
    | IFor iters body => seqmap (fun bs => seqmap (s_item (bs ++ L)) body) iters
    end.
End SItems.

Fixpoint s_call (fuel : nat) (view : list template) (b : name) (depth : nat) (c : vars) : res :=
  match fuel with
  | O => Err EFuel
  | S fu =>
      match nth_error (defs view b) depth with
      | None => Err EInternal
      | Some (_, t, d) => seqmap (s_item (s_call fu view) view t (Some (b, depth)) c []) (b_body d)
      end
  end.

(* the rendered part of a top level: the items before the first extends that executes *)
Fixpoint split_top (tops : list top) : list item * option (list top) :=
  match tops with
  | [] => ([], None)
  | TItem i :: r => let (pre, e) := split_top r in (i :: pre, e)
  | TExtends c :: r => if executed c then ([], Some r) else split_top r
  end.
Definition extends_again (post : list top) : bool :=
  existsb (fun x => match x with TExtends c => executed c | TItem _ => false end) post.

Fixpoint s_chain (fuel : nat) (whole : list template) (j : nat) (rest : list template) (data : vars) : res :=
  match rest with
  | [] => Err ENotFound
  | t :: rest' =>
      let view := firstn (S j) whole in
      match seqmap (s_item (s_call fuel view) view t None data []) (fst (split_top (t_top t))) with
      | Err e => Err e
      | Ok o =>
          match snd (split_top (t_top t)) with
          | None => Ok o
          | Some post =>
              match rest' with
              | [] => Err ENotFound
              | _ :: _ =>
                  if extends_again post then Err EMultiple
                  else match s_chain fuel whole (S j) rest' data with
                       | Ok o' => Ok (o ++ o')
                       | Err e => Err e
                       end
              end
          end
      end
  end.

Definition spec_render (fuel : nat) (chain : list template) (data : vars) : res :=
  s_chain fuel chain 0 chain data.

(* "content outside blocks in child templates is not rendered": the template with everything
   after its first executed extends removed (the extends statements themselves kept) *)
Fixpoint drop_post_items (tops : list top) : list top :=
  match tops with
  | [] => []
  | TItem _ :: r => drop_post_items r
  | TExtends c :: r => TExtends c :: drop_post_items r
  end.
Fixpoint drop_post (tops : list top) : list top :=
  match tops with
  | [] => []
  | TItem i :: r => TItem i :: drop_post r
  | TExtends c :: r => if executed c then TExtends c :: drop_post_items r else TExtends c :: drop_post r
  end.
Definition strip_child (t : template) : template :=
  {| t_top := drop_post (t_top t); t_blocks := t_blocks t |}.
