(* Reference least-recently-used map (C26): an association list in recency order,
   least recently used first, most recently used last, plus a capacity.  Written from the
   documentation of LRUCache, not from its algorithm. *)
From Coq Require Import List NArith Bool.
Import ListNotations.
From JV Require Import Model.LRU.
Open Scope N_scope.

Definition slru := list (key * val).

Fixpoint sfind (k : key) (l : slru) : option val :=
  match l with [] => None | (k', v) :: r => if k =? k' then Some v else sfind k r end.
Fixpoint sremove (k : key) (l : slru) : slru :=
  match l with [] => [] | (k', v) :: r => if k =? k' then r else (k', v) :: sremove k r end.

(* a successful read makes the entry the most recent one *)
Definition touch (k : key) (l : slru) : slru :=
  match sfind k l with Some v => sremove k l ++ [(k, v)] | None => l end.
(* a write makes the entry the most recent one and keeps the [cap] most recent entries *)
Definition sset (c : N) (k : key) (v : val) (l : slru) : slru :=
  let l' := sremove k l ++ [(k, v)] in skipn (length l' - N.to_nat c) l'.

Definition sstep (c : N) (l : slru) (o : op) : slru * out :=
  match o with
  | Get k d => (touch k l, match sfind k l with Some v => OVal v | None => OVal d end)
  | GetItem k => (touch k l, match sfind k l with Some v => OVal v | None => OExn KeyError end)
  | SetItem k v => (sset c k v l, ONone)
  | DelItem k => match sfind k l with Some _ => (sremove k l, ONone) | None => (l, OExn KeyError) end
  | SetDefault k d => match sfind k l with
                      | Some v => (touch k l, OVal v)
                      | None => (sset c k d l, OVal d)
                      end
  | Contains k => (l, OBool (match sfind k l with Some _ => true | None => false end))
  | Len => (l, ONat (N.of_nat (length l)))
  | Clear => ([], ONone)
  | Keys => (l, OKeys (rev (map fst l)))            (* most recently used first *)
  | Values => (l, OVals (rev (map snd l)))
  | Items => (l, OItems (rev l))
  | Reversed => (l, OKeys (map fst l))              (* oldest first *)
  | Copy => (l, ONone)
  | Pickle => (l, ONone)
  end.

Fixpoint srun (c : N) (l : slru) (ops : list op) : slru * list out :=
  match ops with
  | [] => (l, [])
  | o :: r => let '(l', x) := sstep c l o in let '(l'', xs) := srun c l' r in (l'', x :: xs)
  end.
