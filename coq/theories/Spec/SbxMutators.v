(* C19 specification: which public methods - and which operator / protocol methods (dunder names:
   item assignment and deletion, the in-place operators, __init__, which re-initialises the object) -
   of the exact builtin types list, dict, set and collections.deque modify the object they are called on.
   The dunder names matter for stored references only (method-wrapper objects in the render data);
   attribute access to any underscore name is refused anyway (C19_private_blocked).

   Written by hand from the Python library reference ("Mutable Sequence Types", "list.sort",
   "Mapping Types — dict", "Set Types — set, frozenset" (the table of operations available for
   set but not frozenset), "collections.deque objects"); independent of jinja's tables.
   Validated on every run (harness/c19.py, tie "S-validate") by calling every public method of
   the running interpreter's four types on fresh containers with generated arguments and
   observing whether the container changed. *)
From Coq Require Import List Bool String.
Import ListNotations.
From JV Require Import Model.SbxAttr Model.SbxMutable.
Open Scope string_scope.

Definition list_mutators : list string :=
  ["append"; "clear"; "extend"; "insert"; "pop"; "remove"; "reverse"; "sort";
   "__setitem__"; "__delitem__"; "__iadd__"; "__imul__"; "__init__"].

Definition dict_mutators : list string :=
  ["clear"; "pop"; "popitem"; "setdefault"; "update";
   "__setitem__"; "__delitem__"; "__ior__"; "__init__"].

Definition set_mutators : list string :=
  ["add"; "clear"; "difference_update"; "discard"; "intersection_update"; "pop"; "remove";
   "symmetric_difference_update"; "update";
   "__ior__"; "__iand__"; "__isub__"; "__ixor__"; "__init__"].

Definition deque_mutators : list string :=
  ["append"; "appendleft"; "clear"; "extend"; "extendleft"; "insert"; "pop"; "popleft";
   "remove"; "reverse"; "rotate";
   "__setitem__"; "__delitem__"; "__iadd__"; "__imul__"; "__init__"].

Definition mutators (T : btype) : list string :=
  match T with
  | TList => list_mutators
  | TDict => dict_mutators
  | TSet => set_mutators
  | TDeque => deque_mutators
  end.

(* [mutates T m]: calling method [m] of an instance of exact type [T] can modify it *)
Definition mutates (T : btype) (m : string) : bool := mem_s m (mutators T).
