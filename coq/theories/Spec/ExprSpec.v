(* S — the documented expression semantics (docs/templates.rst "Expressions", "Variables",
   "If Expression"; docs/sandbox.rst for the operator hooks and underscore attributes).
   An environment-chain interpreter over the Jinja AST, fuelled, threading the event log. *)
From Coq Require Import List NArith ZArith Bool.
Import ListNotations.
From JV Require Import Model.ExprAst Model.ExprPrim.

Definition env := list (str * value).

(* "If a variable ... does not exist, you will get back an undefined value" *)
Definition lookup_name (rho : env) (x : str) : value :=
  match assoc_s x rho with Some v => v | None => VUndef (UName x) end.

(* "an attribute called bar on foo" / "an item 'bar' in foo" *)
Definition attr_of (O : oracles) (v : value) (name : str) : option value :=
  match v with
  | VObj _ attrs _ => assoc_s name attrs
  | _ => builtin_attr O v name
  end.
Definition item_of (v k : value) : option value :=
  match v with
  | VList l | VTuple l => match num_of k with Some i => nth_z l i | None => None end
  | VStr s => match num_of k with
              | Some i => match nth_z s i with Some ch => Some (VStr [ch]) | None => None end
              | None => None end
  | VMk s => match num_of k with
             | Some i => match nth_z s i with Some ch => Some (VMk [ch]) | None => None end
             | None => None end
  | VDict kv => if hashable k then assoc_v k kv else None
  | VObj _ _ items => assoc_v k items
  | _ => None
  end.

(* sandbox: attributes starting with an underscore are not handed out *)
Definition guard_attr (c : cfg) (name : str) (x : value) : value :=
  if sandboxed c && starts_underscore name then VUndef (USec name) else x.

(* foo.bar : attribute, then item, then undefined; an undefined foo fails *)
Definition spec_getattr (c : cfg) (O : oracles) (v : value) (name : str) : res value :=
  if is_undef v then Err EUndef else
  match attr_of O v name with
  | Some x => Ok (guard_attr c name x)
  | None => match item_of v (VStr name) with
            | Some x => Ok x
            | None => Ok (VUndef (UAttr name))
            end
  end.

(* foo['bar'] : item, then attribute (string subscripts only), then undefined *)
Definition spec_getitem (c : cfg) (O : oracles) (v k : value) : res value :=
  if is_undef v then Err EUndef else
  match item_of v k with
  | Some x => Ok x
  | None =>
      match strlike k with
      | Some s => match attr_of O v s with
                  | Some x => Ok (guard_attr c s x)
                  | None => Ok (VUndef (UAttr s))
                  end
      | None => Ok (VUndef UItem)
      end
  end.

(* an operator application: routed through the hook exactly when the sandbox intercepts it *)
Definition apply_bin (c : cfg) (op : binop) (a b : value) : M value :=
  if sandboxed c && ibin c op then (_ <- emit (EvBin op a b) ;; lift (hook_bin c op a b))
  else lift (prim_bin op a b).
Definition apply_un (c : cfg) (op : unop) (a : value) : M value :=
  if sandboxed c && iun c op then (_ <- emit (EvUn op a) ;; lift (hook_un c op a))
  else lift (prim_un op a).

(* "~ converts all operands into strings and concatenates them"; under autoescaping the
   concatenation is Markup-aware (safe operands stay, the others are escaped) *)
Definition spec_concat (c : cfg) (vs : list value) : res value :=
  if ae_now c then markup_join vs else str_join vs.

(* a op1 b op2 c ...  ==  a op1 b and b op2 c ..., every operand evaluated at most once *)
Fixpoint cmp_chain {X} (ev : X -> M value) (v : value) (ops : list (cmpop * X)) : M value :=
  match ops with
  | [] => ret v
  | (op, eb) :: r =>
      vb <- ev eb ;;
      t <- lift (prim_cmp op v vb) ;;
      match r with
      | [] => ret t
      | _ => if truth t then cmp_chain ev vb r else ret t
      end
  end.

Definition do_call (O : oracles) (f : value) (args : list value) (kw : list (str * value)) : M value :=
  match f with
  | VFun id => _ <- emit (EvCall id args kw) ;; lift (call_fun O id args kw)
  | VUndef _ => fail EUndef
  | _ => fail EType
  end.

Fixpoint eval (O : oracles) (c : cfg) (n : nat) (e : expr) (rho : env) : M value :=
  match n with
  | O => fail EFuel
  | S n =>
    let ev := fun e => eval O c n e rho in
    match e with
    | EConst v => ret v
    | EName x => ret (lookup_name rho x)
    | EBin op a b => va <- ev a ;; vb <- ev b ;; apply_bin c op va vb
    | EUn op a => va <- ev a ;; apply_un c op va
    | ENot a => va <- ev a ;; ret (VBool (negb (truth va)))
    | EAnd a b => va <- ev a ;; if truth va then ev b else ret va
    | EOr a b => va <- ev a ;; if truth va then ret va else ev b
    | EConcat es => vs <- mapM ev es ;; lift (spec_concat c vs)
    | ECompare a ops => va <- ev a ;; cmp_chain ev va ops
    | ECond t a b =>
        vt <- ev t ;;
        if truth vt then ev a
        else match b with Some b => ev b | None => ret (VUndef UCond) end
    | EGetattr a name => va <- ev a ;; lift (spec_getattr c O va name)
    | EGetitem a k => va <- ev a ;; vk <- ev k ;; lift (spec_getitem c O va vk)
    | ESlice a lo hi st =>
        va <- ev a ;; vlo <- optM ev lo ;; vhi <- optM ev hi ;; vst <- optM ev st ;;
        lift (py_slice va vlo vhi vst)
    | EList es => vs <- mapM ev es ;; ret (VList vs)
    | ETuple es => vs <- mapM ev es ;; ret (VTuple vs)
    | EDict kvs =>
        ps <- mapM (fun kv : expr * expr => vk <- ev (fst kv) ;; vx <- ev (snd kv) ;; ret (vk, vx)) kvs ;;
        d <- lift (mk_dict [] ps) ;; ret (VDict d)
    | ECall f args kw =>
        vf <- ev f ;; vargs <- mapM ev args ;;
        vkw <- mapM (fun kv : str * expr => vx <- ev (snd kv) ;; ret (fst kv, vx)) kw ;;
        do_call O vf vargs vkw
    | EFilter a name args =>
        va <- ev a ;; vargs <- mapM ev args ;; lift (apply_filter (ae_now c) name va vargs)
    | ETest a name args =>
        va <- ev a ;; vargs <- mapM ev args ;; lift (apply_test name va vargs)
    end
  end.

(* nesting depth: the fuel an expression needs *)
Definition omax (f : expr -> nat) (o : option expr) : nat := match o with Some x => f x | None => 0 end.
Fixpoint depth (e : expr) : nat :=
  S match e with
    | EConst _ | EName _ => 0
    | EBin _ a b | EAnd a b | EOr a b | EGetitem a b => Nat.max (depth a) (depth b)
    | EUn _ a | ENot a | EGetattr a _ => depth a
    | EConcat es | EList es | ETuple es => list_max (map depth es)
    | ECompare a ops => Nat.max (depth a) (list_max (map (fun p : cmpop * expr => depth (snd p)) ops))
    | ECond t a b => Nat.max (depth t) (Nat.max (depth a) (omax depth b))
    | ESlice a lo hi st => Nat.max (depth a) (Nat.max (omax depth lo) (Nat.max (omax depth hi) (omax depth st)))
    | EDict kvs => list_max (map (fun p : expr * expr => Nat.max (depth (fst p)) (depth (snd p))) kvs)
    | ECall f args kw =>
        Nat.max (depth f) (Nat.max (list_max (map depth args)) (list_max (map (fun p : str * expr => depth (snd p)) kw)))
    | EFilter a _ args | ETest a _ args => Nat.max (depth a) (list_max (map depth args))
    end.

(* what {{ e }} writes: str(value), or escape(value) under autoescaping *)
Definition out_text (c : cfg) (v : value) : res str :=
  if ae_now c then match escape v with Ok (VMk s) => Ok s | Ok _ => Err EOpaque | Err e => Err e end
  else opq (to_str v).

(* constant lifting: every occurrence of the variable x replaced by the constant k *)
Fixpoint subst (x : str) (k : value) (e : expr) : expr :=
  let so := option_map (subst x k) in
  match e with
  | EConst v => EConst v
  | EName y => if str_eqb y x then EConst k else EName y
  | EBin op a b => EBin op (subst x k a) (subst x k b)
  | EUn op a => EUn op (subst x k a)
  | ENot a => ENot (subst x k a)
  | EAnd a b => EAnd (subst x k a) (subst x k b)
  | EOr a b => EOr (subst x k a) (subst x k b)
  | EConcat es => EConcat (map (subst x k) es)
  | ECompare a ops => ECompare (subst x k a) (map (fun p : cmpop * expr => (fst p, subst x k (snd p))) ops)
  | ECond t a b => ECond (subst x k t) (subst x k a) (so b)
  | EGetattr a name => EGetattr (subst x k a) name
  | EGetitem a b => EGetitem (subst x k a) (subst x k b)
  | ESlice a lo hi st => ESlice (subst x k a) (so lo) (so hi) (so st)
  | EList es => EList (map (subst x k) es)
  | ETuple es => ETuple (map (subst x k) es)
  | EDict kvs => EDict (map (fun p : expr * expr => (subst x k (fst p), subst x k (snd p))) kvs)
  | ECall f args kw => ECall (subst x k f) (map (subst x k) args) (map (fun p : str * expr => (fst p, subst x k (snd p))) kw)
  | EFilter a name args => EFilter (subst x k a) name (map (subst x k) args)
  | ETest a name args => ETest (subst x k a) name (map (subst x k) args)
  end.
