(* C05 — the documented visibility rules (templates.rst "Include", "Import", "Import Context
   Behavior"; api.rst Template.module / get_template(globals=...)):
   * include: the target sees the current context and the current local variables; with
     `without context` only (its) globals;
   * import / from-import: the target sees its globals and the globals of the importing template,
     nothing of the context; `with context` makes it behave like include;
   * a list of names selects the first that exists;
   * a module exposes the top-level assignments and macros whose name does not start with "_";
     imported names are not re-exported.
   Visible variables are written as lookup ORDER (first match in a concatenation), never as
   copied and updated dicts. *)
From Coq Require Import List NArith Bool Arith.
Import ListNotations.
From JV Require Import Model.Imp.

Definition vis_include (c : ctx) (L : env) (g : env) : ctx :=
  {| c_parent := L ++ c_vars c ++ c_parent c; c_vars := []; c_exported := []; c_gkeys := dkeys g; c_globals := g |}.
Definition vis_default (g : env) : ctx :=
  {| c_parent := g; c_vars := []; c_exported := []; c_gkeys := dkeys g; c_globals := g |}.
Definition vis_import (c : ctx) (g : env) : res ctx :=
  Ok {| c_parent := g ++ c_globals c; c_vars := []; c_exported := []; c_gkeys := dkeys g; c_globals := g |}.
Definition exists_in (ts : tset) (t : target) : bool :=
  match get_target ts t with Some _ => true | None => false end.
Definition first_existing (ts : tset) (names : list target) : option template :=
  match find (exists_in ts) names with Some t => get_target ts t | None => None end.

Definition spec : policy :=
  {| p_include := vis_include; p_default := vis_default; p_import := vis_import; p_select := first_existing |}.
Definition spec_render := render_with spec.
Definition spec_module := module_with spec.

(* what a template's top level exports: per name, the LAST top-level binder decides *)
Definition binds (x : name) (s : stmt) : option bool :=      (* Some true: assignment / macro, Some false: import *)
  match s with
  | SSet y _ | SMacro y _ => if N.eqb y x then Some true else None
  | SImport _ a _ => if N.eqb a x then Some false else None
  | SFrom _ names _ => if existsb (fun na => N.eqb (snd na) x) names then Some false else None
  | _ => None
  end.
Fixpoint last_binder (x : name) (body : list stmt) (acc : option bool) : option bool :=
  match body with
  | [] => acc
  | s :: r => last_binder x r (match binds x s with Some b => Some b | None => acc end)
  end.
Definition exported_spec (body : list stmt) (x : name) : bool :=
  public x && match last_binder x body None with Some true => true | _ => false end.

(* classifier for the recorded finding C05-import-globals: the documented rules everywhere except
   that an import without context builds its context the implementation's way *)
Definition spec_known : policy :=
  {| p_include := vis_include; p_default := vis_default; p_import := import_ctx; p_select := first_existing |}.
Definition known_render := render_with spec_known.
Definition known_module := module_with spec_known.
