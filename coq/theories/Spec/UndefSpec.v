(* C21 -- the DOCUMENTED behaviour of the undefined types, written from
     docs/api.rst "Undefined Types", docs/templates.rst "Variables", the class docstrings in
     runtime.py, the docstrings of the `defined` / `undefined` tests and the `default` filter,
     and CHANGES.rst (hashing; equality; dunder probing / copy / pickle, issue 2025).
   It does not look at any class table.

   Undefined          "can be printed, iterated, and treated as a boolean.  Any other operation
                       will raise an UndefinedError"; printing gives '', iteration is empty (so
                       length 0 and containment False), `not foo` is True;  undefined objects are
                       hashable and compare equal exactly to undefined objects of the same type.
   ChainableUndefined "both __getattr__ and __getitem__ return itself rather than raising".
   DebugUndefined     "returns the debug info when printed"  ('{{ foo }}').
   StrictUndefined    "barks on print and iteration as well as boolean tests and all kinds of
                       comparisons ... you can do nothing with it except checking if it's
                       defined using the defined test";  |default still replaces it.
   make_logging_undefined(base)  behaves like base (and logs).
   all                 names that look like dunder methods raise AttributeError; copy, deepcopy
                       and pickle work.
   Cells on which the documentation is silent are [None] and lie outside the domain:
     pickling an instance of the class local to make_logging_undefined; `u in container`
     `"fmt" % u`, `Markup("fmt") % u` and `Markup(..) * u` (operations of the other operand's
     type that never consult a method the undefined type could define: str formatting prints the
     value -- documented printing -- and str.__mul__ refuses a non-integer by itself). *)
From Coq Require Import List NArith Bool.
Import ListNotations.
From JV Require Import Model.Undef.

Inductive sres :=
| SEmptyString | SDebugInfo | SBool (b : bool) | SEmptyIteration | SLengthZero | SHashOfType
| SItself | SDefaultValue | SEquivalentCopy.
Inductive soutcome := SSucceeds (r : sres) | SUndefinedError | SAttributeError.

Definition flavour (c : cname) : base := match c with Named b => b | Logging b => b end.

Definition same_type (c : cname) (o : other) : bool :=
  match o with
  | OB _ => false
  | OSame => true
  | OPlain => match c with Named BU => true | _ => false end
  end.

Definition spec (c : cname) (o : op) : option soutcome :=
  match o with
  | OpIsDefined => Some (SSucceeds (SBool false))
  | OpIsUndefined => Some (SSucceeds (SBool true))
  | OpDefault => Some (SSucceeds SDefaultValue)
  | OpGetDunder => Some SAttributeError
  | OpCopy | OpDeepcopy => Some (SSucceeds SEquivalentCopy)
  | OpPickle => match c with Named _ => Some (SSucceeds SEquivalentCopy) | Logging _ => None end
  | OpRevContains _ => None
  | OpArith Mod Rev (OB KStr) | OpArith Mod Rev (OB KBytes) => None
  | OpArith Mod Rev (OB KMarkup) | OpArith Mul Rev (OB KMarkup) => None
  | _ =>
      match flavour c with
      | BS => Some SUndefinedError
      | fl =>
          match o with
          | OpStr => Some (SSucceeds match fl with BD => SDebugInfo | _ => SEmptyString end)
          | OpBool => Some (SSucceeds (SBool false))
          | OpIter | OpAiter => Some (SSucceeds SEmptyIteration)
          | OpLen => Some (SSucceeds SLengthZero)
          | OpContains _ => Some (SSucceeds (SBool false))
          | OpHash => Some (SSucceeds SHashOfType)
          | OpCmp CEq _ x => Some (SSucceeds (SBool (same_type c x)))
          | OpCmp CNe _ x => Some (SSucceeds (SBool (negb (same_type c x))))
          | OpGetAttr | OpGetItem => Some match fl with BC => SSucceeds SItself | _ => SUndefinedError end
          | _ => Some SUndefinedError
          end
      end
  end.

(* does an outcome of the dispatch model satisfy a documented outcome? *)
Definition agrees (m : outcome) (s : soutcome) : bool :=
  match s, m with
  | SUndefinedError, Raises _ => true
  | SAttributeError, AttrErr => true
  | SSucceeds SEmptyString, Succeeds RStrEmpty => true
  | SSucceeds SDebugInfo, Succeeds RDebugStr => true
  | SSucceeds (SBool b), Succeeds (RBool b') => Bool.eqb b b'
  | SSucceeds SEmptyIteration, Succeeds RIterEmpty => true
  | SSucceeds SLengthZero, Succeeds RInt0 => true
  | SSucceeds SHashOfType, Succeeds RHashClass => true
  | SSucceeds SItself, Succeeds RItself => true
  | SSucceeds SDefaultValue, Succeeds RDefault => true
  | SSucceeds SEquivalentCopy, Succeeds RCopy => true
  | _, _ => false
  end.

(* ---- the finite domain *)
Definition all_classes : list cname :=
  [Named BU; Named BC; Named BD; Named BS; Logging BU; Logging BC; Logging BD; Logging BS].
Definition all_others : list other := [OB KInt; OB KFloat; OB KStr; OB KNone; OB KList; OB KMarkup; OB KBool; OB KTuple; OB KDict; OB KBytes; OSame; OPlain].
Definition all_ariths : list arith := [Add; Sub; Mul; Div; FloorDiv; Mod; Pow].
Definition all_cmps : list cmp := [CEq; CNe; CLt; CLe; CGt; CGe].
Definition all_ops : list op :=
  [OpStr; OpBool; OpIter; OpAiter; OpLen; OpHash; OpPos; OpNeg; OpInt; OpFloat; OpCall; OpCallT; OpGetAttr; OpGetDunder;
   OpGetItem; OpIsDefined; OpIsUndefined; OpDefault; OpCopy; OpDeepcopy; OpPickle]
  ++ map OpContains all_others
  ++ map OpRevContains [RCStr; RCList; RCDict]
  ++ flat_map (fun a => flat_map (fun d => map (OpArith a d) all_others) [Fwd; Rev]) all_ariths
  ++ flat_map (fun k => flat_map (fun d => map (OpCmp k d) all_others) [Fwd; Rev]) all_cmps.
Definition all_cells : list (cname * op) := flat_map (fun c => map (pair c) all_ops) all_classes.
Definition specified (x : cname * op) : bool := match spec (fst x) (snd x) with Some _ => true | None => false end.
Definition domain : list (cname * op) := filter specified all_cells.
Definition unspecified_cells : list (cname * op) := filter (fun x => negb (specified x)) all_cells.

(* the one cell class where the code is KNOWN to deviate from the documentation (recorded finding
   C21-chainable-markup-concat): Markup(..) + chainable undefined succeeds, because Markup.__add__
   sees ChainableUndefined.__html__ and concatenates the (empty) escaped text *)
Definition known_deviation (x : cname * op) : bool :=
  match flavour (fst x), snd x with
  | BC, OpArith Add Rev (OB KMarkup) => true
  | _, _ => false
  end.

Definition cell_ok (T : tables) (F : facts) (x : cname * op) : bool :=
  match spec (fst x) (snd x) with
  | None => true
  | Some s => known_deviation x || agrees (fst (dispatch T F (fst x) (snd x))) s
  end.
Definition table_ok (T : tables) (F : facts) : bool := forallb (cell_ok T F) all_cells.

(* ---- logging variants (api.rst: "decorate undefined objects to implement logging on
   failures"; make_logging_undefined: "It will log iterations and printing") *)
Definition is_logging (c : cname) : bool := match c with Logging _ => true | Named _ => false end.
Definition has_warn (l : list logev) := existsb (fun e => match e with LWarn Self => true | _ => false end) l.
Definition has_err (l : list logev) := existsb (fun e => match e with LErr Self => true | _ => false end) l.

(* printing and iteration of a logging undefined are logged *)
Definition log_print_iter_ok (T : tables) (F : facts) (x : cname * op) : bool :=
  match x with
  | (Logging b, OpStr) | (Logging b, OpIter) | (Logging b, OpAiter) => has_warn (snd (dispatch T F (Logging b) (snd x)))
  | _ => true
  end.
(* "logging on failures": an UndefinedError raised by the logging undefined itself is logged *)
Definition log_failure_ok (T : tables) (F : facts) (x : cname * op) : bool :=
  match x with
  | (Logging b, o) =>
      match dispatch T F (Logging b) o with
      | (Raises Self, l) => has_err l
      | _ => true
      end
  | _ => true
  end.
(* the failures that ARE logged: those raised through attribute access (the only path that
   calls self._fail_with_undefined_error() virtually) *)
Definition via_getattr (x : cname * op) : bool := match snd x with OpGetAttr => true | _ => false end.
