(* C22 — what the documentation of the collection filters promises, written without the
   implementation's loops (short, to be audited by reading). *)
From Coq Require Import List NArith ZArith Bool Sorted Permutation.
Import ListNotations.
From JV Require Import Model.FiltColl.

Section Spec.
  Variable A : Type.

  (* consecutive chunks of the given sizes *)
  Fixpoint chunks (sizes : list nat) (xs : list A) : list (list A) :=
    match sizes with
    | [] => []
    | k :: r => firstn k xs :: chunks r (skipn k xs)
    end.

  Fixpoint iota (start : N) (n : nat) : list N :=
    match n with O => [] | S n' => start :: iota (N.succ start) n' end.

  (* slice(n, fill): n columns; the first |xs| mod n columns hold one item more than the
     others; a column that is one short gets the fill value — when there are short columns *)
  Definition slice_size (q r i : N) : nat := N.to_nat (q + (if (i <? r)%N then 1 else 0))%N.
  Definition slice_fill (fill : option A) (r i : N) : list A :=
    match fill with
    | Some f => if negb (r =? 0)%N && (r <=? i)%N then [f] else []
    | None => []
    end.
  Definition spec_slice (n : N) (fill : option A) (xs : list A) : list (list A) :=
    let len := N.of_nat (length xs) in
    let q := (len / n)%N in
    let r := (len mod n)%N in
    let idx := iota 0 (N.to_nat n) in
    map (fun ib => snd ib ++ slice_fill fill r (fst ib))
        (combine idx (chunks (map (slice_size q r) idx) xs)).

  (* batch(n, fill): rows of n items, the last row padded with the fill value *)
  Definition batch_pad (n : nat) (fill : option A) (len : nat) : list A :=
    match fill with
    | Some f => repeat f ((n - len mod n) mod n)
    | None => []
    end.

  Variable K : Type.
  Variable keqb : K -> K -> bool.
  Variable key : A -> K.

  (* unique: an item is kept iff no earlier item of the input has an equal key *)
  Fixpoint first_occ (earlier : list A) (xs : list A) : list A :=
    match xs with
    | [] => []
    | x :: r =>
        if existsb (fun y => keqb (key x) (key y)) earlier then first_occ (earlier ++ [x]) r
        else x :: first_occ (earlier ++ [x]) r
    end.

  Variable kleb : K -> K -> bool.
  Definition le_key (a b : A) : Prop := kleb (key a) (key b) = true.
  Definition equivb (a b : A) : bool := kleb (key a) (key b) && kleb (key b) (key a).

  (* "a stable sort": ordered, a permutation, and items with equivalent keys keep their order *)
  Definition stable_sort_of (xs ys : list A) : Prop :=
    Sorted le_key ys /\ Permutation ys xs /\
    forall z, filter (equivb z) ys = filter (equivb z) xs.

  (* groups: non-empty, every member carries the group's key, keys strictly increasing *)
  Definition group_ok (g : K * list A) : Prop :=
    snd g <> [] /\ Forall (fun x => keqb (key x) (fst g) = true) (snd g).
  Definition group_lt (g1 g2 : K * list A) : Prop :=
    kleb (fst g1) (fst g2) = true /\ kleb (fst g2) (fst g1) = false.
End Spec.

Arguments chunks {A}. Arguments spec_slice {A}. Arguments slice_fill {A}. Arguments batch_pad {A}.
Arguments first_occ {A K}. Arguments le_key {A K}. Arguments equivb {A K}.
Arguments stable_sort_of {A K}. Arguments group_ok {A K}. Arguments group_lt {A K}.
