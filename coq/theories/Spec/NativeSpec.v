(* Documented native rendering (C34), from docs/nativetypes.rst and the docstrings of
   native_concat / NativeTemplate.render: a single non-string node is returned as it is; otherwise
   the nodes are concatenated as strings and the text is returned as the Python literal it
   denotes, or as text when it is not a literal.  No output at all gives None (the declared
   return type `Any | None`; the prose does not mention it — see notes/C34.md). *)
From Coq Require Import List NArith Bool.
Import ListNotations.
From JV Require Import Model.Native.

Section Spec.
  Variable L : Type.
  Variable literal_eval : str -> option L.
  Variable str_of : N -> str.

  Definition single_object (ps : list piece) : option N :=
    match ps with [PObj o] => Some o | _ => None end.

  Definition spec_native (ps : list piece) : nout L :=
    match ps with
    | [] => NNone
    | _ => match single_object ps with
           | Some o => NObj o
           | None => eval_or_text L literal_eval (join str_of ps)
           end
    end.

  (* every valid entry point gives the documented value *)
  Definition valid_entry (is_async : bool) (e : entry) : bool :=
    match e with Render => true | RenderAsync => is_async end.
End Spec.
