(* The documented loop variable (C07), from docs/templates.rst "For" (the table of special
   variables): at iteration i (0-based) over the items xs,
     loop.index0 = i, index = i+1, revindex = |xs| - i, revindex0 = |xs| - i - 1,
     first = (i = 0), last = (i = |xs| - 1), length = |xs|, previtem / nextitem = the
     neighbouring items (undefined at the ends), cycle(a...) = a[i mod |a|],
     changed(v) = true iff v differs from the value of the previous call (or there was none),
     depth = nesting level starting at 1, depth0 starting at 0.
   The items visited are exactly xs, whatever is queried. *)
From Coq Require Import List NArith ZArith Bool.
Import ListNotations.
From JV Require Import Model.Loop.
Open Scope Z_scope.

Definition s_answer (xs : list item) (d0 : Z) (i : nat) (x : item) (q : query)
           (lastc : option (list N)) : answer * option (list N) :=
  let n := zlen xs in
  match q with
  | QLength => (ANum n, lastc)
  | QIndex0 => (ANum (Z.of_nat i), lastc)
  | QIndex => (ANum (Z.of_nat i + 1), lastc)
  | QRevindex => (ANum (n - Z.of_nat i), lastc)
  | QRevindex0 => (ANum (n - Z.of_nat i - 1), lastc)
  | QFirst => (ABool (Nat.eqb i 0), lastc)
  | QLast => (ABool (Nat.eqb (S i) (length xs)), lastc)
  | QPrevitem =>
      (match i with
       | O => ANoPrev
       | S j => match nth_error xs j with Some y => AItem y | None => ANoPrev end
       end, lastc)
  | QNextitem => (match nth_error xs (S i) with Some y => AItem y | None => ANoNext end, lastc)
  | QCycle args =>
      (match args with
       | [] => ATypeError
       | _ => match nth_error args (Nat.modulo i (length args)) with Some a => AItem a | None => ATypeError end
       end, lastc)
  | QChanged v =>
      let value := match v with Some c => c | None => [x] end in
      match lastc with
      | Some l => if list_eqb l value then (ABool false, lastc) else (ABool true, Some value)
      | None => (ABool true, Some value)
      end
  | QDepth => (ANum (d0 + 1), lastc)
  | QDepth0 => (ANum d0, lastc)
  end.

Fixpoint s_answers (xs : list item) (d0 : Z) (i : nat) (x : item) (qs : list query)
         (lastc : option (list N)) : list answer * option (list N) :=
  match qs with
  | [] => ([], lastc)
  | q :: r => let '(a, lc1) := s_answer xs d0 i x q lastc in
              let '(l, lc2) := s_answers xs d0 i x r lc1 in (a :: l, lc2)
  end.

Fixpoint spec_go (xs : list item) (d0 : Z) (i : nat) (todo : list item) (script : list (list query))
         (lastc : option (list N)) : list (item * list answer) :=
  match todo with
  | [] => []
  | x :: r => let '(ans, lc) := s_answers xs d0 i x (hd [] script) lastc in
              (x, ans) :: spec_go xs d0 (S i) r (tl script) lc
  end.

Definition spec (xs : list item) (d0 : Z) (script : list (list query)) : list (item * list answer) :=
  spec_go xs d0 0 xs script None.

(* recursive loops: a node at nesting level k reports depth0 = k *)
Fixpoint levels (d : Z) (t : tree) : list (N * Z) :=
  match t with Node l cs => (l, d) :: flat_map (levels (d + 1)) cs end.

(* states the loop object can be in: created, advanced by the for statement, queried *)
Inductive reachable (k : kind) (xs : list item) (d0 : Z) : st -> Prop :=
| reach_init : reachable k xs d0 (init xs d0)
| reach_next : forall s x s', reachable k xs d0 s -> m_next s = Some (x, s') -> reachable k xs d0 s'
| reach_query : forall s q s' a, reachable k xs d0 s -> m_query k s q = (s', a) -> reachable k xs d0 s'.

Definition opt_item (o : option item) : list item := match o with Some x => [x] | None => [] end.

(* loop controls: the iterations up to and including the first one that breaks *)
Fixpoint cut {A} (ctls : list ctl) (l : list A) : list A :=
  match l with
  | [] => []
  | e :: r => e :: match hd Go ctls with Break => [] | _ => cut (tl ctls) r end
  end.
