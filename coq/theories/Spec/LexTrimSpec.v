(* C12, right-hand side, written from docs/templates.rst "Whitespace Control":
   - a '-' at the start / end of a tag removes all whitespace before / after it;
   - trim_blocks removes the first newline after a block, comment or (end)raw tag;
   - lstrip_blocks strips whitespace from the beginning of a line to the start of a block /
     comment / raw tag ("nothing will be stripped if there are other characters before");
   - '+' disables the automatic behaviour on its side; variable tags are never affected by
     the automatic options; the body of a raw block is subject only to its own tags;
   - a single trailing newline of the template is removed.
   Templates are given as skeletons; [unparse] writes the template text. *)
From Coq Require Import List NArith Bool Arith.
Import ListNotations.
From JV Require Import Model.LexBase.
Open Scope N_scope.

Inductive md := MNone | MMinus | MPlus.

Inductive seg :=
  | Text (s : str)
  | Block (l r : md)
  | Comment (l r : md)
  | Var (l r : md)
  | Raw (l1 r1 : md) (body : str) (l2 r2 : md).

(* ------------------------------------------------------------------ the documented rules on one text *)
Fixpoint drop_ws (s : str) : str :=
  match s with c :: r => if is_space c then drop_ws r else s | [] => [] end.

(* remove the maximal all-whitespace suffix *)
Fixpoint rstrip_spec (s : str) : str :=
  match s with
  | [] => []
  | c :: r => if forallb is_space (c :: r) then [] else c :: rstrip_spec r
  end.

Definition has_nl (s : str) : bool := existsb is_nl s.

(* what follows the last line break (the whole text when there is none) *)
Fixpoint line_tail (s : str) : str :=
  match s with
  | [] => []
  | c :: r => if has_nl (c :: r) then line_tail r else c :: r
  end.

Definition drop_one_nl (s : str) : str :=
  match s with c :: r => if c =? 10 then r else s | [] => [] end.

(* the tag on the left of a text: absent (start of the template), or a tag with its right
   modifier and whether trim_blocks applies to its kind *)
Inductive ltag := LStart | LTag (autotrim : bool) (r : md).
(* the tag on the right: absent (end of template), or a tag with its left modifier and
   whether lstrip_blocks applies to its kind *)
Inductive rtag := REnd | RTag (autolstrip : bool) (l : md).

(* left side of a tag, on the text in front of it.  [at_line_start]: the text starts at the
   beginning of a line (start of template, or the previous tag ended a line) *)
Definition left_rule (lstrip : bool) (R : rtag) (at_line_start : bool) (s : str) : str :=
  match R with
  | RTag _ MMinus => rstrip_spec s
  | RTag true MNone =>
      if lstrip then
        let t := line_tail s in
        if nonempty t && forallb is_space t && (has_nl s || at_line_start)
        then firstn (length s - length t) s else s
      else s
  | _ => s
  end.

Definition right_rule (trim : bool) (L : ltag) (s : str) : str :=
  match L with
  | LTag _ MMinus => drop_ws s
  | LTag true MNone => if trim then drop_one_nl s else s
  | _ => s
  end.

Definition trim_text (trim lstrip : bool) (L : ltag) (R : rtag) (s : str) : str :=
  right_rule trim L (left_rule lstrip R (match L with LStart => true | _ => false end) s).

Definition ltag_of (g : seg) : ltag :=
  match g with
  | Block _ r | Comment _ r => LTag true r
  | Var _ r => LTag false r
  | Raw _ _ _ _ r2 => LTag true r2
  | Text _ => LStart
  end.
Definition rtag_of (g : seg) : rtag :=
  match g with
  | Block l _ | Comment l _ => RTag true l
  | Var l _ => RTag false l
  | Raw l1 _ _ _ _ => RTag true l1
  | Text _ => REnd
  end.

(* drop a line break that ends the template *)
Fixpoint drop_final_nl (s : str) : str :=
  match s with
  | [] => []
  | [c] => if c =? 10 then [] else [c]
  | c :: r => c :: drop_final_nl r
  end.

(* output of a skeleton; [vout] is what a variable tag prints *)
Fixpoint spec_go (trim lstrip : bool) (vout : str) (L : ltag) (segs : list seg) : str :=
  match segs with
  | [] => []
  | Text s :: rest =>
      let R := match rest with [] => REnd | g :: _ => rtag_of g end in
      let s0 := match rest with [] => drop_final_nl s | _ => s end in
      trim_text trim lstrip L R s0 ++ spec_go trim lstrip vout L rest
  | Var l r :: rest => vout ++ spec_go trim lstrip vout (LTag false r) rest
  | Raw l1 r1 body l2 r2 :: rest =>
      trim_text false lstrip (LTag false r1) (RTag true l2) body
        ++ spec_go trim lstrip vout (LTag true r2) rest
  | g :: rest => spec_go trim lstrip vout (ltag_of g) rest
  end.

Definition spec_trim (trim lstrip : bool) (vout : str) (sk : list seg) : str :=
  spec_go trim lstrip vout LStart sk.

(* ------------------------------------------------------------------ template text of a skeleton *)
Definition md_str (m : md) : str := match m with MNone => [] | MMinus => [45] | MPlus => [43] end.

Definition body_block : str := [32; 115; 101; 116; 32; 120; 32; 61; 32; 49; 32].   (* " set x = 1 " *)
Definition body_comment : str := [32; 99; 32].                                      (* " c " *)
Definition body_var : str := [32; 39; 86; 39; 32].                                  (* " 'V' " *)
Definition kw_raw_sp : str := [32; 114; 97; 119; 32].                               (* " raw " *)
Definition kw_endraw_sp : str := [32; 101; 110; 100; 114; 97; 119; 32].             (* " endraw " *)

Definition unparse_seg (c : cfg) (g : seg) : str :=
  match g with
  | Text s => s
  | Block l r => c_bs c ++ md_str l ++ body_block ++ md_str r ++ c_be c
  | Comment l r => c_cs c ++ md_str l ++ body_comment ++ md_str r ++ c_ce c
  | Var l r => c_vs c ++ md_str l ++ body_var ++ md_str r ++ c_ve c
  | Raw l1 r1 body l2 r2 =>
      c_bs c ++ md_str l1 ++ kw_raw_sp ++ md_str r1 ++ c_be c ++ body
      ++ c_bs c ++ md_str l2 ++ kw_endraw_sp ++ md_str r2 ++ c_be c
  end.

Definition unparse (c : cfg) (sk : list seg) : str := flat_map (unparse_seg c) sk.

(* well-formed skeletons: no '+' where the syntax has none, texts alternate with tags and
   contain only the given text characters *)
Definition seg_wf (txt : N -> bool) (g : seg) : bool :=
  match g with
  | Text s => forallb txt s
  | Var _ r => match r with MPlus => false | _ => true end
  | Raw _ r1 body _ _ => match r1 with MPlus => false | _ => forallb txt body end
  | _ => true
  end.

Fixpoint no_adjacent_text (sk : list seg) : bool :=
  match sk with
  | Text _ :: ((Text _ :: _) as r) => false
  | _ :: r => no_adjacent_text r
  | [] => true
  end.

Definition skel_wf (txt : N -> bool) (sk : list seg) : bool :=
  forallb (seg_wf txt) sk && no_adjacent_text sk.

(* ------------------------------------------------------------------ the small-scope domain used by the
   Coq-checked enumerations of C12 / C13 *)
Definition ss_texts : list str := [[]; [32]; [10]; [32; 10; 32]; [9]; [97]].
Definition ss_mods : list md := [MNone; MMinus; MPlus].
Definition ss_tags : list seg :=
  flat_map (fun l => flat_map (fun r => [Block l r; Comment l r]) ss_mods) ss_mods
  ++ flat_map (fun l => [Var l MNone; Var l MMinus]) ss_mods
  ++ flat_map (fun r1 => flat_map (fun l2 => map (fun b => Raw MNone r1 b l2 MNone) ss_texts) ss_mods) [MNone; MMinus].
Definition ss_skeletons : list (list seg) :=
  flat_map (fun a => flat_map (fun g => map (fun b => [Text a; g; Text b]) ss_texts) ss_tags) ss_texts.
Definition ss_settings : list (bool * bool) := [(false, false); (false, true); (true, false); (true, true)].
