(* C14 -- CPython's literal grammar and valuation (Language Reference 2.4.5 integer literals,
   2.4.6 floating point literals), written as recognisers over the whole spelling.
     integer   ::= decinteger | bininteger | octinteger | hexinteger
     decinteger::= nonzerodigit (["_"] digit)... | "0"+ (["_"] "0")...
     bininteger::= "0" ("b"|"B") (["_"] bindigit)+        (oct, hex alike)
     digitpart ::= digit (["_"] digit)...
     pointfloat::= [digitpart] fraction | digitpart "."     fraction ::= "." digitpart
     exponentfloat ::= (digitpart | pointfloat) exponent   exponent ::= ("e"|"E") ["+"|"-"] digitpart
   The value of an integer literal is positional; underscores are ignored.  The value of a
   float literal is the correctly rounded double of the spelling without underscores
   (external: dec2float).  A string literal denotes its code-point list. *)
From Coq Require Import List NArith ZArith Bool.
Import ListNotations.
From JV Require Import Model.Lit.
Open Scope N_scope.

(* s consists entirely of groups  ["_"] digit  of the base: the digit values *)
Fixpoint group (base : N) (s : str) : option (list N) :=
  match s with
  | [] => Some []
  | c :: r =>
      match dval base c with
      | Some d => option_map (cons d) (group base r)
      | None =>
          if c =? US then
            match r with
            | c' :: r' => match dval base c' with
                          | Some d => option_map (cons d) (group base r')
                          | None => None end
            | [] => None
            end
          else None
      end
  end.

Definition value (base : N) (ds : list N) : Z :=
  fold_left (fun a d => (a * Z.of_N base + Z.of_N d)%Z) ds 0%Z.

Definition py_int (s : str) : option Z :=
  match s with
  | [] => None
  | c0 :: r0 =>
      if c0 =? 48 then
        match r0 with
        | [] => Some 0%Z
        | c1 :: r1 =>
            match prefix_base c1 with
            | Some b => match group b r1 with
                        | Some (d :: ds) => Some (value b (d :: ds))
                        | _ => None end
            | None => match group 1 r0 with Some _ => Some 0%Z | None => None end
            end
        end
      else match dval 10 c0 with
           | Some d0 => match group 10 r0 with Some ds => Some (value 10 (d0 :: ds)) | None => None end
           | None => None
           end
  end.

(* optional digitpart at the head: (present?, rest) *)
Definition take_digitpart (s : str) : bool * str :=
  let n := scan_digitpart s in (Nat.ltb 0 n, skipn n s).

Definition exponent_all (s : str) : bool :=
  match s with
  | c :: r =>
      is_e c &&
      match r with
      | x :: r' => if is_sign x then (let '(p, rest) := take_digitpart r' in p && match rest with [] => true | _ => false end)
                   else (let '(p, rest) := take_digitpart r in p && match rest with [] => true | _ => false end)
      | [] => false
      end
  | [] => false
  end.

Definition py_float_ok (s : str) : bool :=
  let '(has_int, r1) := take_digitpart s in
  match r1 with
  | c :: r2 =>
      if c =? 46 then
        let '(has_frac, r3) := take_digitpart r2 in
        (has_int || has_frac) && match r3 with [] => true | _ => exponent_all r3 end
      else has_int && exponent_all r1
  | [] => has_int && exponent_all r1
  end.

Section FloatVal.
  Variable F : Type.
  Variable dec2float : str -> F.
  Definition py_float (s : str) : F := dec2float (remove_us s).
End FloatVal.
