(* C25 — what the documentation promises about the template cache, independent of
   _load_template's algorithm. *)
From Coq Require Import List NArith ZArith Bool.
Import ListNotations.
From JV Require Import Model.LRU Model.Tc.
Open Scope N_scope.

(* the loader's content after a history of source changes *)
Fixpoint loader_after (l : name -> option version) (h : list op) : name -> option version :=
  match h with
  | [] => l
  | OPut n v :: r => loader_after (put l n (Some v)) r
  | ODel n :: r => loader_after (put l n None) r
  | _ :: r => loader_after l r
  end.

(* the loader supplies an up-to-date check that is correct (or errs on the side of reloading) *)
Definition upt_correct (u : uptk) : bool :=
  match u with UVersion => true | UConst false => true | _ => false end.

(* what a request for a list of names must answer: the first name that exists *)
Fixpoint first_existing (l : name -> option version) (ns : list name) : option (name * version) :=
  match ns with
  | [] => None
  | n :: r => match l n with Some v => Some (n, v) | None => first_existing l r end
  end.

(* the template ids handed out by a run *)
Fixpoint tids (xs : list out) : list tid :=
  match xs with
  | [] => []
  | OutR (RTpl t _) _ :: r => t :: tids r
  | _ :: r => tids r
  end.

(* the LRUCache operations an environment performs on its cache (cache.get(key) and
   cache[key] = template), in order *)
Definition load_trace (e : env) (n : name) : list LRU.op :=
  let rl := match loader e n with Some _ => [SetItem n (next e)] | None => [] end in
  Get n 0 :: match snd (cache_get (cache e) n) with
             | CHit t => if negb (auto_reload e) || is_up_to_date e t then [] else rl
             | CMiss => rl
             | CCrash => []
             end.
Fixpoint select_trace (e : env) (ns : list name) : list LRU.op :=
  match ns with
  | [] => []
  | n :: r => load_trace e n ++ match load_template e n with
                                | (e', RNotFound) => select_trace e' r
                                | _ => []
                                end
  end.
Definition step_trace (e : env) (o : op) : list LRU.op :=
  match o with OGet n => load_trace e n | OSelect ns => select_trace e ns | _ => [] end.
Fixpoint run_trace (e : env) (h : list op) : list LRU.op :=
  match h with
  | [] => []
  | o :: r => step_trace e o ++ run_trace (fst (step e o)) r
  end.

(* env.auto_reload is a public attribute and may be changed between requests *)
Definition set_auto (e : env) (b : bool) : env :=
  {| auto_reload := b; upt := upt e; cache := cache e; loader := loader e; heap := heap e; next := next e |}.
