(* The documented macro calling rules (C06), written from docs/templates.rst "Macros" and
   "Call", independent of how Macro.__call__ consumes its arguments:

   - positional arguments fill the parameters in order;
   - a parameter not filled positionally takes the keyword argument of its name, else it is
     missing (its default is evaluated at call time, or it is undefined);
   - `varargs` holds the positional arguments beyond the parameters; surplus positional
     arguments are a TypeError when the macro does not use `varargs`;
   - `kwargs` holds all unconsumed keyword arguments; an unconsumed keyword argument is a
     TypeError when the macro does not use `kwargs`;
   - a macro that uses `caller` without declaring it receives the keyword `caller` (what a
     call block passes), or an undefined value when there is none. *)
From Coq Require Import List NArith Bool.
Import ListNotations.
From JV Require Import Model.Macro.
Open Scope N_scope.

Record binding := {
  b_params : list (option value);      (* one per parameter; None = not provided *)
  b_caller : option value;             (* the special caller variable, when the macro uses it *)
  b_kwargs : option kwlist;
  b_varargs : option (list value) }.

Inductive bres := BOk (b : binding) | BTypeError.

Fixpoint kw_get (n : name) (kw : kwlist) : option value :=
  match kw with [] => None | (k, v) :: r => if n =? k then Some v else kw_get n r end.

(* the value parameter p at position i receives *)
Definition param_value (c : call) (i : nat) (p : name) : option value :=
  match nth_error (c_args c) i with
  | Some v => Some v
  | None => kw_get p (c_kw c)
  end.

(* `caller` is special only when the body uses it and it is not a declared parameter *)
Definition implicit_caller (s : rsig) : bool := r_caller s && negb (mem n_caller (r_args s)).

(* keyword k is consumed: it names a parameter that was not filled positionally, or it is
   the special caller *)
Definition consumed (s : rsig) (c : call) (k : name) : bool :=
  mem k (skipn (length (c_args c)) (r_args s)) || (implicit_caller s && (k =? n_caller)).

Definition leftover (s : rsig) (c : call) : kwlist :=
  filter (fun kv => negb (consumed s c (fst kv))) (c_kw c).

Definition surplus (s : rsig) (c : call) : list value := skipn (length (r_args s)) (c_args c).

Definition is_nil {A} (l : list A) : bool := match l with [] => true | _ => false end.

Inductive binds (s : rsig) (c : call) : bres -> Prop :=
| binds_ok : forall b,
    (r_kwargs s = false -> leftover s c = []) ->
    (r_varargs s = false -> surplus s c = []) ->
    length (b_params b) = length (r_args s) ->
    (forall i p, nth_error (r_args s) i = Some p -> nth_error (b_params b) i = Some (param_value c i p)) ->
    b_caller b = (if implicit_caller s then Some (caller_value (kw_get n_caller (c_kw c))) else None) ->
    b_kwargs b = (if r_kwargs s then Some (leftover s c) else None) ->
    b_varargs b = (if r_varargs s then Some (surplus s c) else None) ->
    binds s c (BOk b)
| binds_err_kw : r_kwargs s = false -> leftover s c <> [] -> binds s c BTypeError
| binds_err_pos : r_varargs s = false -> surplus s c <> [] -> binds s c BTypeError.

(* the same rules as a function (the oracle applied to the real engine's results) *)
Fixpoint params_from (c : call) (i : nat) (ps : list name) : list (option value) :=
  match ps with [] => [] | p :: r => param_value c i p :: params_from c (S i) r end.

Definition spec_bind (s : rsig) (c : call) : bres :=
  if negb (r_kwargs s) && negb (is_nil (leftover s c)) then BTypeError
  else if negb (r_varargs s) && negb (is_nil (surplus s c)) then BTypeError
  else BOk {| b_params := params_from c 0 (r_args s);
              b_caller := if implicit_caller s then Some (caller_value (kw_get n_caller (c_kw c))) else None;
              b_kwargs := if r_kwargs s then Some (leftover s c) else None;
              b_varargs := if r_varargs s then Some (surplus s c) else None |}.

(* the calling protocol between Macro.__call__ and the generated function: parameters,
   then caller, kwargs, varargs *)
Definition opt_list {A B} (f : A -> B) (o : option A) : list B :=
  match o with Some a => [f a] | None => [] end.
Definition param_arg (o : option value) : arg := match o with Some v => AVal v | None => AMissing end.
Definition flatten (b : binding) : list arg :=
  map param_arg (b_params b) ++ opt_list ACaller (b_caller b) ++ opt_list AKwargs (b_kwargs b)
  ++ opt_list AVarargs (b_varargs b).

(* a result of Macro.__call__ realises a documented outcome *)
Definition matches (r : res (list arg)) (o : bres) : Prop :=
  match r, o with
  | Ok l, BOk b => l = flatten b
  | Err _, BTypeError => True
  | _, _ => False
  end.

(* well-formed inputs: parameter names distinct (CPython rejects a duplicate parameter when
   the generated module is compiled), keyword names distinct (a dict) *)
Definition wf_sig (s : rsig) : Prop := NoDup (r_args s).
Definition wf_call (c : call) : Prop := NoDup (map fst (c_kw c)).

(* defaults: the value parameter p at index i has after the prologue, given the locals
   before (l0) and after (lf) it *)
Definition final_value (d : mdef) (outer : outer_env) (l0 lf : locals) (i : nat) (p : name) : value :=
  match lget p l0 with
  | Some (Some v) => v
  | _ => match default_of d i with
         | Some e => eval_default outer (firstn i lf ++ skipn i l0) e
         | None => VUndef (UNotProvided p)
         end
  end.
