(* A deep embedding of the Python statement vocabulary used by the properties and methods of
   jinja2.runtime.LoopContext / AsyncLoopContext, with its interpreter over the model state
   Model.Loop.st.  gen/loop_translate.py turns the CURRENT source of each method into a term
   (fail-closed); Gen_loop.v proves, by symbolic evaluation for every state (and kind of
   iterable), that the interpreted term equals the hand-written model function (m_length,
   m_peek, m_next, and the m_query case of each property).  `await` is transparent and
   `[x async for x in it]` is `list(it)`: the async class is translated by the same rules, which
   is what "one model serves both classes" means. *)
From Coq Require Import List NArith ZArith Bool String.
Import ListNotations.
From JV Require Import Model.Loop.
Open Scope Z_scope.

Inductive lv :=
| LInt (z : Z) | LBool (b : bool) | LItem (x : item) | LMissing | LNone
| LUndefPrev | LUndefNext
| LTuple (l : list N)               (* *value of changed(), *args of cycle() *)
| LList (l : list item)             (* list(self._iterator) *)
| LNextResult (x : item)            (* (rv, self) *)
| LUnbound.

Inductive lexn := XStop | XTypeError | XIndexError | XBad.

Inductive expr :=
| EField (f : string)               (* self.<data attribute> *)
| EProp (p : string)                (* self.<property implemented by another method> *)
| EPeek                             (* self._peek_next() *)
| ELocal (x : string)
| EMissing | ENone | EInt (z : Z) | EBool (b : bool)
| EIs (a b : expr) | EIsNot (a b : expr)
| EEq (a b : expr) | ENe (a b : expr)
| EAdd (a b : expr) | ESub (a b : expr) | EMod (a b : expr)
| ENot (e : expr)
| ELenIterable                      (* len(self._iterable)          TypeError when unsized *)
| ELen (e : expr)
| EDrain                            (* list(self._iterator) / [x async for x in self._iterator] *)
| ENext                             (* next(self._iterator) / await self._iterator.__anext__()   StopIteration *)
| ENextD (d : expr)                 (* next(self._iterator, d) *)
| EUndefPrev | EUndefNext           (* self._undefined("there is no previous/next item") *)
| ESubscript (a i : expr)
| EToIterator (e : expr)            (* self._to_iterator(e) *)
| EWithSelf (e : expr).             (* (e, self) *)

Inductive stmt :=
| SAssign (x : string) (e : expr)
| SSetField (f : string) (e : expr)
| SIncrField (f : string) (z : Z)
| SIf (c : expr) (t e : list stmt)
| STry (body : list stmt) (x : lexn) (handler : list stmt)
| SReturn (e : expr)
| SRaiseTypeError.

Definition env := list (string * lv).
Fixpoint env_get (x : string) (e : env) : lv :=
  match e with [] => LUnbound | (y, v) :: r => if String.eqb x y then v else env_get x r end.

Definition opt_lv (o : option item) : lv := match o with Some x => LItem x | None => LMissing end.

Definition get_field (f : string) (s : st) : lv :=
  if String.eqb f "_length" then match lenc s with Some n => LInt n | None => LNone end
  else if String.eqb f "_after" then opt_lv (after s)
  else if String.eqb f "_before" then opt_lv (before s)
  else if String.eqb f "_current" then opt_lv (current s)
  else if String.eqb f "_last_changed_value" then match last_changed s with Some l => LTuple l | None => LMissing end
  else if String.eqb f "index0" then LInt (index0 s)
  else if String.eqb f "depth0" then LInt (depth0 s)
  else LUnbound.

Definition lv_opt (v : lv) : option (option item) :=
  match v with LItem x => Some (Some x) | LMissing => Some None | _ => None end.

Definition upd (s : st) (rem' : list item) (after' : option item) (lenc' : option Z) (before' current' : option item)
           (index0' : Z) (lc' : option (list N)) : st :=
  {| iterable := iterable s; rem := rem'; after := after'; lenc := lenc'; before := before'; current := current';
     index0 := index0'; last_changed := lc'; depth0 := depth0 s |}.

Definition set_field (f : string) (v : lv) (s : st) : option st :=
  if String.eqb f "_length" then
    match v with LInt n => Some (upd s (rem s) (after s) (Some n) (before s) (current s) (index0 s) (last_changed s)) | _ => None end
  else if String.eqb f "_after" then
    match lv_opt v with Some o => Some (upd s (rem s) o (lenc s) (before s) (current s) (index0 s) (last_changed s)) | None => None end
  else if String.eqb f "_before" then
    match lv_opt v with Some o => Some (upd s (rem s) (after s) (lenc s) o (current s) (index0 s) (last_changed s)) | None => None end
  else if String.eqb f "_current" then
    match lv_opt v with Some o => Some (upd s (rem s) (after s) (lenc s) (before s) o (index0 s) (last_changed s)) | None => None end
  else if String.eqb f "_last_changed_value" then
    match v with LTuple l => Some (upd s (rem s) (after s) (lenc s) (before s) (current s) (index0 s) (Some l)) | _ => None end
  else if String.eqb f "index0" then
    match v with LInt z => Some (upd s (rem s) (after s) (lenc s) (before s) (current s) z (last_changed s)) | _ => None end
  else if String.eqb f "_iterator" then
    match v with LList l => Some (upd s l (after s) (lenc s) (before s) (current s) (index0 s) (last_changed s)) | _ => None end
  else None.

Inductive outcome := Norm (v : lv) | Exc (x : lexn).

Definition as_bool (v : lv) : bool :=
  match v with
  | LBool b => b | LInt z => negb (z =? 0) | LNone => false
  | LTuple l => match l with [] => false | _ => true end
  | LList l => match l with [] => false | _ => true end
  | LUnbound => false
  | _ => true
  end.
Definition as_int (v : lv) : option Z :=
  match v with LInt z => Some z | LBool b => Some (if b then 1 else 0) | _ => None end.

(* `is`: identity of the singletons and of small values; items compare by value *)
Definition same (a b : lv) : bool :=
  match a, b with
  | LMissing, LMissing | LNone, LNone => true
  | _, _ => false
  end.
Definition veq (a b : lv) : bool :=
  match a, b with
  | LInt x, LInt y => x =? y
  | LTuple x, LTuple y => list_eqb x y
  | LBool x, LBool y => Bool.eqb x y
  | LMissing, LMissing | LNone, LNone => true
  | _, _ => false
  end.

Section Interp.
  Variable k : kind.
  (* other members of the class, as already-translated semantics *)
  Variable p_length : st -> st * Z.
  Variable p_index : st -> Z.
  Variable p_first : st -> bool.
  Variable p_peek : st -> st * option item.

  Fixpoint eval (e : expr) (s : st) (en : env) : st * outcome :=
    let bin (a b : expr) (f : st -> lv -> lv -> st * outcome) :=
      match eval a s en with
      | (s1, Norm va) => match eval b s1 en with (s2, Norm vb) => f s2 va vb | r => r end
      | r => r
      end in
    let arith (a b : expr) (f : Z -> Z -> option Z) :=
      bin a b (fun s2 va vb => match as_int va, as_int vb with
                               | Some x, Some y => match f x y with Some z => (s2, Norm (LInt z)) | None => (s2, Exc XBad) end
                               | _, _ => (s2, Exc XBad) end) in
    match e with
    | EField f => (s, Norm (get_field f s))
    | EProp p =>
        if String.eqb p "length" then let '(s1, n) := p_length s in (s1, Norm (LInt n))
        else if String.eqb p "index" then (s, Norm (LInt (p_index s)))
        else if String.eqb p "first" then (s, Norm (LBool (p_first s)))
        else (s, Exc XBad)
    | EPeek => let '(s1, o) := p_peek s in (s1, Norm (opt_lv o))
    | ELocal x => (s, Norm (env_get x en))
    | EMissing => (s, Norm LMissing) | ENone => (s, Norm LNone) | EInt z => (s, Norm (LInt z))
    | EBool b => (s, Norm (LBool b))
    | EIs a b => bin a b (fun s2 va vb => (s2, Norm (LBool (same va vb))))
    | EIsNot a b => bin a b (fun s2 va vb => (s2, Norm (LBool (negb (same va vb)))))
    | EEq a b => bin a b (fun s2 va vb => (s2, Norm (LBool (veq va vb))))
    | ENe a b => bin a b (fun s2 va vb => (s2, Norm (LBool (negb (veq va vb)))))
    | EAdd a b => arith a b (fun x y => Some (x + y))
    | ESub a b => arith a b (fun x y => Some (x - y))
    | EMod a b => arith a b (fun x y => Some (x mod y))
    | ENot a => match eval a s en with (s1, Norm v) => (s1, Norm (LBool (negb (as_bool v)))) | r => r end
    | ELenIterable => match k with Sized => (s, Norm (LInt (zlen (iterable s)))) | Unsized => (s, Exc XTypeError) end
    | ELen a => match eval a s en with
                | (s1, Norm (LList l)) => (s1, Norm (LInt (zlen l)))
                | (s1, Norm (LTuple l)) => (s1, Norm (LInt (zlen l)))
                | (s1, Norm _) => (s1, Exc XBad)
                | r => r end
    | EDrain => (upd s [] (after s) (lenc s) (before s) (current s) (index0 s) (last_changed s), Norm (LList (rem s)))
    | ENext => match rem s with
               | [] => (s, Exc XStop)
               | x :: r => (upd s r (after s) (lenc s) (before s) (current s) (index0 s) (last_changed s), Norm (LItem x))
               end
    | ENextD d => match rem s with
                  | [] => eval d s en
                  | x :: r => (upd s r (after s) (lenc s) (before s) (current s) (index0 s) (last_changed s), Norm (LItem x))
                  end
    | EUndefPrev => (s, Norm LUndefPrev) | EUndefNext => (s, Norm LUndefNext)
    | ESubscript a i => bin a i (fun s2 va vi =>
        match va, vi with
        | LTuple l, LInt z => match nth_error l (Z.to_nat z) with
                              | Some x => (s2, Norm (LItem x)) | None => (s2, Exc XIndexError) end
        | _, _ => (s2, Exc XBad)
        end)
    | EToIterator a => eval a s en
    | EWithSelf a => match eval a s en with
                     | (s1, Norm (LItem x)) => (s1, Norm (LNextResult x))
                     | (s1, Norm _) => (s1, Exc XBad)
                     | r => r end
    end.

  Inductive flow := Fall (en : env) | Ret (v : lv) | Raise (x : lexn).

  Definition lexn_eqb (a b : lexn) : bool :=
    match a, b with XStop, XStop | XTypeError, XTypeError | XIndexError, XIndexError | XBad, XBad => true | _, _ => false end.

  Fixpoint exec (stm : stmt) (s : st) (en : env) {struct stm} : st * flow :=
    let execs := fix execs (l : list stmt) (s : st) (en : env) {struct l} : st * flow :=
      match l with
      | [] => (s, Fall en)
      | x :: r => match exec x s en with (s1, Fall en1) => execs r s1 en1 | other => other end
      end in
    match stm with
    | SAssign x e => match eval e s en with
                     | (s1, Norm v) => (s1, Fall ((x, v) :: en)) | (s1, Exc x1) => (s1, Raise x1) end
    | SSetField f e => match eval e s en with
                       | (s1, Norm v) => match set_field f v s1 with
                                         | Some s2 => (s2, Fall en) | None => (s1, Raise XBad) end
                       | (s1, Exc x1) => (s1, Raise x1) end
    | SIncrField f z => match as_int (get_field f s) with
                        | Some n => match set_field f (LInt (n + z)) s with
                                    | Some s2 => (s2, Fall en) | None => (s, Raise XBad) end
                        | None => (s, Raise XBad) end
    | SIf c t e => match eval c s en with
                   | (s1, Norm v) => if as_bool v then execs t s1 en else execs e s1 en
                   | (s1, Exc x1) => (s1, Raise x1) end
    | STry body x handler =>
        match execs body s en with
        | (s1, Raise x1) => if lexn_eqb x1 x then execs handler s1 en else (s1, Raise x1)
        | other => other
        end
    | SReturn e => match eval e s en with
                   | (s1, Norm v) => (s1, Ret v) | (s1, Exc x1) => (s1, Raise x1) end
    | SRaiseTypeError => (s, Raise XTypeError)
    end.

  Fixpoint execs (l : list stmt) (s : st) (en : env) : st * flow :=
    match l with
    | [] => (s, Fall en)
    | x :: r => match exec x s en with (s1, Fall en1) => execs r s1 en1 | other => other end
    end.
End Interp.

(* presentations of a method result in the model's types *)
Definition as_num (r : st * flow) : st * Z := match r with (s, Ret (LInt z)) => (s, z) | (s, _) => (s, -1) end.
Definition as_answer (r : st * flow) : st * answer :=
  match r with
  | (s, Ret (LInt z)) => (s, ANum z)
  | (s, Ret (LBool b)) => (s, ABool b)
  | (s, Ret (LItem x)) => (s, AItem x)
  | (s, Ret LUndefPrev) => (s, ANoPrev)
  | (s, Ret LMissing) => (s, ANoPrev)      (* the model presents an (unreachable) `missing` _before this way *)
  | (s, Ret LUndefNext) => (s, ANoNext)
  | (s, _) => (s, ATypeError)
  end.
Definition as_peek (r : st * flow) : st * option item :=
  match r with (s, Ret (LItem x)) => (s, Some x) | (s, _) => (s, None) end.
Definition as_next (r : st * flow) : option (item * st) :=
  match r with (s, Ret (LNextResult x)) => Some (x, s) | _ => None end.

(* the record is determined by its fields (used to close goals of the form  upd s ... = s) *)
Lemma st_eta : forall s, upd s (rem s) (after s) (lenc s) (before s) (current s) (index0 s) (last_changed s) = s.
Proof. intros []. reflexivity. Qed.

Lemma lv_opt_opt_lv : forall o, lv_opt (opt_lv o) = Some o.
Proof. intros [x|]; reflexivity. Qed.
