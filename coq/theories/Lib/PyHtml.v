(* A deep embedding of the Python vocabulary used by the HTML-producing cores of C24 —
   utils.htmlsafe_json_dumps, filters.do_forceescape, filters.do_xmlattr, filters.do_indent —
   over tagged strings (plain str / markupsafe.Markup) with MarkupSafe's operator semantics.
   Companion of Lib/PyFilt.v (which covers the integer / list vocabulary of C22 / C23).  The
   translator gen/filt_translate_html.py turns the CURRENT source of each function into a term
   (fail-closed); generated files Gen_filt_<name>.v prove interpreted term = model function. *)
From Coq Require Import List ZArith NArith Bool String.
Import ListNotations.
From JV Require Import Model.FiltStr Model.FiltHtml.
Open Scope Z_scope.

Inductive herr := HValueError | HStuck.

(* a value of an xmlattr dict *)
Inductive xval := XNone | XUndef | XVal (t : tstr).

Inductive value :=
| VT (t : tstr) | VNone | VUndef | VB (b : bool) | VZ (z : Z)
| VLines (l : list tstr)                      (* a list of strings *)
| VItems (d : list (str * xval)).             (* d.items() *)

Inductive expr :=
| EVar (x : string) | EStr (s : str) | ENone
| EMarkup (e : expr)                          (* Markup(e) *)
| EEscape (e : expr)                          (* escape(e) *)
| EStrOf (e : expr)                           (* str(e) *)
| EHtml (e : expr)                            (* e.__html__() *)
| EHasHtml (e : expr)                         (* hasattr(e, "__html__") *)
| EReplace (e old new : expr)                 (* e.replace(old, new) on a plain str *)
| EIsNone (e : expr) | EIsUndef (e : expr)    (* e is None, isinstance(e, Undefined) *)
| EIsStr (e : expr) | EIsMarkup (e : expr)    (* isinstance(e, str), isinstance(e, Markup) *)
| EOr (a b : expr) | EAnd (a b : expr)
| EFmt (parts : list expr)                    (* f"...{e}..." *)
| EConcat (a b : expr)                        (* a + b *)
| ERepeat (a n : expr)                        (* a * n *)
| EJoin (sep lst : expr)                      (* sep.join(lst) *)
| EJoinMap (sep : expr) (x : string) (lst : expr) (body : expr)   (* sep.join(body for x in lst) *)
| EIfExp (c a b : expr)                       (* a if c else b *)
| ESplitlines (e : expr)
| EKeyBad (e : expr)                          (* _attr_key_re.search(e) is not None *)
| EItems (e : expr)                           (* e.items() *)
| ESliceFrom (e : expr) (n : nat)             (* e[n:] on a plain str *)
| ESplitWs (e : expr).                        (* re.split(r"(\s+)", e) *)

Inductive stmt :=
| SAssign (x : string) (e : expr)
| SAugAdd (x : string) (e : expr)
| SAppendLine (x : string) (e : expr)         (* x.append(e) for a list of strings *)
| SPop0 (x : string) (lst : string)           (* x = lst.pop(0) *)
| SNewList (x : string)                       (* x = [] *)
| SIf (c : expr) (t e : block)
| SForItems (k v : string) (it : expr) (body : block)    (* for k, v in it *)
| SContinue
| SRaiseValueError
| SReturn (e : expr)
with block := BNil | BCons (s : stmt) (b : block).

Definition env := list (string * value).
Fixpoint get (x : string) (e : env) : option value :=
  match e with [] => None | (y, v) :: r => if String.eqb x y then Some v else get x r end.
Fixpoint set (x : string) (v : value) (e : env) : env :=
  match e with
  | [] => [(x, v)]
  | (y, w) :: r => if String.eqb x y then (y, v) :: r else (y, w) :: set x v r
  end.

Inductive outcome (X : Type) := Good (x : X) | Bad (e : herr).
Arguments Good {X} _. Arguments Bad {X} _.

(* MarkupSafe's operators *)
Definition t_concat (a b : tstr) : tstr :=
  match a, b with
  | Plain x, Plain y => Plain (x ++ y)
  | Mk x, y => Mk (x ++ escape_t y)                 (* Markup.__add__ escapes the other operand *)
  | Plain x, Mk y => Mk (escape x ++ y)             (* Markup.__radd__ *)
  end.
Definition t_join (sep : tstr) (items : list tstr) : tstr :=
  match sep with
  | Mk s => Mk (join s (map escape_t items))         (* Markup.join escapes plain items *)
  | Plain s => Plain (join s (map payload items))    (* str.join sees Markup items as text *)
  end.
Definition t_splitlines (t : tstr) : list tstr :=
  match t with Plain s => map Plain (splitlines s) | Mk s => map Mk (splitlines s) end.
Definition t_escape (t : tstr) : tstr := Mk (escape_t t).
Definition t_repeat (t : tstr) (n : Z) : tstr :=
  let r := List.concat (repeat (payload t) (Z.to_nat n)) in match t with Plain _ => Plain r | Mk _ => Mk r end.

Definition truthy (v : value) : option bool :=
  match v with
  | VB b => Some b
  | VT t => Some (nonempty (payload t))
  | VNone => Some false
  | VLines l => Some (match l with [] => false | _ => true end)
  | VZ z => Some (negb (z =? 0))
  | VUndef | VItems _ => None
  end.

Definition of_xval (x : xval) : value := match x with XNone => VNone | XUndef => VUndef | XVal t => VT t end.

(* evaluation of a generator expression's element for each item *)
Fixpoint map_out (f : tstr -> outcome value) (ls : list tstr) : outcome (list tstr) :=
  match ls with
  | [] => Good []
  | t :: r => match f t, map_out f r with
              | Good (VT u), Good us => Good (u :: us)
              | Bad e1, _ => Bad e1
              | _, Bad e2 => Bad e2
              | _, _ => Bad HStuck
              end
  end.

Fixpoint eval (e : expr) (en : env) {struct e} : outcome value :=
  let text (e : expr) : outcome tstr :=
    match eval e en with Good (VT t) => Good t | Good _ => Bad HStuck | Bad x => Bad x end in
  let cond (e : expr) : outcome bool :=
    match eval e en with
    | Good v => match truthy v with Some b => Good b | None => Bad HStuck end
    | Bad x => Bad x
    end in
  match e with
  | EVar x => match get x en with Some v => Good v | None => Bad HStuck end
  | EStr s => Good (VT (Plain s))
  | ENone => Good VNone
  | EMarkup a => match text a with Good t => Good (VT (Mk (payload t))) | Bad x => Bad x end
  | EEscape a => match text a with Good t => Good (VT (t_escape t)) | Bad x => Bad x end
  | EStrOf a => match text a with Good t => Good (VT (Plain (payload t))) | Bad x => Bad x end
  | EHtml a => match text a with Good (Mk s) => Good (VT (Mk s)) | Good _ => Bad HStuck | Bad x => Bad x end
  | EHasHtml a => match text a with Good (Mk _) => Good (VB true) | Good _ => Good (VB false) | Bad x => Bad x end
  | EReplace a old new =>
      match text a, text old, text new with
      | Good (Plain s), Good (Plain [c]), Good (Plain r) => Good (VT (Plain (replace_char c r s)))
      | Bad x, _, _ => Bad x
      | _, Bad x, _ => Bad x
      | _, _, Bad x => Bad x
      | _, _, _ => Bad HStuck
      end
  | EIsNone a => match eval a en with Good VNone => Good (VB true) | Good _ => Good (VB false) | Bad x => Bad x end
  | EIsUndef a => match eval a en with Good VUndef => Good (VB true) | Good _ => Good (VB false) | Bad x => Bad x end
  | EIsStr a => match eval a en with Good (VT _) => Good (VB true) | Good _ => Good (VB false) | Bad x => Bad x end
  | EIsMarkup a => match eval a en with Good (VT (Mk _)) => Good (VB true) | Good _ => Good (VB false) | Bad x => Bad x end
  | EOr a b => match cond a with
               | Good true => Good (VB true)
               | Good false => match cond b with Good t => Good (VB t) | Bad x => Bad x end
               | Bad x => Bad x
               end
  | EAnd a b => match cond a with
                | Good false => Good (VB false)
                | Good true => match cond b with Good t => Good (VB t) | Bad x => Bad x end
                | Bad x => Bad x
                end
  | EFmt parts =>
      match (fix go (ps : list expr) : outcome str :=
         match ps with
         | [] => Good []
         | p :: r => match eval p en, go r with
                     | Good (VT t), Good s => Good (payload t ++ s)
                     | Bad x, _ => Bad x
                     | _, Bad x => Bad x
                     | _, _ => Bad HStuck
                     end
         end) parts
      with Good s => Good (VT (Plain s)) | Bad x => Bad x end
  | EConcat a b => match text a, text b with
                   | Good x, Good y => Good (VT (t_concat x y))
                   | Bad x, _ => Bad x
                   | _, Bad x => Bad x
                   end
  | ERepeat a n => match text a, eval n en with
                   | Good x, Good (VZ k) => Good (VT (t_repeat x k))
                   | Bad x, _ => Bad x
                   | _, Bad x => Bad x
                   | _, _ => Bad HStuck
                   end
  | EJoin sep lst => match text sep, eval lst en with
                     | Good s, Good (VLines l) => Good (VT (t_join s l))
                     | Bad x, _ => Bad x
                     | _, Bad x => Bad x
                     | _, _ => Bad HStuck
                     end
  | EJoinMap sep x lst body =>
      match text sep, eval lst en with
      | Good s, Good (VLines l) =>
          match map_out (fun t => eval body ((x, VT t) :: en)) l
          with Good us => Good (VT (t_join s us)) | Bad e1 => Bad e1 end
      | Bad e1, _ => Bad e1
      | _, Bad e2 => Bad e2
      | _, _ => Bad HStuck
      end
  | EIfExp c a b => match cond c with
                    | Good true => eval a en
                    | Good false => eval b en
                    | Bad x => Bad x
                    end
  | ESplitlines a => match text a with Good t => Good (VLines (t_splitlines t)) | Bad x => Bad x end
  | EKeyBad a => match text a with Good t => Good (VB (existsb bad_key_char (payload t))) | Bad x => Bad x end
  | EItems a => match eval a en with Good (VItems d) => Good (VItems d) | Good _ => Bad HStuck | Bad x => Bad x end
  | ESliceFrom a n => match text a with Good (Plain s) => Good (VT (Plain (skipn n s))) | Good _ => Bad HStuck | Bad x => Bad x end
  | ESplitWs a => match text a with Good (Plain s) => Good (VLines (map Plain (words_of s))) | Good _ => Bad HStuck | Bad x => Bad x end
  end.

Inductive flow := Fall (en : env) | Cont (en : env) | Ret (v : value) | Raise (e : herr).

Fixpoint loop_items (step : str -> xval -> env -> flow) (d : list (str * xval)) (en : env) : flow :=
  match d with
  | [] => Fall en
  | (k, v) :: r => match step k v en with
                   | Fall en' | Cont en' => loop_items step r en'
                   | other => other
                   end
  end.

Fixpoint exec (s : stmt) (en : env) {struct s} : flow :=
  match s with
  | SAssign x e => match eval e en with Good v => Fall (set x v en) | Bad x1 => Raise x1 end
  | SAugAdd x e => match eval (EConcat (EVar x) e) en with Good v => Fall (set x v en) | Bad x1 => Raise x1 end
  | SAppendLine x e =>
      match get x en, eval e en with
      | Some (VLines l), Good (VT t) => Fall (set x (VLines (l ++ [t])) en)
      | _, Bad x1 => Raise x1
      | _, _ => Raise HStuck
      end
  | SPop0 x lst =>
      match get lst en with
      | Some (VLines (t :: r)) => Fall (set x (VT t) (set lst (VLines r) en))
      | _ => Raise HStuck
      end
  | SNewList x => Fall (set x (VLines []) en)
  | SIf c t e =>
      match eval c en with
      | Good v => match truthy v with
                  | Some true => execs t en
                  | Some false => execs e en
                  | None => Raise HStuck
                  end
      | Bad x1 => Raise x1
      end
  | SForItems k v it body =>
      match eval it en with
      | Good (VItems d) =>
          loop_items (fun key val en' => execs body (set v (of_xval val) (set k (VT (Plain key)) en'))) d en
      | Good _ => Raise HStuck
      | Bad x1 => Raise x1
      end
  | SContinue => Cont en
  | SRaiseValueError => Raise HValueError
  | SReturn e => match eval e en with Good v => Ret v | Bad x1 => Raise x1 end
  end
with execs (b : block) (en : env) {struct b} : flow :=
  match b with
  | BNil => Fall en
  | BCons s r => match exec s en with Fall en' => execs r en' | other => other end
  end.

Definition run_fun (body : block) (en : env) : outcome value :=
  match execs body en with
  | Ret v => Good v
  | Fall _ | Cont _ => Good VNone
  | Raise e => Bad e
  end.
