(* A deep embedding of the statement vocabulary of the parameter-assembly part of
   jinja2.compiler.CodeGenerator.macro_body (from `explicit_caller = None` to the `varargs`
   branch), with its interpreter over the values of Model/Macro.v.  gen/macrobody_translate.py
   turns the CURRENT source of that part into a term (fail-closed); Gen_macrobody.v proves the
   interpreted term equal to the model function macro_body_sig for every macro definition: the
   `for idx, arg in enumerate(node.args)` loop by induction over the parameter list, the rest by
   symbolic evaluation. *)
From Coq Require Import List NArith ZArith Bool String Arith Lia.
Import ListNotations.
From JV Require Import Model.Macro.

Inductive bv :=
| BName (n : name) | BNat (n : nat) | BNone | BBool (b : bool)
| BNames (l : list name)            (* node.args (their names) *)
| BSet (l : list name)              (* a set of names *)
| BParams (l : list pyparam)        (* the `args` list of emitted parameter references *)
| BParam (p : pyparam)
| BUnbound.

Inductive expr :=
| ELocal (x : string)
| ENameOf (e : expr)                (* e.name *)
| EStr (n : name)                   (* "caller" / "kwargs" / "varargs" *)
| ENone
| EEmptySet | EEmptyList
| ENodeArgs                         (* node.args *)
| ELenNodeArgs                      (* len(node.args) *)
| EEq (a b : expr)
| EIn (a b : expr) | ENotIn (a b : expr)
| EInNames (a : expr) (l : list name)   (* a in ("kwargs", "varargs") *)
| EAnd (a b : expr)
| EIsNotNone (e : expr)
| ERef (e : expr)                   (* frame.symbols.ref(e) *)
| EDeclare (n : name)               (* frame.symbols.declare_parameter("<special>") *)
| EFindUndeclared.                  (* find_undeclared(node.body, ("caller", "kwargs", "varargs")) *)

Inductive flag := FCaller | FKwargs | FVarargs.

Inductive stmt :=
| SAssign (x : string) (e : expr)
| SIf (c : expr) (t e : list stmt)
| SForEnum (i x : string) (body : list stmt)      (* for i, x in enumerate(node.args) *)
| SSetAdd (x : string) (e : expr)
| SAppend (x : string) (e : expr)
| STryDefault (idx : string) (handler : list stmt) (* try: node.defaults[idx - len(node.args)] except IndexError: handler *)
| SFail                                            (* self.fail(...) *)
| SSetFlag (f : flag).                             (* macro_ref.accesses_<f> = True *)

Definition env := list (string * bv).
Fixpoint env_get (x : string) (e : env) : bv :=
  match e with [] => BUnbound | (y, v) :: r => if String.eqb x y then v else env_get x r end.
Fixpoint env_set (x : string) (v : bv) (e : env) : env :=
  match e with
  | [] => []
  | (y, w) :: r => if String.eqb x y then (y, v) :: r else (y, w) :: env_set x v r
  end.

Record flags := { fl_caller : bool; fl_kwargs : bool; fl_varargs : bool }.
Definition set_flag (f : flag) (fl : flags) : flags :=
  match f with
  | FCaller => {| fl_caller := true; fl_kwargs := fl_kwargs fl; fl_varargs := fl_varargs fl |}
  | FKwargs => {| fl_caller := fl_caller fl; fl_kwargs := true; fl_varargs := fl_varargs fl |}
  | FVarargs => {| fl_caller := fl_caller fl; fl_kwargs := fl_kwargs fl; fl_varargs := true |}
  end.

Definition undeclared_of (d : mdef) : list name :=
  (if u_caller d then [n_caller] else []) ++ (if u_kwargs d then [n_kwargs] else [])
  ++ (if u_varargs d then [n_varargs] else []).

Definition special_param (n : name) : pyparam :=
  if N.eqb n n_caller then PCaller else if N.eqb n n_kwargs then PKwargs else if N.eqb n n_varargs then PVarargs
  else PName n.

Definition as_bool (v : bv) : bool :=
  match v with BBool b => b | BNone => false | BUnbound => false | _ => true end.

Fixpoint eval (e : expr) (d : mdef) (en : env) : option bv :=
  match e with
  | ELocal x => Some (env_get x en)
  | ENameOf a => match eval a d en with Some (BName n) => Some (BName n) | _ => None end
  | EStr n => Some (BName n)
  | ENone => Some BNone
  | EEmptySet => Some (BSet [])
  | EEmptyList => Some (BParams [])
  | ENodeArgs => Some (BNames (d_params d))
  | ELenNodeArgs => Some (BNat (List.length (d_params d)))
  | EEq a b => match eval a d en, eval b d en with
               | Some (BName x), Some (BName y) => Some (BBool (N.eqb x y))
               | _, _ => None end
  | EIn a b => match eval a d en, eval b d en with
               | Some (BName x), Some (BSet l) => Some (BBool (mem x l))
               | _, _ => None end
  | ENotIn a b => match eval a d en, eval b d en with
                  | Some (BName x), Some (BSet l) => Some (BBool (negb (mem x l)))
                  | _, _ => None end
  | EInNames a l => match eval a d en with Some (BName x) => Some (BBool (mem x l)) | _ => None end
  | EAnd a b => match eval a d en with
                | Some v => if as_bool v then eval b d en else Some v
                | None => None end
  | EIsNotNone a => match eval a d en with
                    | Some BNone => Some (BBool false) | Some _ => Some (BBool true) | None => None end
  | ERef a => match eval a d en with Some (BName n) => Some (BParam (PName n)) | _ => None end
  | EDeclare n => Some (BParam (special_param n))
  | EFindUndeclared => Some (BSet (undeclared_of d))
  end.

Inductive flow := Fall (en : env) (fl : flags) | Fail | Bad.

Fixpoint exec (st : stmt) (d : mdef) (en : env) (fl : flags) {struct st} : flow :=
  let execs := fix execs (l : list stmt) (en : env) (fl : flags) {struct l} : flow :=
    match l with
    | [] => Fall en fl
    | x :: r => match exec x d en fl with Fall en1 fl1 => execs r en1 fl1 | other => other end
    end in
  match st with
  | SAssign x e => match eval e d en with Some v => Fall (env_set x v en) fl | None => Bad end
  | SIf c t e => match eval c d en with
                 | Some v => if as_bool v then execs t en fl else execs e en fl
                 | None => Bad end
  | SForEnum i x body =>
      (fix loop (items : list name) (k : nat) (en : env) (fl : flags) {struct items} : flow :=
         match items with
         | [] => Fall en fl
         | n :: r => match execs body (env_set x (BName n) (env_set i (BNat k) en)) fl with
                     | Fall en' fl' => loop r (S k) en' fl'
                     | other => other
                     end
         end) (d_params d) O en fl
  | SSetAdd x e => match eval e d en, env_get x en with
                   | Some (BName n), BSet l => Fall (env_set x (BSet (n :: l)) en) fl
                   | _, _ => Bad end
  | SAppend x e => match eval e d en, env_get x en with
                   | Some (BParam p), BParams l => Fall (env_set x (BParams (l ++ [p])) en) fl
                   | _, _ => Bad end
  | STryDefault idx handler =>
      match env_get idx en with
      | BNat k =>
          (* node.defaults[k - len(node.args)]: a negative index, IndexError when it reaches
             before the first default *)
          if Nat.ltb (List.length (d_defaults d)) (List.length (d_params d) - k) then execs handler en fl
          else if Nat.leb (List.length (d_params d) + List.length (d_defaults d)) k then execs handler en fl
          else Fall en fl
      | _ => Bad
      end
  | SFail => Fail
  | SSetFlag f => Fall en (set_flag f fl)
  end.

Fixpoint execs (l : list stmt) (d : mdef) (en : env) (fl : flags) : flow :=
  match l with
  | [] => Fall en fl
  | x :: r => match exec x d en fl with Fall en1 fl1 => execs r d en1 fl1 | other => other end
  end.

Fixpoint for_enum (i x : string) (body : list stmt) (d : mdef) (items : list name) (k : nat) (en : env) (fl : flags) : flow :=
  match items with
  | [] => Fall en fl
  | n :: r => match execs body d (env_set x (BName n) (env_set i (BNat k) en)) fl with
              | Fall en' fl' => for_enum i x body d r (S k) en' fl'
              | other => other
              end
  end.

Lemma local_execs_eq : forall d l en fl,
  (fix execs (l : list stmt) (en : env) (fl : flags) {struct l} : flow :=
     match l with
     | [] => Fall en fl
     | x :: r => match exec x d en fl with Fall en1 fl1 => execs r en1 fl1 | other => other end
     end) l en fl = execs l d en fl.
Proof.
  intros d l. induction l as [|a r IH]; intros en fl; [reflexivity|].
  cbn [execs]. destruct (exec a d en fl); auto.
Qed.

Lemma exec_for_unfold : forall i x body d en fl,
  exec (SForEnum i x body) d en fl = for_enum i x body d (d_params d) O en fl.
Proof.
  intros i x body d en fl. cbn [exec]. generalize (d_params d) O en fl.
  induction l as [|n r IH]; intros k en0 fl0; [reflexivity|].
  cbn [for_enum]. rewrite local_execs_eq.
  destruct (execs body d (env_set x (BName n) (env_set i (BNat k) en0)) fl0); try reflexivity. apply IH.
Qed.

Lemma exec_if_unfold : forall c t e d en fl,
  exec (SIf c t e) d en fl =
  match eval c d en with
  | Some v => if as_bool v then execs t d en fl else execs e d en fl
  | None => Bad end.
Proof. intros. cbn [exec]. destruct (eval c d en); [|reflexivity]. rewrite !local_execs_eq. reflexivity. Qed.

Lemma exec_try_unfold : forall idx handler d en fl,
  exec (STryDefault idx handler) d en fl =
  match env_get idx en with
  | BNat k =>
      if Nat.ltb (List.length (d_defaults d)) (List.length (d_params d) - k) then execs handler d en fl
      else if Nat.leb (List.length (d_params d) + List.length (d_defaults d)) k then execs handler d en fl
      else Fall en fl
  | _ => Bad
  end.
Proof. intros. cbn [exec]. destruct (env_get idx en); try reflexivity. rewrite !local_execs_eq. reflexivity. Qed.

Lemma exec_assign_unfold : forall x e d en fl,
  exec (SAssign x e) d en fl = match eval e d en with Some v => Fall (env_set x v en) fl | None => Bad end.
Proof. reflexivity. Qed.
Lemma exec_setadd_unfold : forall x e d en fl,
  exec (SSetAdd x e) d en fl = match eval e d en, env_get x en with
                               | Some (BName n), BSet l => Fall (env_set x (BSet (n :: l)) en) fl
                               | _, _ => Bad end.
Proof. reflexivity. Qed.
Lemma exec_append_unfold : forall x e d en fl,
  exec (SAppend x e) d en fl = match eval e d en, env_get x en with
                               | Some (BParam p), BParams l => Fall (env_set x (BParams (l ++ [p])) en) fl
                               | _, _ => Bad end.
Proof. reflexivity. Qed.
Lemma exec_fail_unfold : forall d en fl, exec SFail d en fl = Fail.
Proof. reflexivity. Qed.
Lemma exec_flag_unfold : forall f d en fl, exec (SSetFlag f) d en fl = Fall en (set_flag f fl).
Proof. reflexivity. Qed.

Global Opaque exec.
#[export] Hint Rewrite exec_for_unfold exec_if_unfold exec_try_unfold exec_assign_unfold exec_setadd_unfold
  exec_append_unfold exec_fail_unfold exec_flag_unfold : pybody.

Ltac bcbn :=
  cbn [execs eval env_get env_set String.eqb Ascii.eqb Bool.eqb as_bool for_enum set_flag
       fl_caller fl_kwargs fl_varargs negb andb orb mem app
       d_params d_defaults u_caller u_kwargs u_varargs].
Ltac bstep := repeat (progress (bcbn; autorewrite with pybody)).

(* facts about the model used by the generated proof *)
Lemma last_index_bound : forall n l i acc idx,
  last_index n l i acc = Some idx -> (acc = Some idx \/ (i <= idx < i + List.length l)%nat).
Proof.
  intros n l. induction l as [|x r IH]; intros i acc idx H; cbn [last_index] in H.
  - left. exact H.
  - apply IH in H. destruct H as [H|H].
    + destruct (N.eqb x n); [injection H as <-; right; cbn; lia|left; exact H].
    + right. cbn [List.length]. lia.
Qed.

Lemma mem_undeclared : forall d,
  mem n_caller (undeclared_of d) = u_caller d /\ mem n_kwargs (undeclared_of d) = u_kwargs d /\
  mem n_varargs (undeclared_of d) = u_varargs d.
Proof. intros d. unfold undeclared_of. destruct (u_caller d), (u_kwargs d), (u_varargs d); cbn; auto. Qed.
