(* A generic reduction theorem for lock-protected operations.

   Threads execute lists of operations on a shared state.  Every operation runs inside one
   critical section of a single lock: Acquire, then any number of micro-steps on the shared
   state (one per source line, say), then Release.  Threads are scheduled arbitrarily at
   micro-step granularity.  Theorem: whatever the schedule, the shared state and every
   result are those of the sequential execution of the operations in lock-acquisition order. *)
From Coq Require Import List Arith Lia Bool.
Import ListNotations.

Section LockAtomic.
  Variables (S Op Out : Type).
  Variable step : S -> Op -> S * Out.                 (* sequential semantics of one operation *)
  (* the micro-steps an operation performs when started in state s *)
  Variable decomp : Op -> S -> list (S -> S).
  Hypothesis decomp_ok : forall o s, fold_left (fun a f => f a) (decomp o s) s = fst (step s o).

  Record thread := { todo : list Op; inflight : option (list (S -> S) * Out); outs : list Out }.
  Record sys := { shared : S; holder : option nat; threads : list thread }.

  Fixpoint upd (ts : list thread) (i : nat) (t : thread) : list thread :=
    match ts, i with
    | [], _ => []
    | _ :: r, O => t :: r
    | x :: r, Datatypes.S i' => x :: upd r i' t
    end.

  (* one micro-step of thread i; None when thread i is not enabled (blocked on the lock,
     finished, or not existing) *)
  Definition tstep (y : sys) (i : nat) : option sys :=
    match nth_error (threads y) i with
    | None => None
    | Some t =>
        match inflight t with
        | None =>
            match todo t, holder y with
            | o :: r, None =>                           (* Acquire *)
                Some {| shared := shared y; holder := Some i;
                        threads := upd (threads y) i
                          {| todo := r; inflight := Some (decomp o (shared y), snd (step (shared y) o));
                             outs := outs t |} |}
            | _, _ => None
            end
        | Some (f :: fs, x) =>                          (* a line of the critical section *)
            Some {| shared := f (shared y); holder := holder y;
                    threads := upd (threads y) i {| todo := todo t; inflight := Some (fs, x); outs := outs t |} |}
        | Some ([], x) =>                               (* Release *)
            Some {| shared := shared y; holder := None;
                    threads := upd (threads y) i {| todo := todo t; inflight := None; outs := outs t ++ [x] |} |}
        end
    end.

  (* run a schedule; disabled choices are skipped (a blocked thread simply does not move).
     The log records (thread, operation) at each Acquire. *)
  Fixpoint exec (y : sys) (log : list (nat * Op)) (sched : list nat) : sys * list (nat * Op) :=
    match sched with
    | [] => (y, log)
    | i :: r =>
        match tstep y i with
        | None => exec y log r
        | Some y' =>
            let log' := match nth_error (threads y) i with
                        | Some t => match inflight t, todo t with
                                    | None, o :: _ => log ++ [(i, o)]
                                    | _, _ => log
                                    end
                        | None => log
                        end in
            exec y' log' r
        end
    end.

  Fixpoint seq_run (s : S) (ops : list Op) : S * list Out :=
    match ops with
    | [] => (s, [])
    | o :: r => let '(s', x) := step s o in let '(s'', xs) := seq_run s' r in (s'', x :: xs)
    end.

  Definition init (s0 : S) (progs : list (list Op)) : sys :=
    {| shared := s0; holder := None;
       threads := map (fun p => {| todo := p; inflight := None; outs := [] |}) progs |}.

  Definition quiescent (y : sys) : Prop :=
    holder y = None /\ Forall (fun t => inflight t = None) (threads y).

  (* results of thread i in the sequential run of the log *)
  Fixpoint outs_of (i : nat) (log : list (nat * Op)) (xs : list Out) : list Out :=
    match log, xs with
    | (j, _) :: lr, x :: xr => if Nat.eqb i j then x :: outs_of i lr xr else outs_of i lr xr
    | _, _ => []
    end.

  Lemma seq_run_app s a b :
    seq_run s (a ++ b) =
    let '(s1, x1) := seq_run s a in let '(s2, x2) := seq_run s1 b in (s2, x1 ++ x2).
  Proof.
    revert s; induction a as [|o a IH]; intros s; cbn [app seq_run].
    - destruct (seq_run s b); reflexivity.
    - destruct (step s o) as [s' x]. rewrite IH. destruct (seq_run s' a) as [s1 x1].
      destruct (seq_run s1 b) as [s2 x2]. reflexivity.
  Qed.

  Lemma seq_run_length s ops : length (snd (seq_run s ops)) = length ops.
  Proof.
    revert s; induction ops as [|o r IH]; intros s; cbn [seq_run]; [reflexivity|].
    destruct (step s o) as [s' x]. specialize (IH s'). destruct (seq_run s' r). cbn in *. now rewrite IH.
  Qed.

  Lemma outs_of_app i l1 x1 l2 x2 : length l1 = length x1 ->
    outs_of i (l1 ++ l2) (x1 ++ x2) = outs_of i l1 x1 ++ outs_of i l2 x2.
  Proof.
    revert x1; induction l1 as [|[j o] l1 IH]; intros [|x x1] H; cbn in H; try discriminate; [reflexivity|].
    cbn [app outs_of]. destruct (Nat.eqb i j); cbn [app]; rewrite IH by lia; reflexivity.
  Qed.

  Lemma nth_error_upd_same ts i t t0 : nth_error ts i = Some t0 -> nth_error (upd ts i t) i = Some t.
  Proof.
    revert i; induction ts as [|x r IH]; intros [|i] H; cbn in *; try discriminate; [reflexivity|]. now apply IH.
  Qed.
  Lemma nth_error_upd_other ts i j t : i <> j -> nth_error (upd ts i t) j = nth_error ts j.
  Proof.
    revert i j; induction ts as [|x r IH]; intros [|i] [|j] H; cbn; try reflexivity; try congruence.
    apply IH. congruence.
  Qed.

  (* The invariant.  [s0] is the initial shared state, [log] the acquisitions so far. *)
  Definition thread_ok (log : list (nat * Op)) (xs : list Out) (i : nat) (t : thread) (extra : list Out) : Prop :=
    outs t ++ extra = outs_of i log xs.

  Definition Inv (s0 : S) (y : sys) (log : list (nat * Op)) : Prop :=
    match holder y with
    | None =>
        shared y = fst (seq_run s0 (map snd log)) /\
        forall i t, nth_error (threads y) i = Some t ->
          inflight t = None /\ outs t = outs_of i log (snd (seq_run s0 (map snd log)))
    | Some h =>
        exists log0 o th fs x,
          log = log0 ++ [(h, o)] /\ nth_error (threads y) h = Some th /\ inflight th = Some (fs, x) /\
          let spre := fst (seq_run s0 (map snd log0)) in
          x = snd (step spre o) /\
          fold_left (fun a f => f a) fs (shared y) = fst (step spre o) /\
          outs th = outs_of h log0 (snd (seq_run s0 (map snd log0))) /\
          forall i t, i <> h -> nth_error (threads y) i = Some t ->
            inflight t = None /\ outs t = outs_of i log0 (snd (seq_run s0 (map snd log0)))
    end.

  Lemma seq_run_snoc s0 l o :
    seq_run s0 (l ++ [o]) =
    (fst (step (fst (seq_run s0 l)) o), snd (seq_run s0 l) ++ [snd (step (fst (seq_run s0 l)) o)]).
  Proof.
    rewrite seq_run_app. destruct (seq_run s0 l) as [s1 x1]. cbn [seq_run fst snd].
    destruct (step s1 o) as [s2 x]. reflexivity.
  Qed.

  Lemma outs_of_snoc i log xs j o x : length log = length xs ->
    outs_of i (log ++ [(j, o)]) (xs ++ [x]) = outs_of i log xs ++ (if Nat.eqb i j then [x] else []).
  Proof. intros H. rewrite outs_of_app by exact H. cbn [outs_of]. now destruct (Nat.eqb i j). Qed.

  Lemma inv_step s0 y log i y' :
    Inv s0 y log -> tstep y i = Some y' ->
    Inv s0 y' (match nth_error (threads y) i with
               | Some t => match inflight t, todo t with
                           | None, o :: _ => log ++ [(i, o)]
                           | _, _ => log
                           end
               | None => log
               end).
  Proof.
    unfold tstep. intros I H. destruct (nth_error (threads y) i) as [t|] eqn:Et; [|discriminate].
    assert (Hil : i < length (threads y)) by (apply nth_error_Some; congruence).
    destruct (inflight t) as [[fs x]|] eqn:Ef.
    - (* thread i is inside its critical section: it must be the holder *)
      unfold Inv in I. destruct (holder y) as [h|] eqn:Eh.
      2:{ destruct I as [_ I2]. destruct (I2 i t Et) as [C _]. congruence. }
      destruct I as [log0 [o [th [fs0 [x0 [El [Eth [Efh [Hx [Hfold [Houts Hothers]]]]]]]]]]].
      destruct (Nat.eq_dec i h) as [->|Hne].
      2:{ destruct (Hothers i t Hne Et) as [C _]. congruence. }
      assert (t = th) by congruence. subst th. assert (fs0 = fs /\ x0 = x) as [-> ->] by (split; congruence).
      destruct fs as [|f fs'].
      + (* Release *)
        injection H as <-. unfold Inv. cbn [holder shared threads].
        rewrite El, map_app. cbn [map snd]. rewrite seq_run_snoc. cbn [fst snd].
        cbn [fold_left] in Hfold. split; [exact Hfold|].
        intros j tj Hj. destruct (Nat.eq_dec j h) as [->|Hjh].
        * rewrite (nth_error_upd_same _ _ _ _ Et) in Hj. injection Hj as <-. cbn [inflight outs]. split; [reflexivity|].
          rewrite outs_of_snoc by (rewrite seq_run_length, map_length; reflexivity).
          rewrite Nat.eqb_refl, Houts, Hx. reflexivity.
        * rewrite nth_error_upd_other in Hj by auto. destruct (Hothers j tj Hjh Hj) as [A B].
          split; [exact A|]. rewrite outs_of_snoc by (rewrite seq_run_length, map_length; reflexivity).
          destruct (Nat.eqb_spec j h); [contradiction|]. now rewrite app_nil_r.
      + (* a body line *)
        injection H as <-. unfold Inv. cbn [holder shared threads].
        exists log0, o, {| todo := todo t; inflight := Some (fs', x); outs := outs t |}, fs', x.
        split; [exact El|]. split; [exact (nth_error_upd_same _ _ _ _ Et)|]. split; [reflexivity|].
        cbn zeta. split; [exact Hx|]. split; [exact Hfold|]. split; [exact Houts|].
        intros j tj Hjh Hj. rewrite nth_error_upd_other in Hj by auto. exact (Hothers j tj Hjh Hj).
    - (* Acquire *)
      destruct (todo t) as [|o r] eqn:Etd; [discriminate|].
      destruct (holder y) as [h|] eqn:Eh; [discriminate|].
      injection H as <-. unfold Inv in *. rewrite Eh in I. destruct I as [Hs Hall]. cbn [holder shared threads].
      exists log, o, {| todo := r; inflight := Some (decomp o (shared y), snd (step (shared y) o)); outs := outs t |},
        (decomp o (shared y)), (snd (step (shared y) o)).
      split; [reflexivity|]. split; [exact (nth_error_upd_same _ _ _ _ Et)|]. split; [reflexivity|].
      cbn zeta. rewrite <- Hs. split; [reflexivity|]. split; [apply decomp_ok|].
      split; [exact (proj2 (Hall i t Et))|].
      intros j tj Hji Hj. rewrite nth_error_upd_other in Hj by auto. exact (Hall j tj Hj).
  Qed.

  Lemma inv_exec s0 sched : forall y log y' log',
    Inv s0 y log -> exec y log sched = (y', log') -> Inv s0 y' log'.
  Proof.
    induction sched as [|i r IH]; intros y log y' log' I H; cbn [exec] in H.
    - injection H as <- <-. exact I.
    - destruct (tstep y i) as [y1|] eqn:E; [|exact (IH _ _ _ _ I H)].
      exact (IH _ _ _ _ (inv_step s0 y log i y1 I E) H).
  Qed.

  Lemma inv_init s0 progs : Inv s0 (init s0 progs) [].
  Proof.
    unfold Inv, init. cbn [holder shared threads map seq_run fst snd]. split; [reflexivity|].
    intros i t H. rewrite nth_error_map in H. destruct (nth_error progs i); [|discriminate].
    injection H as <-. cbn. split; reflexivity.
  Qed.

  (* Main theorem: at any point where no operation is in flight, the shared state and the
     results collected by every thread are exactly those of running the acquired operations
     sequentially in acquisition order. *)
  Theorem locked_ops_atomic s0 progs sched y log :
    exec (init s0 progs) [] sched = (y, log) -> holder y = None ->
    shared y = fst (seq_run s0 (map snd log)) /\
    forall i t, nth_error (threads y) i = Some t ->
      outs t = outs_of i log (snd (seq_run s0 (map snd log))).
  Proof.
    intros H Hh. pose proof (inv_exec s0 sched _ _ _ _ (inv_init s0 progs) H) as I.
    unfold Inv in I. rewrite Hh in I. destruct I as [A B]. split; [exact A|].
    intros i t Ht. exact (proj2 (B i t Ht)).
  Qed.
End LockAtomic.
