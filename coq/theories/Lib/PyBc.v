(* Deep embeddings of the Python vocabulary of jinja2.bccache.Bucket.load_bytecode and of the
   control skeleton of FileSystemBytecodeCache.dump_bytecode, with their interpreters over the
   bytecode-cache model (Model/Bc.v).  gen/bc_translate.py turns the CURRENT source of both
   methods into terms of these languages (fail-closed); the generated file proves
     - interpreted load_bytecode term = Model.Bc.load_bytecode with the handler classes the term
       itself carries, for every magic, every pickle / marshal outcome function, every wanted
       checksum and every byte string (symbolic evaluation + case analysis);
     - the dump_bytecode term is the skeleton [dump_skeleton] below, whose interpretation under
       every crash point and every fault point is proved here (dump_skeleton_crash / _fault) to
       leave the file system Model.Bc.crash_after / fault_after describe. *)
From Coq Require Import List NArith Bool String Arith Lia.
Import ListNotations.
From JV Require Import Model.Bc.
Open Scope N_scope.

(* ================================================================== load_bytecode *)
Inductive value := VBytes (b : bytes) | VNum (n : N) | VCode (c : N) | VNone.

Inductive expr :=
| EVar (x : string)
| EReadMagic            (* f.read(len(bc_magic)) *)
| EMagic                (* bc_magic *)
| ESelfChecksum         (* self.checksum *)
| EPickleLoad           (* pickle.load(f) *)
| EMarshalLoad.         (* marshal.load(f) *)

Inductive cond := CNe (a b : expr) | CEq (a b : expr).

Inductive stmt :=
| SAssign (x : string) (e : expr)
| SSetCode (e : expr)                       (* self.code = e *)
| SReset                                    (* self.reset() *)
| SReturn
| SIf (c : cond) (t e : list stmt)
| STry (body : list stmt) (classes : list hclass) (handler : list stmt).

Definition env := list (string * value).
Fixpoint env_get (x : string) (e : env) : value :=
  match e with [] => VNone | (y, v) :: r => if String.eqb x y then v else env_get x r end.

Definition veq (a b : value) : bool :=
  match a, b with
  | VBytes x, VBytes y => bytes_eqb x y
  | VNum x, VNum y => x =? y
  | VCode x, VCode y => x =? y
  | VNone, VNone => true
  | _, _ => false
  end.

Record lstate := { l_stream : bytes; l_code : option N; l_env : env }.
Inductive outcome := Norm (v : value) | Exc (e : exn).
Inductive flow := FFall | FRet | FRaise (e : exn).

Section Load.
  Variable magic : bytes.
  Variable pickle_load : bytes -> pres.
  Variable marshal_load : bytes -> mres.
  Variable want : N.

  Definition eval (e : expr) (s : lstate) : lstate * outcome :=
    match e with
    | EVar x => (s, Norm (env_get x (l_env s)))
    | EReadMagic => ({| l_stream := skipn (List.length magic) (l_stream s); l_code := l_code s; l_env := l_env s |},
                     Norm (VBytes (firstn (List.length magic) (l_stream s))))
    | EMagic => (s, Norm (VBytes magic))
    | ESelfChecksum => (s, Norm (VNum want))
    | EPickleLoad => match pickle_load (l_stream s) with
                     | POk c rest => ({| l_stream := rest; l_code := l_code s; l_env := l_env s |}, Norm (VNum c))
                     | PExn x => (s, Exc x)
                     end
    | EMarshalLoad => match marshal_load (l_stream s) with
                      | MOk c => (s, Norm (VCode c))
                      | MExn x => (s, Exc x)
                      end
    end.

  Definition eval_cond (c : cond) (s : lstate) : lstate * outcome :=
    match c with
    | CNe a b => match eval a s with
                 | (s1, Norm va) => match eval b s1 with
                                    | (s2, Norm vb) => (s2, Norm (VNum (if veq va vb then 0 else 1)))
                                    | r => r end
                 | r => r end
    | CEq a b => match eval a s with
                 | (s1, Norm va) => match eval b s1 with
                                    | (s2, Norm vb) => (s2, Norm (VNum (if veq va vb then 1 else 0)))
                                    | r => r end
                 | r => r end
    end.
  Definition truthy (v : value) : bool := match v with VNum 0 => false | VNone => false | _ => true end.

  Fixpoint exec (st : stmt) (s : lstate) {struct st} : lstate * flow :=
    let execs := fix execs (l : list stmt) (s : lstate) {struct l} : lstate * flow :=
      match l with
      | [] => (s, FFall)
      | x :: r => match exec x s with (s1, FFall) => execs r s1 | other => other end
      end in
    match st with
    | SAssign x e => match eval e s with
                     | (s1, Norm v) => ({| l_stream := l_stream s1; l_code := l_code s1; l_env := (x, v) :: l_env s1 |}, FFall)
                     | (s1, Exc x1) => (s1, FRaise x1) end
    | SSetCode e => match eval e s with
                    | (s1, Norm v) => ({| l_stream := l_stream s1; l_code := match v with VCode c => Some c | _ => None end;
                                          l_env := l_env s1 |}, FFall)
                    | (s1, Exc x1) => (s1, FRaise x1) end
    | SReset => ({| l_stream := l_stream s; l_code := None; l_env := l_env s |}, FFall)
    | SReturn => (s, FRet)
    | SIf c t e => match eval_cond c s with
                   | (s1, Norm v) => if truthy v then execs t s1 else execs e s1
                   | (s1, Exc x1) => (s1, FRaise x1) end
    | STry body classes handler =>
        match execs body s with
        | (s1, FRaise x1) => if catches classes x1 then execs handler s1 else (s1, FRaise x1)
        | other => other
        end
    end.
  Fixpoint execs (l : list stmt) (s : lstate) : lstate * flow :=
    match l with
    | [] => (s, FFall)
    | x :: r => match exec x s with (s1, FFall) => execs r s1 | other => other end
    end.

  (* a fresh Bucket (code = None), the method body run on the byte stream *)
  Definition interp_load (body : list stmt) (data : bytes) : lres :=
    match execs body {| l_stream := data; l_code := None; l_env := [] |} with
    | (_, FRaise x) => Raise x
    | (s, _) => match l_code s with Some c => Hit c | None => Miss end
    end.
End Load.

(* ================================================================== dump_bytecode skeleton *)
Inductive dexn := XOSError | XOther.                    (* OSError / any other BaseException *)
Inductive dh := DHOSError | DHBaseException.            (* names in the except clauses *)
Definition dcatches (h : dh) (x : dexn) : bool :=
  match h, x with DHBaseException, _ => true | DHOSError, XOSError => true | _, _ => false end.

Inductive dstmt :=
| DCreateTemp      (* f = tempfile.NamedTemporaryFile(mode="wb", dir=dirname(name), prefix=basename(name), suffix=<non-empty>, delete=False) *)
| DWithWrite       (* with f: bucket.write_bytecode(f) *)
| DReplace         (* os.replace(f.name, name) *)
| DRemoveSilent    (* remove_silent(): try: os.remove(f.name) except OSError: pass *)
| DReraise         (* raise *)
| DTry1 (body : list dstmt) (c1 : dh) (h1 : list dstmt)
| DTry2 (body : list dstmt) (c1 : dh) (h1 : list dstmt) (c2 : dh) (h2 : list dstmt).

Inductive event := EvCrash | EvFault (x : dexn).
Inductive dflow := DNormal | DRaise (x : dexn) | DCrashed.
(* budget: how many primitive file-system steps still succeed; None = no event pending *)
Record dstate := { d_fs : fsys; d_budget : option nat }.

Section Dump.
  Variables real tmp : fname.
  Variable chunks : list bytes.
  Variable ev : event.

  Fixpoint prims (ws : list wstep) (st : dstate) : dstate * dflow :=
    match ws with
    | [] => (st, DNormal)
    | w :: r =>
        match d_budget st with
        | Some O => match ev with
                    | EvCrash => (st, DCrashed)
                    | EvFault x => ({| d_fs := d_fs st; d_budget := None |}, DRaise x)
                    end
        | Some (S b) => prims r {| d_fs := exec_step real tmp (d_fs st) w; d_budget := Some b |}
        | None => prims r {| d_fs := exec_step real tmp (d_fs st) w; d_budget := None |}
        end
    end.

  Fixpoint dexec (st : dstmt) (cur : option dexn) (s : dstate) {struct st} : dstate * dflow :=
    let dexecs := fix dexecs (l : list dstmt) (s : dstate) {struct l} : dstate * dflow :=
      match l with
      | [] => (s, DNormal)
      | x :: r => match dexec x cur s with (s1, DNormal) => dexecs r s1 | other => other end
      end in
    let handle := fun (h : list dstmt) (x : dexn) (s1 : dstate) =>
      (fix go (l : list dstmt) (s : dstate) {struct l} : dstate * dflow :=
         match l with
         | [] => (s, DNormal)
         | y :: r => match dexec y (Some x) s with (s2, DNormal) => go r s2 | other => other end
         end) h s1 in
    match st with
    | DCreateTemp => prims [WCreate] s
    | DWithWrite => prims (map WWrite chunks ++ [WClose]) s
    | DReplace => prims [WReplace] s
    | DRemoveSilent => ({| d_fs := fupd (d_fs s) tmp None; d_budget := d_budget s |}, DNormal)
    | DReraise => match cur with Some x => (s, DRaise x) | None => (s, DNormal) end
    | DTry1 body c1 h1 =>
        match dexecs body s with
        | (s1, DRaise x) => if dcatches c1 x then handle h1 x s1 else (s1, DRaise x)
        | other => other
        end
    | DTry2 body c1 h1 c2 h2 =>
        match dexecs body s with
        | (s1, DRaise x) => if dcatches c1 x then handle h1 x s1
                            else if dcatches c2 x then handle h2 x s1 else (s1, DRaise x)
        | other => other
        end
    end.
  Fixpoint dexecs (l : list dstmt) (cur : option dexn) (s : dstate) : dstate * dflow :=
    match l with
    | [] => (s, DNormal)
    | x :: r => match dexec x cur s with (s1, DNormal) => dexecs r cur s1 | other => other end
    end.

  Definition interp_dump (body : list dstmt) (s0 : fsys) (k : nat) : dstate * dflow :=
    dexecs body None {| d_fs := s0; d_budget := Some k |}.
End Dump.

(* what FileSystemBytecodeCache.dump_bytecode is *)
Definition dump_skeleton : list dstmt :=
  [ DCreateTemp;
    DTry1 [DWithWrite] DHBaseException [DRemoveSilent; DReraise];
    DTry2 [DReplace] DHOSError [DRemoveSilent] DHBaseException [DRemoveSilent; DReraise] ].

(* ------------------------------------------------------------------ the skeleton's semantics = the model *)
Section DumpProofs.
  Variables real tmp : fname.
  Hypothesis distinct : tmp <> real.
  Variable chunks : list bytes.

  Let step := exec_step real tmp.

  Lemma prims_fs ev ws : forall fs b,
    d_fs (fst (prims real tmp ev ws {| d_fs := fs; d_budget := Some b |})) = fold_left step (firstn b ws) fs.
  Proof.
    induction ws as [|w r IH]; intros fs b; cbn [prims].
    - now rewrite firstn_nil.
    - cbn [d_budget]. destruct b as [|b]; [destruct ev; reflexivity|]. cbn [d_fs firstn fold_left]. apply IH.
  Qed.

  Lemma prims_flow ev ws : forall fs b,
    snd (prims real tmp ev ws {| d_fs := fs; d_budget := Some b |}) =
    if (b <? List.length ws)%nat then match ev with EvCrash => DCrashed | EvFault x => DRaise x end else DNormal.
  Proof.
    induction ws as [|w r IH]; intros fs b; cbn [prims List.length].
    - reflexivity.
    - cbn [d_budget]. destruct b as [|b]; [destruct ev; reflexivity|]. cbn [d_fs]. rewrite IH.
      destruct (Nat.ltb_spec b (List.length r)), (Nat.ltb_spec (S b) (S (List.length r))); try reflexivity; lia.
  Qed.

  Lemma prims_budget ev ws : forall fs b, (List.length ws <= b)%nat ->
    d_budget (fst (prims real tmp ev ws {| d_fs := fs; d_budget := Some b |})) = Some (b - List.length ws)%nat.
  Proof.
    induction ws as [|w r IH]; intros fs b H; cbn [prims List.length] in *.
    - cbn. now rewrite Nat.sub_0_r.
    - cbn [d_budget]. destruct b as [|b]; [lia|]. cbn [d_fs]. rewrite IH by lia. reflexivity.
  Qed.

  (* decompose a budgeted run of primitives *)
  Lemma prims_cases ev ws fs b :
    ((b < List.length ws)%nat /\ exists st', prims real tmp ev ws {| d_fs := fs; d_budget := Some b |} =
        (st', match ev with EvCrash => DCrashed | EvFault x => DRaise x end) /\ d_fs st' = fold_left step (firstn b ws) fs) \/
    ((List.length ws <= b)%nat /\ prims real tmp ev ws {| d_fs := fs; d_budget := Some b |} =
        ({| d_fs := fold_left step ws fs; d_budget := Some (b - List.length ws)%nat |}, DNormal)).
  Proof.
    pose proof (prims_fs ev ws fs b) as F. pose proof (prims_flow ev ws fs b) as Fl.
    destruct (prims real tmp ev ws {| d_fs := fs; d_budget := Some b |}) as [st' fl] eqn:E. cbn [fst snd] in *.
    destruct (Nat.ltb_spec b (List.length ws)) as [H|H].
    - left. split; [exact H|]. exists st'. subst fl. split; [reflexivity|exact F].
    - right. split; [exact H|]. subst fl. pose proof (prims_budget ev ws fs b H) as B. rewrite E in B. cbn [fst] in B.
      destruct st' as [f' b']. cbn in *. subst. rewrite firstn_all2 by exact H. reflexivity.
  Qed.

  Let ws := map WWrite chunks ++ [WClose].

  Lemma dump_steps_eq : dump_steps chunks = WCreate :: ws ++ [WReplace].
  Proof. reflexivity. Qed.

  Lemma full_tmp_none fs : fold_left step (ws ++ [WReplace]) fs tmp = None.
  Proof. rewrite fold_left_app. cbn [fold_left]. unfold step at 1. cbn [exec_step]. unfold fupd. now rewrite N.eqb_refl. Qed.

  (* every crash point *)
  Theorem dump_skeleton_crash s0 k :
    d_fs (fst (interp_dump real tmp chunks EvCrash dump_skeleton s0 k)) = crash_after real tmp s0 chunks k.
  Proof.
    unfold interp_dump, crash_after. rewrite dump_steps_eq. unfold dump_skeleton.
    cbn [dexecs dexec]. fold ws.
    destruct k as [|k]; [reflexivity|]. cbn [prims d_budget d_fs firstn fold_left]. fold step.
    set (s1 := step s0 WCreate).
    destruct (prims_cases EvCrash ws s1 k) as [[H (st' & E & F)]|[H E]]; rewrite E.
    - cbn [dcatches fst]. rewrite F. rewrite firstn_app. replace (k - List.length ws)%nat with 0%nat by lia.
      cbn [firstn]. now rewrite app_nil_r.
    - cbn [prims d_budget d_fs].
      destruct (k - List.length ws)%nat as [|j] eqn:Ej.
      + cbn [fst d_fs]. rewrite firstn_app, Ej. cbn [firstn]. rewrite app_nil_r. now rewrite firstn_all2 by lia.
      + cbn [fst d_fs]. rewrite firstn_all2 by (rewrite app_length; cbn; lia). now rewrite fold_left_app.
  Qed.

  (* every fault point, for an OSError and for any other exception; the temp name is fresh *)
  Theorem dump_skeleton_fault s0 k x : s0 tmp = None ->
    forall g, d_fs (fst (interp_dump real tmp chunks (EvFault x) dump_skeleton s0 k)) g = fault_after real tmp s0 chunks k g.
  Proof.
    intros Hfresh g. unfold interp_dump, fault_after, crash_after. rewrite dump_steps_eq. unfold dump_skeleton.
    cbn [dexecs dexec]. fold ws.
    destruct k as [|k].
    - cbn [prims d_budget fst d_fs firstn fold_left]. unfold fupd. destruct (g =? tmp) eqn:Eg; [|reflexivity].
      apply N.eqb_eq in Eg. now subst g.
    - cbn [prims d_budget d_fs firstn fold_left]. fold step. set (s1 := step s0 WCreate).
      destruct (prims_cases (EvFault x) ws s1 k) as [[H (st' & E & F)]|[H E]]; rewrite E.
      + cbn [dcatches dexec fst d_fs]. rewrite F. rewrite firstn_app. replace (k - List.length ws)%nat with 0%nat by lia.
        cbn [firstn]. now rewrite app_nil_r.
      + cbn [prims d_budget d_fs].
        destruct (k - List.length ws)%nat as [|j] eqn:Ej.
        * rewrite firstn_app, Ej. cbn [firstn]. rewrite app_nil_r. rewrite firstn_all2 by lia.
          destruct x; cbn [dcatches dexec fst d_fs]; reflexivity.
        * cbn [fst d_fs]. rewrite firstn_all2 by (rewrite app_length; cbn; lia).
          change (step (fold_left step ws s1) WReplace) with (fold_left step [WReplace] (fold_left step ws s1)).
          rewrite <- fold_left_app. unfold fupd. destruct (g =? tmp) eqn:Eg; [|reflexivity].
          apply N.eqb_eq in Eg. subst g. apply full_tmp_none.
  Qed.

  (* an OSError from os.replace is swallowed, everything else propagates *)
  Theorem dump_skeleton_replace_oserror s0 :
    snd (interp_dump real tmp chunks (EvFault XOSError) dump_skeleton s0 (S (List.length ws))) = DNormal /\
    snd (interp_dump real tmp chunks (EvFault XOther) dump_skeleton s0 (S (List.length ws))) = DRaise XOther.
  Proof.
    unfold interp_dump, dump_skeleton. cbn [dexecs dexec]. fold ws.
    cbn [prims d_budget d_fs]. fold step. set (s1 := step s0 WCreate).
    split.
    - destruct (prims_cases (EvFault XOSError) ws s1 (List.length ws)) as [[H _]|[H E]]; [lia|]. rewrite E.
      rewrite Nat.sub_diag. reflexivity.
    - destruct (prims_cases (EvFault XOther) ws s1 (List.length ws)) as [[H _]|[H E]]; [lia|]. rewrite E.
      rewrite Nat.sub_diag. reflexivity.
  Qed.
End DumpProofs.
