(* A deep embedding of the Python statement vocabulary used by jinja2.runtime.Macro.__call__,
   with its interpreter over the values of Model/Macro.v.  The translator gen/macro_translate.py
   turns the CURRENT source of the method into a term of this language (fail-closed on anything
   outside the vocabulary); the generated file Gen_macro.v then proves, by symbolic evaluation
   plus one induction over the list of remaining parameter names for the `for` loop, that the
   interpreted term equals the hand-written model function macro_entry / macro_call for every
   signature, every argument list and every keyword dict.  An edit of the method changes the
   term and that equation is what breaks. *)
From Coq Require Import List NArith Bool String Arith.
Import ListNotations.
From JV Require Import Model.Macro.

(* Python values the method handles.  Tuples of call arguments, tuples of parameter names and
   the keyword dict keep the model's representation; `arguments` (a Python list of anything) is
   a PSeq.  Python attaches no tags to what it appends: [erase] forgets the model's tags. *)
Inductive pv :=
| PVal (v : value) | PMissing | PB (b : bool) | PNat (n : nat) | PStr (n : name)
| PVals (l : list value)            (* a tuple of call arguments *)
| PRaw (l : list rawarg)            (* *args as received: maybe an EvalContext in front *)
| PNames (l : list name)            (* self.arguments and its slices *)
| PSeq (l : list pv)                (* the `arguments` list *)
| PKw (kw : kwlist)                 (* a dict of keyword arguments *)
| PCtx (autoescape : bool)          (* an EvalContext *)
| PInvoke (l : list pv) (autoescape : bool)   (* self._invoke(arguments, autoescape) *)
| PUnbound.

Definition erase (a : arg) : pv :=
  match a with
  | AVal v => PVal v | AMissing => PMissing | ACaller v => PVal v
  | AKwargs kw => PKw kw | AVarargs vs => PVals vs
  end.

Inductive pexn := XKeyError | XIndexError | XStopIteration | XTypeError (e : merr) | XBadType.

Inductive expr :=
| ELocal (x : string)
| ESelf (attr : string)
| ENone | ETrue | EFalse | EMissing
| ENat (n : nat)
| EStr (n : name)                   (* a string constant that is a name, e.g. "caller" *)
| ESliceTo (e hi : expr)            (* e[:hi] *)
| ESliceFrom (e lo : expr)          (* e[lo:] *)
| EIndex0 (e : expr)                (* e[0] *)
| EAutoescapeOf (e : expr)          (* e.autoescape *)
| EIsEvalCtx (e : expr)             (* isinstance(e, EvalContext) *)
| EList (e : expr)                  (* list(e) *)
| ELen (e : expr)
| EIn (a b : expr)
| EEq (a b : expr) | ENe (a b : expr) | EGt (a b : expr)
| ENot (e : expr) | EAnd (a b : expr)
| EIsNone (e : expr)
| EKwPop (x : string) (k : expr)              (* x.pop(k)          KeyError *)
| EKwPopD (x : string) (k d : expr)           (* x.pop(k, d) *)
| EUndefNoCaller                    (* self._environment.undefined("No caller defined", name="caller") *)
| ENextIter (x : string).           (* next(iter(x)) *)

Inductive rkind := RTwoCallers | RNoKeyword | RTooMany.

Inductive stmt :=
| SAssign (x : string) (e : expr)
| SIf (c : expr) (t e : list stmt)
| SFor (x : string) (e : expr) (body : list stmt)
| STryKeyError (body handler : list stmt)
| SAppend (x : string) (e : expr)             (* x.append(e) *)
| SRaise (k : rkind) (payload : expr)         (* raise TypeError(<message of kind k>) *)
| SReturnInvoke (a b : expr)                  (* return self._invoke(a, b) *)
| SPass.

(* locals: every name the method assigns is declared up front (PUnbound); assignment updates
   in place, so the shape of the environment never changes *)
Definition env := list (string * pv).
Fixpoint env_get (x : string) (e : env) : pv :=
  match e with [] => PUnbound | (y, v) :: r => if String.eqb x y then v else env_get x r end.
Fixpoint env_set (x : string) (v : pv) (e : env) : env :=
  match e with
  | [] => []
  | (y, w) :: r => if String.eqb x y then (y, v) :: r else (y, w) :: env_set x v r
  end.

Inductive outcome := Norm (v : pv) | Exc (x : pexn).

Record self := { sf_sig : rsig; sf_da : bool }.

Definition self_attr (sf : self) (a : string) : pv :=
  if String.eqb a "_argument_count" then PNat (List.length (r_args (sf_sig sf)))
  else if String.eqb a "arguments" then PNames (r_args (sf_sig sf))
  else if String.eqb a "explicit_caller" then PB (mem n_caller (r_args (sf_sig sf)))
  else if String.eqb a "caller" then PB (r_caller (sf_sig sf))
  else if String.eqb a "catch_kwargs" then PB (r_kwargs (sf_sig sf))
  else if String.eqb a "catch_varargs" then PB (r_varargs (sf_sig sf))
  else if String.eqb a "_default_autoescape" then PB (sf_da sf)
  else PUnbound.

Definition nonempty {A} (l : list A) : bool := match l with [] => false | _ => true end.

Definition as_bool (v : pv) : bool :=
  match v with
  | PB b => b
  | PNat n => negb (Nat.eqb n 0)
  | PVal VNone => false
  | PVals l => nonempty l | PRaw l => nonempty l | PNames l => nonempty l
  | PSeq l => nonempty l | PKw l => nonempty l
  | PUnbound => false
  | _ => true
  end.

Definition veq (a b : pv) : bool :=
  match a, b with
  | PNat x, PNat y => Nat.eqb x y
  | PStr x, PStr y => N.eqb x y
  | PB x, PB y => Bool.eqb x y
  | _, _ => false
  end.

Definition slice_to (v : pv) (n : nat) : outcome :=
  match v with
  | PVals l => Norm (PVals (firstn n l))
  | PRaw l => Norm (PVals (firstn n (map raw_value l)))
  | PNames l => Norm (PNames (firstn n l))
  | _ => Exc XBadType
  end.
Definition slice_from (v : pv) (n : nat) : outcome :=
  match v with
  | PVals l => Norm (PVals (skipn n l))
  | PRaw l => Norm (PVals (skipn n (map raw_value l)))
  | PNames l => Norm (PNames (skipn n l))
  | _ => Exc XBadType
  end.
Definition plen (v : pv) : outcome :=
  match v with
  | PVals l => Norm (PNat (List.length l)) | PRaw l => Norm (PNat (List.length (map raw_value l)))
  | PNames l => Norm (PNat (List.length l)) | PSeq l => Norm (PNat (List.length l))
  | PKw l => Norm (PNat (List.length l))
  | _ => Exc XBadType
  end.

Fixpoint eval (e : expr) (sf : self) (en : env) : env * outcome :=
  let un (a : expr) (f : env -> pv -> env * outcome) :=
    match eval a sf en with (en1, Norm v) => f en1 v | r => r end in
  let bin (a b : expr) (f : env -> pv -> pv -> env * outcome) :=
    match eval a sf en with
    | (en1, Norm va) => match eval b sf en1 with (en2, Norm vb) => f en2 va vb | r => r end
    | r => r
    end in
  match e with
  | ELocal x => (en, Norm (env_get x en))
  | ESelf a => (en, Norm (self_attr sf a))
  | ENone => (en, Norm (PVal VNone))
  | ETrue => (en, Norm (PB true)) | EFalse => (en, Norm (PB false))
  | EMissing => (en, Norm PMissing)
  | ENat n => (en, Norm (PNat n))
  | EStr n => (en, Norm (PStr n))
  | ESliceTo a hi => bin a hi (fun en2 va vh => match vh with PNat n => (en2, slice_to va n) | _ => (en2, Exc XBadType) end)
  | ESliceFrom a lo => bin a lo (fun en2 va vl => match vl with PNat n => (en2, slice_from va n) | _ => (en2, Exc XBadType) end)
  | EIndex0 a => un a (fun en1 v =>
      match v with
      | PRaw (REvalCtx b :: _) => (en1, Norm (PCtx b))
      | PRaw (RVal x :: _) => (en1, Norm (PVal x))
      | PRaw [] => (en1, Exc XIndexError)
      | _ => (en1, Exc XBadType)
      end)
  | EAutoescapeOf a => un a (fun en1 v => match v with PCtx b => (en1, Norm (PB b)) | _ => (en1, Exc XBadType) end)
  | EIsEvalCtx a => un a (fun en1 v => (en1, Norm (PB (match v with PCtx _ => true | _ => false end))))
  | EList a => un a (fun en1 v => match v with PVals l => (en1, Norm (PSeq (map PVal l))) | _ => (en1, Exc XBadType) end)
  | ELen a => un a (fun en1 v => (en1, plen v))
  | EIn a b => bin a b (fun en2 va vb =>
      match va, vb with
      | PStr n, PNames l => (en2, Norm (PB (mem n l)))
      | PStr n, PKw kw => (en2, Norm (PB (kw_has n kw)))
      | _, _ => (en2, Exc XBadType)
      end)
  | EEq a b => bin a b (fun en2 va vb => (en2, Norm (PB (veq va vb))))
  | ENe a b => bin a b (fun en2 va vb => (en2, Norm (PB (negb (veq va vb)))))
  | EGt a b => bin a b (fun en2 va vb =>
      match va, vb with PNat x, PNat y => (en2, Norm (PB (Nat.ltb y x))) | _, _ => (en2, Exc XBadType) end)
  | ENot a => un a (fun en1 v => (en1, Norm (PB (negb (as_bool v)))))
  | EAnd a b => un a (fun en1 v => if as_bool v then eval b sf en1 else (en1, Norm v))
  | EIsNone a => un a (fun en1 v => (en1, Norm (PB (match v with PVal VNone => true | _ => false end))))
  | EKwPop x k => un k (fun en1 vk =>
      match vk, env_get x en1 with
      | PStr n, PKw kw => match kw_pop n kw with
                          | (Some v, kw') => (env_set x (PKw kw') en1, Norm (PVal v))
                          | (None, _) => (en1, Exc XKeyError)
                          end
      | _, _ => (en1, Exc XBadType)
      end)
  | EKwPopD x k d => bin k d (fun en2 vk vd =>
      match vk, env_get x en2 with
      | PStr n, PKw kw => match kw_pop n kw with
                          | (Some v, kw') => (env_set x (PKw kw') en2, Norm (PVal v))
                          | (None, _) => (en2, Norm vd)
                          end
      | _, _ => (en2, Exc XBadType)
      end)
  | EUndefNoCaller => (en, Norm (PVal (VUndef UNoCaller)))
  | ENextIter x => match env_get x en with
                   | PKw ((k, _) :: _) => (en, Norm (PStr k))
                   | PKw [] => (en, Exc XStopIteration)
                   | _ => (en, Exc XBadType)
                   end
  end.

Inductive flow := Fall (en : env) | Ret (v : pv) | Raise (x : pexn).

Definition loop_items (v : pv) : option (list pv) :=
  match v with
  | PNames l => Some (map PStr l)
  | PSeq l => Some l
  | _ => None
  end.

Fixpoint exec (st : stmt) (sf : self) (en : env) {struct st} : flow :=
  let execs := fix execs (l : list stmt) (en : env) {struct l} : flow :=
    match l with
    | [] => Fall en
    | x :: r => match exec x sf en with Fall en1 => execs r en1 | other => other end
    end in
  match st with
  | SAssign x e => match eval e sf en with
                   | (en1, Norm v) => Fall (env_set x v en1) | (_, Exc x1) => Raise x1 end
  | SIf c t e => match eval c sf en with
                 | (en1, Norm v) => if as_bool v then execs t en1 else execs e en1
                 | (_, Exc x1) => Raise x1 end
  | SFor x e body =>
      match eval e sf en with
      | (en1, Norm v) =>
          match loop_items v with
          | Some items =>
              (fix loop (items : list pv) (en : env) {struct items} : flow :=
                 match items with
                 | [] => Fall en
                 | i :: r => match execs body (env_set x i en) with
                             | Fall en' => loop r en'
                             | other => other
                             end
                 end) items en1
          | None => Raise XBadType
          end
      | (_, Exc x1) => Raise x1
      end
  | STryKeyError body handler =>
      match execs body en with
      | Raise XKeyError => execs handler en
      | other => other
      end
  | SAppend x e => match eval e sf en with
                   | (en1, Norm v) => match env_get x en1 with
                                      | PSeq l => Fall (env_set x (PSeq (l ++ [v])) en1)
                                      | _ => Raise XBadType end
                   | (_, Exc x1) => Raise x1 end
  | SRaise k payload =>
      match k with
      | RTwoCallers => Raise (XTypeError ETwoCallers)
      | RTooMany => Raise (XTypeError ETooMany)
      | RNoKeyword => match eval payload sf en with
                      | (_, Norm (PStr n)) => Raise (XTypeError (ENoKeyword n))
                      | (_, Norm _) => Raise XBadType
                      | (_, Exc x1) => Raise x1 end
      end
  | SReturnInvoke a b =>
      match eval a sf en with
      | (en1, Norm (PSeq l)) => match eval b sf en1 with
                                | (_, Norm (PB ae)) => Ret (PInvoke l ae)
                                | (_, Norm _) => Raise XBadType
                                | (_, Exc x1) => Raise x1 end
      | (_, Norm _) => Raise XBadType
      | (_, Exc x1) => Raise x1
      end
  | SPass => Fall en
  end.

Fixpoint execs (l : list stmt) (sf : self) (en : env) : flow :=
  match l with
  | [] => Fall en
  | x :: r => match exec x sf en with Fall en1 => execs r sf en1 | other => other end
  end.

(* the for loop as a function of its items (what [exec (SFor ..)] runs after evaluating the
   iterated expression) *)
Fixpoint for_loop (x : string) (body : list stmt) (sf : self) (items : list pv) (en : env) : flow :=
  match items with
  | [] => Fall en
  | i :: r => match execs body sf (env_set x i en) with
              | Fall en' => for_loop x body sf r en'
              | other => other
              end
  end.

Lemma local_execs_eq : forall sf l en,
  (fix execs (l : list stmt) (en : env) {struct l} : flow :=
     match l with
     | [] => Fall en
     | x :: r => match exec x sf en with Fall en1 => execs r en1 | other => other end
     end) l en = execs l sf en.
Proof.
  intros sf l. induction l as [|a r IH]; intros en; [reflexivity|].
  cbn [execs]. destruct (exec a sf en); auto.
Qed.

Lemma exec_for_unfold : forall x e body sf en,
  exec (SFor x e body) sf en =
  match eval e sf en with
  | (en1, Norm v) => match loop_items v with
                     | Some items => for_loop x body sf items en1
                     | None => Raise XBadType end
  | (_, Exc x1) => Raise x1
  end.
Proof.
  intros x e body sf en. cbn [exec]. destruct (eval e sf en) as [en1 [v|x1]]; [|reflexivity].
  destruct (loop_items v) as [items|]; [|reflexivity].
  revert en1. induction items as [|i r IH]; intros en1; [reflexivity|].
  cbn [for_loop]. rewrite local_execs_eq.
  destruct (execs body sf (env_set x i en1)); try reflexivity. apply IH.
Qed.

Lemma exec_if_unfold : forall c t e sf en,
  exec (SIf c t e) sf en =
  match eval c sf en with
  | (en1, Norm v) => if as_bool v then execs t sf en1 else execs e sf en1
  | (_, Exc x1) => Raise x1
  end.
Proof.
  intros. cbn [exec]. destruct (eval c sf en) as [en1 [v|x1]]; [|reflexivity].
  rewrite !local_execs_eq. reflexivity.
Qed.

Lemma exec_try_unfold : forall body handler sf en,
  exec (STryKeyError body handler) sf en =
  match execs body sf en with
  | Raise XKeyError => execs handler sf en
  | other => other
  end.
Proof. intros. cbn [exec]. rewrite !local_execs_eq. reflexivity. Qed.

(* what the model's result looks like to Python *)
Definition present (r : bool * res (list arg)) : flow :=
  match r with
  | (a, Ok l) => Ret (PInvoke (map erase l) a)
  | (_, Err e) => Raise (XTypeError e)
  end.

(* dict.pop of an absent key leaves the dict as it was *)
Lemma kw_pop_none : forall n kw kw', kw_pop n kw = (None, kw') -> kw' = kw.
Proof.
  intros n kw. induction kw as [|[k v] r IH]; intros kw' H; cbn in H.
  - congruence.
  - destruct (N.eqb n k); [discriminate|]. destruct (kw_pop n r) as [o r'] eqn:E.
    injection H as -> <-. f_equal. exact (IH r' eq_refl).
Qed.

Lemma map_erase_app : forall a b, map erase (a ++ b) = map erase a ++ map erase b.
Proof. intros. apply map_app. Qed.

Lemma map_erase_AVal : forall l, map erase (map AVal l) = map PVal l.
Proof. intros l. rewrite map_map. reflexivity. Qed.

(* one equation per statement form, used as rewrite rules by the generated proofs (so that a
   `for` is met as [for_loop], never as an unfolded local fixpoint) *)
Lemma exec_assign_unfold : forall x e sf en,
  exec (SAssign x e) sf en =
  match eval e sf en with (en1, Norm v) => Fall (env_set x v en1) | (_, Exc x1) => Raise x1 end.
Proof. reflexivity. Qed.
Lemma exec_append_unfold : forall x e sf en,
  exec (SAppend x e) sf en =
  match eval e sf en with
  | (en1, Norm v) => match env_get x en1 with
                     | PSeq l => Fall (env_set x (PSeq (l ++ [v])) en1)
                     | _ => Raise XBadType end
  | (_, Exc x1) => Raise x1 end.
Proof. reflexivity. Qed.
Lemma exec_raise_unfold : forall k payload sf en,
  exec (SRaise k payload) sf en =
  match k with
  | RTwoCallers => Raise (XTypeError ETwoCallers)
  | RTooMany => Raise (XTypeError ETooMany)
  | RNoKeyword => match eval payload sf en with
                  | (_, Norm (PStr n)) => Raise (XTypeError (ENoKeyword n))
                  | (_, Norm _) => Raise XBadType
                  | (_, Exc x1) => Raise x1 end
  end.
Proof. reflexivity. Qed.
Lemma exec_return_unfold : forall a b sf en,
  exec (SReturnInvoke a b) sf en =
  match eval a sf en with
  | (en1, Norm (PSeq l)) => match eval b sf en1 with
                            | (_, Norm (PB ae)) => Ret (PInvoke l ae)
                            | (_, Norm _) => Raise XBadType
                            | (_, Exc x1) => Raise x1 end
  | (_, Norm _) => Raise XBadType
  | (_, Exc x1) => Raise x1
  end.
Proof. reflexivity. Qed.
Lemma exec_pass_unfold : forall sf en, exec SPass sf en = Fall en.
Proof. reflexivity. Qed.

Global Opaque exec.

#[export] Hint Rewrite exec_assign_unfold exec_append_unfold exec_raise_unfold exec_return_unfold
  exec_pass_unfold exec_if_unfold exec_for_unfold exec_try_unfold : pyexec.

Ltac pycbn :=
  cbn [execs eval env_get env_set String.eqb Ascii.eqb Bool.eqb self_attr sf_sig sf_da
       r_args r_kwargs r_varargs r_caller as_bool veq slice_to slice_from plen loop_items nonempty
       negb andb orb c_args c_kw fst snd for_loop map present erase app] in *.
Ltac pystep := repeat (progress (pycbn; autorewrite with pyexec in * )).

(* ------------------------------------------------------------------ the model, phase by phase
   (one phase per top-level statement group of the method; only facts about Model/Macro.v) *)
Definition bind_phase (s : rsig) (c : call) : list arg * kwlist * bool :=
  let argc := List.length (r_args s) in
  let pos := firstn argc (c_args c) in
  let off := List.length pos in
  let '(filled, kw1, found) :=
    if Nat.eqb off argc then ([], c_kw c, mem n_caller (r_args s))
    else fill (skipn off (r_args s)) (c_kw c) (mem n_caller (firstn off (r_args s))) in
  (map AVal pos ++ filled, kw1, found).

Definition caller_phase (s : rsig) (a1 : list arg) (kw1 : kwlist) (found : bool) : list arg * kwlist :=
  if r_caller s && negb found then
    let '(o, kw') := kw_pop n_caller kw1 in (a1 ++ [ACaller (caller_value o)], kw')
  else (a1, kw1).

Definition kwargs_phase (s : rsig) (a2 : list arg) (kw2 : kwlist) : res (list arg) :=
  if r_kwargs s then Ok (a2 ++ [AKwargs kw2])
  else match kw2 with
       | [] => Ok a2
       | (k, _) :: _ => if kw_has n_caller kw2 then Err ETwoCallers else Err (ENoKeyword k)
       end.

Definition varargs_phase (s : rsig) (c : call) (a3 : list arg) : res (list arg) :=
  if r_varargs s then Ok (a3 ++ [AVarargs (skipn (List.length (r_args s)) (c_args c))])
  else if Nat.ltb (List.length (r_args s)) (List.length (c_args c)) then Err ETooMany
  else Ok a3.

Lemma macro_call_phases : forall s c,
  macro_call s c =
  let '(a1, kw1, found) := bind_phase s c in
  let '(a2, kw2) := caller_phase s a1 kw1 found in
  match kwargs_phase s a2 kw2 with
  | Err e => Err e
  | Ok a3 => varargs_phase s c a3
  end.
Proof.
  intros s c. unfold macro_call, bind_phase, caller_phase, kwargs_phase, varargs_phase.
  destruct (if Nat.eqb (List.length (firstn (List.length (r_args s)) (c_args c))) (List.length (r_args s))
            then ([], c_kw c, mem n_caller (r_args s))
            else fill (skipn (List.length (firstn (List.length (r_args s)) (c_args c))) (r_args s)) (c_kw c)
                   (mem n_caller (firstn (List.length (firstn (List.length (r_args s)) (c_args c))) (r_args s))))
    as [[filled kw1] found].
  destruct (r_caller s && negb found); [destruct (kw_pop n_caller kw1) as [o kw']|]; reflexivity.
Qed.

Lemma execs_app : forall l1 l2 sf en,
  execs (l1 ++ l2) sf en = match execs l1 sf en with Fall en1 => execs l2 sf en1 | other => other end.
Proof.
  intros l1. induction l1 as [|x r IH]; intros l2 sf en; cbn [app execs]; [reflexivity|].
  destruct (exec x sf en); try reflexivity. apply IH.
Qed.

(* *args as the method sees it: the received tuple, or what is left after dropping the
   EvalContext *)
Definition vals_of (a : pv) : list value :=
  match a with PVals l => l | PRaw l => map raw_value l | _ => [] end.
Definition is_args (a : pv) : bool := match a with PVals _ | PRaw _ => true | _ => false end.

Ltac pycbng :=
  cbn [execs eval env_get env_set String.eqb Ascii.eqb Bool.eqb self_attr sf_sig sf_da
       r_args r_kwargs r_varargs r_caller as_bool veq slice_to slice_from plen loop_items nonempty
       negb andb orb c_args c_kw fst snd for_loop map present erase app vals_of is_args].
Ltac pystepg := repeat (progress (pycbng; autorewrite with pyexec)).
