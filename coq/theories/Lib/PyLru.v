(* A deep embedding of the Python statement vocabulary used by jinja2.utils.LRUCache's methods,
   with its interpreter over the LRU model state.  The translator gen/lru_translate.py turns the
   CURRENT source of each method into a term of this language (fail-closed on anything outside
   the vocabulary); the generated file then proves, by symbolic evaluation, that the interpreted
   term equals the hand-written model function for every state and argument.  An edit of a
   method changes the term and that equation is what breaks. *)
From Coq Require Import List NArith Bool String.
Import ListNotations.
From JV Require Import Model.LRU.
Open Scope N_scope.

Inductive value := VN (n : N) | VB (b : bool) | VNone.

Inductive expr :=
| EVar (x : string)                 (* a local or parameter *)
| ENone
| EMapGet (k : expr)                (* self._mapping[k]            KeyError *)
| EMapContains (k : expr)           (* k in self._mapping *)
| EMapLen                           (* len(self._mapping) *)
| ECap                              (* self.capacity *)
| EQLast                            (* self._queue[-1]             IndexError *)
| EQPopleft                         (* self._popleft()             IndexError *)
| EEq (a b : expr) | ENe (a b : expr)
| ESelfGet (k : expr).              (* self[k]  — another method of the class *)

Inductive stmt :=
| SAssign (x : string) (e : expr)
| SIf (c : expr) (t e : list stmt)
| STry (body : list stmt) (ex : exn) (handler : list stmt)
| SReturn (e : expr)
| SPass
| SMapSet (k v : expr)              (* self._mapping[k] = v *)
| SMapDel (k : expr)                (* del self._mapping[k]        KeyError *)
| SMapClear | SQClear
| SQRemove (k : expr)               (* self._remove(k)             ValueError *)
| SQAppend (k : expr)
| SSelfSet (k v : expr).            (* self[k] = v — another method of the class *)

Definition env := list (string * value).
Fixpoint env_get (x : string) (e : env) : value :=
  match e with [] => VNone | (y, v) :: r => if String.eqb x y then v else env_get x r end.

Inductive outcome (A : Type) := Norm (a : A) | Exc (e : exn).
Arguments Norm {A} _. Arguments Exc {A} _.

Definition as_key (v : value) : N := match v with VN n => n | _ => 0 end.
Definition as_bool (v : value) : bool := match v with VB b => b | VN n => negb (n =? 0) | VNone => false end.
Definition veq (a b : value) : bool :=
  match a, b with VN x, VN y => x =? y | VB x, VB y => Bool.eqb x y | VNone, VNone => true | _, _ => false end.

Section Interp.
  (* other methods of the class, as already-translated semantics *)
  Variable self_get : lru -> key -> lru * out.
  Variable self_set : lru -> key -> val -> lru * out.

  Fixpoint eval (e : expr) (s : lru) (en : env) : lru * outcome value :=
    match e with
    | EVar x => (s, Norm (env_get x en))
    | ENone => (s, Norm VNone)
    | EMapGet k =>
        match eval k s en with
        | (s1, Norm kv) => match lookup (as_key kv) (mapping s1) with
                           | Some v => (s1, Norm (VN v)) | None => (s1, Exc KeyError) end
        | r => r
        end
    | EMapContains k =>
        match eval k s en with
        | (s1, Norm kv) => (s1, Norm (VB (match lookup (as_key kv) (mapping s1) with Some _ => true | None => false end)))
        | r => r
        end
    | EMapLen => (s, Norm (VN (mlen (mapping s))))
    | ECap => (s, Norm (VN (cap s)))
    | EQLast => match rev (queue s) with [] => (s, Exc IndexError) | k :: _ => (s, Norm (VN k)) end
    | EQPopleft => match queue s with
                   | [] => (s, Exc IndexError)
                   | k :: q' => ({| cap := cap s; mapping := mapping s; queue := q' |}, Norm (VN k))
                   end
    | EEq a b => match eval a s en with
                 | (s1, Norm va) => match eval b s1 en with
                                    | (s2, Norm vb) => (s2, Norm (VB (veq va vb))) | r => r end
                 | r => r end
    | ENe a b => match eval a s en with
                 | (s1, Norm va) => match eval b s1 en with
                                    | (s2, Norm vb) => (s2, Norm (VB (negb (veq va vb)))) | r => r end
                 | r => r end
    | ESelfGet k =>
        match eval k s en with
        | (s1, Norm kv) => match self_get s1 (as_key kv) with
                           | (s2, OVal v) => (s2, Norm (VN v))
                           | (s2, OExn x) => (s2, Exc x)
                           | (s2, _) => (s2, Norm VNone)
                           end
        | r => r
        end
    end.

  (* result of a statement list: fall through with a new env, return a value, or raise *)
  Inductive flow := Fall (en : env) | Ret (v : value) | Raise (x : exn).

  Fixpoint exec (st : stmt) (s : lru) (en : env) {struct st} : lru * flow :=
    let execs := fix execs (l : list stmt) (s : lru) (en : env) {struct l} : lru * flow :=
      match l with
      | [] => (s, Fall en)
      | x :: r => match exec x s en with
                  | (s1, Fall en1) => execs r s1 en1
                  | other => other
                  end
      end in
    match st with
    | SAssign x e => match eval e s en with
                     | (s1, Norm v) => (s1, Fall ((x, v) :: en)) | (s1, Exc x1) => (s1, Raise x1) end
    | SIf c t e => match eval c s en with
                   | (s1, Norm v) => if as_bool v then execs t s1 en else execs e s1 en
                   | (s1, Exc x1) => (s1, Raise x1) end
    | STry body ex handler =>
        match execs body s en with
        | (s1, Raise x1) => if (match x1, ex with
                                | KeyError, KeyError | IndexError, IndexError | ValueErr, ValueErr => true
                                | _, _ => false end)
                            then execs handler s1 en else (s1, Raise x1)
        | other => other
        end
    | SReturn e => match eval e s en with
                   | (s1, Norm v) => (s1, Ret v) | (s1, Exc x1) => (s1, Raise x1) end
    | SPass => (s, Fall en)
    | SMapSet k v => match eval k s en with
                     | (s1, Norm kv) => match eval v s1 en with
                         | (s2, Norm vv) => ({| cap := cap s2; mapping := mset (as_key kv) (as_key vv) (mapping s2); queue := queue s2 |}, Fall en)
                         | (s2, Exc x1) => (s2, Raise x1) end
                     | (s1, Exc x1) => (s1, Raise x1) end
    | SMapDel k => match eval k s en with
                   | (s1, Norm kv) => match lookup (as_key kv) (mapping s1) with
                       | Some _ => ({| cap := cap s1; mapping := mdel (as_key kv) (mapping s1); queue := queue s1 |}, Fall en)
                       | None => (s1, Raise KeyError) end
                   | (s1, Exc x1) => (s1, Raise x1) end
    | SMapClear => ({| cap := cap s; mapping := dempty; queue := queue s |}, Fall en)
    | SQClear => ({| cap := cap s; mapping := mapping s; queue := [] |}, Fall en)
    | SQRemove k => match eval k s en with
                    | (s1, Norm kv) => match qremove (as_key kv) (queue s1) with
                        | Some q' => ({| cap := cap s1; mapping := mapping s1; queue := q' |}, Fall en)
                        | None => (s1, Raise ValueErr) end
                    | (s1, Exc x1) => (s1, Raise x1) end
    | SQAppend k => match eval k s en with
                    | (s1, Norm kv) => ({| cap := cap s1; mapping := mapping s1; queue := queue s1 ++ [as_key kv] |}, Fall en)
                    | (s1, Exc x1) => (s1, Raise x1) end
    | SSelfSet k v => match eval k s en with
                      | (s1, Norm kv) => match eval v s1 en with
                          | (s2, Norm vv) => match self_set s2 (as_key kv) (as_key vv) with
                                             | (s3, OExn x1) => (s3, Raise x1)
                                             | (s3, _) => (s3, Fall en) end
                          | (s2, Exc x1) => (s2, Raise x1) end
                      | (s1, Exc x1) => (s1, Raise x1) end
    end.

  Fixpoint execs (l : list stmt) (s : lru) (en : env) : lru * flow :=
    match l with
    | [] => (s, Fall en)
    | x :: r => match exec x s en with
                | (s1, Fall en1) => execs r s1 en1
                | other => other
                end
    end.

  (* a method: parameters bound to arguments, body executed, Python's implicit `return None` *)
  Definition call (body : list stmt) (en : env) (s : lru) : lru * flow := execs body s en.
End Interp.

(* how the model's [out] presents a method result *)
Definition out_val (f : flow) : out :=
  match f with
  | Ret (VN n) => OVal n
  | Ret (VB b) => OBool b
  | Ret VNone | Fall _ => ONone
  | Raise x => OExn x
  end.
Definition out_len (f : flow) : out :=
  match f with Ret (VN n) => ONat n | Raise x => OExn x | _ => ONone end.
