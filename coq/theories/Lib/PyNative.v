(* A deep embedding of the Python vocabulary of jinja2.nativetypes.native_concat and of the output
   hooks of NativeCodeGenerator, with interpreters over the values of Model/Native.v.
   gen/native_translate.py turns the CURRENT source into terms (fail-closed); Gen_native.v proves
   interpreted native_concat = Model.Native.native_concat for every list of pieces, both when
   `values` is a generator (consumed by islice, hence the chain) and when it is a list. *)
From Coq Require Import List NArith Bool String.
Import ListNotations.
From JV Require Import Model.Native.

Section Interp.
  Variable L : Type.
  Variable literal_eval : str -> option L.
  Variable str_of : N -> str.

  (* an iterable of pieces: a generator remembers what was already taken from it *)
  Inductive iter := IGen (rest : list piece) | IList (l : list piece) | IChain (head : list piece) (tail : list piece).

  Inductive nv :=
  | VPiece (p : piece) | VStr (s : str) | VPieces (l : list piece) | VIter (i : iter)
  | VBool (b : bool) | VNat (n : nat) | VNone | VLit (v : L) | VUnbound.

  Inductive expr :=
  | ELocal (x : string)
  | ENone
  | ENat (n : nat)
  | EListIslice (x : string) (n : nat)      (* list(islice(x, n)) — consumes from a generator *)
  | ENot (e : expr)
  | ELenEq (e : expr) (n : nat)             (* len(e) == n *)
  | EIndex0 (e : expr)
  | EIsStr (e : expr)                       (* isinstance(e, str) *)
  | EIsGenerator (e : expr)                 (* isinstance(e, GeneratorType) *)
  | EChain (a b : expr)                     (* chain(a, b) *)
  | EJoinStr (e : expr)                     (* "".join([str(v) for v in e]) *)
  | ELiteralEval (e : expr).                (* literal_eval(parse(e, mode="eval"))   raises *)

  Inductive stmt :=
  | SAssign (x : string) (e : expr)
  | SIf (c : expr) (t e : list stmt)
  | STryLiteral (body handler : list stmt)  (* try: body except (the caught literal_eval errors): handler *)
  | SReturn (e : expr).

  Definition env := list (string * nv).
  Fixpoint env_get (x : string) (e : env) : nv :=
    match e with [] => VUnbound | (y, v) :: r => if String.eqb x y then v else env_get x r end.
  Fixpoint env_set (x : string) (v : nv) (e : env) : env :=
    match e with
    | [] => [(x, v)]
    | (y, w) :: r => if String.eqb x y then (y, v) :: r else (y, w) :: env_set x v r
    end.

  Definition iter_all (i : iter) : list piece :=
    match i with IGen r => r | IList l => l | IChain h t => h ++ t end.

  Inductive outcome := Norm (v : nv) | Raises | Bad.

  Definition as_bool (v : nv) : bool :=
    match v with
    | VBool b => b | VPieces l => match l with [] => false | _ => true end
    | VNone => false | VUnbound => false | _ => true
    end.

  Fixpoint eval (e : expr) (en : env) : env * outcome :=
    match e with
    | ELocal x => (en, Norm (env_get x en))
    | ENone => (en, Norm VNone)
    | ENat n => (en, Norm (VNat n))
    | EListIslice x n =>
        match env_get x en with
        | VIter (IGen r) => (env_set x (VIter (IGen (skipn n r))) en, Norm (VPieces (firstn n r)))
        | VIter (IList l) => (en, Norm (VPieces (firstn n l)))
        | _ => (en, Bad)
        end
    | ENot a => match eval a en with (en1, Norm v) => (en1, Norm (VBool (negb (as_bool v)))) | r => r end
    | ELenEq a n => match eval a en with
                    | (en1, Norm (VPieces l)) => (en1, Norm (VBool (Nat.eqb (List.length l) n)))
                    | (en1, Norm _) => (en1, Bad) | r => r end
    | EIndex0 a => match eval a en with
                   | (en1, Norm (VPieces (p :: _))) => (en1, Norm (VPiece p))
                   | (en1, Norm _) => (en1, Bad) | r => r end
    | EIsStr a => match eval a en with
                  | (en1, Norm (VPiece (PStr _))) => (en1, Norm (VBool true))
                  | (en1, Norm (VStr _)) => (en1, Norm (VBool true))
                  | (en1, Norm _) => (en1, Norm (VBool false)) | r => r end
    | EIsGenerator a => match eval a en with
                        | (en1, Norm (VIter (IGen _))) => (en1, Norm (VBool true))
                        | (en1, Norm _) => (en1, Norm (VBool false)) | r => r end
    | EChain a b => match eval a en with
                    | (en1, Norm (VPieces h)) =>
                        match eval b en1 with
                        | (en2, Norm (VIter i)) => (en2, Norm (VIter (IChain h (iter_all i))))
                        | (en2, Norm _) => (en2, Bad) | r => r end
                    | (en1, Norm _) => (en1, Bad) | r => r end
    | EJoinStr a => match eval a en with
                    | (en1, Norm (VIter i)) => (en1, Norm (VStr (join str_of (iter_all i))))
                    | (en1, Norm _) => (en1, Bad) | r => r end
    | ELiteralEval a => match eval a en with
                        | (en1, Norm (VStr s)) | (en1, Norm (VPiece (PStr s))) =>
                            match literal_eval s with Some v => (en1, Norm (VLit v)) | None => (en1, Raises) end
                        | (en1, Norm _) => (en1, Bad) | r => r end
    end.

  Inductive flow := Fall (en : env) | Ret (v : nv) | Raise | Stuck.

  Fixpoint exec (st : stmt) (en : env) {struct st} : flow :=
    let execs := fix execs (l : list stmt) (en : env) {struct l} : flow :=
      match l with
      | [] => Fall en
      | x :: r => match exec x en with Fall en1 => execs r en1 | other => other end
      end in
    match st with
    | SAssign x e => match eval e en with (en1, Norm v) => Fall (env_set x v en1) | (_, Raises) => Raise | (_, Bad) => Stuck end
    | SIf c t e => match eval c en with
                   | (en1, Norm v) => if as_bool v then execs t en1 else execs e en1
                   | (_, Raises) => Raise | (_, Bad) => Stuck end
    | STryLiteral body handler => match execs body en with Raise => execs handler en | other => other end
    | SReturn e => match eval e en with (_, Norm v) => Ret v | (_, Raises) => Raise | (_, Bad) => Stuck end
    end.

  Fixpoint execs (l : list stmt) (en : env) : flow :=
    match l with
    | [] => Fall en
    | x :: r => match exec x en with Fall en1 => execs r en1 | other => other end
    end.

  (* what the function returned, in the model's type *)
  Definition present (f : flow) : option (nout L) :=
    match f with
    | Ret VNone => Some NNone
    | Ret (VPiece (PObj o)) => Some (NObj o)
    | Ret (VPiece (PStr s)) => Some (NText s)
    | Ret (VStr s) => Some (NText s)
    | Ret (VLit v) => Some (NLit v)
    | _ => None
    end.
End Interp.

