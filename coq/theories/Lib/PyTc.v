(* A deep embedding of the Python vocabulary of jinja2.environment.Environment._load_template with
   its interpreter over the template-cache model (Model/Tc.v).  gen/tc_translate.py turns the
   CURRENT source of the method into a term of this language (fail-closed); the generated file
   proves, by symbolic evaluation and case analysis on the cache kind and the lookup results,
   that the interpreted term equals Model.Tc.load_template for every environment state, every
   name and every truth value of the `globals` argument. *)
From Coq Require Import List NArith Bool String.
Import ListNotations.
From JV Require Import Model.LRU Model.Tc.
Open Scope N_scope.

Inductive value := VTid (t : tid) | VNone | VKey.

Inductive expr :=
| EVar (x : string)
| ENone
| ECacheKey                 (* (weakref.ref(self.loader), name) *)
| ECacheGet (k : expr)      (* self.cache.get(k) *)
| ELoaderLoad.              (* self.loader.load(self, name, self.make_globals(globals)) *)

Inductive cond :=
| CLoaderIsNone             (* self.loader is None *)
| CCacheIsNotNone           (* self.cache is not None *)
| CIsNotNone (e : expr)     (* <var> is not None *)
| CAutoReload               (* self.auto_reload *)
| CUpToDate (x : string)    (* <var>.is_up_to_date *)
| CGlobals                  (* globals *)
| CNot (c : cond)
| CAnd (a b : cond)
| COr (a b : cond).

Inductive stmt :=
| SAssign (x : string) (e : expr)
| SIf (c : cond) (t e : list stmt)
| SReturn (e : expr)
| SRaiseTypeError
| SCacheSet (k v : expr)    (* self.cache[k] = v *)
| SGlobalsUpdate (x : string).   (* <var>.globals.update(globals) — no counterpart in M *)

Definition venv := list (string * value).
Fixpoint venv_get (x : string) (e : venv) : value :=
  match e with [] => VNone | (y, v) :: r => if String.eqb x y then v else venv_get x r end.
Definition as_tid (v : value) : tid := match v with VTid t => t | _ => 0 end.

Inductive pexn := XNotFound | XCrash | XType.
Inductive outcome := Norm (v : value) | Exc (x : pexn).
Inductive flow := Fall (en : venv) | Ret (v : value) | Raise (x : pexn).

Section Interp.
  Variable n : name.          (* the name argument *)
  Variable g : bool.          (* truth value of the globals argument *)

  Definition eval (ex : expr) (e : env) (en : venv) : env * outcome :=
    match ex with
    | EVar x => (e, Norm (venv_get x en))
    | ENone => (e, Norm VNone)
    | ECacheKey => (e, Norm VKey)
    | ECacheGet _ =>
        match cache e with
        | CNone => (e, Exc XType)                  (* None has no attribute get *)
        | _ => let '(c1, r) := cache_get (cache e) n in
               (set_cache e c1, match r with CHit t => Norm (VTid t) | CMiss => Norm VNone | CCrash => Exc XCrash end)
        end
    | ELoaderLoad =>
        match loader e n with
        | None => (e, Exc XNotFound)
        | Some v =>
            let t := next e in
            ({| auto_reload := auto_reload e; upt := upt e; cache := cache e; loader := loader e;
                heap := fun t' => if t' =? t then {| t_name := n; t_ver := v |} else heap e t';
                next := t + 1 |}, Norm (VTid t))
        end
    end.

  Fixpoint evalc (c : cond) (e : env) (en : venv) : bool :=
    match c with
    | CLoaderIsNone => false                       (* an environment of M always has a loader *)
    | CCacheIsNotNone => match cache e with CNone => false | _ => true end
    | CIsNotNone (EVar x) => match venv_get x en with VNone => false | _ => true end
    | CIsNotNone _ => true
    | CAutoReload => auto_reload e
    | CUpToDate x => is_up_to_date e (as_tid (venv_get x en))
    | CGlobals => g
    | CNot a => negb (evalc a e en)
    | CAnd a b => evalc a e en && evalc b e en
    | COr a b => evalc a e en || evalc b e en
    end.

  Fixpoint exec (st : stmt) (e : env) (en : venv) {struct st} : env * flow :=
    let execs := fix execs (l : list stmt) (e : env) (en : venv) {struct l} : env * flow :=
      match l with
      | [] => (e, Fall en)
      | x :: r => match exec x e en with (e1, Fall en1) => execs r e1 en1 | other => other end
      end in
    match st with
    | SAssign x ex => match eval ex e en with
                      | (e1, Norm v) => (e1, Fall ((x, v) :: en))
                      | (e1, Exc x1) => (e1, Raise x1) end
    | SIf c t f => if evalc c e en then execs t e en else execs f e en
    | SReturn ex => match eval ex e en with
                    | (e1, Norm v) => (e1, Ret v)
                    | (e1, Exc x1) => (e1, Raise x1) end
    | SRaiseTypeError => (e, Raise XType)
    | SCacheSet _ v =>
        match eval v e en with
        | (e1, Norm vv) => match cache e1 with
                           | CNone => (e1, Raise XType)              (* None does not support item assignment *)
                           | _ => let '(c2, ok) := cache_set (cache e1) n (as_tid vv) in
                                  (set_cache e1 c2, if ok then Fall en else Raise XCrash)
                           end
        | (e1, Exc x1) => (e1, Raise x1)
        end
    | SGlobalsUpdate _ => (e, Fall en)
    end.
  Fixpoint execs (l : list stmt) (e : env) (en : venv) : env * flow :=
    match l with
    | [] => (e, Fall en)
    | x :: r => match exec x e en with (e1, Fall en1) => execs r e1 en1 | other => other end
    end.

  Definition interp (body : list stmt) (e : env) : env * result :=
    match execs body e [] with
    | (e1, Ret (VTid t)) => (e1, RTpl t (t_ver (heap e1 t)))
    | (e1, Raise XNotFound) => (e1, RNotFound)
    | (e1, _) => (e1, RCrash)
    end.
End Interp.
