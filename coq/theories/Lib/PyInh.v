(* A deep embedding of the Python vocabulary used by runtime.Context.super, BlockReference.super
   and BlockReference.__call__, with its interpreter.  gen/inh_translate.py turns the CURRENT
   source of these methods into terms of this language (fail-closed outside the vocabulary); the
   generated file proves, by symbolic evaluation, that each interpreted term equals the model
   function of Model/InhRt.v for every argument.  An edit of a method changes the term and that
   equation is what breaks. *)
From Coq Require Import List NArith Bool Arith String.
Import ListNotations.
From JV Require Import Model.Inh Model.InhRt.

Inductive value :=
| VNat (n : nat) | VBool (b : bool) | VName (n : name) | VFid (f : fid) | VStack (st : list fid)
| VBlocks (B : blocks) | VCtx | VGen (f : fid) | VResult (r : rt) | VNone.

Inductive expr :=
| EVar (x : string)
| EInt (n : nat)
| ESelfObj                          (* self, handed on as the context *)
| ESelf (attr : string)             (* self.blocks / self.name / self._stack / self._depth / self._context *)
| EFlag (f : string)                (* self._context.environment.is_async / self._context.eval_ctx.autoescape *)
| ESub (a i : expr)                 (* a[i]: dict KeyError, list IndexError *)
| EIndex (a x : expr)               (* a.index(x): ValueError *)
| EAdd (a b : expr) | EGe (a b : expr) | ELen (a : expr)
| EUndefined                        (* <...>.environment.undefined(...) *)
| EBlockRef (n c st d : expr)       (* BlockReference(n, c, st, d) *)
| ECallCtx (f c : expr)             (* f(c): a block function applied to a context *)
| EConcat (e : expr)                (* <...>.environment.concat(e) *)
| EMarkup (e : expr)
| EAsyncCall.                       (* self._async_call() *)

Inductive stmt :=
| SAssign (x : string) (e : expr)
| SExpr (e : expr)
| SIf (c : expr) (t : list stmt)
| SReturn (e : expr)
| STryLookup (body handler : list stmt).      (* try: body  except LookupError: handler *)

Record self := { s_blocks : blocks; s_name : name; s_stack : list fid; s_depth : nat; s_async : bool; s_auto : bool }.
Definition env := list (string * value).
Fixpoint env_get (x : string) (e : env) : value :=
  match e with [] => VNone | (y, v) :: r => if String.eqb x y then v else env_get x r end.

Inductive outcome := Norm (v : value) | Exc (e : pyexn) | TypeErr.

Section Interp.
  Variable me : self.

  Definition bind (o : outcome) (k : value -> outcome) : outcome :=
    match o with Norm v => k v | other => other end.

  Fixpoint eval (e : expr) (en : env) : outcome :=
    match e with
    | EVar x => Norm (env_get x en)
    | EInt n => Norm (VNat n)
    | ESelfObj => Norm VCtx
    | ESelf a =>
        if String.eqb a "blocks" then Norm (VBlocks (s_blocks me))
        else if String.eqb a "name" then Norm (VName (s_name me))
        else if String.eqb a "_stack" then Norm (VStack (s_stack me))
        else if String.eqb a "_depth" then Norm (VNat (s_depth me))
        else if String.eqb a "_context" then Norm VCtx
        else TypeErr
    | EFlag f =>
        if String.eqb f "is_async" then Norm (VBool (s_async me))
        else if String.eqb f "autoescape" then Norm (VBool (s_auto me))
        else TypeErr
    | ESub a i =>
        bind (eval a en) (fun va => bind (eval i en) (fun vi =>
          match va, vi with
          | VBlocks B, VName n => match assoc n B with Some st => Norm (VStack st) | None => Exc PyKeyError end
          | VStack st, VNat k => match nth_error st k with Some f => Norm (VFid f) | None => Exc PyIndexError end
          | _, _ => TypeErr
          end))
    | EIndex a x =>
        bind (eval a en) (fun va => bind (eval x en) (fun vx =>
          match va, vx with
          | VStack st, VFid f => match index_of f st with Some k => Norm (VNat k) | None => Exc PyValueError end
          | _, _ => TypeErr
          end))
    | EAdd a b =>
        bind (eval a en) (fun va => bind (eval b en) (fun vb =>
          match va, vb with VNat x, VNat y => Norm (VNat (x + y)) | _, _ => TypeErr end))
    | EGe a b =>
        bind (eval a en) (fun va => bind (eval b en) (fun vb =>
          match va, vb with VNat x, VNat y => Norm (VBool (Nat.leb y x)) | _, _ => TypeErr end))
    | ELen a => bind (eval a en) (fun va => match va with VStack st => Norm (VNat (List.length st)) | _ => TypeErr end)
    | EUndefined => Norm (VResult RUndef)
    | EBlockRef n c st d =>
        bind (eval n en) (fun vn => bind (eval c en) (fun vc => bind (eval st en) (fun vs => bind (eval d en) (fun vd =>
          match vn, vc, vs, vd with
          | VName n', VCtx, VStack st', VNat d' => Norm (VResult (RRef n' st' d'))
          | _, _, _, _ => TypeErr
          end))))
    | ECallCtx f c =>
        bind (eval f en) (fun vf => bind (eval c en) (fun vc =>
          match vf, vc with VFid f', VCtx => Norm (VGen f') | _, _ => TypeErr end))
    | EConcat a => bind (eval a en) (fun va => match va with VGen f => Norm (VResult (RCall f false)) | _ => TypeErr end)
    | EMarkup a => bind (eval a en) (fun va => match va with VResult (RCall f _) => Norm (VResult (RCall f true)) | _ => TypeErr end)
    | EAsyncCall => Norm (VResult RAsync)
    end.

  Inductive flow := Fall (en : env) | Ret (v : value) | Raise (x : pyexn) | Stuck.

  Definition is_lookup_error (x : pyexn) : bool :=
    match x with PyKeyError | PyIndexError => true | PyValueError => false end.

  Fixpoint exec (st : stmt) (en : env) {struct st} : flow :=
    let execs := fix execs (l : list stmt) (en : env) {struct l} : flow :=
      match l with
      | [] => Fall en
      | x :: r => match exec x en with Fall en1 => execs r en1 | other => other end
      end in
    match st with
    | SAssign x e => match eval e en with Norm v => Fall ((x, v) :: en) | Exc x1 => Raise x1 | TypeErr => Stuck end
    | SExpr e => match eval e en with Norm _ => Fall en | Exc x1 => Raise x1 | TypeErr => Stuck end
    | SIf c t => match eval c en with
                 | Norm (VBool true) => execs t en
                 | Norm (VBool false) => Fall en
                 | Norm _ | TypeErr => Stuck
                 | Exc x1 => Raise x1
                 end
    | SReturn e => match eval e en with Norm v => Ret v | Exc x1 => Raise x1 | TypeErr => Stuck end
    | STryLookup body handler =>
        match execs body en with
        | Raise x1 => if is_lookup_error x1 then execs handler en else Raise x1
        | other => other
        end
    end.

  Fixpoint execs (l : list stmt) (en : env) : flow :=
    match l with
    | [] => Fall en
    | x :: r => match exec x en with Fall en1 => execs r en1 | other => other end
    end.
End Interp.

(* what a method call amounts to; None = the term left the typed fragment *)
Definition to_rt (f : flow) : option rt :=
  match f with
  | Ret (VResult r) => Some r
  | Raise x => Some (RExc x)
  | _ => None
  end.
