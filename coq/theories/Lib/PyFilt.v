(* A deep embedding of the Python vocabulary used by the arithmetic cores of three filters of
   jinja2/filters.py — sync_do_slice, do_batch, do_truncate — with its interpreter.  The
   translator gen/filt_translate.py turns the CURRENT source of each function into a term of
   this language (fail-closed on anything outside the vocabulary); the generated file
   Gen_filt_*.v then proves that the interpreted term equals the hand-written model function
   (Model.FiltColl.do_slice / do_batch, Model.FiltStr.do_truncate) for all inputs.  An edit of
   a function changes the term, and that equation is what breaks.

   Values: ints, bools, None, one opaque item, lists of items (a str is a list of code
   points).  Variables live in an association list that is updated in place (the translator
   pre-declares every local, so the shape of the environment never changes).  A generator
   function collects what it yields. *)
From Coq Require Import List ZArith Bool String.
Import ListNotations.
Open Scope Z_scope.

Inductive perr := PZeroDiv | PAssert | PStuck.          (* PStuck: ill-typed / unbound: outside the vocabulary's meaning *)

Section PyFilt.
  Variable A : Type.
  Variable rsplit_space : list A -> list A.               (* x.rsplit(" ", 1)[0] as one primitive *)

  Inductive value := VZ (z : Z) | VB (b : bool) | VNone | VItem (a : A) | VL (l : list A).

  Inductive expr :=
  | EVar (x : string) | EInt (z : Z) | ENone | EEmpty               (* [] *)
  | EAdd (a b : expr) | ESub (a b : expr) | EMul (a b : expr)
  | EFloorDiv (a b : expr) | EMod (a b : expr)
  | ELt (a b : expr) | ELe (a b : expr) | EGt (a b : expr) | EGe (a b : expr) | EEq (a b : expr)
  | EIsNone (a : expr) | EIsNotNone (a : expr)
  | EAnd (a b : expr)                                               (* short-circuit, as a condition *)
  | ELen (a : expr) | EListOf (a : expr)                            (* len(x), list(x) *)
  | ESlice (a : expr) (lo hi : option expr)                         (* x[lo:hi] *)
  | ESingleton (a : expr)                                           (* [x] *)
  | ERsplitSpace (a : expr).                                        (* x.rsplit(" ", 1)[0] *)

  Inductive stmt :=
  | SAssign (x : string) (e : expr)
  | SAugAdd (x : string) (e : expr)                                 (* x += e *)
  | SAppend (x : string) (e : expr)                                 (* x.append(e) *)
  | SIf (c : expr) (t e : block)
  | SForRange (x : string) (n : expr) (body : block)                (* for x in range(n) *)
  | SForIn (x : string) (it : expr) (body : block)                  (* for x in <list> *)
  | SYield (e : expr)
  | SReturn (e : expr)
  | SAssert (c : expr)
  | SPass
  with block := BNil | BCons (s : stmt) (b : block).

  Definition env := list (string * value).
  Fixpoint get (x : string) (e : env) : option value :=
    match e with [] => None | (y, v) :: r => if String.eqb x y then Some v else get x r end.
  Fixpoint set (x : string) (v : value) (e : env) : env :=
    match e with
    | [] => [(x, v)]
    | (y, w) :: r => if String.eqb x y then (y, v) :: r else (y, w) :: set x v r
    end.

  Inductive outcome (X : Type) := Good (x : X) | Bad (e : perr).
  Arguments Good {X} _. Arguments Bad {X} _.

  Definition truthy (v : value) : option bool :=
    match v with
    | VB b => Some b
    | VZ z => Some (negb (z =? 0))
    | VNone => Some false
    | VL l => Some (match l with [] => false | _ => true end)
    | VItem _ => None
    end.

  (* x[lo:hi] with Python's index normalisation (negative indices count from the end) *)
  Definition norm_index (len i : Z) : Z :=
    if i <? 0 then Z.max 0 (i + len) else Z.min i len.
  Definition pyslice_z (lo hi : option Z) (l : list A) : list A :=
    let len := Z.of_nat (List.length l) in
    let a := match lo with Some i => norm_index len i | None => 0 end in
    let b := match hi with Some i => norm_index len i | None => len end in
    firstn (Z.to_nat (b - a)) (skipn (Z.to_nat a) l).
  Fixpoint repeat_list (l : list A) (n : nat) : list A :=
    match n with O => [] | S k => l ++ repeat_list l k end.

  Definition arith (f : Z -> Z -> Z) (a b : outcome value) : outcome value :=
    match a, b with
    | Good (VZ x), Good (VZ y) => Good (VZ (f x y))
    | Bad e, _ => Bad e
    | _, Bad e => Bad e
    | _, _ => Bad PStuck
    end.
  Definition cmp (f : Z -> Z -> bool) (a b : outcome value) : outcome value :=
    match a, b with
    | Good (VZ x), Good (VZ y) => Good (VB (f x y))
    | Bad e, _ => Bad e
    | _, Bad e => Bad e
    | _, _ => Bad PStuck
    end.

  Fixpoint eval (e : expr) (en : env) : outcome value :=
    match e with
    | EVar x => match get x en with Some v => Good v | None => Bad PStuck end
    | EInt z => Good (VZ z)
    | ENone => Good VNone
    | EEmpty => Good (VL [])
    | EAdd a b =>
        match eval a en, eval b en with
        | Good (VZ x), Good (VZ y) => Good (VZ (x + y))
        | Good (VL x), Good (VL y) => Good (VL (x ++ y))
        | Bad e1, _ => Bad e1
        | _, Bad e2 => Bad e2
        | _, _ => Bad PStuck
        end
    | ESub a b => arith Z.sub (eval a en) (eval b en)
    | EMul a b =>
        match eval a en, eval b en with
        | Good (VZ x), Good (VZ y) => Good (VZ (x * y))
        | Good (VL x), Good (VZ y) => Good (VL (repeat_list x (Z.to_nat y)))
        | Bad e1, _ => Bad e1
        | _, Bad e2 => Bad e2
        | _, _ => Bad PStuck
        end
    | EFloorDiv a b =>
        match eval a en, eval b en with
        | Good (VZ x), Good (VZ y) => if y =? 0 then Bad PZeroDiv else Good (VZ (x / y))
        | Bad e1, _ => Bad e1
        | _, Bad e2 => Bad e2
        | _, _ => Bad PStuck
        end
    | EMod a b =>
        match eval a en, eval b en with
        | Good (VZ x), Good (VZ y) => if y =? 0 then Bad PZeroDiv else Good (VZ (x mod y))
        | Bad e1, _ => Bad e1
        | _, Bad e2 => Bad e2
        | _, _ => Bad PStuck
        end
    | ELt a b => cmp Z.ltb (eval a en) (eval b en)
    | ELe a b => cmp Z.leb (eval a en) (eval b en)
    | EGt a b => cmp Z.gtb (eval a en) (eval b en)
    | EGe a b => cmp Z.geb (eval a en) (eval b en)
    | EEq a b => cmp Z.eqb (eval a en) (eval b en)
    | EIsNone a => match eval a en with
                   | Good VNone => Good (VB true) | Good _ => Good (VB false) | Bad e1 => Bad e1 end
    | EIsNotNone a => match eval a en with
                      | Good VNone => Good (VB false) | Good _ => Good (VB true) | Bad e1 => Bad e1 end
    | EAnd a b =>
        match eval a en with
        | Good va => match truthy va with
                     | Some false => Good (VB false)
                     | Some true => match eval b en with
                                    | Good vb => match truthy vb with Some t => Good (VB t) | None => Bad PStuck end
                                    | Bad e2 => Bad e2
                                    end
                     | None => Bad PStuck
                     end
        | Bad e1 => Bad e1
        end
    | ELen a => match eval a en with
                | Good (VL l) => Good (VZ (Z.of_nat (List.length l))) | Good _ => Bad PStuck | Bad e1 => Bad e1 end
    | EListOf a => match eval a en with
                   | Good (VL l) => Good (VL l) | Good _ => Bad PStuck | Bad e1 => Bad e1 end
    | ESlice a lo hi =>
        let ev (o : option expr) : outcome (option Z) :=
          match o with
          | None => Good None
          | Some x => match eval x en with Good (VZ z) => Good (Some z) | Good _ => Bad PStuck | Bad e1 => Bad e1 end
          end in
        match eval a en, ev lo, ev hi with
        | Good (VL l), Good i, Good j => Good (VL (pyslice_z i j l))
        | Bad e1, _, _ => Bad e1
        | _, Bad e2, _ => Bad e2
        | _, _, Bad e3 => Bad e3
        | _, _, _ => Bad PStuck
        end
    | ESingleton a => match eval a en with
                      | Good (VItem x) => Good (VL [x]) | Good _ => Bad PStuck | Bad e1 => Bad e1 end
    | ERsplitSpace a => match eval a en with
                        | Good (VL l) => Good (VL (rsplit_space l)) | Good _ => Bad PStuck | Bad e1 => Bad e1 end
    end.

  Record state := { vars : env; yielded : list (list A) }.
  Inductive flow := Fall (st : state) | Ret (v : value) (st : state) | Raise (e : perr).

  Fixpoint loop_over {X : Type} (step : X -> state -> flow) (items : list X) (st : state) : flow :=
    match items with
    | [] => Fall st
    | i :: r => match step i st with Fall st' => loop_over step r st' | other => other end
    end.
  Definition range_list (n : Z) : list Z := map Z.of_nat (seq 0 (Z.to_nat n)).
  Definition upd (x : string) (v : value) (st : state) : state :=
    {| vars := set x v (vars st); yielded := yielded st |}.

  Fixpoint exec (s : stmt) (st : state) {struct s} : flow :=
    match s with
    | SAssign x e => match eval e (vars st) with Good v => Fall (upd x v st) | Bad e1 => Raise e1 end
    | SAugAdd x e =>
        match eval (EAdd (EVar x) e) (vars st) with Good v => Fall (upd x v st) | Bad e1 => Raise e1 end
    | SAppend x e =>
        match get x (vars st), eval e (vars st) with
        | Some (VL l), Good (VItem a) => Fall (upd x (VL (l ++ [a])) st)
        | _, Bad e1 => Raise e1
        | _, _ => Raise PStuck
        end
    | SIf c t e =>
        match eval c (vars st) with
        | Good v => match truthy v with
                    | Some true => execs t st
                    | Some false => execs e st
                    | None => Raise PStuck
                    end
        | Bad e1 => Raise e1
        end
    | SForRange x n body =>
        match eval n (vars st) with
        | Good (VZ k) => loop_over (fun i st' => execs body (upd x (VZ i) st')) (range_list k) st
        | Good _ => Raise PStuck
        | Bad e1 => Raise e1
        end
    | SForIn x it body =>
        match eval it (vars st) with
        | Good (VL l) => loop_over (fun a st' => execs body (upd x (VItem a) st')) l st
        | Good _ => Raise PStuck
        | Bad e1 => Raise e1
        end
    | SYield e =>
        match eval e (vars st) with
        | Good (VL l) => Fall {| vars := vars st; yielded := yielded st ++ [l] |}
        | Good _ => Raise PStuck
        | Bad e1 => Raise e1
        end
    | SReturn e => match eval e (vars st) with Good v => Ret v st | Bad e1 => Raise e1 end
    | SAssert c =>
        match eval c (vars st) with
        | Good v => match truthy v with Some true => Fall st | Some false => Raise PAssert | None => Raise PStuck end
        | Bad e1 => Raise e1
        end
    | SPass => Fall st
    end
  with execs (b : block) (st : state) {struct b} : flow :=
    match b with
    | BNil => Fall st
    | BCons s r => match exec s st with Fall st' => execs r st' | other => other end
    end.

  (* list(generator function(...)) *)
  Definition run_gen (body : block) (en : env) : outcome (list (list A)) :=
    match execs body {| vars := en; yielded := [] |} with
    | Fall st | Ret _ st => Good (yielded st)
    | Raise e => Bad e
    end.
  (* an ordinary function call *)
  Definition run_fun (body : block) (en : env) : outcome value :=
    match execs body {| vars := en; yielded := [] |} with
    | Ret v _ => Good v
    | Fall _ => Good VNone
    | Raise e => Bad e
    end.
End PyFilt.

Arguments VZ {A}. Arguments VB {A}. Arguments VNone {A}. Arguments VItem {A}. Arguments VL {A}.
Arguments Good {X}. Arguments Bad {X}.
Arguments Fall {A}. Arguments Ret {A}. Arguments Raise {A}.
