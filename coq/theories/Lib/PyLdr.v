(* A deep embedding of the Python vocabulary of jinja2.loaders.split_template_path with its
   interpreter over the path model (Model/Ldr.v).  gen/ldr_translate.py turns the CURRENT source
   of the function into a term of this language (fail-closed); the generated file proves that
   the interpreted term equals Model.Ldr.split_template_path for every convention and every
   name.  The for loop over template.split("/") is interpreted by structural recursion over the
   piece list, carrying the accumulated `pieces` list the way the Python loop does. *)
From Coq Require Import List NArith Bool.
Import ListNotations.
From JV Require Import Model.Ldr.
Open Scope N_scope.

(* conditions on the loop variable *)
Inductive cond :=
| CSepIn                       (* os.sep in piece *)
| CAltsepIn                    (* os.path.altsep and os.path.altsep in piece *)
| CEqPardir                    (* piece == os.path.pardir *)
| CTruthy                      (* piece *)
| CEqStr (s : str)             (* piece == "<literal>" *)
| CNeStr (s : str)             (* piece != "<literal>" *)
| CNot (c : cond)
| COr (a b : cond)
| CAnd (a b : cond).

Inductive stmt :=
| SRaiseNotFound               (* raise TemplateNotFound(template) *)
| SAppend                      (* pieces.append(piece) *)
| SPass
| SContinue
| SIf (c : cond) (t e : list stmt).

(* pieces = [] ; for piece in template.split(<sep>): <body> ; return pieces *)
Record func := { split_sep : N; body : list stmt }.

Definition sep_in (cv : conv) (p : str) : bool := existsb (fun x => x =? sep cv) p.
Definition altsep_in (cv : conv) (p : str) : bool :=
  match altsep cv with Some a => existsb (fun x => x =? a) p | None => false end.

Fixpoint eval (cv : conv) (c : cond) (p : str) : bool :=
  match c with
  | CSepIn => sep_in cv p
  | CAltsepIn => altsep_in cv p
  | CEqPardir => str_eqb p s_dotdot
  | CTruthy => negb (str_eqb p [])
  | CEqStr s => str_eqb p s
  | CNeStr s => negb (str_eqb p s)
  | CNot a => negb (eval cv a p)
  | COr a b => eval cv a p || eval cv b p
  | CAnd a b => eval cv a p && eval cv b p
  end.

(* one iteration: raise, or go on to the next piece with the (possibly extended) list *)
Inductive flow := Raise | Next (acc : list str) | Fall (acc : list str).

Fixpoint exec (cv : conv) (st : stmt) (p : str) (acc : list str) {struct st} : flow :=
  let execs := fix execs (l : list stmt) (acc : list str) {struct l} : flow :=
    match l with
    | [] => Fall acc
    | x :: r => match exec cv x p acc with Fall acc' => execs r acc' | other => other end
    end in
  match st with
  | SRaiseNotFound => Raise
  | SAppend => Fall (acc ++ [p])
  | SPass => Fall acc
  | SContinue => Next acc
  | SIf c t e => if eval cv c p then execs t acc else execs e acc
  end.
Fixpoint execs (cv : conv) (l : list stmt) (p : str) (acc : list str) : flow :=
  match l with
  | [] => Fall acc
  | x :: r => match exec cv x p acc with Fall acc' => execs cv r p acc' | other => other end
  end.

Fixpoint run_loop (cv : conv) (b : list stmt) (ps : list str) (acc : list str) : option (list str) :=
  match ps with
  | [] => Some acc                                   (* return pieces *)
  | p :: r => match execs cv b p acc with
              | Raise => None
              | Next acc' | Fall acc' => run_loop cv b r acc'
              end
  end.

Definition interp (cv : conv) (f : func) (name : str) : option (list str) :=
  run_loop cv (body f) (split_on (split_sep f) name) [].

(* ------------------------------------------------------------------ what one iteration of the model does *)
Definition model_piece (cv : conv) (p : str) (acc : list str) : flow :=
  if bad_piece cv p then Raise else if keep_piece p then Fall (acc ++ [p]) else Fall acc.

Lemma existsb_orb (A : Type) (f g : A -> bool) l : existsb (fun x => f x || g x) l = existsb f l || existsb g l.
Proof.
  induction l as [|x l IH]; [reflexivity|]. cbn. rewrite IH.
  destruct (f x), (g x), (existsb f l), (existsb g l); reflexivity.
Qed.

Lemma bad_piece_split cv p : bad_piece cv p = (sep_in cv p || altsep_in cv p) || str_eqb p s_dotdot.
Proof.
  unfold bad_piece, sep_in, altsep_in, is_sep. f_equal.
  destruct (altsep cv) as [a|].
  - apply existsb_orb.
  - rewrite (existsb_orb N (fun x => x =? sep cv) (fun _ => false)).
    replace (existsb (fun _ : N => false) p) with false; [reflexivity|].
    induction p; [reflexivity|assumption].
Qed.

(* the loop with an accumulator computes what the model's recursion computes *)
Lemma stp_go_acc cv b : (forall p acc, match execs cv b p acc with Next a | Fall a => Fall a | Raise => Raise end = model_piece cv p acc) ->
  forall ps acc, run_loop cv b ps acc = match stp_go cv ps with Some l => Some (acc ++ l) | None => None end.
Proof.
  intros Hb. induction ps as [|p r IH]; intros acc; cbn [run_loop stp_go].
  - now rewrite app_nil_r.
  - specialize (Hb p acc). unfold model_piece in Hb. destruct (bad_piece cv p).
    + destruct (execs cv b p acc); try discriminate. reflexivity.
    + destruct (keep_piece p).
      * destruct (execs cv b p acc) as [|a|a]; try discriminate; injection Hb as ->; rewrite IH;
          destruct (stp_go cv r); try reflexivity; now rewrite <- app_assoc.
      * destruct (execs cv b p acc) as [|a|a]; try discriminate; injection Hb as ->; rewrite IH;
          destruct (stp_go cv r); reflexivity.
Qed.

Lemma interp_eq_model cv f :
  split_sep f = c_slash ->
  (forall p acc, match execs cv (body f) p acc with Next a | Fall a => Fall a | Raise => Raise end = model_piece cv p acc) ->
  forall name, interp cv f name = split_template_path cv name.
Proof.
  intros Hs Hb name. unfold interp, split_template_path. rewrite Hs, (stp_go_acc cv (body f) Hb).
  destruct (stp_go cv (split_on c_slash name)); reflexivity.
Qed.
