(* A deep embedding of the Python vocabulary used by the decision functions of jinja2/sandbox.py
     modifies_known_mutable, is_internal_attribute, SandboxedEnvironment.is_safe_attribute,
     ImmutableSandboxedEnvironment.is_safe_attribute, SandboxedEnvironment.getattr / getitem,
     SandboxedEnvironment.is_safe_callable / call
   with its interpreter.  The translator gen/sbx_translate.py turns the CURRENT source of each
   function into a term of this language (fail-closed on anything outside the vocabulary); the
   generated file Gen_sbx_src.v then proves, by symbolic evaluation, that the interpreted term
   equals the hand-written model function (Model/SbxAttr, SbxMutable, SbxAccess, SbxCall) for every
   argument.  An edit of a function changes the term and that equation is what breaks.

   The language is generic in the type [O] of objects a function inspects and the type [E] of
   events it may cause; what the world does (module globals, getattr / obj[key] on objects, the
   other functions and methods a body calls) enters as Section variables, instantiated per
   function in the generated file from the models. *)
From Coq Require Import List Bool String ZArith.
Import ListNotations.
Open Scope string_scope.
Open Scope list_scope.

Definition smem (a : string) (l : list string) : bool := existsb (String.eqb a) l.

Section Lang.
  Variable O : Type.
  Variable E : Type.

  Inductive pv :=
  | PBool (b : bool) | PStr (s : string) | PInt (z : Z) | PNone
  | PSub (content shown : string)  (* an instance of a str subclass: behaves like [content], str() gives [shown] *)
  | PObj (o : O)
  | PTy (p : O -> bool)           (* a class, as its isinstance predicate on objects *)
  | PStrTy                        (* the class str *)
  | PSet (l : list string)        (* a set / frozenset of strings *)
  | PTuple (l : list pv).

  Inductive expr :=
  | EVar (x : string)
  | EGlobal (name : string)       (* module global, by its source text *)
  | EStr (s : string) | EBool (b : bool) | ENone
  | ETuple (l : list expr)
  | ENot (e : expr)
  | EOr (a b : expr) | EAnd (a b : expr)
  | EEq (a b : expr)
  | EIn (a b : expr)
  | EIsNotNone (e : expr)
  | EStartswith (e : expr) (p : string)
  | EIsinstance (e ty : expr)
  | EHasattrTypes (name : string)            (* hasattr(types, "name") *)
  | ESubscript (o k : expr)                  (* o[k] *)
  | EGetattr (o a : expr)                    (* getattr(o, a) *)
  | EGetattrDefault (o : expr) (a : string) (d : expr)   (* getattr(o, "a", d) *)
  | EStrOf (e : expr)                        (* str(e) *)
  | EHasattr (o a : expr)                    (* hasattr(o, a) *)
  | EIfExp (c t e : expr)                    (* t if c else e *)
  | EListComp (elt : expr) (x : string) (it : expr)   (* [elt for x in it] (lists are tuples here) *)
  | ECall (f : string) (args : list expr) (star : option expr).
      (* a named function / method; keyword arguments are listed positionally in source order,
         their names being part of [f]'s text; [star] is the *args argument *)

  Inductive stmt :=
  | SAssign (x : string) (e : expr)
  | SAssignTuple (xs : list string) (e : expr)      (* a, b = e *)
  | SExpr (e : expr)                                (* an expression statement *)
  | SIf (c : expr) (t e : list stmt)
  | SReturn (e : expr)
  | SPass
  | SRaise (x : string)
  | STry (body : list stmt) (exns : list string) (handler orelse : list stmt)
  | SFor (targets : list string) (iter : expr) (body : list stmt).

  Definition env := list (string * pv).
  Fixpoint env_get (x : string) (e : env) : pv :=
    match e with [] => PNone | (y, v) :: r => if String.eqb x y then v else env_get x r end.

  Inductive outcome (A : Type) := Norm (a : A) | Exc (x : string).
  Arguments Norm {A} _. Arguments Exc {A} _.

  (* ---- the world *)
  Variable globals : string -> pv.
  Variable types_has : string -> bool.
  Variable prim_getattr : O -> string -> outcome pv.
  Variable prim_getitem : O -> pv -> outcome pv.
  Variable call_fn : string -> list pv -> list E * outcome pv.
  Variable exn_isa : string -> string -> bool.      (* raised class, handler class *)

  Definition truthy (v : pv) : bool :=
    match v with
    | PBool b => b
    | PNone => false
    | PStr s | PSub s _ => negb (String.eqb s "")
    | PInt z => negb (Z.eqb z 0)
    | PSet l => match l with [] => false | _ => true end
    | PTuple l => match l with [] => false | _ => true end
    | _ => true
    end.

  Definition pv_eqb (a b : pv) : bool :=
    match a, b with
    | PStr x, PStr y => String.eqb x y
    | PBool x, PBool y => Bool.eqb x y
    | PInt x, PInt y => Z.eqb x y
    | PNone, PNone => true
    | _, _ => false
    end.

  Definition isinst1 (v t : pv) : bool :=
    match t with
    | PTy p => match v with PObj o => p o | _ => false end
    | PStrTy => match v with PStr _ | PSub _ _ => true | _ => false end
    | _ => false
    end.
  Definition isinst (v t : pv) : bool :=
    match t with
    | PTuple ts => existsb (isinst1 v) ts
    | _ => isinst1 v t
    end.

  Definition res (A : Type) := (list E * outcome A)%type.
  Definition ret {A} (a : A) : res A := ([], Norm a).
  Definition bind {A B} (r : res A) (k : A -> res B) : res B :=
    match r with
    | (l, Norm a) => let (l2, o) := k a in (l ++ l2, o)
    | (l, Exc x) => (l, Exc x)
    end.

  Fixpoint eval (e : expr) (en : env) {struct e} : res pv :=
    let evals := fix evals (l : list expr) : res (list pv) :=
      match l with
      | [] => ret []
      | x :: r => bind (eval x en) (fun v => bind (evals r) (fun vs => ret (v :: vs)))
      end in
    match e with
    | EVar x => ret (env_get x en)
    | EGlobal n => ret (globals n)
    | EStr s => ret (PStr s)
    | EBool b => ret (PBool b)
    | ENone => ret PNone
    | ETuple l => bind (evals l) (fun vs => ret (PTuple vs))
    | ENot a => bind (eval a en) (fun v => ret (PBool (negb (truthy v))))
    | EOr a b => bind (eval a en) (fun v => if truthy v then ret v else eval b en)
    | EAnd a b => bind (eval a en) (fun v => if truthy v then eval b en else ret v)
    | EEq a b => bind (eval a en) (fun va => bind (eval b en) (fun vb => ret (PBool (pv_eqb va vb))))
    | EIn a b => bind (eval a en) (fun va => bind (eval b en) (fun vb =>
                   match va, vb with
                   | PStr s, PSet l | PSub s _, PSet l => ret (PBool (smem s l))
                   | _, _ => ([], Exc "TypeError")
                   end))
    | EIsNotNone a => bind (eval a en) (fun v => ret (PBool (match v with PNone => false | _ => true end)))
    | EStartswith a p => bind (eval a en) (fun v =>
                   match v with PStr s | PSub s _ => ret (PBool (prefix p s)) | _ => ([], Exc "AttributeError") end)
    | EIsinstance a ty => bind (eval a en) (fun v => bind (eval ty en) (fun t => ret (PBool (isinst v t))))
    | EHasattrTypes n => ret (PBool (types_has n))
    | ESubscript o k => bind (eval o en) (fun vo => bind (eval k en) (fun vk =>
                   match vo with PObj ob => ([], prim_getitem ob vk) | _ => ([], Exc "TypeError") end))
    | EGetattr o a => bind (eval o en) (fun vo => bind (eval a en) (fun va =>
                   match vo, va with
                   | PObj ob, PStr s | PObj ob, PSub s _ => ([], prim_getattr ob s)
                   | _, _ => ([], Exc "TypeError")
                   end))
    | EGetattrDefault o a d => bind (eval o en) (fun vo =>
                   match vo with
                   | PObj ob => match prim_getattr ob a with
                                | Norm v => ret v
                                | Exc x => if exn_isa x "AttributeError" then eval d en else ([], Exc x)
                                end
                   | _ => eval d en
                   end)
    | EStrOf a => bind (eval a en) (fun v => match v with PSub _ shown => ret (PStr shown) | _ => ret v end)
    | EHasattr o a => bind (eval o en) (fun vo => bind (eval a en) (fun va =>
                   match vo, va with
                   | PObj ob, PStr s => match prim_getattr ob s with
                                        | Norm _ => ret (PBool true)
                                        | Exc x => if exn_isa x "AttributeError" then ret (PBool false) else ([], Exc x)
                                        end
                   | _, _ => ret (PBool false)
                   end))
    | EIfExp c t e => bind (eval c en) (fun v => if truthy v then eval t en else eval e en)
    | EListComp elt x it =>
        bind (eval it en) (fun v =>
          match v with
          | PTuple items =>
              bind ((fix each (l : list pv) : res (list pv) :=
                 match l with
                 | [] => ret []
                 | i :: r => bind (eval elt ((x, i) :: en)) (fun w => bind (each r) (fun ws => ret (w :: ws)))
                 end) items) (fun ws => ret (PTuple ws))
              
          | _ => ([], Exc "TypeError")
          end)
    | ECall f args star =>
        bind (evals args) (fun vs =>
          match star with
          | None => call_fn f vs
          | Some s => bind (eval s en) (fun t => match t with PTuple items => call_fn f (vs ++ items) | _ => ([], Exc "TypeError") end)
          end)
    end.

  Inductive flow := Fall (en : env) | Ret (v : pv) | Raise (x : string).
  Definition fres := (list E * flow)%type.

  Definition of_eval (r : res pv) (k : pv -> fres) : fres :=
    match r with
    | (l, Norm v) => let (l2, f) := k v in (l ++ l2, f)
    | (l, Exc x) => (l, Raise x)
    end.

  Definition then_ (r : fres) (k : env -> fres) : fres :=
    match r with
    | (l, Fall en) => let (l2, f) := k en in (l ++ l2, f)
    | other => other
    end.

  (* for x, y in items: body *)
  Fixpoint bind_targets (xs : list string) (vs : list pv) (en : env) : env :=
    match xs, vs with
    | x :: xr, v :: vr => bind_targets xr vr ((x, v) :: en)
    | _, _ => en
    end.
  Definition bind_target (xs : list string) (v : pv) (en : env) : env :=
    match xs with
    | [x] => (x, v) :: en
    | _ => match v with PTuple vs => bind_targets xs vs en | _ => en end
    end.
  Fixpoint iterate (step : pv -> env -> fres) (items : list pv) (en : env) : fres :=
    match items with
    | [] => ([], Fall en)
    | x :: r => then_ (step x en) (iterate step r)
    end.

  Fixpoint exec (st : stmt) (en : env) {struct st} : fres :=
    let execs := fix execs (l : list stmt) (en : env) {struct l} : fres :=
      match l with
      | [] => ([], Fall en)
      | x :: r => then_ (exec x en) (execs r)
      end in
    match st with
    | SAssign x e => of_eval (eval e en) (fun v => ([], Fall ((x, v) :: en)))
    | SAssignTuple xs e => of_eval (eval e en) (fun v =>
        match v with
        | PTuple vs => if Nat.eqb (List.length xs) (List.length vs) then ([], Fall (bind_targets xs vs en)) else ([], Raise "ValueError")
        | _ => ([], Raise "TypeError")
        end)
    | SExpr e => of_eval (eval e en) (fun _ => ([], Fall en))
    | SIf c t e => of_eval (eval c en) (fun v => if truthy v then execs t en else execs e en)
    | SReturn e => of_eval (eval e en) (fun v => ([], Ret v))
    | SPass => ([], Fall en)
    | SRaise x => ([], Raise x)
    | STry body exns handler orelse =>
        match execs body en with
        | (l, Raise x) => if existsb (exn_isa x) exns
                          then let (l2, f) := execs handler en in (l ++ l2, f)
                          else (l, Raise x)
        | (l, Fall en1) => let (l2, f) := execs orelse en1 in (l ++ l2, f)
        | other => other
        end
    | SFor xs it body =>
        of_eval (eval it en) (fun v =>
          match v with
          | PTuple items => iterate (fun x en1 => execs body (bind_target xs x en1)) items en
          | _ => ([], Raise "TypeError")
          end)
    end.

  Fixpoint execs (l : list stmt) (en : env) : fres :=
    match l with
    | [] => ([], Fall en)
    | x :: r => then_ (exec x en) (execs r)
    end.

  (* a function call: parameters bound, body executed, implicit `return None` *)
  Definition run (body : list stmt) (en : env) : list E * outcome pv :=
    match execs body en with
    | (l, Ret v) => (l, Norm v)
    | (l, Fall _) => (l, Norm PNone)
    | (l, Raise x) => (l, Exc x)
    end.
End Lang.

Arguments PBool {O}. Arguments PStr {O}. Arguments PSub {O}. Arguments PInt {O}. Arguments PNone {O}. Arguments PObj {O}.
Arguments PTy {O}. Arguments PStrTy {O}. Arguments PSet {O}. Arguments PTuple {O}.
Arguments Norm {A}. Arguments Exc {A}.
Arguments Fall {O}. Arguments Ret {O}. Arguments Raise {O}.

(* Python's exception hierarchy, as far as the handlers of sandbox.py look at it *)
Definition exn_isa (raised handler : string) : bool :=
  String.eqb raised handler
  || (String.eqb handler "LookupError" && (String.eqb raised "KeyError" || String.eqb raised "IndexError"))
  || (String.eqb handler "Exception" && negb (String.eqb raised "BaseException")).
