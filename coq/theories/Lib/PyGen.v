(* A small deep embedding of Python generator bodies — just what TemplateStream._buffered_generator
   is written in — with an executable interpreter.  gen/stream_translate.py turns the CURRENT source
   of that method into a term of this language (locals numbered in order of first occurrence, the
   parameter `size` is variable 0); Proofs/StreamTrans.v proves that the term's semantics is the model
   function Stream.buffered_go for every piece list and every size >= 1.

   Semantics notes (what of Python is modelled):
   - values: naturals, lists of strings, strings, True, None and the bound method <list>.append;
   - next(self._gen) takes the head of the input or raises StopIteration;
   - truthiness as in Python (0, '', [] are false);
   - `while` loops get an iteration budget n (the same n for every loop instance; running out is the
     distinct outcome OFuel, never a normal-looking value);
   - try/except StopIteration, yield, return, del x[:], x += n, an expression statement calling a
     bound append. *)
From Coq Require Import List NArith Bool Arith.
Import ListNotations.
From JV Require Import Model.Stream.

Inductive val := VNat (n : nat) | VList (l : list str) | VStr (s : str) | VAppend (x : nat) | VTrue | VNone.

Definition store := list val.
Definition get (x : nat) (l : store) : val := nth x l VNone.
Fixpoint set (x : nat) (v : val) (l : store) : store :=
  match x, l with
  | 0, [] => [v]
  | 0, _ :: r => v :: r
  | S x', [] => VNone :: set x' v []
  | S x', y :: r => y :: set x' v r
  end.

Record st := { vars : store; input : list str }.

Inductive expr :=
| EVar (x : nat) | ENat (n : nat) | ENil | ETrue
| ELt (a b : expr) | ENot (a : expr)
| EConcat (a : expr)            (* concat(x) *)
| EAppendOf (x : nat)           (* x.append *)
| ENext.                        (* next(self._gen) *)

Inductive eres := EVal (v : val) (s : st) | EStop (s : st) | EErr.

Definition truthy (v : val) : bool :=
  match v with
  | VNat n => negb (Nat.eqb n 0) | VList l => match l with [] => false | _ => true end
  | VStr s => nonempty s | VAppend _ => true | VTrue => true | VNone => false
  end.
Definition of_bool (b : bool) : val := if b then VTrue else VNat 0.   (* False == 0 *)

Fixpoint eval (e : expr) (s : st) : eres :=
  match e with
  | EVar x => EVal (get x (vars s)) s
  | ENat n => EVal (VNat n) s
  | ENil => EVal (VList []) s
  | ETrue => EVal VTrue s
  | ELt a b =>
      match eval a s with
      | EVal (VNat x) s1 => match eval b s1 with
                            | EVal (VNat y) s2 => EVal (of_bool (Nat.ltb x y)) s2
                            | EVal _ _ => EErr | r => r end
      | EVal _ _ => EErr | r => r
      end
  | ENot a => match eval a s with EVal v s1 => EVal (of_bool (negb (truthy v))) s1 | r => r end
  | EConcat a => match eval a s with EVal (VList l) s1 => EVal (VStr (concat l)) s1 | EVal _ _ => EErr | r => r end
  | EAppendOf x => match get x (vars s) with VList _ => EVal (VAppend x) s | _ => EErr end
  | ENext => match input s with
             | [] => EStop s
             | p :: r => EVal (VStr p) {| vars := vars s; input := r |}
             end
  end.

Inductive stmt :=
| SAssign (x : nat) (e : expr)
| SAugAdd (x : nat) (n : nat)                  (* x += n *)
| SCall1 (f a : expr)                          (* f(a) as a statement; f a bound append *)
| SDelAll (x : nat)                            (* del x[:] *)
| SIf (e : expr) (body : list stmt)
| SWhile (e : expr) (body : list stmt)
| STryStop (body handler : list stmt)          (* try: body  except StopIteration: handler *)
| SYield (e : expr)
| SReturn.

(* outcome of a statement: the state and the strings yielded while it ran *)
Inductive outcome :=
| ONormal (s : st) (ys : list str)
| OStop (s : st) (ys : list str)               (* StopIteration propagating *)
| OReturn (s : st) (ys : list str)             (* the generator returned *)
| OFuel | OErr.

Definition prepend (ys : list str) (o : outcome) : outcome :=
  match o with
  | ONormal s zs => ONormal s (ys ++ zs) | OStop s zs => OStop s (ys ++ zs) | OReturn s zs => OReturn s (ys ++ zs)
  | r => r
  end.

(* a while loop with iteration budget k: [cond] evaluates the test, [bodyf] runs the body *)
Fixpoint while_loop (cond : st -> eres) (bodyf : st -> outcome) (k : nat) (s : st) {struct k} : outcome :=
  match k with
  | 0 => OFuel
  | S k' => match cond s with
            | EVal v s1 => if truthy v
                           then match bodyf s1 with ONormal s2 ys => prepend ys (while_loop cond bodyf k' s2) | o => o end
                           else ONormal s1 []
            | EStop s1 => OStop s1 [] | EErr => OErr
            end
  end.

Fixpoint exec (p : stmt) (n : nat) (s : st) {struct p} : outcome :=
  let execs := fix execs (l : list stmt) (s : st) {struct l} : outcome :=
    match l with
    | [] => ONormal s []
    | x :: r => match exec x n s with ONormal s1 ys => prepend ys (execs r s1) | o => o end
    end in
  match p with
  | SAssign x e => match eval e s with
                   | EVal v s1 => ONormal {| vars := set x v (vars s1); input := input s1 |} []
                   | EStop s1 => OStop s1 [] | EErr => OErr end
  | SAugAdd x k => match get x (vars s) with
                   | VNat c => ONormal {| vars := set x (VNat (c + k)) (vars s); input := input s |} []
                   | _ => OErr end
  | SCall1 f a => match eval f s with
                  | EVal (VAppend x) s1 =>
                      match eval a s1 with
                      | EVal (VStr c) s2 => match get x (vars s2) with
                                            | VList l => ONormal {| vars := set x (VList (l ++ [c])) (vars s2); input := input s2 |} []
                                            | _ => OErr end
                      | EVal _ _ => OErr | EStop s2 => OStop s2 [] | EErr => OErr
                      end
                  | EVal _ _ => OErr | EStop s1 => OStop s1 [] | EErr => OErr
                  end
  | SDelAll x => match get x (vars s) with
                 | VList _ => ONormal {| vars := set x (VList []) (vars s); input := input s |} []
                 | _ => OErr end
  | SIf e body => match eval e s with
                  | EVal v s1 => if truthy v then execs body s1 else ONormal s1 []
                  | EStop s1 => OStop s1 [] | EErr => OErr end
  | SWhile e body => while_loop (eval e) (execs body) n s
  | STryStop body handler => match execs body s with OStop s1 ys => prepend ys (execs handler s1) | o => o end
  | SYield e => match eval e s with
                | EVal (VStr c) s1 => ONormal s1 [c]
                | EVal _ _ => OErr | EStop s1 => OStop s1 [] | EErr => OErr end
  | SReturn => OReturn s []
  end.

Fixpoint execs (l : list stmt) (n : nat) (s : st) : outcome :=
  match l with
  | [] => ONormal s []
  | x :: r => match exec x n s with ONormal s1 ys => prepend ys (execs r n s1) | o => o end
  end.

(* running a generator function with [nvars] local variables whose only parameter (variable 0) is
   [size], over the pieces (locals not yet assigned read as None) *)
Definition run_gen (body : list stmt) (nvars : nat) (size : nat) (pieces : list str) (n : nat) : outcome :=
  execs body n {| vars := VNat size :: repeat VNone (nvars - 1); input := pieces |}.
