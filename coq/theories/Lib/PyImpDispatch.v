(* The dispatch of Environment.get_or_select_template on the KIND of its argument, as a decision list
   (if isinstance(x, (A, B)) / if type(x) is A: return <action>; ...; return <action>) and its
   interpreter over value kinds.  gen/imp_translate.py turns the CURRENT source of the function into
   such a list; the generated file checks, for every value kind, that the interpreted list takes
   the action the model does (Model/Imp.get_target for one name / object, select_template for a list).
   Python's isinstance(x, str) accepts every str subclass; type(x) is str only the exact class. *)
From Coq Require Import List Bool String.
Import ListNotations.

Inductive vkind := KStr | KStrSubclass | KMarkup | KUndefined | KTemplate | KList | KTuple.
Inductive action := AGetTemplate | AReturnIt | ASelectTemplate.
Inductive cond :=
| CIsInstance (classes : list string)
| CTypeIs (cls : string).

Definition instance_of (k : vkind) (cls : string) : bool :=
  match k with
  | KStr | KStrSubclass | KMarkup => String.eqb cls "str"
  | KUndefined => String.eqb cls "Undefined"
  | KTemplate => String.eqb cls "Template"
  | KList => String.eqb cls "list"
  | KTuple => String.eqb cls "tuple"
  end.
Definition exact_type (k : vkind) (cls : string) : bool :=
  match k with
  | KStr => String.eqb cls "str"
  | KStrSubclass | KMarkup => false           (* their type is the subclass *)
  | KUndefined => String.eqb cls "Undefined"
  | KTemplate => String.eqb cls "Template"
  | KList => String.eqb cls "list"
  | KTuple => String.eqb cls "tuple"
  end.
Definition holds (c : cond) (k : vkind) : bool :=
  match c with
  | CIsInstance cs => existsb (instance_of k) cs
  | CTypeIs cls => exact_type k cls
  end.
Fixpoint dispatch (rules : list (cond * action)) (default : action) (k : vkind) : action :=
  match rules with
  | [] => default
  | (c, a) :: r => if holds c k then a else dispatch r default k
  end.

(* the model: one name of any str kind (or an Undefined, which get_template rejects itself) is looked
   up, a Template object is returned as it is, everything else is a list of candidates *)
Definition dispatch_model (k : vkind) : action :=
  match k with
  | KStr | KStrSubclass | KMarkup | KUndefined => AGetTemplate
  | KTemplate => AReturnIt
  | KList | KTuple => ASelectTemplate
  end.
Definition all_kinds : list vkind := [KStr; KStrSubclass; KMarkup; KUndefined; KTemplate; KList; KTuple].
