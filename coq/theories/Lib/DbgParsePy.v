(* C35 -- deep embedding of the statements of lexer.TokenStream.expect and parser.Parser.fail
   (gen/dbg_parse_translate.py translates the current source, fail-closed), interpreted over a
   current token; the generated file proves  interpreted source = Model.Dbg.expect / fail. *)
From Coq Require Import List NArith Bool.
Import ListNotations.
From JV Require Import Model.Dbg.
Open Scope N_scope.

Inductive lexpr :=                       (* the line-number argument of the raised error *)
| LCurrent                               (* self.current.lineno / self.stream.current.lineno *)
| LParam                                 (* the local / parameter `lineno` *)
| LConst (n : N).
Inductive pcond := CNotTest | CIsEof | CLinenoIsNone.
Inductive pstmt :=
| PIf (c : pcond) (body : list pstmt)
| PAssignText                            (* expr = describe_token_expr(expr): message text only *)
| PSetLineno (l : lexpr)                 (* lineno = ... *)
| PRaise (l : lexpr)                     (* raise TemplateSyntaxError(msg, l, self.name, self.filename) *)
| PReturnNext.                           (* return next(self) *)

Record penv := mkPenv { p_cur : token; p_matches : bool; p_lineno : option N }.
Inductive flow := FFall (e : penv) | FDone (r : presult).

Definition lval (e : penv) (l : lexpr) : N :=
  match l with
  | LCurrent => t_line (p_cur e)
  | LParam => match p_lineno e with Some n => n | None => 0 end
  | LConst n => n
  end.
Definition cval (e : penv) (c : pcond) : bool :=
  match c with
  | CNotTest => negb (p_matches e)
  | CIsEof => t_eof (p_cur e)
  | CLinenoIsNone => match p_lineno e with None => true | Some _ => false end
  end.

Fixpoint pexec (s : pstmt) (e : penv) {struct s} : flow :=
  let pexecs := fix pexecs (l : list pstmt) (e : penv) {struct l} : flow :=
    match l with [] => FFall e | x :: r => match pexec x e with FFall e' => pexecs r e' | d => d end end in
  match s with
  | PIf c body => if cval e c then pexecs body e else FFall e
  | PAssignText => FFall e
  | PSetLineno l => FFall (mkPenv (p_cur e) (p_matches e) (Some (lval e l)))
  | PRaise l => FDone (PSyntaxError (lval e l))
  | PReturnNext => FDone PNext
  end.
Fixpoint pexecs (l : list pstmt) (e : penv) : flow :=
  match l with [] => FFall e | x :: r => match pexec x e with FFall e' => pexecs r e' | d => d end end.
