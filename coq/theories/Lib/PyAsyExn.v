(* Deep embeddings of the Python vocabulary used by
     part A: jinja2.async_utils.auto_await / auto_aiter / auto_to_list / _IteratorToAsyncIterator.__anext__
     part B: jinja2.runtime.Context.call, and the try / except blocks of Template.render,
             render_async, generate, generate_async with Environment.handle_exception
   with their interpreters.  The translator gen/exn_translate.py turns the CURRENT source of these
   functions into terms of these languages (fail-closed on anything outside the vocabulary); the
   generated files then prove that the interpreted term equals the model function used by the
   C09 / C38 developments for every input.  An edit of a function changes the term and that
   equation is what breaks.

   What the interpreters assume of CPython is written into them and nowhere else: list / int are
   "common primitives", a coroutine is awaitable, an async iterable has __aiter__, iter() of a
   plain iterable is an iterator and of anything else a TypeError, an async comprehension collects
   an async iterator, `except C` matches by subclass, exception.with_traceback returns the same
   object. *)
From Coq Require Import List ZArith NArith Bool String.
Import ListNotations.
From JV Require Import Model.Asy Model.Exn.

(* ================================================================= part A *)
Module A.
  Inductive pval :=
  | V (v : val)                      (* a data value of the Asy model *)
  | It (l : list Z)                  (* a (sync) iterator *)
  | AIt (l : list Z)                 (* an async iterator *)
  | Lst (l : list Z)                 (* a new list *)
  | Item (z : Z)
  | PBool (b : bool).

  Inductive pexn := TypeErr | StopIter | StopAsyncIter.

  Inductive expr :=
  | EVar (x : string)
  | ETypeInPrims (e : expr)                      (* type(e) in _common_primitives *)
  | EIsAwaitable (e : expr)                      (* inspect.isawaitable(e) *)
  | EAwait (e : expr)
  | EHasAttr (e : expr) (name : string)
  | ECallMeth (e : expr) (name : string)         (* e.name() *)
  | EIter (e : expr)                             (* iter(e) *)
  | EWrapIter (e : expr)                         (* _IteratorToAsyncIterator(e) *)
  | EAutoAiter (e : expr)                        (* auto_aiter(e): the function translated next to it *)
  | EAsyncListComp (e : expr)                    (* [x async for x in e] *)
  | ENextSelfIterator.                           (* next(self._iterator) *)

  Inductive stmt :=
  | SIf (c : expr) (t e : list stmt)
  | SReturn (e : expr)
  | STry (body : list stmt) (ex : pexn) (handler : list stmt)
  | SRaise (x : pexn).

  Inductive flow := Ret (v : pval) | Raise (x : pexn) | Fall.

  Definition env := list (string * pval).
  Fixpoint env_get (x : string) (e : env) : option pval :=
    match e with [] => None | (y, v) :: r => if String.eqb x y then Some v else env_get x r end.

  Definition pexn_eqb (a b : pexn) : bool :=
    match a, b with TypeErr, TypeErr | StopIter, StopIter | StopAsyncIter, StopAsyncIter => true | _, _ => false end.

  Section Interp.
    Variable auto_aiter_fn : pval -> pval + pexn.       (* the sibling function, already interpreted *)

    (* the iterator held by self (for __anext__) is threaded as state *)
    Fixpoint eval (e : expr) (en : env) (self_it : list Z) : list Z * (pval + pexn) :=
      match e with
      | EVar x => (self_it, match env_get x en with Some v => inl v | None => inr TypeErr end)
      | ETypeInPrims a =>
          match eval a en self_it with
          | (s, inl (V (VInt _))) | (s, inl (V (VSeq false _))) => (s, inl (PBool true))
          | (s, inl _) => (s, inl (PBool false))
          | r => r
          end
      | EIsAwaitable a =>
          match eval a en self_it with
          | (s, inl (V (VCoro _))) => (s, inl (PBool true))
          | (s, inl _) => (s, inl (PBool false))
          | r => r
          end
      | EAwait a =>
          match eval a en self_it with
          | (s, inl (V (VCoro v))) => (s, inl (V v))
          | (s, inl _) => (s, inr TypeErr)
          | r => r
          end
      | EHasAttr a name =>
          match eval a en self_it with
          | (s, inl (V (VSeq true _))) | (s, inl (AIt _)) => (s, inl (PBool (String.eqb name "__aiter__")))
          | (s, inl _) => (s, inl (PBool false))
          | r => r
          end
      | ECallMeth a name =>
          match eval a en self_it with
          | (s, inl (V (VSeq true l))) | (s, inl (AIt l)) =>
              (s, if String.eqb name "__aiter__" then inl (AIt l) else inr TypeErr)
          | (s, inl _) => (s, inr TypeErr)
          | r => r
          end
      | EIter a =>
          match eval a en self_it with
          | (s, inl (V (VSeq false l))) | (s, inl (It l)) | (s, inl (Lst l)) => (s, inl (It l))
          | (s, inl _) => (s, inr TypeErr)
          | r => r
          end
      | EWrapIter a =>
          match eval a en self_it with
          | (s, inl (It l)) => (s, inl (AIt l))
          | (s, inl _) => (s, inr TypeErr)
          | r => r
          end
      | EAutoAiter a =>
          match eval a en self_it with
          | (s, inl v) => (s, auto_aiter_fn v)
          | r => r
          end
      | EAsyncListComp a =>
          match eval a en self_it with
          | (s, inl (AIt l)) => (s, inl (Lst l))
          | (s, inl _) => (s, inr TypeErr)
          | r => r
          end
      | ENextSelfIterator =>
          match self_it with
          | [] => ([], inr StopIter)
          | x :: r => (r, inl (Item x))
          end
      end.

    Fixpoint exec (st : stmt) (en : env) (s : list Z) {struct st} : list Z * flow :=
      let execs := fix execs (l : list stmt) (s : list Z) {struct l} : list Z * flow :=
        match l with
        | [] => (s, Fall)
        | x :: r => match exec x en s with (s1, Fall) => execs r s1 | other => other end
        end in
      match st with
      | SIf c t e =>
          match eval c en s with
          | (s1, inl (PBool true)) => execs t s1
          | (s1, inl (PBool false)) => execs e s1
          | (s1, inl _) => (s1, Raise TypeErr)
          | (s1, inr x) => (s1, Raise x)
          end
      | SReturn e => match eval e en s with (s1, inl v) => (s1, Ret v) | (s1, inr x) => (s1, Raise x) end
      | STry body ex handler =>
          match execs body s with
          | (s1, Raise x) => if pexn_eqb x ex then execs handler s1 else (s1, Raise x)
          | other => other
          end
      | SRaise x => (s, Raise x)
      end.

    Fixpoint execs (l : list stmt) (en : env) (s : list Z) : list Z * flow :=
      match l with
      | [] => (s, Fall)
      | x :: r => match exec x en s with (s1, Fall) => execs r en s1 | other => other end
      end.
  End Interp.

  (* ---- the model functions the sources must equal *)
  (* await auto_await(v): what Asy.eval does at an Await node *)
  Definition auto_await_m (v : val) : val := match v with VCoro x => x | _ => v end.
  (* auto_aiter(v): an async iterator over the items of any iterable, TypeError otherwise: what makes
     Asy.iter_ok true true _ = true *)
  Definition auto_aiter_m (v : pval) : pval + pexn :=
    match v with
    | V (VSeq _ l) | AIt l | It l | Lst l => inl (AIt l)
    | _ => inr TypeErr
    end.
  Definition auto_to_list_m (v : pval) : pval + pexn :=
    match v with
    | V (VSeq _ l) | AIt l | It l | Lst l => inl (Lst l)
    | _ => inr TypeErr
    end.
  (* _IteratorToAsyncIterator.__anext__ on an iterator with the given remaining items *)
  Definition anext_m (l : list Z) : list Z * flow :=
    match l with [] => ([], Raise StopAsyncIter) | x :: r => (r, Ret (Item x)) end.

  Definition flow_of (r : pval + pexn) : flow := match r with inl v => Ret v | inr x => Raise x end.

  Lemma eval_await_is_auto_await fn rho e :
    Asy.eval fn rho (Await e) = option_map auto_await_m (Asy.eval fn rho e).
  Proof. cbn [Asy.eval]. destruct (Asy.eval fn rho e) as [[z|a l|v]|]; reflexivity. Qed.

  Lemma async_for_with_aiter_iterates_all af : iter_ok true true af = true.
  Proof. reflexivity. Qed.
End A.

(* ================================================================= part B *)
Module B.
  (* which object the engine passes as first argument *)
  Inductive passk := PCtx | PEval | PEnv.

  (* a callable as Context.call sees it: its own jinja_pass_arg, whether it has a __call__
     attribute and that attribute's jinja_pass_arg, an identity *)
  Record callee := { c_pass : option passk; c_call : option (option passk); c_id : N }.

  Inductive arg :=
  | ACtx (derived : list N)         (* the context, derived with these variable dicts in order *)
  | AEval | AEnv
  | AData (n : N).

  (* keyword arguments: name -> (truthy, identity) *)
  Definition kwargs := list (string * (bool * N)).
  Fixpoint kw_get (k : string) (kw : kwargs) : option (bool * N) :=
    match kw with [] => None | (n, v) :: r => if String.eqb n k then Some v else kw_get k r end.
  Fixpoint kw_remove (k : string) (kw : kwargs) : kwargs :=
    match kw with [] => [] | (n, v) :: r => if String.eqb n k then kw_remove k r else (n, v) :: kw_remove k r end.

  Inductive outcome := Returns (v : N) | ReturnsUndefined | Raises (e : exn).

  (* how the data callable behaves: identity, whether it is reached through __call__, the
     final positional and keyword arguments *)
  Definition behaviour := N -> bool -> list arg -> kwargs -> outcome.

  (* ---- the model of Context.call *)
  Definition truthy (k : string) (kw : kwargs) : list N :=
    match kw_get k kw with Some (true, n) => [n] | _ => [] end.

  Definition ctx_call_m (beh : behaviour) (o : callee) (args : list arg) (kw : kwargs) : outcome :=
    let via := match c_call o with Some (Some _) => true | _ => false end in
    let pass := if via then match c_call o with Some p => p | None => None end else c_pass o in
    let args' := match pass with
                 | Some PCtx => ACtx (truthy "_loop_vars" kw ++ truthy "_block_vars" kw) :: args
                 | Some PEval => AEval :: args
                 | Some PEnv => AEnv :: args
                 | None => args
                 end in
    let kw' := kw_remove "_loop_vars" (kw_remove "_block_vars" kw) in
    match beh (c_id o) via args' kw' with
    | Raises e => if subclass (e_cls e) (Exn.B E_StopIteration) then ReturnsUndefined else Raises e
    | r => r
    end.

  (* ---- the embedding *)
  Inductive pv :=
  | PObj (o : callee) (via_call : bool)      (* the callable, or its __call__ attribute *)
  | PPass (p : option passk)                 (* a _PassArg member or None *)
  | PSelf (derived : list N)                 (* the context *)
  | PArgs (l : list arg)
  | PKw (kw : kwargs)
  | PVarDict (truthy : bool) (n : N)         (* a value taken out of kwargs *)
  | PNone
  | PBool (b : bool)
  | PArg (a : arg).

  Inductive expr :=
  | EVar (x : string)
  | ENone
  | EPassConst (p : passk)                   (* _PassArg.context / eval_context / environment *)
  | EHasAttrCall (e : expr)                  (* hasattr(e, "__call__") *)
  | EAttrCall (e : expr)                     (* e.__call__ *)
  | EFromObj (e : expr)                      (* _PassArg.from_obj(e) *)
  | EIs (a b : expr) | EIsNot (a b : expr)
  | EAnd (a b : expr)
  | EKwGet (k : string)                      (* kwargs.get(k) *)
  | EKwItem (k : string)                     (* kwargs[k] *)
  | EDerived (s d : expr)                    (* s.derived(d) *)
  | ETupCons (x rest : expr)                 (* (x,) + rest *)
  | ESelfEvalCtx | ESelfEnvironment          (* __self.eval_ctx / __self.environment *)
  | ECallObj (f a k : expr)                  (* f applied to star-a, star-star-k *)
  | EUndefined.                              (* __self.environment.undefined("...") *)

  Inductive stmt :=
  | SAssign (x : string) (e : expr)
  | SIf (c : expr) (t e : list stmt)
  | SKwPop (k : string)                      (* kwargs.pop(k, None) *)
  | SReturn (e : expr)
  | STry (body : list stmt) (cls : Exn.cls) (handler : list stmt).

  Definition env := list (string * pv).
  Fixpoint env_get (x : string) (e : env) : pv :=
    match e with [] => PNone | (y, v) :: r => if String.eqb x y then v else env_get x r end.

  Definition pass_eqb (a b : option passk) : bool :=
    match a, b with
    | None, None | Some PCtx, Some PCtx | Some PEval, Some PEval | Some PEnv, Some PEnv => true
    | _, _ => false
    end.

  Inductive res := RVal (v : pv) | ROut (o : outcome).     (* a value, or the result of calling the data callable *)

  Section Interp.
    Variable beh : behaviour.

    Definition truth (v : pv) : bool :=
      match v with PBool b => b | PVarDict t _ => t | PNone => false | _ => true end.

    Fixpoint eval (e : expr) (en : env) : res :=
      match e with
      | EVar x => RVal (env_get x en)
      | ENone => RVal PNone
      | EPassConst p => RVal (PPass (Some p))
      | EHasAttrCall a =>
          match eval a en with
          | RVal (PObj o false) => RVal (PBool (match c_call o with Some _ => true | None => false end))
          | _ => RVal (PBool false)
          end
      | EAttrCall a => match eval a en with RVal (PObj o false) => RVal (PObj o true) | r => r end
      | EFromObj a =>
          match eval a en with
          | RVal (PObj o false) => RVal (PPass (c_pass o))
          | RVal (PObj o true) => RVal (PPass (match c_call o with Some p => p | None => None end))
          | _ => RVal (PPass None)
          end
      | EIs a b =>
          match eval a en, eval b en with
          | RVal (PPass p), RVal (PPass q) => RVal (PBool (pass_eqb p q))
          | RVal (PPass p), RVal PNone => RVal (PBool (pass_eqb p None))
          | _, _ => RVal (PBool false)
          end
      | EIsNot a b =>
          match eval a en, eval b en with
          | RVal (PPass p), RVal (PPass q) => RVal (PBool (negb (pass_eqb p q)))
          | RVal (PPass p), RVal PNone => RVal (PBool (negb (pass_eqb p None)))
          | _, _ => RVal (PBool true)
          end
      | EAnd a b => match eval a en with RVal v => if truth v then eval b en else RVal v | r => r end
      | EKwGet k =>
          match env_get "kwargs" en with
          | PKw kw => RVal (match kw_get k kw with Some (t, n) => PVarDict t n | None => PNone end)
          | _ => RVal PNone
          end
      | EKwItem k =>
          match env_get "kwargs" en with
          | PKw kw => RVal (match kw_get k kw with Some (t, n) => PVarDict t n | None => PNone end)
          | _ => RVal PNone
          end
      | EDerived s d =>
          match eval s en, eval d en with
          | RVal (PSelf l), RVal (PVarDict _ n) => RVal (PSelf (l ++ [n]))
          | r, _ => r
          end
      | ETupCons x rest =>
          match eval x en, eval rest en with
          | RVal (PSelf l), RVal (PArgs r) => RVal (PArgs (ACtx l :: r))
          | RVal (PArg a), RVal (PArgs r) => RVal (PArgs (a :: r))
          | r, _ => r
          end
      | ESelfEvalCtx => RVal (PArg AEval)
      | ESelfEnvironment => RVal (PArg AEnv)
      | ECallObj f a k =>
          match eval f en, eval a en, eval k en with
          | RVal (PObj o via), RVal (PArgs l), RVal (PKw kw) => ROut (beh (c_id o) via l kw)
          | _, _, _ => ROut (Raises {| e_cls := Exn.B E_TypeError; e_id := 0 |})
          end
      | EUndefined => ROut ReturnsUndefined
      end.

    Inductive flow := Fall (en : env) | Done (o : outcome).

    Fixpoint exec (st : stmt) (en : env) {struct st} : flow :=
      let execs := fix execs (l : list stmt) (en : env) {struct l} : flow :=
        match l with
        | [] => Fall en
        | x :: r => match exec x en with Fall en1 => execs r en1 | d => d end
        end in
      match st with
      | SAssign x e => match eval e en with RVal v => Fall ((x, v) :: en) | ROut o => Done o end
      | SIf c t e => match eval c en with
                     | RVal v => if truth v then execs t en else execs e en
                     | ROut o => Done o
                     end
      | SKwPop k => match env_get "kwargs" en with
                    | PKw kw => Fall (("kwargs"%string, PKw (kw_remove k kw)) :: en)
                    | _ => Fall en
                    end
      | SReturn e => match eval e en with
                     | ROut o => Done o
                     | RVal _ => Done (Raises {| e_cls := Exn.B E_TypeError; e_id := 0 |})
                     end
      | STry body cls handler =>
          match execs body en with
          | Done (Raises x) => if subclass (e_cls x) cls then execs handler en else Done (Raises x)
          | other => other
          end
      end.

    Fixpoint execs (l : list stmt) (en : env) : flow :=
      match l with
      | [] => Fall en
      | x :: r => match exec x en with Fall en1 => execs r en1 | d => d end
      end.
  End Interp.

  (* ---- entry points: try: <body> except C: <handler calling handle_exception> *)
  Inductive hform := HExpr | HReturn | HYield.           (* how the handler uses the call *)
  Record entry := { en_catch : list Exn.cls; en_form : hform; en_calls_handle_exception : bool }.
  (* handle_exception: `raise <f>(...)`; rewrite_traceback_stack: every return is
     `exc_value.with_traceback(...)` of the exception being handled *)
  Record handle_shape := { hs_raises_rewrite : bool; hs_rewrite_returns_same : bool }.

  (* the body of the try ended with [o]; what the entry point's caller sees *)
  Definition entry_outcome (hs : handle_shape) (en : entry) (o : outcome) : outcome :=
    match o with
    | Raises x =>
        if existsb (subclass (e_cls x)) (en_catch en) then
          if en_calls_handle_exception en && hs_raises_rewrite hs && hs_rewrite_returns_same hs
          then Raises x                                  (* handle_exception raises the object with_traceback returns: x *)
          else ReturnsUndefined                          (* anything else: the exception is lost (not the model) *)
        else Raises x
    | r => r
    end.

  (* the conversion Context.call performs is the one the C38 model attributes to its except clause *)
  Lemma ctx_call_conversion_is_propagate (e : exn) :
    propagate e [[{| h_catch := [Exn.B E_StopIteration]; h_kind := ToUndefined |}]] =
    if subclass (e_cls e) (Exn.B E_StopIteration) then Swallowed else Raised e.
  Proof.
    cbn [propagate find]. unfold matches. cbn [h_catch existsb]. rewrite orb_false_r.
    destruct (subclass (e_cls e) (Exn.B E_StopIteration)); reflexivity.
  Qed.
End B.
