(* A deep embedding of the Python vocabulary used by runtime.new_context and
   environment.Template._get_default_module, its interpreter, reference results, and the (hand)
   proofs that the reference results are the model functions of Model/Imp.v.
   gen/imp_translate.py turns the CURRENT source of the two functions into terms of this language
   (fail-closed); the generated file proves by symbolic evaluation that each interpreted term
   equals the reference result for every argument.  Sets are duplicate-free lists; dicts are
   association lists with dict update semantics (Model/Imp.v). *)
From Coq Require Import List NArith Bool Arith String Lia.
Import ListNotations.
From JV Require Import Model.Imp Proofs.ImpProofs.

Definition locals_t := list (name * option Imp.value).        (* None = the `missing` sentinel *)
Inductive modv := MFresh (vars : option env) | MCached.       (* make_module(vars) / the module already stored *)

Inductive value :=
| VNone | VBool (b : bool) | VDict (d : env) | VLocals (l : locals_t) | VKeys (k : list name)
| VCtxArg (c : ctx) | VNewCtx (c : ctx) | VModule (m : modv).

Inductive expr :=
| EVar (x : string) | ENone | EEmptyDict
| EIsNone (e : expr) | EIsNotNone (e : expr)
| EOrEmpty (e : expr)                  (* e or () *)
| EDictMerge (a b : expr)              (* dict(a, **b) *)
| EDictCopy (a : expr)                 (* dict(a) *)
| EMakeContext (parent globals : expr) (* environment.context_class(environment, parent, template_name, blocks, globals=globals) *)
| EFlagAsync                           (* self.environment.is_async *)
| EKeysDiff (c : expr)                 (* c.globals_keys - self.globals.keys() *)
| EPick (keys c : expr)                (* {k: c._globals[k] for k in keys} *)
| EMakeModule (arg : option expr)      (* self.make_module(arg) *)
| ESelfModule.                         (* self._module *)

Inductive stmt :=
| SAssign (x : string) (e : expr)
| SIf (c : expr) (t e : list stmt)
| SOverlay (p l : string)              (* for key, value in l.items(): if value is not missing: p[key] = value *)
| SReturn (e : expr)
| SRaiseRuntime                        (* raise RuntimeError(...) *)
| SSetSelfModule (e : expr).           (* self._module = e *)

Definition venv := list (string * value).
Fixpoint env_get (x : string) (e : venv) : value :=
  match e with [] => VNone | (y, v) :: r => if String.eqb x y then v else env_get x r end.

Definition overlay (parent : env) (l : locals_t) : env :=
  fold_left (fun p kv => match snd kv with Some v => dset (fst kv) v p | None => p end) l parent.
Definition truthy (v : value) : option bool :=
  match v with
  | VNone => Some false | VBool b => Some b
  | VDict [] | VLocals [] | VKeys [] => Some false
  | VDict _ | VLocals _ | VKeys _ => Some true
  | _ => None
  end.
Definition mk_ctx (parent : env) (globals : option env) : ctx :=
  let g := match globals with Some g => g | None => [] end in
  {| c_parent := parent; c_vars := []; c_exported := []; c_gkeys := dkeys g; c_globals := g |}.

Inductive outcome := Norm (v : value) | KeyErr | TypeErr.

Section Interp.
  Variable self_globals : env.           (* self.globals *)
  Variable is_async : bool.

  Definition bind (o : outcome) (k : value -> outcome) : outcome := match o with Norm v => k v | other => other end.

  Fixpoint eval (e : expr) (en : venv) (cell : option modv) {struct e} : outcome :=
    match e with
    | EVar x => Norm (env_get x en)
    | ENone => Norm VNone
    | EEmptyDict => Norm (VDict [])
    | EIsNone a => bind (eval a en cell) (fun v => Norm (VBool (match v with VNone => true | _ => false end)))
    | EIsNotNone a => bind (eval a en cell) (fun v => Norm (VBool (match v with VNone => false | _ => true end)))
    | EOrEmpty a => bind (eval a en cell) (fun v => match v with
                                                    | VNone | VDict [] => Norm (VDict [])
                                                    | VDict d => Norm (VDict d)
                                                    | _ => TypeErr end)
    | EDictMerge a b => bind (eval a en cell) (fun va => bind (eval b en cell) (fun vb =>
                          match va, vb with VDict x, VDict y => Norm (VDict (dupdate x y)) | _, _ => TypeErr end))
    | EDictCopy a => bind (eval a en cell) (fun va => match va with VDict x => Norm (VDict x) | _ => TypeErr end)
    | EMakeContext p g => bind (eval p en cell) (fun vp => bind (eval g en cell) (fun vg =>
                            match vp, vg with
                            | VDict x, VDict y => Norm (VNewCtx (mk_ctx x (Some y)))
                            | VDict x, VNone => Norm (VNewCtx (mk_ctx x None))
                            | _, _ => TypeErr end))
    | EFlagAsync => Norm (VBool is_async)
    | EKeysDiff c => bind (eval c en cell) (fun vc => match vc with
                       | VCtxArg c' => Norm (VKeys (filter (fun k => negb (mem k (dkeys self_globals))) (c_gkeys c')))
                       | _ => TypeErr end)
    | EPick ks c => bind (eval ks en cell) (fun vk => bind (eval c en cell) (fun vc =>
                      match vk, vc with
                      | VKeys k, VCtxArg c' => match pick_parent k (c_globals c') with
                                               | Ok d => Norm (VDict d) | Err _ => KeyErr end
                      | _, _ => TypeErr end))
    | EMakeModule None => Norm (VModule (MFresh None))
    | EMakeModule (Some a) => bind (eval a en cell) (fun va => match va with VDict d => Norm (VModule (MFresh (Some d))) | _ => TypeErr end)
    | ESelfModule => Norm (match cell with Some m => VModule m | None => VNone end)
    end.

  Inductive flow := Fall (en : venv) (cell : option modv) | Ret (v : value) (cell : option modv)
                  | RaiseRuntime | RaiseKey | Stuck.

  Fixpoint exec (st : stmt) (en : venv) (cell : option modv) {struct st} : flow :=
    let execs := fix execs (l : list stmt) (en : venv) (cell : option modv) {struct l} : flow :=
      match l with
      | [] => Fall en cell
      | x :: r => match exec x en cell with Fall en1 c1 => execs r en1 c1 | other => other end
      end in
    match st with
    | SAssign x e => match eval e en cell with Norm v => Fall ((x, v) :: en) cell | KeyErr => RaiseKey | TypeErr => Stuck end
    | SIf c t e => match eval c en cell with
                   | Norm v => match truthy v with Some true => execs t en cell | Some false => execs e en cell | None => Stuck end
                   | KeyErr => RaiseKey | TypeErr => Stuck end
    | SOverlay p l => match env_get p en, env_get l en with
                      | VDict d, VLocals ls => Fall ((p, VDict (overlay d ls)) :: en) cell
                      | _, _ => Stuck end
    | SReturn e => match eval e en cell with Norm v => Ret v cell | KeyErr => RaiseKey | TypeErr => Stuck end
    | SRaiseRuntime => RaiseRuntime
    | SSetSelfModule e => match eval e en cell with
                          | Norm (VModule m) => Fall en (Some m)
                          | Norm _ | TypeErr => Stuck | KeyErr => RaiseKey end
    end.

  Fixpoint execs (l : list stmt) (en : venv) (cell : option modv) : flow :=
    match l with
    | [] => Fall en cell
    | x :: r => match exec x en cell with Fall en1 c1 => execs r en1 c1 | other => other end
    end.
End Interp.

(* ------------------------------------------------------------------ reference results *)
Definition new_context_ref (vars : option env) (shared : bool) (globals : option env) (locals : option locals_t) : ctx :=
  let v := match vars with Some v => v | None => [] end in
  let parent := if shared then v else dupdate (match globals with Some g => g | None => [] end) v in
  let parent := match locals with Some (x :: r) => overlay parent (x :: r) | _ => parent end in
  mk_ctx parent globals.

Inductive gdm := GRuntimeError | GKeyError | GModule (m : modv) (cell : option modv).
Definition gdm_ref (self_globals : env) (is_async : bool) (c : option ctx) (cell : option modv) : gdm :=
  if is_async then GRuntimeError else
  let dflt := match cell with Some m => GModule m (Some m) | None => GModule (MFresh None) (Some (MFresh None)) end in
  match c with
  | None => dflt
  | Some c' =>
      match filter (fun k => negb (mem k (dkeys self_globals))) (c_gkeys c') with
      | [] => dflt
      | keys => match pick_parent keys (c_globals c') with
                | Ok d => GModule (MFresh (Some d)) cell
                | Err _ => GKeyError
                end
      end
  end.

(* ------------------------------------------------------------------ reference = model *)
Definition nonmissing (l : locals_t) : env :=
  flat_map (fun kv => match snd kv with Some v => [(fst kv, v)] | None => [] end) l.

Lemma dget_nonmissing_none : forall l k, ~ In k (map fst l) -> dget k (nonmissing l) = None.
Proof.
  induction l as [|[k' [v|]] r IH]; intros k H; cbn [nonmissing flat_map snd fst app dget map] in *; [reflexivity| |].
  - destruct (N.eqb k' k) eqn:E; [apply N.eqb_eq in E; subst; exfalso; apply H; now left|].
    apply IH. intro Hc. apply H. now right.
  - apply IH. intro Hc. apply H. now right.
Qed.

Lemma overlay_lookup : forall l parent x, NoDup (map fst l) ->
  dget x (overlay parent l) = match dget x (nonmissing l) with Some v => Some v | None => dget x parent end.
Proof.
  induction l as [|[k [v|]] r IH]; intros parent x Hnd; [reflexivity| |];
    inversion Hnd as [|? ? Hnin Hnd']; subst; unfold overlay in *; cbn [fold_left fst snd nonmissing flat_map app dget].
  - rewrite IH by exact Hnd'. fold (nonmissing r). rewrite dget_dset.
    destruct (N.eqb k x) eqn:E.
    + apply N.eqb_eq in E. subst x. now rewrite (dget_nonmissing_none r k Hnin).
    + reflexivity.
  - rewrite IH by exact Hnd'. reflexivity.
Qed.

(* new_context as the source computes it and Model.Imp.new_context make the same variables
   visible and agree on every other field (locals is a dict: its keys are distinct) *)
Theorem new_context_ref_model : forall vars shared g (locals : locals_t),
  NoDup (map fst locals) ->
  let c := new_context_ref vars shared (Some g) (Some locals) in
  let m := Imp.new_context vars shared g (nonmissing locals) in
  (forall x, dget x (c_parent c) = dget x (c_parent m)) /\
  c_vars c = c_vars m /\ c_exported c = c_exported m /\ c_gkeys c = c_gkeys m /\ c_globals c = c_globals m.
Proof.
  intros vars shared g locals Hnd c m. subst c m. unfold new_context_ref, Imp.new_context, mk_ctx.
  cbn [c_parent c_vars c_exported c_gkeys c_globals]. repeat split.
  intros x. set (v := match vars with Some v => v | None => [] end).
  set (p := if shared then v else dupdate g v).
  destruct locals as [|l0 lr].
  - reflexivity.
  - rewrite overlay_lookup by exact Hnd.
    destruct (nonmissing (l0 :: lr)) as [|n0 nr] eqn:En; [reflexivity|].
    rewrite dget_dupdate. unfold locals_dict. rewrite dget_dupdate.
    destruct (dget x (n0 :: nr)); reflexivity.
Qed.

(* _get_default_module(ctx) as the source computes it is Model.Imp.import_ctx / default_ctx *)
Definition ctx_of_mod (g : env) (m : modv) : option ctx :=
  match m with MFresh vars => Some (Imp.new_context vars false g []) | MCached => None end.
Theorem gdm_ref_model : forall g c,
  match gdm_ref g false (Some c) None with
  | GModule m _ => option_map Ok (ctx_of_mod g m) = Some (import_ctx c g)
  | GKeyError => import_ctx c g = Err EKey
  | GRuntimeError => False
  end.
Proof.
  intros g c. unfold gdm_ref, import_ctx.
  destruct (filter _ (c_gkeys c)) as [|k0 kr]; [reflexivity|].
  destruct (pick_parent (k0 :: kr) (c_globals c)) as [d|e] eqn:Ep; [reflexivity|].
  clear -Ep. revert e Ep. generalize (k0 :: kr). induction l as [|k r IH]; intros e H; [discriminate|].
  cbn [pick_parent] in H. destruct (dget k (c_globals c)); [|now injection H as <-].
  destruct (pick_parent r (c_globals c)) eqn:E2; [discriminate|]. injection H as <-. now apply IH.
Qed.
Theorem gdm_ref_default : forall g cell,
  gdm_ref g false None cell = match cell with Some m => GModule m (Some m) | None => GModule (MFresh None) (Some (MFresh None)) end.
Proof. reflexivity. Qed.
