(* Deep embeddings of the Python vocabulary of FileSystemLoader.get_source, ChoiceLoader.get_source /
   load and PrefixLoader.get_loader / get_source (jinja2/loaders.py), with interpreters over the
   loader model (Model/Ldr.v).  gen/ldc_translate.py turns the CURRENT source of these methods into
   terms (fail-closed); the generated file proves interpreted term = model for every file system,
   search path list, member list, mapping, delimiter and name. *)
From Coq Require Import List NArith Bool.
Import ListNotations.
From JV Require Import Model.Ldr Spec.LdrSpec.
Open Scope N_scope.

(* ================================================================== FileSystemLoader.get_source *)
Inductive fstmt :=
| FSplit                      (* pieces = split_template_path(template) *)
| FInitShadow                 (* shadowing = [] *)
| FFor (body orelse : list fstmt)   (* for searchpath in self.searchpath: body  else: orelse *)
| FJoin                       (* filename = posixpath.join(searchpath, *pieces) *)
| FIfIsfile (t : list fstmt)  (* if os.path.isfile(filename): t *)
| FBreak
| FShadowAppend               (* shadowing.append(filename) *)
| FRaiseNotFound              (* raise TemplateNotFound(template, ...) *)
| FRead                       (* with open(filename, encoding=self.encoding) as f: contents = f.read() *)
| FMtime                      (* mtime = os.path.getmtime(filename) *)
| FDefUptodate (checks_shadowing eq_mtime oserror_false : bool)
                              (* def uptodate(): [if any(isfile(f) for f in shadowing): return False]
                                                 try: return getmtime(filename) ==/other mtime  except OSError: return False *)
| FReturn.                    (* return contents, os.path.normpath(filename), uptodate *)

Record fstate := {
  f_pieces : list str;
  f_filename : str;
  f_shadow : list str;
  f_contents : option N;
  f_closure : option (bool * bool * bool) }.

Inductive fflow := FlFall | FlBreak | FlNotFound | FlCrash | FlReturn (r : res).

Section FS.
  Variable cv : conv.
  Variable fs : fsys.
  Variable name : str.

  (* statements that may occur inside the loop body, for the current search path sp *)
  Fixpoint fexec_in (sp : str) (st : fstmt) (s : fstate) {struct st} : fstate * fflow :=
    let go := fix go (l : list fstmt) (s : fstate) {struct l} : fstate * fflow :=
      match l with
      | [] => (s, FlFall)
      | x :: r => match fexec_in sp x s with (s1, FlFall) => go r s1 | other => other end
      end in
    match st with
    | FJoin => ({| f_pieces := f_pieces s; f_filename := posix_join sp (f_pieces s); f_shadow := f_shadow s;
                   f_contents := f_contents s; f_closure := f_closure s |}, FlFall)
    | FIfIsfile t => if os_isfile fs (f_filename s) then go t s else (s, FlFall)
    | FBreak => (s, FlBreak)
    | FShadowAppend => ({| f_pieces := f_pieces s; f_filename := f_filename s; f_shadow := f_shadow s ++ [f_filename s];
                           f_contents := f_contents s; f_closure := f_closure s |}, FlFall)
    | FRaiseNotFound => (s, FlNotFound)
    | _ => (s, FlCrash)
    end.
  Fixpoint fexecs_in (sp : str) (l : list fstmt) (s : fstate) : fstate * fflow :=
    match l with
    | [] => (s, FlFall)
    | x :: r => match fexec_in sp x s with (s1, FlFall) => fexecs_in sp r s1 | other => other end
    end.

  (* the for loop: structural recursion over the search paths; true = left by break *)
  Fixpoint floop (body : list fstmt) (sps : list str) (s : fstate) : fstate * fflow * bool :=
    match sps with
    | [] => (s, FlFall, false)
    | sp :: r => match fexecs_in sp body s with
                 | (s1, FlFall) => floop body r s1
                 | (s1, FlBreak) => (s1, FlFall, true)
                 | (s1, fl) => (s1, fl, false)
                 end
    end.

  Fixpoint fexec_top (sps : list str) (l : list fstmt) (s : fstate) {struct l} : fstate * fflow :=
    match l with
    | [] => (s, FlFall)
    | st :: r =>
        let '(s1, fl) :=
          match st with
          | FSplit => match split_template_path cv name with
                      | Some ps => ({| f_pieces := ps; f_filename := f_filename s; f_shadow := f_shadow s;
                                       f_contents := f_contents s; f_closure := f_closure s |}, FlFall)
                      | None => (s, FlNotFound)
                      end
          | FInitShadow => ({| f_pieces := f_pieces s; f_filename := f_filename s; f_shadow := [];
                               f_contents := f_contents s; f_closure := f_closure s |}, FlFall)
          | FFor body orelse =>
              match floop body sps s with
              | (s1, FlFall, true) => (s1, FlFall)
              | (s1, FlFall, false) => fexecs_in [] orelse s1       (* else clause: no search path in scope *)
              | (s1, fl, _) => (s1, fl)
              end
          | FRaiseNotFound => (s, FlNotFound)
          | FRead => match os_read fs (f_filename s) with
                     | Some c => ({| f_pieces := f_pieces s; f_filename := f_filename s; f_shadow := f_shadow s;
                                     f_contents := Some c; f_closure := f_closure s |}, FlFall)
                     | None => (s, FlCrash)
                     end
          | FMtime => (s, FlFall)
          | FDefUptodate a b c => ({| f_pieces := f_pieces s; f_filename := f_filename s; f_shadow := f_shadow s;
                                      f_contents := f_contents s; f_closure := Some (a, b, c) |}, FlFall)
          | FReturn => match f_contents s with
                       | Some c => (s, FlReturn (Found (Some (f_filename s)) (Some (posix_normpath (f_filename s))) c))
                       | None => (s, FlCrash)
                       end
          | _ => (s, FlCrash)
          end in
        match fl with FlFall => fexec_top sps r s1 | _ => (s1, fl) end
    end.

  Definition fs0 : fstate := {| f_pieces := []; f_filename := []; f_shadow := []; f_contents := None; f_closure := None |}.

  (* result, the list of earlier candidates the closure watches, the shape of the closure *)
  Definition interp_fs (body : list fstmt) (sps : list str) : option res * list str * option (bool * bool * bool) :=
    match fexec_top sps body fs0 with
    | (s, FlReturn r) => (Some r, f_shadow s, f_closure s)
    | (s, FlNotFound) => (Some NotFound, f_shadow s, f_closure s)
    | (s, _) => (None, f_shadow s, f_closure s)                  (* falls off the end / crashes *)
    end.

  (* one iteration of the model's search: stop at the first search path whose joined file exists *)
  Definition model_iter (sp : str) (s : fstate) : fstate * fflow :=
    let f := posix_join sp (f_pieces s) in
    if os_isfile fs f
    then ({| f_pieces := f_pieces s; f_filename := f; f_shadow := f_shadow s; f_contents := f_contents s; f_closure := f_closure s |}, FlBreak)
    else ({| f_pieces := f_pieces s; f_filename := f; f_shadow := f_shadow s ++ [f]; f_contents := f_contents s; f_closure := f_closure s |}, FlFall).

  (* if every iteration of the body is a model iteration, the loop finds what fs_first finds *)
  Lemma floop_model body : (forall sp s, fexecs_in sp body s = model_iter sp s) ->
    forall sps s,
      match floop body sps s with
      | (s1, FlFall, true) => exists c, os_read fs (f_filename s1) = Some c /\
            fs_first fs sps (f_pieces s) = Found (Some (f_filename s1)) (Some (posix_normpath (f_filename s1))) c /\
            f_pieces s1 = f_pieces s /\ f_contents s1 = f_contents s /\ f_closure s1 = f_closure s
      | (s1, FlFall, false) => fs_first fs sps (f_pieces s) = NotFound /\ f_pieces s1 = f_pieces s
      | _ => False
      end.
  Proof.
    intros Hb. induction sps as [|sp r IH]; intros s; cbn [floop fs_first]; [split; reflexivity|].
    rewrite Hb. unfold model_iter, os_isfile.
    destruct (os_read fs (posix_join sp (f_pieces s))) as [c|] eqn:E.
    - cbn [f_filename f_pieces f_contents f_closure]. exists c. repeat split; try reflexivity; exact E.
    - set (s1 := {| f_pieces := f_pieces s; f_filename := posix_join sp (f_pieces s);
                    f_shadow := f_shadow s ++ [posix_join sp (f_pieces s)]; f_contents := f_contents s; f_closure := f_closure s |}).
      specialize (IH s1). destruct (floop body r s1) as [[s2 fl] b]. change (f_pieces s1) with (f_pieces s) in IH.
      change (f_contents s1) with (f_contents s) in IH. change (f_closure s1) with (f_closure s) in IH. exact IH.
  Qed.
End FS.

(* ================================================================== ChoiceLoader.get_source / load *)
Inductive cstmt :=
| CFor (body : list cstmt)                 (* for loader in self.loaders: *)
| CTryMember (catches_not_found : bool)    (* try: return loader.<method>(...)  except <class>: pass *)
| CRaiseNotFound.                          (* raise TemplateNotFound(template) *)

Inductive cflow := CFall | CRet (r : res) | CRaise.     (* CRaise = TemplateNotFound propagates *)

Definition cexec_member (m : str -> res) (name : str) (st : cstmt) : cflow :=
  match st with
  | CTryMember catches => match m name with
                          | NotFound => if catches then CFall else CRaise
                          | r => CRet r
                          end
  | CRaiseNotFound => CRaise
  | CFor _ => CRaise
  end.
Fixpoint cexecs_member (m : str -> res) (name : str) (l : list cstmt) : cflow :=
  match l with
  | [] => CFall
  | x :: r => match cexec_member m name x with CFall => cexecs_member m name r | other => other end
  end.
Fixpoint cloop (body : list cstmt) (ms : list (str -> res)) (name : str) : cflow :=
  match ms with
  | [] => CFall
  | m :: r => match cexecs_member m name body with CFall => cloop body r name | other => other end
  end.
Fixpoint cexec_top (ms : list (str -> res)) (name : str) (l : list cstmt) : cflow :=
  match l with
  | [] => CFall
  | CFor body :: r => match cloop body ms name with CFall => cexec_top ms name r | other => other end
  | CRaiseNotFound :: _ => CRaise
  | CTryMember _ :: _ => CRaise
  end.
(* None = the method falls off its end (returns None) *)
Definition interp_choice (body : list cstmt) (ms : list (str -> res)) (name : str) : option res :=
  match cexec_top ms name body with CRet r => Some r | CRaise => Some NotFound | CFall => None end.

Lemma cloop_first body ms name : (forall m, cexecs_member m name body = match m name with NotFound => CFall | r => CRet r end) ->
  cloop body ms name = match first_found (map (fun m => m name) ms) with NotFound => CFall | r => CRet r end.
Proof.
  intros Hb. induction ms as [|m r IH]; [reflexivity|]. cbn [cloop map first_found]. rewrite Hb.
  destruct (m name); [exact IH|reflexivity].
Qed.

(* ================================================================== PrefixLoader.get_loader / get_source *)
Inductive pexc := PValueError | PKeyError | POther.
Inductive pstmt :=
| PTrySplitLookup (classes : list pexc)    (* try: prefix, name = template.split(self.delimiter, 1); loader = self.mapping[prefix]
                                              except (<classes>) as e: raise TemplateNotFound(template) from e *)
| PReturnLoaderName                        (* return loader, name *)
| PCallGetLoader                           (* loader, name = self.get_loader(template) *)
| PTryRouted (reraises_not_found : bool).  (* try: return loader.<method>(environment, name)
                                              except TemplateNotFound as e: raise TemplateNotFound(template) from e *)

Definition pexc_eqb (a b : pexc) : bool :=
  match a, b with PValueError, PValueError | PKeyError, PKeyError | POther, POther => true | _, _ => false end.

Inductive gl_result := GLFound (l : loader) (rest : str) | GLNotFound | GLCrash.

(* get_loader *)
Definition interp_get_loader (body : list pstmt) (d : str) (m : list (str * loader)) (name : str) : gl_result :=
  match body with
  | [PTrySplitLookup classes; PReturnLoaderName] =>
      match split_once d name with
      | None => if existsb (pexc_eqb PValueError) classes then GLNotFound else GLCrash
      | Some (p, rest) => match prefix_lookup p m with
                          | None => if existsb (pexc_eqb PKeyError) classes then GLNotFound else GLCrash
                          | Some l => GLFound l rest
                          end
      end
  | _ => GLCrash
  end.

(* get_source / load, given get_loader's semantics and the members' method *)
Definition interp_prefix (body : list pstmt) (get_loader : str -> gl_result) (member : loader -> str -> res) (name : str) : option res :=
  match body with
  | [PCallGetLoader; PTryRouted reraises] =>
      match get_loader name with
      | GLFound l rest => match member l rest with
                          | NotFound => if reraises then Some NotFound else None    (* swallowed: falls off the end *)
                          | r => Some r
                          end
      | GLNotFound => Some NotFound
      | GLCrash => None
      end
  | _ => None
  end.
