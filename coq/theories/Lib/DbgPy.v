(* C35 -- a deep embedding of the Python vocabulary used by CodeGenerator.write / newline /
   writeline and Template.get_corresponding_lineno, with its interpreter over the model state of
   Model/Dbg.v.  gen/dbg_translate.py turns the CURRENT source of these methods into terms of this
   language (fail-closed); the generated file proves  interpreted source = model function  for every
   state and argument.  Writes to self.stream have no effect on the bookkeeping state (SStream). *)
From Coq Require Import List NArith Bool.
Import ListNotations.
From JV Require Import Model.Dbg.
Open Scope N_scope.

Inductive field := FNewLines | FFirstWrite | FCodeLineno | FWdi | FLastLine.
Inductive value := VN (n : N) | VB (b : bool) | VNone.

Inductive expr :=
| EField (f : field)                (* self._new_lines, self._first_write, self.code_lineno, ... *)
| ENum (n : N) | ENoneE | EFalse | ETrue
| EParam (p : N)                    (* 0 = node (as node.lineno / None), 1 = extra, 2 = lineno *)
| ENodeLine                         (* node.lineno *)
| EAdd (a b : expr) | EMax (a b : expr)
| ENot (a : expr) | EAnd (a b : expr)
| EIsNotNone (a : expr)
| ENe (a b : expr) | ELe (a b : expr)
| ELocal (x : N).                   (* loop variables: 0 = template_line, 1 = code_line *)

Inductive stmt :=
| SIf (c : expr) (t : list stmt)
| SSet (f : field) (e : expr)
| SAugAdd (f : field) (e : expr)
| SStream                            (* self.stream.write(...) *)
| SDbgAppend (a b : expr).           (* self.debug_info.append((a, b)) *)

Record args := mkArgs { a_node : option N; a_extra : N }.

Definition get_field (s : st) (f : field) : value :=
  match f with
  | FNewLines => VN (new_lines s) | FFirstWrite => VB (first s) | FCodeLineno => VN (code_line s)
  | FWdi => match wdi s with Some l => VN l | None => VNone end
  | FLastLine => VN (last_line s)
  end.
Definition as_n (v : value) : N := match v with VN n => n | _ => 0 end.
Definition truthy (v : value) : bool := match v with VN n => negb (n =? 0) | VB b => b | VNone => false end.
Definition veq (a b : value) : bool :=
  match a, b with VN x, VN y => x =? y | VB x, VB y => Bool.eqb x y | VNone, VNone => true | _, _ => false end.

Definition set_field (s : st) (f : field) (v : value) : st :=
  match f with
  | FNewLines => mkSt (code_line s) (as_n v) (last_line s) (wdi s) (first s) (dbg s)
  | FFirstWrite => mkSt (code_line s) (new_lines s) (last_line s) (wdi s) (truthy v) (dbg s)
  | FCodeLineno => mkSt (as_n v) (new_lines s) (last_line s) (wdi s) (first s) (dbg s)
  | FWdi => mkSt (code_line s) (new_lines s) (last_line s) (match v with VN l => Some l | _ => None end) (first s) (dbg s)
  | FLastLine => mkSt (code_line s) (new_lines s) (as_n v) (wdi s) (first s) (dbg s)
  end.

Fixpoint eval (e : expr) (s : st) (a : args) (loc : N * N) : value :=
  match e with
  | EField f => get_field s f
  | ENum n => VN n | ENoneE => VNone | EFalse => VB false | ETrue => VB true
  | EParam 0 => match a_node a with Some l => VN l | None => VNone end
  | EParam 1 => VN (a_extra a)
  | EParam _ => VN (a_extra a)
  | ENodeLine => match a_node a with Some l => VN l | None => VNone end
  | EAdd x y => VN (as_n (eval x s a loc) + as_n (eval y s a loc))
  | EMax x y => VN (N.max (as_n (eval x s a loc)) (as_n (eval y s a loc)))
  | ENot x => VB (negb (truthy (eval x s a loc)))
  | EAnd x y => if truthy (eval x s a loc) then eval y s a loc else eval x s a loc
  | EIsNotNone x => VB (match eval x s a loc with VNone => false | _ => true end)
  | ENe x y => VB (negb (veq (eval x s a loc) (eval y s a loc)))
  | ELe x y => VB (as_n (eval x s a loc) <=? as_n (eval y s a loc))
  | ELocal 0 => VN (fst loc)
  | ELocal _ => VN (snd loc)
  end.

Fixpoint exec (x : stmt) (s : st) (a : args) {struct x} : st :=
  let execs := fix execs (l : list stmt) (s : st) {struct l} : st :=
    match l with [] => s | y :: r => execs r (exec y s a) end in
  match x with
  | SIf c t => if truthy (eval c s a (0, 0)) then execs t s else s
  | SSet f e => set_field s f (eval e s a (0, 0))
  | SAugAdd f e => set_field s f (VN (as_n (get_field s f) + as_n (eval e s a (0, 0))))
  | SStream => s
  | SDbgAppend x1 x2 =>
      mkSt (code_line s) (new_lines s) (last_line s) (wdi s) (first s)
           ((as_n (eval x1 s a (0, 0)), as_n (eval x2 s a (0, 0))) :: dbg s)
  end.
Fixpoint execs (l : list stmt) (s : st) (a : args) : st :=
  match l with [] => s | y :: r => execs r (exec y s a) a end.

(* get_corresponding_lineno:  for <tl>, <cl> in reversed(self.debug_info): if <cond>: return <ret>
                              return <dflt>
   [info] is debug_info in append order *)
Fixpoint scan (cond ret : expr) (dflt : N) (pairs : list (N * N)) (lineno : N) : N :=
  match pairs with
  | [] => dflt
  | p :: r =>
      let a := mkArgs None lineno in
      if truthy (eval cond init a p) then as_n (eval ret init a p) else scan cond ret dflt r lineno
  end.
Definition lookup_src (cond ret : expr) (dflt : N) (info : list (N * N)) (lineno : N) : N :=
  scan cond ret dflt (rev info) lineno.
