(* C14 -- a deep embedding of the expressions in lexer.wrap's TOKEN_STRING / TOKEN_INTEGER /
   TOKEN_FLOAT branches (method chains over value_str inside try / except), interpreted over the
   primitives of Model/Lit.v.  gen/lit_translate.py turns the CURRENT source of the three branches
   into terms (fail-closed); the generated file proves  interpreted branch = model conversion  for
   every token text.  What the equations pin is the composition: which slice, which codec pair,
   which character is removed, which base, which exception classes are turned into
   TemplateSyntaxError. *)
From Coq Require Import List NArith ZArith Bool.
Import ListNotations.
From JV Require Import Model.Lit.
Open Scope N_scope.

Inductive pexpr :=
| PValueStr                              (* value_str *)
| PInner (e : pexpr)                     (* e[1:-1] *)
| PNormalize (e : pexpr)                 (* self._normalize_newlines(e) *)
| PUncontinue (e : pexpr)                (* _line_continuation_re.sub(r"\1", e) *)
| PProtect (e : pexpr)                   (* _backslash_non_ascii_re.sub(r"\1\\\\", e) *)
| PEncode (e : pexpr) (codec errors : N) (* e.encode(codec, errors): 0 = "ascii" / "backslashreplace" *)
| PDecode (e : pexpr) (codec : N)        (* e.decode(codec): 0 = "unicode-escape" *)
| PRemoveChar (e : pexpr) (c : N)        (* e.replace(<one character c>, "") *)
| PInt (e : pexpr) (base : N)            (* int(e, base) *)
| PLiteralEval (e : pexpr).              (* ast.literal_eval(e) *)

Inductive pexn := XValueError | XUnicodeDecodeError | XSyntaxError | XUnmodelled.
Inductive hclass := HException | HValueError | HSyntaxError | HUnicodeError | HOther.
(* UnicodeDecodeError <: UnicodeError <: ValueError <: Exception *)
Definition catches (h : hclass) (x : pexn) : bool :=
  match h, x with
  | _, XUnmodelled => false
  | HException, _ => true
  | HValueError, (XValueError | XUnicodeDecodeError) => true
  | HUnicodeError, XUnicodeDecodeError => true
  | HSyntaxError, XSyntaxError => true
  | _, _ => false
  end.

Section Interp.
  Variable F : Type.
  Variable dec2float : str -> F.
  Variable nl : str.            (* environment.newline_sequence *)
  Variable limit : N.           (* sys.get_int_max_str_digits() *)

  Inductive pval := VText (s : str) | VBytes (s : str) | VInt (z : Z) | VFloat (f : F) | VRaise (x : pexn).

  Fixpoint eval (e : pexpr) (tok : str) : pval :=
    match e with
    | PValueStr => VText tok
    | PInner a => match eval a tok with VText s => VText (removelast (tl s)) | VRaise x => VRaise x | _ => VRaise XUnmodelled end
    | PNormalize a => match eval a tok with VText s => VText (normalize nl s) | VRaise x => VRaise x | _ => VRaise XUnmodelled end
    | PUncontinue a => match eval a tok with VText s => VText (uncontinue s) | VRaise x => VRaise x | _ => VRaise XUnmodelled end
    | PProtect a => match eval a tok with VText s => VText (protect s) | VRaise x => VRaise x | _ => VRaise XUnmodelled end
    | PEncode a codec errors =>
        match eval a tok with
        | VText s => if (codec =? 0) && (errors =? 0) then VBytes (bsr s) else VRaise XUnmodelled
        | VRaise x => VRaise x | _ => VRaise XUnmodelled end
    | PDecode a codec =>
        match eval a tok with
        | VBytes b => if codec =? 0 then match unicode_escape b with inl v => VText v | inr _ => VRaise XUnicodeDecodeError end
                      else VRaise XUnmodelled
        | VRaise x => VRaise x | _ => VRaise XUnmodelled end
    | PRemoveChar a c => match eval a tok with
                         | VText s => VText (filter (fun x => negb (x =? c)) s)
                         | VRaise x => VRaise x | _ => VRaise XUnmodelled end
    | PInt a base =>
        match eval a tok with
        | VText s => if base =? 0 then match int0 limit s with Ok z => VInt z | SyntaxErr => VRaise XValueError end
                     else VRaise XUnmodelled
        | VRaise x => VRaise x | _ => VRaise XUnmodelled end
    | PLiteralEval a => match eval a tok with VText s => VFloat (dec2float s) | VRaise x => VRaise x | _ => VRaise XUnmodelled end
    end.

  (* try: value = e   except <handlers> as e: raise TemplateSyntaxError(...) from e *)
  Inductive branch_result := BText (s : str) | BInt (z : Z) | BFloat (f : F) | BSyntaxError | BUncaught.
  Definition run_branch (e : pexpr) (handlers : list hclass) (tok : str) : branch_result :=
    match eval e tok with
    | VText s => BText s
    | VInt z => BInt z
    | VFloat f => BFloat f
    | VBytes _ => BUncaught
    | VRaise x => if existsb (fun h => catches h x) handlers then BSyntaxError else BUncaught
    end.

  (* the model's conversions in the same vocabulary *)
  Definition model_string (tok : str) : branch_result :=
    match convert nl (removelast (tl tok)) with inl v => BText v | inr _ => BSyntaxError end.
  (* Lexer.tokeniter hands wrap a token whose line breaks are all LF: normalize [10] is the identity on it *)
  Definition lf_only (tok : str) : Prop := normalize [10] (removelast (tl tok)) = removelast (tl tok).
  Definition model_int (tok : str) : branch_result :=
    match jinja_int limit tok with Ok z => BInt z | SyntaxErr => BSyntaxError end.
  Definition model_float (tok : str) : branch_result := BFloat (jinja_float F dec2float tok).
End Interp.
