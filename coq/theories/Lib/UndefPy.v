(* C21 -- deep embeddings of (1) the method bodies of the undefined classes (runtime.py: Undefined,
   ChainableUndefined, DebugUndefined, StrictUndefined, the class inside make_logging_undefined) and
   (2) the string-building programs Undefined._undefined_message / DebugUndefined.__str__, with
   interpreters over the dispatch model's vocabulary (Model/Undef.v).  gen/undef_translate.py turns
   the CURRENT source of every method into a term (fail-closed); the generated file proves
       interpreted body = kind_sem <kind the class table assigns>      for every caller context,
       interpreted message program = message,  interpreted __str__ program = debug_str
   so the shape-based classification behind the regenerated class tables is itself checked. *)
From Coq Require Import List NArith Bool.
Import ListNotations.
From JV Require Import Model.Undef.
Open Scope N_scope.

(* ------------------------------------------------------------------ method bodies *)
Inductive uexpr :=
| UESelf                                  (* self *)
| UEConst (c : constv)
| UECallSelf (m : mname) (fwd : bool)     (* self.m()  /  self.m(other) when fwd *)
| UESuperCall (m : mname) (fwd : bool)    (* super().m() / super().m(<the method's own arguments>) *)
| UETypeIsType                            (* type(self) is type(other) *)
| UENot (e : uexpr)
| UEIdType                                (* id(type(self)) *)
| UEStrSelf                               (* str(self) *)
| UEEscStrSelf                            (* str(escape(str(self))) *)
| UEDebugText.                            (* the text built by DebugUndefined.__str__ (proved equal to debug_str) *)

Inductive ustmt :=
| USIfDunder (body : list ustmt)          (* if name[:2] == "__" and name[-2:] == "__": *)
| USRaiseAttributeError                   (* raise AttributeError(name) *)
| USRaiseUndefined                        (* raise self._undefined_exception(self._undefined_message) *)
| USReturn (e : uexpr)
| USExpr (e : uexpr)                      (* expression statement *)
| USLogWarn                               (* _log_message(self) *)
| USTryLogErr (body : list ustmt)         (* try: body  except self._undefined_exception as e: logger.error(.., e); raise e *)
| USYieldFromEmpty                        (* yield from ()              (generator function) *)
| USAsyncEmpty.                           (* for _ in (): yield         (async generator function) *)

Section Interp.
  Variable c : cname.
  Variable p : party.
  Variable a : arg.
  Variable vc sup : mname -> arg -> run.

  Fixpoint ueval (e : uexpr) : run :=
    match e with
    | UESelf => (MRet (VUnd p), [])
    | UEConst v => (MRet (const_value v), [])
    | UECallSelf m fwd => vc m (if fwd then a else ANone)
    | UESuperCall m fwd => sup m (if fwd then a else ANone)
    | UETypeIsType => (MRet (VB match a with AOp (Und c' _) => cname_eqb c c' | _ => false end), [])
    | UENot x => let '(r, l) := ueval x in
                 match r with MRet (VB b) => (MRet (VB (negb b)), l) | MRet _ => (MUnmod, l) | y => (y, l) end
    | UEIdType => (MRet VHashC, [])
    | UEStrSelf => let '(r, l) := vc m_str ANone in
                   match r with
                   | MRet VStr0 | MRet VStrX | MRet (VDebug _) | MRaise _ => (r, l)
                   | _ => (MUnmod, l)
                   end
    | UEEscStrSelf => let '(r, l) := vc m_str ANone in
                      match r with
                      | MRet VStr0 => (MRet VStr0, l)
                      | MRet VStrX | MRet (VDebug _) => (MRet VStrX, l)
                      | MRaise q => (MRaise q, l)
                      | _ => (MUnmod, l)
                      end
    | UEDebugText => (MRet (VDebug p), [])
    end.

  Inductive uflow := UFall (l : list logev) | UDone (r : mres) (l : list logev).

  Fixpoint uexec (s : ustmt) {struct s} : uflow :=
    let uexecs := fix uexecs (b : list ustmt) {struct b} : uflow :=
      match b with
      | [] => UFall []
      | x :: r => match uexec x with
                  | UFall l => match uexecs r with UFall l' => UFall (l ++ l') | UDone v l' => UDone v (l ++ l') end
                  | d => d
                  end
      end in
    match s with
    | USIfDunder body => match a with AName true => uexecs body | _ => UFall [] end
    | USRaiseAttributeError => UDone MAttrErr []
    | USRaiseUndefined => UDone (MRaise p) []
    | USReturn e => let '(r, l) := ueval e in UDone r l
    | USExpr e => let '(r, l) := ueval e in match r with MRet _ => UFall l | x => UDone x l end
    | USLogWarn => UFall [LWarn p]
    | USTryLogErr body =>
        match uexecs body with
        | UDone (MRaise q) l => UDone (MRaise q) (l ++ [LErr p])
        | other => other
        end
    | USYieldFromEmpty => UDone (MRet VIter0) []
    | USAsyncEmpty => UDone (MRet VAIter0) []
    end.
  Fixpoint uexecs (b : list ustmt) : uflow :=
    match b with
    | [] => UFall []
    | x :: r => match uexec x with
                | UFall l => match uexecs r with UFall l' => UFall (l ++ l') | UDone v l' => UDone v (l ++ l') end
                | d => d
                end
    end.

  (* calling the method: falling off the end returns None *)
  Definition urun (body : list ustmt) : run :=
    match uexecs body with UFall l => (MRet VNoneV, l) | UDone r l => (r, l) end.
End Interp.

(* ------------------------------------------------------------------ string programs *)
Inductive spart :=
| SLit (s : str)
| SHint                 (* {self._undefined_hint} *)
| SNameRepr             (* {self._undefined_name!r} *)
| SNameStr              (* {self._undefined_name} / message = self._undefined_name *)
| SObjType              (* {object_type_repr(self._undefined_obj)} *)
| SObjTypeRepr          (* {object_type_repr(self._undefined_obj)!r} *)
| SLocal.               (* {message} *)
Inductive scond := SCHint | SCObjMissing | SCNameNotStr.
Inductive sstmt :=
| SSIf (cnd : scond) (t e : list sstmt)
| SSReturn (t : list spart)
| SSAssign (t : list spart).      (* message = ... *)

Definition spart_text (o : origin) (loc : str) (x : spart) : str :=
  match x with
  | SLit s => s
  | SHint => match hint o with Some h => h | None => [] end
  | SNameRepr => repr_name (name o)
  | SNameStr => str_name (name o)
  | SObjType => match obj o with Some t => t | None => [] end
  | SObjTypeRepr => match obj o with Some t => repr_simple t | None => [] end
  | SLocal => loc
  end.
Definition stext (o : origin) (loc : str) (t : list spart) : str := flat_map (spart_text o loc) t.
Definition scond_val (o : origin) (cnd : scond) : bool :=
  match cnd with
  | SCHint => match eff_hint o with Some _ => true | None => false end
  | SCObjMissing => match obj o with None => true | Some _ => false end
  | SCNameNotStr => match name o with NOther _ => true | NStr _ => false end
  end.

Inductive sflow := SFall (loc : str) | SRet (s : str).
Fixpoint sexec (o : origin) (s : sstmt) (loc : str) {struct s} : sflow :=
  let sexecs := fix sexecs (b : list sstmt) (loc : str) {struct b} : sflow :=
    match b with [] => SFall loc | x :: r => match sexec o x loc with SFall loc' => sexecs r loc' | d => d end end in
  match s with
  | SSIf cnd t e => if scond_val o cnd then sexecs t loc else sexecs e loc
  | SSReturn t => SRet (stext o loc t)
  | SSAssign t => SFall (stext o loc t)
  end.
Fixpoint sexecs (o : origin) (b : list sstmt) (loc : str) : sflow :=
  match b with [] => SFall loc | x :: r => match sexec o x loc with SFall loc' => sexecs o r loc' | d => d end end.
Definition srun (o : origin) (b : list sstmt) : str := match sexecs o b [] with SRet s => s | SFall _ => [] end.
