(* C21 -- model of Python's operator-dispatch protocol restricted to what jinja2's undefined
   classes use (runtime.py: Undefined, ChainableUndefined, DebugUndefined, StrictUndefined and
   the class built by make_logging_undefined).  The class tables are DATA: they are regenerated
   from the source by gen/undef_tables.py on every run.  Executable definitions only. *)
From Coq Require Import List NArith Bool.
Import ListNotations.
Open Scope N_scope.

Definition str := list N.

(* ------------------------------------------------------------------ class tables *)
Inductive base := BU | BC | BD | BS.                 (* Undefined Chainable Debug Strict *)
Inductive cname := Named (b : base) | Logging (b : base).   (* Logging b = make_logging_undefined(base=b) *)

Definition base_eqb (a b : base) : bool :=
  match a, b with BU, BU | BC, BC | BD, BD | BS, BS => true | _, _ => false end.
Definition cname_eqb (a b : cname) : bool :=
  match a, b with
  | Named x, Named y => base_eqb x y | Logging x, Logging y => base_eqb x y | _, _ => false end.

Definition mname := N.
Definition m_other : mname := 0. Definition m_str : mname := 1. Definition m_repr : mname := 2. Definition m_bool : mname := 3. Definition m_len : mname := 4. Definition m_iter : mname := 5. Definition m_contains : mname := 6. Definition m_eq : mname := 7. Definition m_ne : mname := 8. Definition m_hash : mname := 9. Definition m_lt : mname := 10. Definition m_le : mname := 11. Definition m_gt : mname := 12. Definition m_ge : mname := 13. Definition m_add : mname := 14. Definition m_radd : mname := 15. Definition m_sub : mname := 16. Definition m_rsub : mname := 17. Definition m_mul : mname := 18. Definition m_rmul : mname := 19. Definition m_truediv : mname := 20. Definition m_rtruediv : mname := 21. Definition m_floordiv : mname := 22. Definition m_rfloordiv : mname := 23. Definition m_mod : mname := 24. Definition m_rmod : mname := 25. Definition m_pow : mname := 26. Definition m_rpow : mname := 27. Definition m_pos : mname := 28. Definition m_neg : mname := 29. Definition m_int : mname := 30. Definition m_float : mname := 31. Definition m_index : mname := 32. Definition m_call : mname := 33. Definition m_getitem : mname := 34. Definition m_getattr : mname := 35. Definition m_fail : mname := 36. Definition m_message : mname := 37. Definition m_init : mname := 38. Definition m_html : mname := 39. Definition m_aiter : mname := 40. Definition m_copy : mname := 41. Definition m_deepcopy : mname := 42. Definition m_reduce_ex : mname := 43. Definition m_reduce : mname := 44. Definition m_getstate : mname := 45. Definition m_setstate : mname := 46. Definition m_getnewargs_ex : mname := 47. Definition m_getnewargs : mname := 48. Definition m_trunc : mname := 49.

Inductive constv := VStrEmpty | VStrOther | VInt0 | VIntOther | VTrue | VFalse | VNone.

(* what a method body does (the translator recognises exactly these shapes) *)
Inductive mkind :=
| KFail                      (* raise self._undefined_exception(self._undefined_message) *)
| KFailLogged                (* try: super()._fail_with_undefined_error() except exc as e: logger.error(..); raise e *)
| KGetattrFail               (* dunder name -> AttributeError; else return self._fail_with_undefined_error() *)
| KGetattrSelf               (* dunder name -> AttributeError; else return self *)
| KRetSelf                   (* return self *)
| KRetConst (c : constv)     (* return <constant> *)
| KEqType                    (* return type(self) is type(other) *)
| KNeNotEq                   (* return not self.__eq__(other) *)
| KHashType                  (* return id(type(self)) *)
| KIterEmpty                 (* yield from () *)
| KDebugStr                  (* DebugUndefined.__str__ *)
| KStrOfSelf                 (* return str(self) *)
| KEscStrOfSelf              (* return str(escape(str(self))) -- markupsafe.escape of the printed text *)
| KLogSuper (m : mname)      (* _log_message(self); return super().m() *)
| KHashNone                  (* __hash__ = None (explicit, or implied by defining __eq__ alone) *)
| KInit | KMessage | KAiterEmpty | KOther.

Record method := mkM { mk : mkind; fid : N }.       (* fid: identity of the function object *)
Record cls := mkC { parent : option cname; local : bool; dict : list (mname * method) }.
Definition tables := list (cname * cls).

Inductive tkind := TNotIsUndefined | TIsUndefined.
Inductive dkind := DUndefinedOrFalsy | DUnknown.
Record facts := mkF { f_defined : tkind; f_undefined : tkind; f_default : dkind }.

Fixpoint find_cls (T : tables) (c : cname) : option cls :=
  match T with [] => None | (c', k) :: r => if cname_eqb c c' then Some k else find_cls r c end.

Fixpoint assoc (m : mname) (d : list (mname * method)) : option method :=
  match d with [] => None | (m', x) :: r => if N.eqb m m' then Some x else assoc m r end.

Fixpoint mro_go (fuel : nat) (T : tables) (c : cname) : list cname :=
  match fuel with
  | O => []
  | S f => c :: match find_cls T c with
                | Some k => match parent k with Some p => mro_go f T p | None => [] end
                | None => [] end
  end.
Definition mro (T : tables) (c : cname) : list cname := mro_go (S (length T)) T c.

(* attribute lookup along an MRO suffix; returns the method and the rest of the MRO after
   the defining class (what super() inside that method searches) *)
Fixpoint lookup_in (T : tables) (cs : list cname) (m : mname) : option (method * list cname) :=
  match cs with
  | [] => None
  | c :: rest =>
      match find_cls T c with
      | None => lookup_in T rest m
      | Some k => match assoc m (dict k) with Some me => Some (me, rest) | None => lookup_in T rest m end
      end
  end.
Definition lookup (T : tables) (c : cname) (m : mname) := lookup_in T (mro T c) m.
Definition has (T : tables) (c : cname) (m : mname) : bool :=
  match lookup T c m with Some _ => true | None => false end.
Definition subclass (T : tables) (c d : cname) : bool := existsb (cname_eqb d) (mro T c).

(* ------------------------------------------------------------------ running a method *)
Inductive party := Self | Other.          (* the undefined under test / the other operand *)
Inductive logev := LWarn (p : party) | LErr (p : party).

Inductive bkind := KInt | KFloat | KStr | KNone | KList | KMarkup | KBool | KTuple | KDict | KBytes.   (* KMarkup: a markupsafe.Markup string *)
Inductive operand := Und (c : cname) (p : party) | Blt (k : bkind).
Inductive arg := ANone | AOp (o : operand) | AName (dunder : bool).

Inductive value :=
| VStr0 | VStrX | VDebug (p : party) | VB (b : bool) | VIter0 | VI0 | VIX | VHashC
| VUnd (p : party) | VNoneV | VNotImpl | VAIter0.
Inductive mres := MRet (v : value) | MRaise (p : party) | MAttrErr | MNoMethod | MUnmod.

Definition const_value (c : constv) : value :=
  match c with
  | VStrEmpty => VStr0 | VStrOther => VStrX | VInt0 => VI0 | VIntOther => VIX
  | VTrue => VB true | VFalse => VB false | VNone => VNoneV end.

Definition run := (mres * list logev)%type.

(* what one method body does, given how to call another method of the same object ([vc], virtual:
   looked up from type(self)) and how to call the next definition along the MRO ([sup], super()) *)
Definition kind_sem (c : cname) (p : party) (a : arg) (vc sup : mname -> arg -> run) (k : mkind) : run :=
  match k with
  | KFail => (MRaise p, [])
  | KFailLogged =>
      let '(r, l) := sup m_fail ANone in
      match r with
      | MRaise q => (MRaise q, l ++ [LErr p])
      | MRet _ => (MRet VNoneV, l)
      | x => (x, l)
      end
  | KGetattrFail => match a with AName true => (MAttrErr, []) | _ => vc m_fail ANone end
  | KGetattrSelf => match a with AName true => (MAttrErr, []) | _ => (MRet (VUnd p), []) end
  | KRetSelf => (MRet (VUnd p), [])
  | KRetConst v => (MRet (const_value v), [])
  | KEqType => (MRet (VB match a with AOp (Und c' _) => cname_eqb c c' | _ => false end), [])
  | KNeNotEq =>
      let '(r, l) := vc m_eq a in
      match r with
      | MRet (VB b) => (MRet (VB (negb b)), l)
      | MRet _ => (MUnmod, l)
      | x => (x, l)
      end
  | KHashType => (MRet VHashC, [])
  | KIterEmpty => (MRet VIter0, [])
  | KDebugStr => (MRet (VDebug p), [])
  | KStrOfSelf =>
      let '(r, l) := vc m_str ANone in
      match r with
      | MRet VStr0 | MRet VStrX | MRet (VDebug _) | MRaise _ => (r, l)
      | _ => (MUnmod, l)
      end
  | KEscStrOfSelf =>
      let '(r, l) := vc m_str ANone in
      match r with
      | MRet VStr0 => (MRet VStr0, l)                       (* escape("") = "" *)
      | MRet VStrX | MRet (VDebug _) => (MRet VStrX, l)     (* some text, escaped *)
      | MRaise q => (MRaise q, l)
      | _ => (MUnmod, l)
      end
  | KLogSuper m => let '(r, l) := sup m ANone in (r, LWarn p :: l)
  | KAiterEmpty => (MRet VAIter0, [])
  | KHashNone | KInit | KMessage | KOther => (MUnmod, [])
  end.

Fixpoint call (fuel : nat) (T : tables) (c : cname) (p : party) (me : method) (rest : list cname) (a : arg) : run :=
  match fuel with
  | O => (MUnmod, [])
  | S f =>
      kind_sem c p a
        (fun (m : mname) (a' : arg) =>
           match lookup T c m with
           | None => (MNoMethod, [])
           | Some (me', rest') => call f T c p me' rest' a'
           end)
        (fun (m : mname) (a' : arg) =>
           match lookup_in T rest m with
           | None => (MUnmod, [])
           | Some (me', rest') => call f T c p me' rest' a'
           end)
        (mk me)
  end.

Definition FUEL : nat := 8.
Definition vcall (T : tables) (c : cname) (p : party) (m : mname) (a : arg) : run :=
  match lookup T c m with
  | None => (MNoMethod, [])
  | Some (me, rest) => call FUEL T c p me rest a
  end.

(* ------------------------------------------------------------------ operations *)
Inductive arith := Add | Sub | Mul | Div | FloorDiv | Mod | Pow.
Inductive cmp := CEq | CNe | CLt | CLe | CGt | CGe.
Inductive dir := Fwd | Rev.                        (* undefined on the left / on the right *)
Inductive other := OB (k : bkind) | OSame | OPlain.  (* builtin value / another instance of the same class / a plain Undefined *)
Inductive rcont := RCStr | RCList | RCDict.        (* container on the right of `u in container` *)

Inductive op :=
| OpStr | OpBool | OpIter | OpAiter | OpLen | OpHash | OpPos | OpNeg | OpInt | OpFloat | OpCall | OpCallT
| OpGetAttr | OpGetDunder | OpGetItem | OpIsDefined | OpIsUndefined | OpDefault
| OpCopy | OpDeepcopy | OpPickle
| OpContains (o : other)
| OpRevContains (k : rcont)
| OpArith (a : arith) (d : dir) (o : other)
| OpCmp (c : cmp) (d : dir) (o : other).

Inductive result :=
| RStrEmpty | RStrOther | RDebugStr | RBool (b : bool) | RIterEmpty | RInt0 | RIntOther | RHashClass
| RItself | ROtherUndef | RDefault | RCopy | RBuiltin | RNone | ROtherValue.
Inductive outcome := Succeeds (r : result) | Raises (p : party) | TypeErr | AttrErr | PickleErr | Unmodelled.
Definition orun := (outcome * list logev)%type.

Definition res_of (v : value) : result :=
  match v with
  | VStr0 => RStrEmpty | VStrX => RStrOther | VDebug Self => RDebugStr | VDebug Other => ROtherValue
  | VB b => RBool b | VIter0 => RIterEmpty | VI0 => RInt0 | VIX => RIntOther | VHashC => RHashClass
  | VUnd Self => RItself | VUnd Other => ROtherUndef | VNoneV => RNone | VNotImpl => ROtherValue
  | VAIter0 => RIterEmpty end.

(* a protocol call whose result Python type-checks (str() wants a str, len() an int ...) *)
Definition typed (ok : value -> bool) (r : run) (nomethod : orun) : orun :=
  match r with
  | (MRet v, l) => if ok v then (Succeeds (res_of v), l) else (TypeErr, l)
  | (MRaise p, l) => (Raises p, l)
  | (MAttrErr, l) => (AttrErr, l)
  | (MNoMethod, _) => nomethod
  | (MUnmod, l) => (Unmodelled, l)
  end.

Definition is_strv v := match v with VStr0 | VStrX | VDebug _ => true | _ => false end.
Definition is_boolv v := match v with VB _ => true | _ => false end.
Definition is_intv v := match v with VI0 | VIX | VB _ | VHashC => true | _ => false end.
Definition is_iterv v := match v with VIter0 => true | _ => false end.
Definition anyv (v : value) := match v with VNotImpl => false | _ => true end.

Definition op_str T c : orun :=
  typed is_strv (vcall T c Self m_str ANone)
    (typed is_strv (vcall T c Self m_repr ANone) (Succeeds ROtherValue, [])).

Definition op_iter T c : orun :=
  typed is_iterv (vcall T c Self m_iter ANone)
    (if has T c m_getitem then (Unmodelled, []) else (TypeErr, [])).

(* async iteration (async_utils.auto_aiter): `__aiter__` if the object has one, else plain iteration *)
Definition is_aiterv v := match v with VAIter0 => true | _ => false end.
Definition op_aiter T c : orun :=
  match lookup T c m_aiter with
  | Some _ => typed is_aiterv (vcall T c Self m_aiter ANone) (Unmodelled, [])
  | None => op_iter T c
  end.

Definition op_len T c : orun := typed is_intv (vcall T c Self m_len ANone) (TypeErr, []).

Definition op_bool T c : orun :=
  typed is_boolv (vcall T c Self m_bool ANone)
    match op_len T c with
    | (Succeeds RInt0, l) => (Succeeds (RBool false), l)
    | (Succeeds _, l) => (Succeeds (RBool true), l)
    | (TypeErr, []) => if has T c m_len then (TypeErr, []) else (Succeeds (RBool true), [])
    | x => x
    end.

Definition op_hash T c (p : party) : orun :=
  match lookup T c m_hash with
  | Some (me, _) => match mk me with
                    | KHashNone => (TypeErr, [])
                    | _ => typed is_intv (vcall T c p m_hash ANone) (Unmodelled, []) end
  | None => (Succeeds ROtherValue, [])
  end.

Definition op_simple T c (m : mname) (a : arg) : orun := typed anyv (vcall T c Self m a) (TypeErr, []).

Definition op_number T c (ms : list mname) : orun :=
  fold_right (fun m (k : orun) => typed is_intv (vcall T c Self m ANone) k) (TypeErr, []) ms.

Definition op_getattr T c (dunder : bool) : orun :=
  typed anyv (vcall T c Self m_getattr (AName dunder)) (AttrErr, []).

(* a call written in a template goes through Context.call, which first asks
   hasattr(obj, "jinja_pass_arg") -- a non-dunder attribute probe on the undefined value
   (hasattr swallows AttributeError only) -- and then calls the object *)
Definition op_call_template T c : orun :=
  match op_getattr T c false with
  | (Raises p, l) => (Raises p, l)
  | (Unmodelled, l) => (Unmodelled, l)
  | (_, l) => let '(o, l') := op_simple T c m_call ANone in (o, l ++ l')
  end.

Definition isinstance_undefined T c := subclass T c (Named BU).

(* copy / deepcopy / pickle: object.__reduce_ex__ and the reconstructors probe these dunder
   names on the INSTANCE; none may be defined by the classes (then the default protocol is no
   longer what runs) and each probe must end in AttributeError *)
Definition probe T c (m : mname) (k : orun) : orun :=
  if has T c m then (Unmodelled, []) else
  match op_getattr T c true with
  | (AttrErr, l) => let '(o, l') := k in (o, l ++ l')
  | (Raises p, l) => (Raises p, l)
  | (_, l) => (Unmodelled, l)
  end.
Definition customised T c := existsb (has T c) [m_copy; m_deepcopy; m_reduce_ex; m_reduce; m_getstate].
Definition is_local T c := match find_cls T c with Some k => local k | None => false end.

Definition op_copy T c : orun :=
  if customised T c then (Unmodelled, []) else
  probe T c m_getnewargs_ex (probe T c m_getnewargs (probe T c m_setstate (Succeeds RCopy, []))).
Definition op_deepcopy T c : orun :=
  if customised T c then (Unmodelled, []) else
  probe T c m_deepcopy (probe T c m_getnewargs_ex (probe T c m_getnewargs (probe T c m_setstate (Succeeds RCopy, [])))).
Definition op_pickle T c : orun :=
  if customised T c then (Unmodelled, []) else
  probe T c m_getnewargs_ex (probe T c m_getnewargs
    (if is_local T c then (PickleErr, []) else probe T c m_setstate (Succeeds RCopy, []))).

Definition operand_of (c : cname) (o : other) : operand :=
  match o with OB k => Blt k | OSame => Und c Other | OPlain => Und (Named BU) Other end.

Definition truthy (r : orun) : orun :=
  match r with
  | (Succeeds (RBool b), l) => (Succeeds (RBool b), l)
  | (Succeeds RInt0, l) | (Succeeds RStrEmpty, l) | (Succeeds RNone, l) => (Succeeds (RBool false), l)
  | (Succeeds _, l) => (Unmodelled, l)
  | x => x
  end.

Definition op_contains T c (o : other) : orun :=
  match lookup T c m_contains with
  | Some _ => truthy (typed anyv (vcall T c Self m_contains (AOp (operand_of c o))) (Unmodelled, []))
  | None => match op_iter T c with
            | (Succeeds RIterEmpty, l) => (Succeeds (RBool false), l)
            | x => x end
  end.

(* ---- binary arithmetic (CPython binary_op1 + slot_nb_* of heap types) *)
Definition lname (a : arith) : mname :=
  match a with Add => m_add | Sub => m_sub | Mul => m_mul | Div => m_truediv | FloorDiv => m_floordiv | Mod => m_mod | Pow => m_pow end.
Definition rname (a : arith) : mname :=
  match a with Add => m_radd | Sub => m_rsub | Mul => m_rmul | Div => m_rtruediv | FloorDiv => m_rfloordiv | Mod => m_rmod | Pow => m_rpow end.

(* does the builtin left operand's own slot produce a result (without consulting the right
   operand's methods)?  Only str % x does: "abc" % mapping-like returns the format string. *)
Definition builtin_handles (k : bkind) (a : arith) : bool :=
  match k, a with KStr, Mod | KBytes, Mod => true | _, _ => false end.

Definition binres (r : run) : option orun :=      (* None = NotImplemented / no such method *)
  match r with
  | (MRet VNotImpl, _) | (MNoMethod, _) => None
  | (MRet v, l) => Some (Succeeds (res_of v), l)
  | (MRaise p, l) => Some (Raises p, l)
  | (MAttrErr, l) => Some (AttrErr, l)
  | (MUnmod, l) => Some (Unmodelled, l)
  end.

Definition overloaded T (cl cr : cname) (m : mname) : bool :=
  match lookup T cr m with
  | None => false
  | Some (b, _) => match lookup T cl m with None => true | Some (a, _) => negb (N.eqb (fid a) (fid b)) end
  end.

Definition or_else (x : option orun) (k : orun) : orun := match x with Some r => r | None => k end.

Definition arith_op T (a : arith) (l r : operand) : orun :=
  match l, r with
  | Blt KMarkup, Und cr pr =>
      (* Markup's own operators run first (Markup is a str subclass defining them):
         Markup.__add__ escapes the other operand when it has __html__ (calling it) and answers
         NotImplemented otherwise; Markup.__mod__ formats; Markup.__mul__ delegates to str.__mul__,
         which raises TypeError for a non-integer; everything else is NotImplemented *)
      match a with
      | Add =>
          if has T cr m_html then
            match vcall T cr pr m_html ANone with
            | (MRet v, lg) => if is_strv v then (Succeeds RBuiltin, lg) else (TypeErr, lg)
            | (MRaise q, lg) => (Raises q, lg)
            | (_, lg) => (Unmodelled, lg)
            end
          else or_else (binres (vcall T cr pr (rname a) (AOp l))) (TypeErr, [])
      | Mod => (Succeeds RBuiltin, [])
      | Mul => (TypeErr, [])
      | _ => or_else (binres (vcall T cr pr (rname a) (AOp l))) (TypeErr, [])
      end
  | Blt k, Und cr pr =>
      if builtin_handles k a then (Succeeds RBuiltin, [])
      else or_else (binres (vcall T cr pr (rname a) (AOp l))) (TypeErr, [])
  | Und cl pl, Blt _ => or_else (binres (vcall T cl pl (lname a) (AOp r))) (TypeErr, [])
  | Und cl pl, Und cr pr =>
      let same := cname_eqb cl cr in
      let has_l := has T cl (lname a) || has T cl (rname a) in
      let has_r := has T cr (lname a) || has T cr (rname a) in
      let right := binres (vcall T cr pr (rname a) (AOp l)) in
      let left := binres (vcall T cl pl (lname a) (AOp r)) in
      if has_l then
        let do_other := negb same && has_r in
        if do_other && subclass T cr cl && overloaded T cl cr (rname a) then
          or_else right (or_else left (TypeErr, []))
        else
          match left with
          | Some x => x
          | None => if same then (TypeErr, []) else if do_other then or_else right (TypeErr, []) else (TypeErr, [])
          end
      else if has_r then or_else right (TypeErr, []) else (TypeErr, [])
  | Blt _, Blt _ => (Unmodelled, [])
  end.

(* ---- rich comparison (CPython do_richcompare) *)
Definition cname_of (c : cmp) : mname :=
  match c with CEq => m_eq | CNe => m_ne | CLt => m_lt | CLe => m_le | CGt => m_gt | CGe => m_ge end.
Definition swapped (c : cmp) : cmp :=
  match c with CEq => CEq | CNe => CNe | CLt => CGt | CLe => CGe | CGt => CLt | CGe => CLe end.

Definition cmp_side T (x : operand) (c : cmp) (y : operand) : option orun :=
  match x with
  | Blt _ => None                                   (* int/str/None/list/float: NotImplemented *)
  | Und cx px =>
      match lookup T cx (cname_of c) with
      | Some _ => binres (vcall T cx px (cname_of c) (AOp y))
      | None =>
          match c with
          | CNe =>                                   (* object.__ne__ inverts __eq__ *)
              match lookup T cx m_eq with
              | None => None
              | Some _ => match binres (vcall T cx px m_eq (AOp y)) with
                          | Some (Succeeds (RBool b), l) => Some (Succeeds (RBool (negb b)), l)
                          | Some (Succeeds _, l) => Some (Unmodelled, l)
                          | x => x end
              end
          | _ => None                               (* object.__eq__ on distinct objects, object.__lt__ ...: NotImplemented *)
          end
      end
  end.

Definition cmp_op T (c : cmp) (l r : operand) : orun :=
  let rev_first := match l, r with
                   | Und cl _, Und cr _ => negb (cname_eqb cl cr) && subclass T cr cl
                   | _, _ => false end in
  let dflt : orun := match c with CEq => (Succeeds (RBool false), []) | CNe => (Succeeds (RBool true), []) | _ => (TypeErr, []) end in
  let a := cmp_side T r (swapped c) l in
  let b := cmp_side T l c r in
  if rev_first then or_else a (or_else b dflt) else or_else b (or_else a dflt).

Definition op_revcontains T c (k : rcont) : orun :=
  match k with
  | RCStr => (TypeErr, [])                              (* str.__contains__ wants a str *)
  | RCList => cmp_op T CEq (Blt KInt) (Und c Self)       (* [1]: the element is compared with == *)
  | RCDict => match op_hash T c Self with               (* {1: 2}: hashed, no collision *)
              | (Succeeds _, l) => (Succeeds (RBool false), l)
              | x => x end
  end.

Definition dispatch (T : tables) (F : facts) (c : cname) (o : op) : orun :=
  match o with
  | OpStr => op_str T c
  | OpBool => op_bool T c
  | OpIter => op_iter T c
  | OpAiter => op_aiter T c
  | OpLen => op_len T c
  | OpHash => op_hash T c Self
  | OpPos => op_simple T c m_pos ANone
  | OpNeg => op_simple T c m_neg ANone
  | OpInt => op_number T c [m_int; m_index; m_trunc]
  | OpFloat => op_number T c [m_float; m_index]
  | OpCall => op_simple T c m_call ANone
  | OpCallT => op_call_template T c
  | OpGetAttr => op_getattr T c false
  | OpGetDunder => op_getattr T c true
  | OpGetItem => op_simple T c m_getitem (AOp (Blt KStr))
  | OpIsDefined => (Succeeds (RBool match f_defined F with TNotIsUndefined => negb (isinstance_undefined T c) | TIsUndefined => isinstance_undefined T c end), [])
  | OpIsUndefined => (Succeeds (RBool match f_undefined F with TNotIsUndefined => negb (isinstance_undefined T c) | TIsUndefined => isinstance_undefined T c end), [])
  | OpDefault => match f_default F with
                 | DUndefinedOrFalsy => if isinstance_undefined T c then (Succeeds RDefault, []) else (Succeeds RItself, [])
                 | DUnknown => (Unmodelled, []) end
  | OpCopy => op_copy T c
  | OpDeepcopy => op_deepcopy T c
  | OpPickle => op_pickle T c
  | OpContains x => op_contains T c x
  | OpRevContains k => op_revcontains T c k
  | OpArith a Fwd x => arith_op T a (Und c Self) (operand_of c x)
  | OpArith a Rev x => arith_op T a (operand_of c x) (Und c Self)
  | OpCmp k Fwd x => cmp_op T k (Und c Self) (operand_of c x)
  | OpCmp k Rev x => cmp_op T k (operand_of c x) (Und c Self)
  end.

(* ------------------------------------------------------------------ messages *)
(* how an undefined value came about: Undefined(hint, obj, name).  obj is represented by the
   text utils.object_type_repr gives for it (None = the `missing` sentinel); a name that is
   not a str by its repr text. *)
Inductive uname := NStr (s : str) | NOther (r : str).
Record origin := mkO { hint : option str; obj : option str; name : uname }.

Definition s_is_undefined : str := [32; 105; 115; 32; 117; 110; 100; 101; 102; 105; 110; 101; 100].
Definition s_has_no_element : str := [32; 104; 97; 115; 32; 110; 111; 32; 101; 108; 101; 109; 101; 110; 116; 32].
Definition s_has_no_attribute : str := [32; 104; 97; 115; 32; 110; 111; 32; 97; 116; 116; 114; 105; 98; 117; 116; 101; 32].
Definition s_open : str := [123; 123; 32].
Definition s_close : str := [32; 125; 125].
Definition s_printed : str := [117; 110; 100; 101; 102; 105; 110; 101; 100; 32; 118; 97; 108; 117; 101; 32; 112; 114; 105; 110; 116; 101; 100; 58; 32].
Definition s_nosuch : str := [110; 111; 32; 115; 117; 99; 104; 32; 101; 108; 101; 109; 101; 110; 116; 58; 32].

(* repr of a str without quotes, backslashes or non-printable characters *)
Definition repr_simple (s : str) : str := [39] ++ s ++ [39].
Definition simple (s : str) : bool :=
  forallb (fun ch => (32 <=? ch) && (ch <? 127) && negb (ch =? 39) && negb (ch =? 92)) s.
Definition repr_name (n : uname) : str := match n with NStr s => repr_simple s | NOther r => r end.
Definition str_name (n : uname) : str := match n with NStr s => s | NOther r => r end.

Definition eff_hint (o : origin) : option str :=     (* `if self._undefined_hint:` -- None and "" are falsy *)
  match hint o with Some (x :: r) => Some (x :: r) | _ => None end.

(* Undefined._undefined_message *)
Definition message (o : origin) : str :=
  match eff_hint o with
  | Some h => h
  | None =>
      match obj o with
      | None => repr_name (name o) ++ s_is_undefined
      | Some t =>
          match name o with
          | NOther r => t ++ s_has_no_element ++ r
          | NStr s => repr_simple t ++ s_has_no_attribute ++ repr_simple s
          end
      end
  end.

(* DebugUndefined.__str__ *)
Definition debug_str (o : origin) : str :=
  s_open ++
  match eff_hint o with
  | Some h => s_printed ++ h
  | None => match obj o with
            | None => str_name (name o)
            | Some t => s_nosuch ++ t ++ [91] ++ repr_name (name o) ++ [93]
            end
  end ++ s_close.
