(* C01, code-generation half: when does the Python compiler accept what the statement
   code generator emits?  The model keeps exactly the structure CPython's acceptance
   rules look at: function boundaries, for statements, break / continue, parameter lists
   of emitted functions, keyword names of emitted calls.

   gen mirrors compiler.CodeGenerator: Frame.in_loop_body (set for a loop body, inherited
   by inner and soft frames, cleared for macro / call-block / block functions and for the
   else branch of a recursive loop) and parser.parse_signature / parse_call_args, which
   reject exact duplicate names.  py_ok is CPython's rule, which compares identifiers
   after NFKC normalisation (pynorm). *)
From Coq Require Import List NArith Bool.
Import ListNotations.
Open Scope N_scope.

Definition name := N.

Inductive stmt :=
| SText
| SBreak
| SContinue
| SCallKw (kws : list name)                       (* an expression call f(k1=…, k2=…) in an output *)
| SUse (n : name)                                 (* an output that loads the name n *)
| SIf (body els : list stmt)
| SFor (recursive : bool) (body els : list stmt)
| SInline (body : list stmt)                      (* with / filter block / block set / scope / autoescape *)
| SMacro (params : list name) (body : list stmt)
| SCallBlock (params : list name) (kws : list name) (body : list stmt)
| SBlock (body : list stmt).                      (* {% block %}: compiled into its own function *)

Inductive py :=
| PSimple
| PBreak
| PContinue
| PCall (kws : list name)
| PIf (body : list py)
| PFor (body : list py)
| PDef (params : list name) (body : list py).

Inductive res (A : Type) := Ok (a : A) | SyntaxErr.
Arguments Ok {A} _. Arguments SyntaxErr {A}.

Fixpoint memb (x : name) (l : list name) : bool :=
  match l with [] => false | y :: r => (x =? y) || memb x r end.
Fixpoint nodupb (l : list name) : bool :=
  match l with [] => true | x :: r => negb (memb x r) && nodupb r end.

(* the special macro variables caller / kwargs / varargs; the code generator appends them (in
   this order) to the parameter list when the body loads them (compiler.find_undeclared, which
   descends into everything except blocks) and they were not declared explicitly *)
Definition CALLER : name := 1.
Definition KWARGS : name := 2.
Definition VARARGS : name := 3.

Fixpoint loads (n : name) (s : stmt) {struct s} : bool :=
  let loadsl := fix loadsl (l : list stmt) : bool := match l with [] => false | x :: r => loads n x || loadsl r end in
  match s with
  | SUse m => n =? m
  | SIf b e | SFor _ b e => loadsl b || loadsl e
  | SInline b | SMacro _ b | SCallBlock _ _ b => loadsl b
  | SBlock _ => false
  | _ => false
  end.
Definition specials (ps : list name) (body : list stmt) : list name :=
  filter (fun n => existsb (loads n) body && negb (memb n ps)) [CALLER; KWARGS; VARARGS].

Section Gen.

  Fixpoint gen (in_loop : bool) (s : stmt) {struct s} : res (list py) :=
    let gens := fix gens (il : bool) (l : list stmt) {struct l} : res (list py) :=
      match l with
      | [] => Ok []
      | x :: r => match gen il x, gens il r with
                  | Ok a, Ok b => Ok (a ++ b)
                  | _, _ => SyntaxErr
                  end
      end in
    match s with
    | SText => Ok [PSimple]
    | SBreak => if in_loop then Ok [PBreak] else SyntaxErr
    | SContinue => if in_loop then Ok [PContinue] else SyntaxErr
    | SCallKw kws => if nodupb kws then Ok [PCall kws] else SyntaxErr
    | SUse _ => Ok [PSimple]
    | SIf b e => match gens in_loop b, gens in_loop e with
                 | Ok pb, Ok pe => Ok [PIf pb; PIf pe]
                 | _, _ => SyntaxErr
                 end
    | SFor false b e => match gens true b, gens in_loop e with
                        | Ok pb, Ok pe => Ok [PFor pb; PIf pe]
                        | _, _ => SyntaxErr
                        end
    | SFor true b e => match gens true b, gens false e with
                       | Ok pb, Ok pe => Ok [PDef [] [PFor pb; PIf pe]; PSimple]
                       | _, _ => SyntaxErr
                       end
    | SInline b => gens in_loop b
    | SMacro ps b =>
        if nodupb ps then
          match gens false b with
          | Ok pb => Ok [PDef (ps ++ specials ps b) pb; PSimple]
          | SyntaxErr => SyntaxErr
          end
        else SyntaxErr
    | SCallBlock ps kws b =>
        if nodupb ps && nodupb kws then
          match gens false b with
          | Ok pb => Ok [PDef (ps ++ specials ps b) pb; PCall kws]
          | SyntaxErr => SyntaxErr
          end
        else SyntaxErr
    | SBlock b => match gens false b with
                  | Ok pb => Ok [PDef [] pb; PSimple]
                  | SyntaxErr => SyntaxErr
                  end
    end.

  Fixpoint gens (il : bool) (l : list stmt) : res (list py) :=
    match l with
    | [] => Ok []
    | x :: r => match gen il x, gens il r with
                | Ok a, Ok b => Ok (a ++ b)
                | _, _ => SyntaxErr
                end
    end.
End Gen.

Section PyOk.
  Variable pynorm : name -> name.                 (* NFKC normalisation of identifiers *)

  Fixpoint py_ok (in_loop : bool) (p : py) {struct p} : bool :=
    match p with
    | PSimple => true
    | PBreak | PContinue => in_loop
    | PCall kws => nodupb (map pynorm kws)
    | PIf b => forallb (py_ok in_loop) b
    | PFor b => forallb (py_ok true) b
    | PDef ps b => nodupb (map pynorm ps) && forallb (py_ok false) b
    end.
End PyOk.

(* the abstraction compared with the real generated module: for every break / continue
   whether a for statement of the same function encloses it, the parameter lists of the
   emitted functions, the keyword lists of emitted calls — in emission order *)
Inductive fact := FLoopCtl (is_break inside : bool) | FDef (ps : list name) | FCall (kws : list name).

Fixpoint facts (in_loop : bool) (p : py) {struct p} : list fact :=
  match p with
  | PSimple => []
  | PBreak => [FLoopCtl true in_loop]
  | PContinue => [FLoopCtl false in_loop]
  | PCall kws => match kws with [] => [] | _ => [FCall kws] end
  | PIf b => flat_map (facts in_loop) b
  | PFor b => flat_map (facts true) b
  | PDef ps b => match ps with [] => [] | _ => [FDef ps] end ++ flat_map (facts false) b
  end.
