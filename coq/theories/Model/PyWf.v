(* C01, code-generation half: when does the Python compiler accept what the statement
   code generator emits?  The model keeps exactly the structure CPython's acceptance
   rules look at: function boundaries, for statements, break / continue, parameter lists
   of emitted functions, keyword names of emitted calls.

   gen mirrors compiler.CodeGenerator: Frame.in_loop_body (set for a loop body, inherited
   by inner and soft frames, cleared for macro / call-block / block functions and for the
   else branch of a recursive loop) and parser.parse_signature / parse_call_args, which
   reject exact duplicate names.  py_ok is CPython's rule, which compares identifiers
   after NFKC normalisation (pynorm). *)
From Coq Require Import List NArith Bool.
Import ListNotations.
Open Scope N_scope.

Definition name := N.

(* assignment targets of for / set: names, tuples of targets, and leaves the Python compiler
   cannot assign to (literals, the empty tuple is fine for Python but not for jinja's check) *)
Inductive tgt := TName (n : name) | TConst | TTuple (items : list tgt).

(* nodes.Name.can_assign / Tuple.can_assign / Const (no can_assign: False) *)
Fixpoint can_assign (t : tgt) : bool :=
  match t with TName _ => true | TConst => false | TTuple l => forallb can_assign l end.
(* CPython: "cannot assign to literal" anywhere inside a target *)
Fixpoint py_target_ok (t : tgt) : bool :=
  match t with TName _ => true | TConst => false | TTuple l => forallb py_target_ok l end.

Inductive stmt :=
| SAssignT (scoped : bool) (t : tgt)              (* {% set T = x %} (false) / {% for T in x %}{% endfor %} (true) *)
| SText
| SBreak
| SContinue
| SCallKw (kws : list name)                       (* an expression call f(k1=…, k2=…) in an output *)
| SUse (n : name)                                 (* an output that loads the name n *)
| SIf (body els : list stmt)
| SFor (recursive : bool) (body els : list stmt)
| SInline (w : bool) (body : list stmt)           (* an inner frame and a scope of the undeclared-name visitor: with / filter block /
                                                     block set (true) or a bare nodes.Scope (false) *)
| SSame (body : list stmt)                        (* ScopedEvalContextModifier: body compiled in the very same frame
                                                     (the autoescape tag wraps it in a Scope: SInline false [SSame b]) *)
| SMacro (params : list name) (body : list stmt)
| SCallBlock (params : list name) (uses : list name) (kws : list name) (body : list stmt)
      (* {% call(params) f(uses…, kws…=1) %}body{% endcall %}: the call expression loads [uses] in the enclosing frame *)
| SBlock (body : list stmt).                      (* {% block %}: compiled into its own function *)

Inductive py :=
| PAssign (t : tgt)
| PSimple
| PBreak
| PContinue
| PCall (kws : list name)
| PIf (body : list py)
| PFor (body : list py)
| PDef (params : list name) (body : list py).

Inductive res (A : Type) := Ok (a : A) | SyntaxErr.
Arguments Ok {A} _. Arguments SyntaxErr {A}.

Fixpoint memb (x : name) (l : list name) : bool :=
  match l with [] => false | y :: r => (x =? y) || memb x r end.
Fixpoint nodupb (l : list name) : bool :=
  match l with [] => true | x :: r => negb (memb x r) && nodupb r end.
Definition disjb (a b : list name) : bool := forallb (fun x => negb (memb x b)) a.

(* the special macro variables caller / kwargs / varargs; the code generator appends them (in
   this order) to the parameter list when the body loads them (compiler.find_undeclared, which
   descends into everything except blocks) and they were not declared explicitly *)
Definition CALLER : name := 1.
Definition KWARGS : name := 2.
Definition VARARGS : name := 3.
(* keywords the code generator adds to an emitted call by itself (compiler.visit_Call):
   caller=caller for the call of a call block, _loop_vars=_loop_vars when the frame is a loop
   frame, _block_vars=_block_vars when it is a block frame.  Frame.loop_frame / block_frame are
   set on the frame of a loop body / block function, kept by soft frames (if) and by tags that
   reuse the frame (autoescape), and reset by Frame.inner() (with, filter, block set, macro,
   call block, loop else) *)
Definition LOOPVARS : name := 4.
Definition BLOCKVARS : name := 5.
Definition extras (fc lf bf : bool) : list name :=
  (if fc then [CALLER] else []) ++ (if lf then [LOOPVARS] else []) ++ (if bf then [BLOCKVARS] else []).

(* compiler.UndeclaredNameVisitor over a macro body, in document order: a load of a tracked name
   marks it found; any other occurrence of a name (an assignment target) stops tracking it; blocks
   are not entered; the visit stops once every tracked name is found.  A nested scope (the body of
   a for loop with its target, its else branch, a macro or call block with its parameters, a with
   block with its targets, the body of a filter block or block set, each branch of an if) is visited by a fresh visitor that starts from the names tracked at that
   point: what it stops tracking is forgotten when the scope ends, what it found is added, and the
   outer visit stops when everything still tracked has been found.  State: (tracked, found, stopped). *)
Definition ustate := (list name * list name * bool)%type.
Definition remove_name (n : name) (l : list name) : list name := filter (fun m => negb (m =? n)) l.
Definition subsetb (a b : list name) : bool := forallb (fun x => memb x b) a.
Definition add_name (n : name) (l : list name) : list name := if memb n l then l else n :: l.
Definition u_load (n : name) (u : ustate) : ustate :=
  let '(tr, fo, st) := u in
  if st then u else
  if memb n tr then
    let fo' := add_name n fo in
    (tr, fo', subsetb tr fo' && subsetb fo' tr)
  else u.
Definition u_store (n : name) (u : ustate) : ustate :=
  let '(tr, fo, st) := u in if st then u else (remove_name n tr, fo, st).
Definition u_stores (ns : list name) (u : ustate) : ustate := fold_left (fun u n => u_store n u) ns u.
(* _visit_scope: [run] is the visit of the scope's children by the inner visitor *)
Definition u_scope (run : ustate -> ustate) (u : ustate) : ustate :=
  let '(tr, fo, st) := u in
  if st then u else
  let fo' := fold_left (fun acc n => add_name n acc) (snd (fst (run (tr, [], false)))) fo in
  (tr, fo', subsetb tr fo').
Fixpoint tgt_names (t : tgt) : list name :=
  match t with TName n => [n] | TConst => [] | TTuple l => flat_map tgt_names l end.

Fixpoint uscan (s : stmt) (u : ustate) {struct s} : ustate :=
  let uscans := fix uscans (l : list stmt) (u : ustate) : ustate :=
    match l with [] => u | x :: r => uscans r (uscan x u) end in
  match s with
  | SUse n => u_load n u
  | SAssignT false t => u_stores (tgt_names t) u
  | SAssignT true t => u_scope (fun v => v) (u_scope (u_stores (tgt_names t)) u)
  | SIf b e => u_scope (uscans e) (u_scope (uscans b) u)
  | SFor _ b e => u_scope (uscans e) (u_scope (uscans b) u)
  | SInline _ b => u_scope (uscans b) u
  | SSame b => uscans b u
  | SMacro ps b => u_scope (fun v => uscans b (u_stores ps v)) u
  | SCallBlock ps us _ b => u_scope (fun v => uscans b (u_stores ps v)) (fold_left (fun u n => u_load n u) us u)
  | SBlock _ => u
  | _ => u
  end.
Fixpoint uscans (l : list stmt) (u : ustate) : ustate :=
  match l with [] => u | x :: r => uscans r (uscan x u) end.
Definition found_specials (body : list stmt) : list name :=
  snd (fst (uscans body ([CALLER; KWARGS; VARARGS], [], false))).
Definition specials (ps : list name) (body : list stmt) : list name :=
  filter (fun n => memb n (found_specials body) && negb (memb n ps)) [CALLER; KWARGS; VARARGS].

(* macro_body: a parameter spelled caller must have a default when the body uses caller (the skeleton's
   parameters have no defaults): TemplateAssertionError *)
Definition explicit_caller_ok (ps : list name) (body : list stmt) : bool :=
  negb (memb CALLER ps && memb CALLER (found_specials body)).

Section Gen.
  (* which template names are pure ASCII: a call with a keyword name that is not is emitted with all its
     keywords in a dict unpacked with a double star, like one whose keyword is a Python keyword — no identifier of the
     generated module is derived from such a keyword *)
  Variable ascii : name -> bool.

  (* il : Frame.in_loop_body;  lf : Frame.loop_frame;  bf : Frame.block_frame.
     A call whose explicit keywords collide with the keywords the generator adds itself is
     refused by CodeGenerator.signature (TemplateAssertionError); _loop_vars and _block_vars are
     refused as explicit keywords of every call (Context.call would strip them). *)
  Definition reserved_free (kws : list name) : bool := negb (memb LOOPVARS kws) && negb (memb BLOCKVARS kws).
  Definition gen_call (fc lf bf : bool) (kws : list name) : res (list py) :=
    if nodupb kws && disjb kws (extras fc lf bf) && reserved_free kws
    then Ok [PCall (if forallb ascii kws then kws ++ extras fc lf bf else [])] else SyntaxErr.

  Fixpoint gen (il lf bf : bool) (s : stmt) {struct s} : res (list py) :=
    let gens := fix gens (il lf bf : bool) (l : list stmt) {struct l} : res (list py) :=
      match l with
      | [] => Ok []
      | x :: r => match gen il lf bf x, gens il lf bf r with
                  | Ok a, Ok b => Ok (a ++ b)
                  | _, _ => SyntaxErr
                  end
      end in
    match s with
    | SAssignT _ t => if can_assign t then Ok [PAssign t] else SyntaxErr
    | SText => Ok [PSimple]
    | SBreak => if il then Ok [PBreak] else SyntaxErr
    | SContinue => if il then Ok [PContinue] else SyntaxErr
    | SCallKw kws => gen_call false lf bf kws
    | SUse _ => Ok [PSimple]
    | SIf b e => match gens il lf bf b, gens il lf bf e with
                 | Ok pb, Ok pe => Ok [PIf pb; PIf pe]
                 | _, _ => SyntaxErr
                 end
    | SFor false b e => match gens true true false b, gens il false false e with
                        | Ok pb, Ok pe => Ok [PFor pb; PIf pe]
                        | _, _ => SyntaxErr
                        end
    | SFor true b e => match gens true true false b, gens false false false e with
                       | Ok pb, Ok pe => Ok [PDef [] [PFor pb; PIf pe]; PSimple]
                       | _, _ => SyntaxErr
                       end
    | SInline _ b => gens il false false b
    | SSame b => gens il lf bf b
    | SMacro ps b =>
        if nodupb ps && explicit_caller_ok ps b then
          match gens false false false b with
          | Ok pb => Ok [PDef (ps ++ specials ps b) pb; PSimple]
          | SyntaxErr => SyntaxErr
          end
        else SyntaxErr
    | SCallBlock ps _ kws b =>
        if nodupb ps && explicit_caller_ok ps b then
          match gens false false false b, gen_call true lf bf kws with
          | Ok pb, Ok pc => Ok (PDef (ps ++ specials ps b) pb :: pc)
          | _, _ => SyntaxErr
          end
        else SyntaxErr
    | SBlock b => match gens false false true b with
                  | Ok pb => Ok [PDef [] pb; PSimple]
                  | SyntaxErr => SyntaxErr
                  end
    end.

  Fixpoint gens (il lf bf : bool) (l : list stmt) : res (list py) :=
    match l with
    | [] => Ok []
    | x :: r => match gen il lf bf x, gens il lf bf r with
                | Ok a, Ok b => Ok (a ++ b)
                | _, _ => SyntaxErr
                end
    end.
End Gen.

Section PyOk.
  Variable pynorm : name -> name.                 (* NFKC normalisation of identifiers *)

  Fixpoint py_ok (in_loop : bool) (p : py) {struct p} : bool :=
    match p with
    | PAssign t => py_target_ok t
    | PSimple => true
    | PBreak | PContinue => in_loop
    | PCall kws => nodupb (map pynorm kws)
    | PIf b => forallb (py_ok in_loop) b
    | PFor b => forallb (py_ok true) b
    | PDef ps b => nodupb (map pynorm ps) && forallb (py_ok false) b
    end.
End PyOk.

(* the abstraction compared with the real generated module: for every break / continue
   whether a for statement of the same function encloses it, the parameter lists of the
   emitted functions, the keyword lists of emitted calls — in emission order *)
Inductive fact := FLoopCtl (is_break inside : bool) | FDef (ps : list name) | FCall (kws : list name).

Fixpoint facts (in_loop : bool) (p : py) {struct p} : list fact :=
  match p with
  | PAssign _ => []
  | PSimple => []
  | PBreak => [FLoopCtl true in_loop]
  | PContinue => [FLoopCtl false in_loop]
  | PCall kws => match kws with [] => [] | _ => [FCall kws] end
  | PIf b => flat_map (facts in_loop) b
  | PFor b => flat_map (facts true) b
  | PDef ps b => match ps with [] => [] | _ => [FDef ps] end ++ flat_map (facts false) b
  end.
