(* C01, code-generation half: when does the Python compiler accept what the statement
   code generator emits?  The model keeps exactly the structure CPython's acceptance
   rules look at: function boundaries, for statements, break / continue, parameter lists
   of emitted functions, keyword names of emitted calls.

   gen mirrors compiler.CodeGenerator: Frame.in_loop_body (set for a loop body, inherited
   by inner and soft frames, cleared for macro / call-block / block functions and for the
   else branch of a recursive loop) and parser.parse_signature / parse_call_args, which
   reject exact duplicate names.  py_ok is CPython's rule, which compares identifiers
   after NFKC normalisation (pynorm). *)
From Coq Require Import List NArith Bool.
Import ListNotations.
Open Scope N_scope.

Definition name := N.

(* assignment targets of for / set: names, tuples of targets, and leaves the Python compiler
   cannot assign to (literals, the empty tuple is fine for Python but not for jinja's check) *)
Inductive tgt := TName (n : name) | TConst | TTuple (items : list tgt).

(* nodes.Name.can_assign / Tuple.can_assign / Const (no can_assign: False) *)
Fixpoint can_assign (t : tgt) : bool :=
  match t with TName _ => true | TConst => false | TTuple l => forallb can_assign l end.
(* CPython: "cannot assign to literal" anywhere inside a target *)
Fixpoint py_target_ok (t : tgt) : bool :=
  match t with TName _ => true | TConst => false | TTuple l => forallb py_target_ok l end.

Inductive stmt :=
| SAssignT (t : tgt)                              (* {% set T = x %} / {% for T in x %} *)
| SText
| SBreak
| SContinue
| SCallKw (kws : list name)                       (* an expression call f(k1=…, k2=…) in an output *)
| SUse (n : name)                                 (* an output that loads the name n *)
| SIf (body els : list stmt)
| SFor (recursive : bool) (body els : list stmt)
| SInline (body : list stmt)                      (* with / filter block / block set / scope / autoescape *)
| SMacro (params : list name) (body : list stmt)
| SCallBlock (params : list name) (kws : list name) (body : list stmt)
| SBlock (body : list stmt).                      (* {% block %}: compiled into its own function *)

Inductive py :=
| PAssign (t : tgt)
| PSimple
| PBreak
| PContinue
| PCall (kws : list name)
| PIf (body : list py)
| PFor (body : list py)
| PDef (params : list name) (body : list py).

Inductive res (A : Type) := Ok (a : A) | SyntaxErr.
Arguments Ok {A} _. Arguments SyntaxErr {A}.

Fixpoint memb (x : name) (l : list name) : bool :=
  match l with [] => false | y :: r => (x =? y) || memb x r end.
Fixpoint nodupb (l : list name) : bool :=
  match l with [] => true | x :: r => negb (memb x r) && nodupb r end.

(* the special macro variables caller / kwargs / varargs; the code generator appends them (in
   this order) to the parameter list when the body loads them (compiler.find_undeclared, which
   descends into everything except blocks) and they were not declared explicitly *)
Definition CALLER : name := 1.
Definition KWARGS : name := 2.
Definition VARARGS : name := 3.

(* compiler.UndeclaredNameVisitor over a macro body, in document order: a load of a tracked name
   marks it found; any other occurrence of a name (a parameter of a nested macro / call block, an
   assignment target) stops tracking it; blocks are not entered; the visit stops once every
   tracked name is found.  State: (tracked, found, stopped). *)
Definition ustate := (list name * list name * bool)%type.
Definition remove_name (n : name) (l : list name) : list name := filter (fun m => negb (m =? n)) l.
Definition subsetb (a b : list name) : bool := forallb (fun x => memb x b) a.
Definition u_load (n : name) (u : ustate) : ustate :=
  let '(tr, fo, st) := u in
  if st then u else
  if memb n tr then
    let fo' := if memb n fo then fo else n :: fo in
    (tr, fo', subsetb tr fo' && subsetb fo' tr)
  else u.
Definition u_store (n : name) (u : ustate) : ustate :=
  let '(tr, fo, st) := u in if st then u else (remove_name n tr, fo, st).
Fixpoint tgt_names (t : tgt) : list name :=
  match t with TName n => [n] | TConst => [] | TTuple l => flat_map tgt_names l end.

Fixpoint uscan (s : stmt) (u : ustate) {struct s} : ustate :=
  let uscans := fix uscans (l : list stmt) (u : ustate) : ustate :=
    match l with [] => u | x :: r => uscans r (uscan x u) end in
  match s with
  | SUse n => u_load n u
  | SAssignT t => fold_left (fun u n => u_store n u) (tgt_names t) u
  | SIf b e | SFor _ b e => uscans e (uscans b u)
  | SInline b => uscans b u
  | SMacro ps b | SCallBlock ps _ b => uscans b (fold_left (fun u n => u_store n u) ps u)
  | SBlock _ => u
  | _ => u
  end.
Fixpoint uscans (l : list stmt) (u : ustate) : ustate :=
  match l with [] => u | x :: r => uscans r (uscan x u) end.
Definition found_specials (body : list stmt) : list name :=
  snd (fst (uscans body ([CALLER; KWARGS; VARARGS], [], false))).
Definition specials (ps : list name) (body : list stmt) : list name :=
  filter (fun n => memb n (found_specials body) && negb (memb n ps)) [CALLER; KWARGS; VARARGS].

Section Gen.

  Fixpoint gen (in_loop : bool) (s : stmt) {struct s} : res (list py) :=
    let gens := fix gens (il : bool) (l : list stmt) {struct l} : res (list py) :=
      match l with
      | [] => Ok []
      | x :: r => match gen il x, gens il r with
                  | Ok a, Ok b => Ok (a ++ b)
                  | _, _ => SyntaxErr
                  end
      end in
    match s with
    | SAssignT t => if can_assign t then Ok [PAssign t] else SyntaxErr
    | SText => Ok [PSimple]
    | SBreak => if in_loop then Ok [PBreak] else SyntaxErr
    | SContinue => if in_loop then Ok [PContinue] else SyntaxErr
    | SCallKw kws => if nodupb kws then Ok [PCall kws] else SyntaxErr
    | SUse _ => Ok [PSimple]
    | SIf b e => match gens in_loop b, gens in_loop e with
                 | Ok pb, Ok pe => Ok [PIf pb; PIf pe]
                 | _, _ => SyntaxErr
                 end
    | SFor false b e => match gens true b, gens in_loop e with
                        | Ok pb, Ok pe => Ok [PFor pb; PIf pe]
                        | _, _ => SyntaxErr
                        end
    | SFor true b e => match gens true b, gens false e with
                       | Ok pb, Ok pe => Ok [PDef [] [PFor pb; PIf pe]; PSimple]
                       | _, _ => SyntaxErr
                       end
    | SInline b => gens in_loop b
    | SMacro ps b =>
        if nodupb ps then
          match gens false b with
          | Ok pb => Ok [PDef (ps ++ specials ps b) pb; PSimple]
          | SyntaxErr => SyntaxErr
          end
        else SyntaxErr
    | SCallBlock ps kws b =>
        if nodupb ps && nodupb kws then
          match gens false b with
          | Ok pb => Ok [PDef (ps ++ specials ps b) pb; PCall kws]
          | SyntaxErr => SyntaxErr
          end
        else SyntaxErr
    | SBlock b => match gens false b with
                  | Ok pb => Ok [PDef [] pb; PSimple]
                  | SyntaxErr => SyntaxErr
                  end
    end.

  Fixpoint gens (il : bool) (l : list stmt) : res (list py) :=
    match l with
    | [] => Ok []
    | x :: r => match gen il x, gens il r with
                | Ok a, Ok b => Ok (a ++ b)
                | _, _ => SyntaxErr
                end
    end.
End Gen.

Section PyOk.
  Variable pynorm : name -> name.                 (* NFKC normalisation of identifiers *)

  Fixpoint py_ok (in_loop : bool) (p : py) {struct p} : bool :=
    match p with
    | PAssign t => py_target_ok t
    | PSimple => true
    | PBreak | PContinue => in_loop
    | PCall kws => nodupb (map pynorm kws)
    | PIf b => forallb (py_ok in_loop) b
    | PFor b => forallb (py_ok true) b
    | PDef ps b => nodupb (map pynorm ps) && forallb (py_ok false) b
    end.
End PyOk.

(* the abstraction compared with the real generated module: for every break / continue
   whether a for statement of the same function encloses it, the parameter lists of the
   emitted functions, the keyword lists of emitted calls — in emission order *)
Inductive fact := FLoopCtl (is_break inside : bool) | FDef (ps : list name) | FCall (kws : list name).

Fixpoint facts (in_loop : bool) (p : py) {struct p} : list fact :=
  match p with
  | PAssign _ => []
  | PSimple => []
  | PBreak => [FLoopCtl true in_loop]
  | PContinue => [FLoopCtl false in_loop]
  | PCall kws => match kws with [] => [] | _ => [FCall kws] end
  | PIf b => flat_map (facts in_loop) b
  | PFor b => flat_map (facts true) b
  | PDef ps b => match ps with [] => [] | _ => [FDef ps] end ++ flat_map (facts false) b
  end.
